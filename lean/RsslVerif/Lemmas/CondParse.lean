import RsslVerif.Lemmas.CondExpr
/-!
# Lemmas for C11, part 3: the condition parser on the token level

`Lemmas.CondExpr.roundtrip` goes from trees to tokens (every printed tree is parsed to its value).  This file
goes from **tokens to trees**: `tLvl/tLoop` is the precedence-climbing parser of the model with the value
algebra replaced by syntax trees ("the parse" of a token sequence);

* `sim`: the model parser is the tree parser followed by evaluation (same acceptance, same rest);
* `tree_spec`: whatever the tree parser accepts is the printing of the tree it returns (a *canonical*
  tree: explicit parentheses are `.paren` nodes, every operand sits at the level the C grammar gives it)
  followed by the unconsumed rest — so the parser accepts only grammatical sequences;
* `tree_roundtrip`: printing a canonical tree and parsing it returns that very tree;
* `canon`: every tree has a canonical form with the same printing and the same value.
-/
namespace RsslVerif.Lemmas.CondParse
open RsslVerif.Gen.CondTables RsslVerif.Model.CondExpr RsslVerif.Spec.CPre RsslVerif.Lemmas.CondExpr

/-- outcome of the tree parser -/
inductive TR where
  | oof
  | err
  | ok (e : Expr) (rest : List CTok)
  deriving DecidableEq, Repr

def TR.toPR : TR → PR
  | .oof => .oof
  | .err => .err
  | .ok e r => .ok (ev e) r

/-- the leaf a token stands for -/
def leafExpr : CTok → Option Expr
  | .False => some .fls
  | .True => some .tru
  | .LiteralInt v => some (.lit v false)
  | .LiteralIntUnsigned32 v => some (.lit v true)
  | .Id x => some (.name x)
  | _ => none

/-- relational operators at the head of `ts` -/
def opRel : List CTok → Option (Op × List CTok)
  | .LeftAngleBracket .Token :: .Equals :: rest => some (.le, rest)
  | .RightAngleBracket .Token :: .Equals :: rest => some (.ge, rest)
  | .LeftAngleBracket f :: rest => some (.lt f, rest)
  | .RightAngleBracket f :: rest => some (.gt f, rest)
  | _ => none

def opEq : List CTok → Option (Op × List CTok)
  | .EqualsEquals :: rest => some (.eq, rest)
  | .ExclamationPointEquals :: rest => some (.ne, rest)
  | _ => none

def opAnd : List CTok → Option (Op × List CTok)
  | .AmpersandAmpersand :: rest => some (.land, rest)
  | _ => none

def opOr : List CTok → Option (Op × List CTok)
  | .VerticalBarVerticalBar :: rest => some (.lor, rest)
  | _ => none

/-- the reference operator that starts `ts` at binary level `k` (the C grammar's view of `parse_op`) -/
def opOf (k : Nat) (ts : List CTok) : Option (Op × List CTok) :=
  if k = 1 then opRel ts else if k = 2 then opEq ts else if k = 3 then opAnd ts else if k = 4 then opOr ts
  else none

mutual
def tLvl : Nat → Nat → List CTok → TR
  | 0, _, _ => .oof
  | f + 1, 0, ts =>
    match ts with
    | [] => .err
    | t :: rest =>
      if t = notTok then
        match tLvl f 0 rest with
        | .ok e r => .ok (.not e) r
        | .err => .err
        | .oof => .oof
      else
        match leafKind t with
        | .value _ =>
          match leafExpr t with
          | some e => .ok e rest
          | none => .err
        | .paren =>
          match tLvl f numLevels rest with
          | .ok e (c :: r) => if c = closeTok then .ok (.paren e) r else .err
          | .ok _ [] => .err
          | .err => .err
          | .oof => .oof
        | .fail => .err
  | f + 1, k + 1, ts =>
    match tLvl f k ts with
    | .ok l rest => tLoop f (k + 1) l rest
    | .err => .err
    | .oof => .oof
def tLoop : Nat → Nat → Expr → List CTok → TR
  | 0, _, _, _ => .oof
  | f + 1, k, acc, ts =>
    match opOf k ts with
    | some (op, rest) =>
      match tLvl f (k - 1) rest with
      | .ok r rest' => tLoop f k (.bin op acc r) rest'
      | .err => .err
      | .oof => .oof
    | none => .ok acc ts
end

theorem tLvl_fuel0 (k ts) : tLvl 0 k ts = .oof := by cases k <;> rfl
theorem tLoop_fuel0 (k acc ts) : tLoop 0 k acc ts = .oof := rfl
theorem tLvl_p2_nil (f) : tLvl (f + 1) 0 [] = .err := rfl
theorem tLvl_p2_cons (f t rest) : tLvl (f + 1) 0 (t :: rest) =
      if t = notTok then
        match tLvl f 0 rest with
        | .ok e r => .ok (.not e) r
        | .err => .err
        | .oof => .oof
      else
        match leafKind t with
        | .value _ =>
          match leafExpr t with
          | some e => .ok e rest
          | none => .err
        | .paren =>
          match tLvl f numLevels rest with
          | .ok e (c :: r) => if c = closeTok then .ok (.paren e) r else .err
          | .ok _ [] => .err
          | .err => .err
          | .oof => .oof
        | .fail => .err := rfl
theorem tLvl_bin (f k ts) : tLvl (f + 1) (k + 1) ts =
    match tLvl f k ts with
    | .ok l rest => tLoop f (k + 1) l rest
    | .err => .err
    | .oof => .oof := rfl
theorem tLoop_succ (f k acc ts) : tLoop (f + 1) k acc ts =
    match opOf k ts with
    | some (op, rest) =>
      match tLvl f (k - 1) rest with
      | .ok r rest' => tLoop f k (.bin op acc r) rest'
      | .err => .err
      | .oof => .oof
    | none => .ok acc ts := rfl

/-! ### the extracted operator tables are the C grammar's -/

theorem opsAt_opOf (k : Nat) (ts : List CTok) :
    opsAt k ts = (opOf k ts).map (fun p => (genOp p.1, p.2)) := by
  match k with
  | 0 => cases ts <;> rfl
  | 1 =>
    simp only [opsAt, levelOps, List.getElem?_cons_zero, opOf, if_true]
    unfold parseOp6 opRel
    split <;> simp_all [genOp]
  | 2 =>
    simp [opsAt, levelOps, opOf]
    unfold parseOp7 opEq
    split <;> simp_all [genOp]
  | 3 =>
    simp [opsAt, levelOps, opOf]
    unfold parseOp11 opAnd
    split <;> simp_all [genOp]
  | 4 =>
    simp [opsAt, levelOps, opOf]
    unfold parseOp12 opOr
    split <;> simp_all [genOp]
  | n + 5 => simp [opsAt, levelOps, opOf]

theorem opOf_spec (k : Nat) (ts : List CTok) (op : Op) (rest : List CTok)
    (h : opOf k ts = some (op, rest)) : op.level = k ∧ ts = op.toks ++ rest := by
  unfold opOf at h
  split at h
  · subst k; unfold opRel at h; split at h <;> simp at h <;> (obtain ⟨rfl, rfl⟩ := h; simp [Op.level, Op.toks])
  split at h
  · subst k; unfold opEq at h; split at h <;> simp at h <;> (obtain ⟨rfl, rfl⟩ := h; simp [Op.level, Op.toks])
  split at h
  · subst k; unfold opAnd at h; split at h <;> simp at h <;> (obtain ⟨rfl, rfl⟩ := h; simp [Op.level, Op.toks])
  split at h
  · subst k; unfold opOr at h; split at h <;> simp at h <;> (obtain ⟨rfl, rfl⟩ := h; simp [Op.level, Op.toks])
  · cases h

/-- binding level of the top node (0 = a unary expression) -/
def lvl : Expr → Nat
  | .bin op _ _ => op.level
  | _ => 0

/-- canonical trees: no `defined` (it is resolved before parsing), every explicit parenthesis is a `.paren`
    node, and every operand sits at the level the C grammar gives it (so `print` adds no parentheses) -/
def Canon : Expr → Prop
  | .lit _ _ | .tru | .fls | .name _ => True
  | .defined _ _ => False
  | .not e => Canon e ∧ lvl e = 0
  | .paren e => Canon e
  | .bin op l r => Canon l ∧ Canon r ∧ lvl l ≤ op.level ∧ lvl r < op.level

theorem canon_closed : ∀ e, Canon e → Closed e := by
  intro e
  induction e with
  | defined x p => intro h; exact h
  | not e ih => intro h; exact ih h.1
  | paren e ih => intro h; exact ih h
  | bin op l r ihl ihr => intro h; exact ⟨ihl h.1, ihr h.2.1⟩
  | _ => intro _; trivial

theorem print_of_le {e : Expr} {k j : Nat} (hk : lvl e ≤ k) (hj : lvl e ≤ j) : print k e = print j e := by
  cases e with
  | bin op l r => simp only [lvl] at hk hj; simp [print, hk, hj]
  | lit v u => cases u <;> rfl
  | defined x p => cases p <;> rfl
  | _ => rfl

theorem leaf_spec (t : CTok) (v : UInt64) (h : leafKind t = .value v) :
    ∃ e, leafExpr t = some e ∧ ev e = v ∧ (∀ k, print k e = [t]) ∧ t ≠ notTok ∧ lvl e = 0 ∧ Canon e := by
  cases t <;> simp_all [leafKind, leafExpr, ev, evalU64, print, notTok, Env.lookup, lvl, Canon]

theorem paren_tok (t : CTok) (h : leafKind t = .paren) : t = .LeftParen := by
  cases t <;> simp_all [leafKind]

/-- **The model parser is the tree parser followed by evaluation.** -/
theorem sim : ∀ f,
    (∀ k ts, pLvl f k ts = (tLvl f k ts).toPR) ∧
    (∀ k acc ts, pLoop f k (ev acc) ts = (tLoop f k acc ts).toPR) := by
  intro f
  induction f with
  | zero =>
    constructor
    · intro k ts; rw [pLvl_fuel0, tLvl_fuel0]; rfl
    · intro k acc ts; rfl
  | succ f ih =>
    obtain ⟨ih1, ih2⟩ := ih
    constructor
    · intro k ts
      cases k with
      | zero =>
        cases ts with
        | nil => rfl
        | cons t rest =>
          rw [pLvl_p2_cons, tLvl_p2_cons]
          by_cases ht : t = notTok
          · simp only [ht, if_true, ih1 0 rest]
            cases tLvl f 0 rest <;> simp [TR.toPR, notApply_eq, ev, evalU64]
          · simp only [ht, if_false]
            cases hl : leafKind t with
            | value v =>
              obtain ⟨e, he, hv, _, _⟩ := leaf_spec t v hl
              simp [he, TR.toPR, hv]
            | fail => rfl
            | paren =>
              simp only [ih1 numLevels rest]
              cases hr : tLvl f numLevels rest with
              | oof => rfl
              | err => rfl
              | ok e r =>
                cases r with
                | nil => rfl
                | cons c r' =>
                  simp only [TR.toPR]
                  by_cases hc : c = closeTok <;> simp [hc, TR.toPR, ev, evalU64]
      | succ k =>
        rw [pLvl_bin, tLvl_bin, ih1 k ts]
        cases hr : tLvl f k ts with
        | oof => rfl
        | err => rfl
        | ok l rest => simp only [TR.toPR]; exact ih2 (k + 1) l rest
    · intro k acc ts
      rw [pLoop_succ, tLoop_succ, opsAt_opOf]
      cases ho : opOf k ts with
      | none => simp [TR.toPR]
      | some p =>
        obtain ⟨op, rest⟩ := p
        simp only [Option.map_some, ih1 (k - 1) rest]
        cases hr : tLvl f (k - 1) rest with
        | oof => rfl
        | err => rfl
        | ok r rest' =>
          have := ih2 k (.bin op acc r) rest'
          simp only [ev, evalU64] at this
          simp only [apply_eq_sem, ev]
          exact this

/-- **Whatever the parser accepts is a printed canonical tree** (followed by the unconsumed rest). -/
theorem tree_spec : ∀ f,
    (∀ k ts e rest, tLvl f k ts = .ok e rest → lvl e ≤ k ∧ Canon e ∧ ts = print k e ++ rest) ∧
    (∀ k acc ts e rest, tLoop f k acc ts = .ok e rest → lvl acc ≤ k → Canon acc →
      lvl e ≤ k ∧ Canon e ∧ print k acc ++ ts = print k e ++ rest) := by
  intro f
  induction f with
  | zero =>
    constructor
    · intro k ts e rest h; rw [tLvl_fuel0] at h; cases h
    · intro k acc ts e rest h; rw [tLoop_fuel0] at h; cases h
  | succ f ih =>
    obtain ⟨ih1, ih2⟩ := ih
    constructor
    · intro k ts e rest h
      cases k with
      | zero =>
        cases ts with
        | nil => rw [tLvl_p2_nil] at h; cases h
        | cons t r0 =>
          rw [tLvl_p2_cons] at h
          by_cases ht : t = notTok
          · simp only [ht, if_true] at h
            cases hr : tLvl f 0 r0 with
            | oof => simp [hr] at h
            | err => simp [hr] at h
            | ok e' r' =>
              simp only [hr, TR.ok.injEq] at h
              obtain ⟨rfl, rfl⟩ := h
              obtain ⟨h1, h2, h3⟩ := ih1 _ _ _ _ hr
              refine ⟨by simp [lvl], ⟨h2, by omega⟩, ?_⟩
              rw [ht, h3]; simp [print, notTok]
          · simp only [ht, if_false] at h
            cases hl : leafKind t with
            | value v =>
              obtain ⟨e', he, _, hp, _, hl0, hc⟩ := leaf_spec t v hl
              simp only [hl, he, TR.ok.injEq] at h
              obtain ⟨rfl, rfl⟩ := h
              exact ⟨by omega, hc, by simp [hp]⟩
            | fail => simp [hl] at h
            | paren =>
              simp only [hl] at h
              cases hr : tLvl f numLevels r0 with
              | oof => simp [hr] at h
              | err => simp [hr] at h
              | ok e' r' =>
                cases r' with
                | nil => simp [hr] at h
                | cons c r'' =>
                  simp only [hr] at h
                  by_cases hc : c = closeTok
                  · simp only [hc, if_true, TR.ok.injEq] at h
                    obtain ⟨rfl, rfl⟩ := h
                    obtain ⟨_, h2, h3⟩ := ih1 _ _ _ _ hr
                    refine ⟨by simp [lvl], h2, ?_⟩
                    rw [paren_tok t hl, h3, hc, numLevels_eq]
                    simp [print, closeTok]
                  · simp [hc] at h
      | succ k =>
        rw [tLvl_bin] at h
        cases hr : tLvl f k ts with
        | oof => simp [hr] at h
        | err => simp [hr] at h
        | ok l r1 =>
          simp only [hr] at h
          obtain ⟨h1, h2, h3⟩ := ih1 _ _ _ _ hr
          obtain ⟨g1, g2, g3⟩ := ih2 _ _ _ _ _ h (by omega) h2
          refine ⟨g1, g2, ?_⟩
          rw [h3, ← g3, print_of_le h1 (Nat.le_succ_of_le h1)]
    · intro k acc ts e rest h hacc hcan
      rw [tLoop_succ] at h
      cases ho : opOf k ts with
      | none =>
        simp only [ho, TR.ok.injEq] at h
        obtain ⟨rfl, rfl⟩ := h
        exact ⟨hacc, hcan, rfl⟩
      | some p =>
        obtain ⟨op, r0⟩ := p
        simp only [ho] at h
        obtain ⟨hlev, hts⟩ := opOf_spec _ _ _ _ ho
        have hpos := level_pos op
        cases hr : tLvl f (k - 1) r0 with
        | oof => simp [hr] at h
        | err => simp [hr] at h
        | ok r r1 =>
          simp only [hr] at h
          obtain ⟨h1, h2, h3⟩ := ih1 _ _ _ _ hr
          have hcan' : Canon (.bin op acc r) := ⟨hcan, h2, by omega, by omega⟩
          have hl' : lvl (.bin op acc r) ≤ k := by simp [lvl, hlev]
          obtain ⟨g1, g2, g3⟩ := ih2 _ _ _ _ _ h hl' hcan'
          refine ⟨g1, g2, ?_⟩
          rw [← g3, hts, h3]
          subst hlev
          simp [print, List.append_assoc]

/-- the tree of a whole condition -/
def parseTree (ts : List CTok) : Option Expr :=
  match tLvl (fuelFor ts) numLevels ts with
  | .ok e [] => some e
  | _ => none

theorem parseCond_parseTree (ts : List CTok) :
    parseCond ts = (parseTree ts).map (fun e => truthy (ev e)) := by
  unfold parseCond parseTree
  rw [(sim _).1]
  cases h : tLvl (fuelFor ts) numLevels ts with
  | oof => rfl
  | err => rfl
  | ok e r => cases r <;> rfl

theorem parseTree_spec (ts : List CTok) (e : Expr) (h : parseTree ts = some e) :
    Canon e ∧ print 4 e = ts := by
  unfold parseTree at h
  cases hr : tLvl (fuelFor ts) numLevels ts with
  | oof => simp [hr] at h
  | err => simp [hr] at h
  | ok e' r =>
    cases r with
    | cons c r' => simp [hr] at h
    | nil =>
      simp only [hr, Option.some.injEq] at h
      subst h
      obtain ⟨_, h2, h3⟩ := (tree_spec _).1 _ _ _ _ hr
      rw [numLevels_eq] at h3
      exact ⟨h2, by simpa using h3.symm⟩

/-! ### tree round trip: parsing a printed canonical tree returns that tree -/

/-- more fuel never changes a result that is not "out of fuel" -/
theorem tmono : ∀ f,
    (∀ k ts, tLvl f k ts ≠ .oof → tLvl (f + 1) k ts = tLvl f k ts) ∧
    (∀ k acc ts, tLoop f k acc ts ≠ .oof → tLoop (f + 1) k acc ts = tLoop f k acc ts) := by
  intro f
  induction f with
  | zero =>
    constructor
    · intro k ts h; exact absurd (tLvl_fuel0 k ts) h
    · intro k acc ts h; exact absurd (tLoop_fuel0 k acc ts) h
  | succ f ih =>
    obtain ⟨ih1, ih2⟩ := ih
    constructor
    · intro k ts h
      cases k with
      | zero =>
        cases ts with
        | nil => rfl
        | cons t rest =>
          rw [tLvl_p2_cons] at h ⊢
          rw [tLvl_p2_cons f]
          by_cases ht : t = notTok
          · simp only [ht, if_true] at h ⊢
            cases hr : tLvl f 0 rest with
            | oof => simp [hr] at h
            | err => rw [ih1 _ _ (by simp [hr]), hr]
            | ok v r => rw [ih1 _ _ (by simp [hr]), hr]
          · simp only [ht, if_false] at h ⊢
            cases hl : leafKind t with
            | value v => rfl
            | fail => rfl
            | paren =>
              simp only [hl] at h ⊢
              cases hr : tLvl f numLevels rest with
              | oof => simp [hr] at h
              | err => rw [ih1 _ _ (by simp [hr]), hr]
              | ok v r => rw [ih1 _ _ (by simp [hr]), hr]
      | succ k =>
        rw [tLvl_bin] at h ⊢
        rw [tLvl_bin f]
        cases hr : tLvl f k ts with
        | oof => simp [hr] at h
        | err => rw [ih1 _ _ (by simp [hr]), hr]
        | ok v r =>
          rw [hr] at h
          rw [ih1 _ _ (by simp [hr]), hr]
          exact ih2 _ _ _ h
    · intro k acc ts h
      rw [tLoop_succ] at h ⊢
      rw [tLoop_succ f]
      cases ho : opOf k ts with
      | none => rfl
      | some p =>
        obtain ⟨op, rest⟩ := p
        simp only [ho] at h ⊢
        cases hr : tLvl f (k - 1) rest with
        | oof => simp [hr] at h
        | err => rw [ih1 _ _ (by simp [hr]), hr]
        | ok v r =>
          rw [hr] at h
          rw [ih1 _ _ (by simp [hr]), hr]
          exact ih2 _ _ _ h

def TParses (k : Nat) (ts : List CTok) (e : Expr) (r : List CTok) : Prop := ∃ f, tLvl f k ts = .ok e r
def TLoops (k : Nat) (acc : Expr) (ts : List CTok) (e : Expr) (r : List CTok) : Prop :=
  ∃ f, tLoop f k acc ts = .ok e r

theorem tmonoLvl {f g k ts v r} (h : tLvl f k ts = .ok v r) (hg : f ≤ g) : tLvl g k ts = .ok v r := by
  induction hg with
  | refl => exact h
  | step _ ih => rw [(tmono _).1 _ _ (by simp [ih]), ih]

theorem tmonoLoop {f g k acc ts v r} (h : tLoop f k acc ts = .ok v r) (hg : f ≤ g) :
    tLoop g k acc ts = .ok v r := by
  induction hg with
  | refl => exact h
  | step _ ih => rw [(tmono _).2 _ _ _ (by simp [ih]), ih]

/-- no operator of a level below `k` starts `ts` -/
def TStops (k : Nat) (ts : List CTok) : Prop := ∀ j, j < k → opOf j ts = none

theorem TStops.mono {k j ts} (h : TStops k ts) (hj : j ≤ k) : TStops j ts :=
  fun i hi => h i (Nat.lt_of_lt_of_le hi hj)

theorem tloops_skip (k acc ts) (h : opOf k ts = none) : TLoops k acc ts acc ts :=
  ⟨1, by rw [tLoop_succ]; simp [h]⟩

theorem tlift (k : Nat) {ts l r v' r'} (hp : TParses k ts l r) (hl : TLoops (k + 1) l r v' r') :
    TParses (k + 1) ts v' r' := by
  obtain ⟨f1, h1⟩ := hp
  obtain ⟨f2, h2⟩ := hl
  refine ⟨max f1 f2 + 1, ?_⟩
  rw [tLvl_bin, tmonoLvl h1 (Nat.le_max_left f1 f2)]
  exact tmonoLoop h2 (Nat.le_max_right f1 f2)

theorem traise {j ts v rest} (hp : TParses j ts v rest) :
    ∀ d v' r', TStops (j + d + 1) rest → TLoops (j + d + 1) v rest v' r' →
      TParses (j + d + 1) ts v' r' := by
  intro d
  induction d with
  | zero => intro v' r' _ hl; exact tlift j hp hl
  | succ d ih =>
    intro v' r' hno hl
    have hmid : TParses (j + d + 1) ts v rest :=
      ih v rest (hno.mono (by omega)) (tloops_skip _ v rest (hno _ (by omega)))
    exact tlift (j + d + 1) hmid hl

theorem tfrom0 {ts v rest} (hp0 : TParses 0 ts v rest) (k : Nat) (v' : Expr) (r' : List CTok)
    (hno : TStops k rest) (hl : TLoops k v rest v' r') (h0 : k = 0 → v' = v ∧ r' = rest) :
    TParses k ts v' r' := by
  cases k with
  | zero => obtain ⟨rfl, rfl⟩ := h0 rfl; exact hp0
  | succ k =>
    have := traise hp0 k v' r' (by simpa using hno) (by simpa using hl)
    simpa using this

theorem opOf_own (op : Op) (X : List CTok) (hX : ∀ r, X ≠ .Equals :: r) :
    opOf op.level (op.toks ++ X) = some (op, X) := by
  cases op with
  | lt f =>
    cases X with
    | nil => cases f <;> simp [opOf, Op.level, Op.toks, opRel]
    | cons t r => cases f <;> cases t <;> simp_all [opOf, Op.level, Op.toks, opRel]
  | gt f =>
    cases X with
    | nil => cases f <;> simp [opOf, Op.level, Op.toks, opRel]
    | cons t r => cases f <;> cases t <;> simp_all [opOf, Op.level, Op.toks, opRel]
  | _ => simp [opOf, Op.level, Op.toks, opRel, opEq, opAnd, opOr]

theorem opOf_other (op : Op) (j : Nat) (hj : j ≠ op.level) (X : List CTok) :
    opOf j (op.toks ++ X) = none := by
  have h := opsAt_other op j hj X
  rw [opsAt_opOf] at h
  cases ho : opOf j (op.toks ++ X) with
  | none => rfl
  | some p => simp [ho] at h

theorem opOf_nil (j : Nat) : opOf j [] = none := by
  have h := opsAt_nil j
  rw [opsAt_opOf] at h
  cases ho : opOf j [] with
  | none => rfl
  | some p => simp [ho] at h

theorem opOf_rparen (j : Nat) (r : List CTok) : opOf j (.RightParen :: r) = none := by
  have h := opsAt_rparen j r
  rw [opsAt_opOf] at h
  cases ho : opOf j (.RightParen :: r) with
  | none => rfl
  | some p => simp [ho] at h

def TRT (e : Expr) : Prop :=
  ∀ k rest v' r', lvl e ≤ k → k ≤ 4 → TStops k rest → TLoops k e rest v' r' →
    (k = 0 → v' = e ∧ r' = rest) → TParses k (print k e ++ rest) v' r'

theorem tleaf_parses (t : CTok) (e : Expr) (rest : List CTok) (hn : t ≠ notTok) (v : UInt64)
    (hl : leafKind t = .value v) (he : leafExpr t = some e) : TParses 0 (t :: rest) e rest :=
  ⟨1, by rw [tLvl_p2_cons]; simp [hn, hl, he]⟩

theorem tparen_parses (X : List CTok) (e : Expr) (rest : List CTok)
    (h : TParses 4 X e (.RightParen :: rest)) : TParses 0 (.LeftParen :: X) (.paren e) rest := by
  obtain ⟨f, hf⟩ := h
  refine ⟨f + 1, ?_⟩
  rw [tLvl_p2_cons]
  have h1 : (CTok.LeftParen = notTok) = False := by simp [notTok]
  simp only [h1, if_false]
  have h2 : leafKind .LeftParen = .paren := rfl
  simp only [h2, numLevels_eq, hf]
  simp [closeTok]

theorem tbin_body (op : Op) (l r : Expr) (hl : TRT l) (hr : TRT r)
    (hll : lvl l ≤ op.level) (hlr : lvl r < op.level) :
    ∀ k rest v' r', op.level ≤ k → k ≤ 4 → TStops k rest →
      TLoops k (.bin op l r) rest v' r' →
      TParses k (print op.level l ++ (op.toks ++ (print (op.level - 1) r ++ rest))) v' r' := by
  intro k rest v' r' hpk hk4 hno hloops
  have hp1 := level_pos op
  have hR : TParses (op.level - 1) (print (op.level - 1) r ++ rest) r rest :=
    hr (op.level - 1) rest r rest (by omega) (by omega) (hno.mono (by omega))
      (tloops_skip _ _ _ (hno _ (by omega))) (fun _ => ⟨rfl, rfl⟩)
  have hstep : ∀ X Y, TLoops op.level (.bin op l r) rest X Y →
      TLoops op.level l (op.toks ++ (print (op.level - 1) r ++ rest)) X Y := by
    intro X Y ⟨f2, h2⟩
    obtain ⟨f1, h1⟩ := hR
    refine ⟨max f1 f2 + 1, ?_⟩
    rw [tLoop_succ, opOf_own op _ (print_head _ _ _)]
    simp only [tmonoLvl h1 (Nat.le_max_left f1 f2)]
    exact tmonoLoop h2 (Nat.le_max_right f1 f2)
  have hnoL : TStops op.level (op.toks ++ (print (op.level - 1) r ++ rest)) :=
    fun j hj => opOf_other op j (by omega) _
  have hL : ∀ X Y, TLoops op.level (.bin op l r) rest X Y →
      TParses op.level (print op.level l ++ (op.toks ++ (print (op.level - 1) r ++ rest))) X Y :=
    fun X Y hXY => hl op.level _ X Y hll (level_le op) hnoL (hstep X Y hXY) (by omega)
  rcases Nat.lt_or_ge op.level k with hlt | hge
  · have hskip := tloops_skip op.level (.bin op l r) rest (hno _ hlt)
    have hP := hL _ _ hskip
    obtain ⟨d, hd⟩ : ∃ d, k = op.level + d + 1 := ⟨k - op.level - 1, by omega⟩
    subst hd
    exact traise hP d v' r' hno hloops
  · have : k = op.level := by omega
    subst this
    exact hL v' r' hloops

theorem tree_roundtrip_gen : ∀ e, Canon e → TRT e := by
  intro e
  induction e with
  | lit v u =>
    intro _ k rest v' r' _ _ hno hl h0
    cases u
    · exact tfrom0 (tleaf_parses (.LiteralInt v) _ rest (by simp [notTok]) v rfl rfl) k v' r' hno hl h0
    · exact tfrom0 (tleaf_parses (.LiteralIntUnsigned32 v) _ rest (by simp [notTok]) v rfl rfl) k v' r' hno hl h0
  | tru =>
    intro _ k rest v' r' _ _ hno hl h0
    exact tfrom0 (tleaf_parses .True _ rest (by simp [notTok]) 1 rfl rfl) k v' r' hno hl h0
  | fls =>
    intro _ k rest v' r' _ _ hno hl h0
    exact tfrom0 (tleaf_parses .False _ rest (by simp [notTok]) 0 rfl rfl) k v' r' hno hl h0
  | name x =>
    intro _ k rest v' r' _ _ hno hl h0
    exact tfrom0 (tleaf_parses (.Id x) _ rest (by simp [notTok]) 0 rfl rfl) k v' r' hno hl h0
  | defined x p => intro hc; exact absurd hc (by simp [Canon])
  | not e ih =>
    intro hc k rest v' r' _ _ hno hl h0
    obtain ⟨hce, hl0⟩ := hc
    have he : TParses 0 (print 0 e ++ rest) e rest :=
      ih hce 0 rest e rest (by omega) (by omega) (fun j hj => by omega) (tloops_skip 0 _ _ rfl)
        (fun _ => ⟨rfl, rfl⟩)
    have hp0 : TParses 0 (print 0 (.not e) ++ rest) (.not e) rest := by
      obtain ⟨f, hf⟩ := he
      refine ⟨f + 1, ?_⟩
      simp only [print, List.cons_append]
      rw [tLvl_p2_cons]
      simp [notTok, hf]
    have hpk : print k (.not e) = print 0 (.not e) := by simp [print]
    rw [hpk]
    exact tfrom0 hp0 k v' r' hno hl h0
  | paren e ih =>
    intro hc k rest v' r' _ _ hno hl h0
    have hle : lvl e ≤ 4 := by cases e <;> simp [lvl, level_le]
    have he : TParses 4 (print 4 e ++ (.RightParen :: rest)) e (.RightParen :: rest) :=
      ih hc 4 _ e _ hle (by omega) (fun j _ => opOf_rparen j rest) (tloops_skip 4 _ _ (opOf_rparen 4 rest))
        (fun h => by omega)
    have hp0 : TParses 0 (print 0 (.paren e) ++ rest) (.paren e) rest := by
      have := tparen_parses _ _ _ he
      simpa [print] using this
    have hpk : print k (.paren e) = print 0 (.paren e) := by simp [print]
    rw [hpk]
    exact tfrom0 hp0 k v' r' hno hl h0
  | bin op l r ihl ihr =>
    intro hc k rest v' r' hlk hk4 hno hl h0
    obtain ⟨hcl, hcr, hll, hlr⟩ := hc
    have IHl := ihl hcl
    have IHr := ihr hcr
    have hpk : op.level ≤ k := hlk
    have := tbin_body op l r IHl IHr hll hlr k rest v' r' hpk hk4 hno hl
    simpa [print, hpk, List.append_assoc] using this

theorem lvl_le4 (e : Expr) : lvl e ≤ 4 := by cases e <;> simp [lvl, level_le]

/-- **Tree round trip**: printing a canonical tree and parsing the tokens returns that very tree. -/
theorem parseTree_print (e : Expr) (hc : Canon e) : parseTree (print 4 e) = some e := by
  have := tree_roundtrip_gen e hc 4 [] e [] (lvl_le4 e) (Nat.le_refl _) (fun j _ => opOf_nil j)
    (tloops_skip 4 _ _ (opOf_nil 4)) (fun h => by omega)
  obtain ⟨f, hf⟩ : ∃ f, tLvl f 4 (print 4 e) = .ok e [] := by simpa [TParses] using this
  have hne : tLvl (fuelFor (print 4 e)) 4 (print 4 e) ≠ .oof := by
    intro h
    have h2 := pLvl_fuel_enough (print 4 e)
    rw [numLevels_eq, (sim _).1, h] at h2
    exact h2 rfl
  have : tLvl (fuelFor (print 4 e)) 4 (print 4 e) = .ok e [] := by
    rcases Nat.le_total f (fuelFor (print 4 e)) with h | h
    · exact tmonoLvl hf h
    · have key : ∀ d, tLvl (fuelFor (print 4 e) + d) 4 (print 4 e) = tLvl (fuelFor (print 4 e)) 4 (print 4 e) := by
        intro d
        induction d with
        | zero => rfl
        | succ d ih => rw [← Nat.add_assoc, (tmono _).1 _ _ (by rw [ih]; exact hne), ih]
      obtain ⟨d, rfl⟩ : ∃ d, f = fuelFor (print 4 e) + d := ⟨f - fuelFor (print 4 e), by omega⟩
      rw [← key d]; exact hf
  simp [parseTree, numLevels_eq, this]

/-! ### canonical form of an arbitrary tree -/

/-- make the parentheses `print` would add explicit -/
def wrap (k : Nat) (e : Expr) : Expr := if lvl e ≤ k then e else .paren e

def canon : Expr → Expr
  | .not e => .not (wrap 0 (canon e))
  | .paren e => .paren (canon e)
  | .bin op l r => .bin op (wrap op.level (canon l)) (wrap (op.level - 1) (canon r))
  | e => e

theorem lvl_wrap (k : Nat) (e : Expr) : lvl (wrap k e) ≤ k := by
  unfold wrap; split
  · assumption
  · simp [lvl]

theorem print_wrap (k : Nat) (e : Expr) : print k (wrap k e) = print k e := by
  unfold wrap
  split
  · rfl
  · rename_i h
    cases e with
    | bin op l r =>
      simp only [lvl] at h
      have h4 := level_le op
      simp [print, h, h4]
    | _ => simp [lvl] at h

theorem canon_wrap {k : Nat} {e : Expr} (h : Canon e) : Canon (wrap k e) := by
  unfold wrap; split
  · exact h
  · exact h

theorem ev_wrap (k : Nat) (e : Expr) : ev (wrap k e) = ev e := by
  unfold wrap; split <;> simp [ev, evalU64]

theorem print_canon : ∀ (e : Expr) (k : Nat), print k (canon e) = print k e := by
  intro e
  induction e with
  | not e ih => intro k; simp [canon, print, print_wrap, ih]
  | paren e ih => intro k; simp [canon, print, ih]
  | bin op l r ihl ihr => intro k; simp [canon, print, print_wrap, ihl, ihr]
  | _ => intro k; rfl

theorem canon_canon : ∀ e, Closed e → Canon (canon e) := by
  intro e
  induction e with
  | defined x p => intro h; exact absurd h (by simp [Closed])
  | not e ih =>
    intro h
    have := lvl_wrap 0 (canon e)
    exact ⟨canon_wrap (ih h), by omega⟩
  | paren e ih => intro h; exact ih h
  | bin op l r ihl ihr =>
    intro h
    have h1 := lvl_wrap op.level (canon l)
    have h2 := lvl_wrap (op.level - 1) (canon r)
    have := level_pos op
    exact ⟨canon_wrap (ihl h.1), canon_wrap (ihr h.2), h1, by omega⟩
  | _ => intro _; trivial

theorem ev_canon : ∀ e, ev (canon e) = ev e := by
  intro e
  induction e with
  | not e ih => simp only [canon, ev, evalU64] at ih ⊢; rw [← ih]; have := ev_wrap 0 (canon e); simp only [ev] at this; rw [this]
  | paren e ih => simp only [canon, ev, evalU64] at ih ⊢; exact ih
  | bin op l r ihl ihr =>
    have h1 := ev_wrap op.level (canon l)
    have h2 := ev_wrap (op.level - 1) (canon r)
    simp only [canon, ev, evalU64] at ihl ihr h1 h2 ⊢
    rw [h1, h2, ihl, ihr]
  | _ => rfl

/-! ### the grammar of well-formed conditions = the printings of canonical trees -/

theorem gram_upTo {j k : Nat} {ts : List CTok} (h : Gram j ts) (hjk : j ≤ k) : Gram k ts := by
  induction hjk with
  | refl => exact h
  | step _ ih => exact .up ih

theorem gram_of_canon : ∀ e, Canon e → ∀ k, lvl e ≤ k → Gram k (print k e) := by
  intro e
  induction e with
  | lit v u => intro _ k _; cases u <;> exact gram_upTo (by first | exact .int v | exact .uint v) (Nat.zero_le k)
  | tru => intro _ k _; exact gram_upTo .tru (Nat.zero_le k)
  | fls => intro _ k _; exact gram_upTo .fls (Nat.zero_le k)
  | name x => intro _ k _; exact gram_upTo (.name x) (Nat.zero_le k)
  | defined x p => intro h; exact absurd h (by simp [Canon])
  | not e ih =>
    intro h k _
    have := ih h.1 0 (Nat.le_of_eq h.2)
    exact gram_upTo (.not this) (Nat.zero_le k)
  | paren e ih =>
    intro h k _
    have := ih h 4 (lvl_le4 e)
    have g : Gram 0 (.LeftParen :: print 4 e ++ [.RightParen]) := .paren this
    exact gram_upTo (by simpa [print] using g) (Nat.zero_le k)
  | bin op l r ihl ihr =>
    intro h k hk
    obtain ⟨hcl, hcr, hll, hlr⟩ := h
    simp only [lvl] at hk
    have g := Gram.bin op (ihl hcl op.level hll) (ihr hcr (op.level - 1) (by omega))
    have : print k (.bin op l r) = print op.level l ++ op.toks ++ print (op.level - 1) r := by
      simp [print, hk]
    rw [this]
    exact gram_upTo g hk

theorem canon_of_gram {k : Nat} {ts : List CTok} (h : Gram k ts) :
    ∃ e, lvl e ≤ k ∧ Canon e ∧ print k e = ts := by
  induction h with
  | int v => exact ⟨.lit v false, by simp [lvl], trivial, rfl⟩
  | uint v => exact ⟨.lit v true, by simp [lvl], trivial, rfl⟩
  | tru => exact ⟨.tru, by simp [lvl], trivial, rfl⟩
  | fls => exact ⟨.fls, by simp [lvl], trivial, rfl⟩
  | name x => exact ⟨.name x, by simp [lvl], trivial, rfl⟩
  | not _ ih =>
    obtain ⟨e, h1, h2, h3⟩ := ih
    exact ⟨.not e, by simp [lvl], ⟨h2, by omega⟩, by simp [print, h3]⟩
  | paren _ ih =>
    obtain ⟨e, _, h2, h3⟩ := ih
    exact ⟨.paren e, by simp [lvl], h2, by simp [print, h3]⟩
  | up _ ih =>
    obtain ⟨e, h1, h2, h3⟩ := ih
    exact ⟨e, by omega, h2, by rw [← h3]; exact print_of_le (by omega) h1⟩
  | bin op _ _ ihl ihr =>
    obtain ⟨l, l1, l2, l3⟩ := ihl
    obtain ⟨r, r1, r2, r3⟩ := ihr
    have := level_pos op
    refine ⟨.bin op l r, by simp [lvl], ⟨l2, r2, l1, by omega⟩, ?_⟩
    simp [print, l3, r3]

/-- a token sequence is a well-formed condition iff the parser accepts it -/
theorem gram_iff_accepts (ts : List CTok) : Gram 4 ts ↔ ∃ e, parseTree ts = some e := by
  constructor
  · intro h
    obtain ⟨e, _, h2, h3⟩ := canon_of_gram h
    exact ⟨e, by rw [← h3]; exact parseTree_print e h2⟩
  · intro ⟨e, h⟩
    obtain ⟨h1, h2⟩ := parseTree_spec ts e h
    rw [← h2]
    exact gram_of_canon e h1 4 (lvl_le4 e)

theorem not_gram_of_none (ts : List CTok) (h : parseTree ts = none) : ¬ Gram 4 ts := by
  rw [gram_iff_accepts]; rintro ⟨e, he⟩; rw [h] at he; cases he

end RsslVerif.Lemmas.CondParse

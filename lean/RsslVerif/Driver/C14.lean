import RsslVerif.Model.SourceMap
import RsslVerif.Model.TriviaLexer
import RsslVerif.Driver.Util
/-! Line-protocol front end of the C14 model (source manager, message printer, edit arithmetic). -/
namespace RsslVerif.Driver.C14
open RsslVerif.Gen.SourceMapTables RsslVerif.Model.SourceMap RsslVerif.Driver

def bytesToString (b : Bytes) : String :=
  match String.fromUTF8? (ByteArray.mk b.toArray) with
  | some s => s
  | none => "?"

/-- `hexname:hexcontents,hexname:hexcontents` (or `-` for no files) -/
def parseFiles (s : String) : Option SourceManager :=
  if s == "-" then some [] else
  sequenceOpt ((s.splitOn ",").map fun item =>
    match item.splitOn ":" with
    | [n, c] => do
      let nb ← unhex? n
      let cb ← unhex? c
      pure { name := bytesToString nb, contents := cb }
    | _ => none)

/-- `off:hex;off:hex` insertions in original coordinates, ascending (or `-`) -/
def parseEdits (s : String) : Option (List (Nat × Bytes)) :=
  if s == "-" then some [] else
  sequenceOpt ((s.splitOn ";").map fun item =>
    match item.splitOn ":" with
    | [p, h] => do
      let p ← p.toNat?
      let b ← unhex? h
      pure (p, b)
    | _ => none)

def showLoc : FileLocation → String
  | .known n l c => n ++ ":" ++ toString l ++ ":" ++ toString c
  | .unknown => unknownText

def parseSev (s : String) : Option Severity :=
  if s == "error" then some .Error else if s == "note" then some .Note else none

def replaceAt {α : Type} (l : List α) (i : Nat) (a : α) : List α := l.set i a

/-! rendering of lexer tokens (the harness prints the real tokens the same way) -/
open RsslVerif.Model.Lexer in
def hexPad (width n : Nat) : String :=
  let rec go : Nat → Nat → List Char → List Char
    | 0, _, acc => acc
    | k + 1, n, acc => go k (n / 16) (hexNibble (n % 16) :: acc)
  String.ofList (go width n [])

open RsslVerif.Model.Lexer in
def showFb : FollowedBy → String
  | .token => "T"
  | .whitespace => "W"

open RsslVerif.Model.Lexer in
def showTok : Token → String
  | .simple s => s.name
  | .id n => "Id:" ++ hex n
  | .litInt v => "Int:" ++ toString v
  | .litIntU32 v => "IntU32:" ++ toString v
  | .litIntU64 v => "IntU64:" ++ toString v
  | .litIntS64 v => "IntS64:" ++ toString v
  | .litFloat b => "Float:" ++ hexPad 16 b
  | .litFloat16 b => "Float16:" ++ hexPad 8 b
  | .litFloat32 b => "Float32:" ++ hexPad 8 b
  | .litFloat64 b => "Float64:" ++ hexPad 16 b
  | .litString s => "String:" ++ hex s
  | .reservedWord s => "ReservedWord:" ++ hex s
  | .headerName s => "HeaderName:" ++ hex s
  | .leftAngle f => "LeftAngleBracket:" ++ showFb f
  | .rightAngle f => "RightAngleBracket:" ++ showFb f

def showSpanned (t : RsslVerif.Model.Trivia.Spanned RsslVerif.Model.TriviaLexer.LTok) : String :=
  showTok t.tok.1 ++ " " ++ toString t.start ++ " " ++ toString t.stop

def handle (op : String) (args : List String) : String :=
  match op, args with
  | "C14.locate", [files, raw] =>
    match parseFiles files, raw.toNat? with
    | some sm, some loc =>
      let o := match getFileOffset sm loc with
        | some (i, off) => toString i ++ ":" ++ toString off
        | none => "none"
      o ++ " " ++ showLoc (getFileLocation sm loc)
    | _, _ => "bad-request"
  | "C14.srcloc", [files, fileId, off] =>
    match parseFiles files, fileId.toNat?, off.toNat? with
    | some sm, some i, some o =>
      match sourceLocation sm i o with
      | .ok l => "ok:" ++ toString l
      | .error _ => "panic"
    | _, _, _ => "bad-request"
  | "C14.render", [files, raw, sev, msg] =>
    match parseFiles files, raw.toNat?, parseSev sev, unhex? msg with
    | some sm, some loc, some sv, some m =>
      match writeMessage sm m loc sv with
      | .ok b => "ok:" ++ hex b
      | .error _ => "panic"
    | _, _, _, _ => "bad-request"
  -- metamorphic request: files, which file is edited, the insertions, and where the diagnostic of the
  -- unedited program pointed (`ok` | `err:-` | `err:<file index>:<offset>`); the model predicts the
  -- verdict and the `file:line:col` of the diagnostic of the edited program
  | "C14.meta", [_tgt, _mode, files, fileIdx, edits, base, track, _tag] =>
    match parseFiles files, fileIdx.toNat?, parseEdits edits with
    | some sm, some fi, some es =>
      -- the span was not carried through the stages this model does not contain (macro expansion,
      -- parsing, typing): nothing to predict from the source map alone
      if track != "y" then "unsupported: span not carried through unmodelled stages"
      else if base == "ok" then "ok"
      else if base == "err:-" then "err -"
      else match base.splitOn ":" with
        | ["err", di, doff] =>
          match di.toNat?, doff.toNat?, sm[fi]?, sm[di.toNat?.getD 0]? with
          | some di, some doff, some f, some _ =>
            let sm' := replaceAt sm fi { f with contents := applyEdits f.contents es }
            let off' := if di == fi then moveThrough es doff else doff
            match sourceLocation sm' di off' with
            | .ok loc => "err " ++ showLoc (getFileLocation sm' loc)
            | .error _ => "err panic"
          | _, _, _, _ => "bad-request"
        | _ => "unsupported: diagnostic without a decodable position"
    | _, _, _ => "bad-request"
  -- the lexer alone: the token list (kinds, payloads, spans) and verdict of the edited text
  | "C14.lex", [text, edits, _tag] =>
    match unhex? text, parseEdits edits with
    | some bytes, some es =>
      let r := RsslVerif.Model.TriviaLexer.lexAll (applyEdits bytes es)
      let toks := ";".intercalate (r.1.map showSpanned)
      match r.2 with
      | none => toks
      | some (reason, off) => toks ++ " !err " ++ reason.name ++ " " ++ toString off
    | _, _ => "bad-request"
  | "C14.disk", _ => "unsupported: files live on disk"
  | _, _ => "unsupported-op"

end RsslVerif.Driver.C14

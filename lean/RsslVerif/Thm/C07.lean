import RsslVerif.Gen.HashSites
import RsslVerif.Model.HashOrder
/-!
# C07 — compilation is deterministic

The only scheduling freedom in this single-threaded library is the iteration order of std
`HashMap`/`HashSet`.  The theorems state that each *shape* of iteration site is invariant under every
permutation of the iteration order, and `hash_sites_covered` ties the shapes to the source: every
iteration site found in the current tree is one that was reviewed and classified.
-/
namespace RsslVerif.Thm.C07
open RsslVerif.Model.HashOrder

/-- **Any** sort function (a function returning a sorted permutation of its input — Rust's `sort`,
    `sort_by`, `sort_unstable`, …) gives the same result on every permutation of the same elements,
    provided the order is antisymmetric on those elements (a derived `Ord`, or a `sort_by` key that is
    injective on the collection). -/
theorem sort_perm_invariant {α : Type} (le : α → α → Bool) (sortFn : List α → List α)
    (hsorted : ∀ l, (sortFn l).Pairwise (fun a b => le a b))
    (hperm : ∀ l, (sortFn l).Perm l)
    {l₁ l₂ : List α} (h : l₁.Perm l₂)
    (antisymm : ∀ a b, a ∈ l₁ → b ∈ l₁ → le a b → le b a → a = b) :
    sortFn l₁ = sortFn l₂ := by
  apply List.Perm.eq_of_pairwise (le := fun a b => le a b) _ (hsorted l₁) (hsorted l₂)
  · exact (hperm l₁).trans (h.trans (hperm l₂).symm)
  · intro a b ha hb hab hba
    have ha' : a ∈ l₁ := (hperm l₁).mem_iff.1 ha
    have hb' : b ∈ l₁ := h.mem_iff.2 ((hperm l₂).mem_iff.1 hb)
    exact antisymm a b ha' hb' hab hba

/-- Instance: collect-then-sort with the model's stable merge sort. -/
theorem collectSort_perm_invariant {α : Type} (le : α → α → Bool)
    (trans : ∀ a b c, le a b → le b c → le a c) (total : ∀ a b, le a b || le b a)
    {l₁ l₂ : List α} (h : l₁.Perm l₂)
    (antisymm : ∀ a b, a ∈ l₁ → b ∈ l₁ → le a b → le b a → a = b) :
    collectSort le l₁ = collectSort le l₂ :=
  sort_perm_invariant le (fun l => l.mergeSort le)
    (fun l => List.pairwise_mergeSort trans total l) (fun l => List.mergeSort_perm l le) h antisymm

/-- `sort_by(key)` with keys that are pairwise distinct on the collection (map keys, binding slots —
    distinct by C06 `index_ranges_tile`) is order independent. -/
theorem sortBy_key_perm_invariant {α : Type} (key : α → Nat) {l₁ l₂ : List α} (h : l₁.Perm l₂)
    (hinj : ∀ a b, a ∈ l₁ → b ∈ l₁ → key a = key b → a = b) :
    collectSort (fun a b => decide (key a ≤ key b)) l₁ =
    collectSort (fun a b => decide (key a ≤ key b)) l₂ := by
  apply collectSort_perm_invariant _ _ _ h
  · intro a b ha hb hab hba
    have h1 : key a ≤ key b := by simpa using hab
    have h2 : key b ≤ key a := by simpa using hba
    exact hinj a b ha hb (by omega)
  · intro a b c hab hbc
    have h1 : key a ≤ key b := by simpa using hab
    have h2 : key b ≤ key c := by simpa using hbc
    simpa using Nat.le_trans h1 h2
  · intro a b
    have := Nat.le_total (key a) (key b)
    simpa using this

/-- Reading back by key from pairs inserted under distinct keys does not depend on insertion order
    (name map entries keyed by symbol, function → required globals, …). -/
theorem lookup_perm_invariant {κ ν : Type} [BEq κ] [LawfulBEq κ] {l₁ l₂ : List (κ × ν)}
    (h : l₁.Perm l₂) (hnd : (l₁.map (·.1)).Nodup) (k : κ) :
    lookupAfterInserts l₁ k = lookupAfterInserts l₂ k := by
  unfold lookupAfterInserts
  induction h with
  | nil => rfl
  | cons x _ ih =>
    obtain ⟨xk, xv⟩ := x
    simp only [List.map_cons, List.nodup_cons] at hnd
    simp only [List.lookup_cons]
    split
    · rfl
    · exact ih hnd.2
  | swap x y l =>
    obtain ⟨xk, xv⟩ := x
    obtain ⟨yk, yv⟩ := y
    simp only [List.map_cons, List.nodup_cons, List.mem_cons, not_or] at hnd
    simp only [List.lookup_cons]
    by_cases hx : (k == xk) = true
    · by_cases hy : (k == yk) = true
      · have e : yk = xk := by rw [← eq_of_beq hx, ← eq_of_beq hy]
        exact absurd e hnd.1.1
      · simp [hx, hy]
    · by_cases hy : (k == yk) = true
      · simp [hx, hy]
      · simp [hx, hy]
  | trans h₁ _ ih₁ ih₂ =>
    rw [ih₁ hnd]
    exact ih₂ ((h₁.map (·.1)).nodup_iff.1 hnd)

/-- Folding with an operation whose steps commute (set insertion/union, boolean or, counting) does
    not depend on the order. -/
theorem fold_perm_invariant {α β : Type} (op : β → α → β)
    (comm : ∀ b a₁ a₂, op (op b a₁) a₂ = op (op b a₂) a₁) (init : β) {l₁ l₂ : List α}
    (h : l₁.Perm l₂) : foldAll op init l₁ = foldAll op init l₂ := by
  unfold foldAll
  induction h generalizing init with
  | nil => rfl
  | cons x _ ih => exact ih (op init x)
  | swap x y l => simp only [List.foldl_cons]; rw [comm]
  | trans _ _ ih₁ ih₂ => exact (ih₁ init).trans (ih₂ init)

/-- the reviewed iteration sites, each with the shape that makes it order independent -/
def classified : List ((String × String × String) × String) := [
  (("ir/src/ir_module.rs", "process_definition", "for:inline_size|sorts:self.inline_constant_buffers"),
     "collectSort: inline_constant_buffers.sort() follows; sets are distinct map keys"),
  (("ir/src/name_generator.rs", "build", "for:&scopes|sorts:name_to_symbol_vec"),
     "insertOnly: per-scope naming depends on the scope alone (inner sort_by over distinct names); results keyed by distinct symbols; used_names_all_scopes is a set union"),
  (("ir/src/name_generator.rs", "build", "for:usage.get_usage_for_function(id)"),
     "insertOnly: the names of used functions / globals are inserted into the set used_names_all_scopes (since fix 6bac604); the set is only tested for membership by the local-variable pass (C15 build_scope_order_independent covers the new model)"),
  (("ir/src/usage_analysis.rs", "recurse", "for:&current_set.required"),
     "fixpoint: union of required sets, iterated until nothing changes"),
  (("ir/src/usage_analysis.rs", "recurse", "method:self.0.keys"),
     "fixpoint: the key order only changes how fast the least fixpoint is reached"),
  (("msl/src/generator.rs", "analyse_globals", "for:global_usage.get_usage_for_function(id)|sorts:required_globals"),
     "collectSort: required_globals.sort() follows (derived Ord); called_functions is a set"),
  (("msl/src/generator/intrinsic_helpers.rs", "generate_helpers", "from_iter:required_helpers|sorts:objects,ordered"),
     "collectSort: objects.sort_by(key) over distinct map keys; inner Vec::from_iter(helpers).sort()"),
  (("typer/src/typer/scopes.rs", "build_function_template_signature", "for:&self.scopes[old_scope_id].symbols"),
     "insertOnly: template parameter symbols are re-inserted under their own distinct names"),
  (("typer/src/typer/scopes.rs", "build_function_template_signature", "for:self.scopes[old_scope_id].symbols.values()"),
     "insertOnly: assertions only"),
  (("typer/src/typer/scopes.rs", "build_function_template_signature", "method:self.scopes[old_scope_id].symbols.values"),
     "insertOnly: assertions only"),
  (("typer/src/typer/scopes.rs", "build_function_template_signature", "for:symbols"),
     "vec: `symbols` here is the Vec stored as a map value"),
  (("typer/src/typer/scopes.rs", "end_enum", "for:symbols"), "vec: map value"),
  (("typer/src/typer/scopes.rs", "find_identifier_in_scope", "for:symbols"), "vec: map value"),
  (("typer/src/typer/scopes.rs", "walk_into_scopes", "for:symbols"), "vec: map value"),
  (("typer/src/typer/scopes.rs", "extract_locals", "method:self.variables.iter"),
     "unobserved: fills ScopedDeclarations.variables in hash order; no exporter reads its order (scoped_declarations_unobserved)")]

/-- Tie to the source: every place where the current tree iterates a hash container is a reviewed
    one.  A new iteration site (or a renamed one) makes this obligation fail until it is classified. -/
theorem hash_sites_covered :
    RsslVerif.Gen.HashSites.sites.all (fun s => (classified.map (·.1)).contains s) = true := by decide

/-- Tie to the source: the one hash-ordered vector that is stored in the IR is only ever filtered. -/
theorem scoped_declarations_unobserved :
    RsslVerif.Gen.HashSites.scopedDeclarationConsumers.all (fun c => c.2 == "retain") = true := by decide

/-- Tie to the source: no clocks, randomness, environment reads or threads in the compiler crates. -/
theorem no_other_nondeterminism : RsslVerif.Gen.HashSites.otherNondeterminism = [] := by decide

/-! Non-vacuity: two different iteration orders of one set, one result. -/
example : collectSort (fun a b => decide (a ≤ b)) [3, 1, 2] = collectSort (fun a b => decide (a ≤ b)) [2, 3, 1] :=
  sortBy_key_perm_invariant (fun x => x) (by decide) (fun _ _ _ _ h => h)
example : ([3, 1, 2] : List Nat).Perm [2, 3, 1] := by decide

end RsslVerif.Thm.C07

import RsslVerif.Model.Compile
import RsslVerif.Model.PipelineTyper
import RsslVerif.Model.PipelineNames
import RsslVerif.Thm.C15
/-!
# C17 — pipelines are selected and compiled independently

Theorems about `Model.Compile.compileLoop` for an arbitrary `build` function, any number of pipelines.
-/
namespace RsslVerif.Thm.C17
open RsslVerif.Gen.CompileTables RsslVerif.Model.Compile

variable {ρ β ε : Type}

/-- Tie to the source: compile()'s loop has the shape the model mirrors (every regex fact holds). -/
theorem loop_shape_as_modelled :
    loopShape = ⟨true, true, true, true, true, true, true, true⟩ ∧
    buildClonesAndSelectsByName = true ∧ hlslReportsEmittedName = true ∧
    selectPipelineByExactName = true ∧ defaultSetFromSelectedPipeline = true := by decide

/-- use classes of `.pipelines` that keep the selected pipeline the only one read after type checking:
    indexing by the selected index, the selection loop itself, the driver loop, construction -/
def allowedUses : List (String × String × String) := [
  ("hlsl/src/ast_generate.rs", "context.module", "index:pipeline"),
  -- generate_module: names of the selected pipeline's entry functions (index = module.selected_pipeline)
  ("hlsl/src/ast_generate.rs", "module", "index:pipeline"),
  ("ir/src/ir_module.rs", "self", "index:index"),
  ("ir/src/ir_module.rs", "self", "method:iter"),
  ("msl/src/generator.rs", "module", "index:selected_pipeline"),
  ("msl/src/lib.rs", "module", "index:selected_pipeline"),
  ("msl/src/rewrite_mesh_output.rs", "module", "index:pipeline_index"),
  ("src/compile.rs", "ir", "plain"),
  ("typer/src/typer/pipelines.rs", "context.module", "method:iter"),
  ("typer/src/typer/pipelines.rs", "context.module", "method:push")]

/-- Tie to the source: no reader of `Module.pipelines` exists beyond the ones the model accounts for
    (a new reader makes this obligation fail until it is reviewed). -/
theorem pipelines_reads_covered : pipelineUses.all (fun u => allowedUses.contains u) = true := by decide

theorem buildLoop_all_ok (build : Option (Pipeline ρ) → Except ε β) (f : Pipeline ρ → β)
    (ps : List (Pipeline ρ)) (h : ∀ p ∈ ps, build (some p) = .ok (f p)) :
    buildLoop build (fun _ => true) ps = .ok (ps.map f) := by
  induction ps with
  | nil => rfl
  | cons p ps ih =>
    have hp := h p (by simp)
    have ht := ih (fun q hq => h q (by simp [hq]))
    simp [buildLoop, hp, ht]

/-- One result per pipeline definition, in source order. -/
theorem one_per_pipeline_in_order (build : Option (Pipeline ρ) → Except ε β) (f : Pipeline ρ → β)
    (ps : List (Pipeline ρ)) (hne : ps ≠ []) (h : ∀ p ∈ ps, build (some p) = .ok (f p)) :
    compileLoop build ps .all = .ok (ps.map f) := by
  simp only [compileLoop]
  rw [buildLoop_all_ok build f ps h]
  cases ps with
  | nil => exact absurd rfl hne
  | cons p ps => rfl

theorem buildLoop_skip (build : Option (Pipeline ρ) → Except ε β) (n : String)
    (ps : List (Pipeline ρ)) (h : ∀ p ∈ ps, p.name ≠ n) :
    buildLoop build (fun p => p.name == n) ps = .ok [] := by
  induction ps with
  | nil => rfl
  | cons p ps ih =>
    have hp : (p.name == n) = false := by simpa using h p (by simp)
    simp [buildLoop, hp, ih (fun q hq => h q (by simp [hq]))]

/-- With distinct pipeline names the named loop builds exactly the named pipeline — whatever the
    other pipelines are and whether or not *they* would build. -/
theorem buildLoop_named (build : Option (Pipeline ρ) → Except ε β) (ps : List (Pipeline ρ))
    (hnd : (ps.map (·.name)).Nodup) (p : Pipeline ρ) (hp : p ∈ ps) :
    buildLoop build (fun q => q.name == p.name) ps =
      match build (some p) with
      | .error e => .error e
      | .ok b => .ok [b] := by
  induction ps with
  | nil => cases hp
  | cons q qs ih =>
    simp only [List.map_cons, List.nodup_cons] at hnd
    rcases List.mem_cons.1 hp with rfl | hq
    · have hskip := buildLoop_skip build p.name qs (by
        intro r hr e; exact hnd.1 (by rw [← e]; exact List.mem_map_of_mem hr))
      simp only [buildLoop, beq_self_eq_true, if_true, hskip]
      cases build (some p) <;> rfl
    · have hne : (q.name == p.name) = false := by
        have : q.name ≠ p.name := by
          intro e; exact hnd.1 (by rw [e]; exact List.mem_map_of_mem hq)
        simpa using this
      simp only [buildLoop, hne]
      exact ih hnd.2 hq

/-- Exactly the pipeline with the requested name. -/
theorem named_selects_exactly (build : Option (Pipeline ρ) → Except ε β) (ps : List (Pipeline ρ))
    (hnd : (ps.map (·.name)).Nodup) (p : Pipeline ρ) (hp : p ∈ ps) (b : β)
    (hb : build (some p) = .ok b) :
    compileLoop build ps (.named p.name) = .ok [b] := by
  simp only [compileLoop]
  rw [buildLoop_named build ps hnd p hp, hb]

/-- Independence: the result for a named pipeline does not depend on which other pipelines the file
    defines (same outcome in any two pipeline lists that contain it with distinct names). -/
theorem independent_of_other_pipelines (build : Option (Pipeline ρ) → Except ε β)
    (ps ps' : List (Pipeline ρ)) (hnd : (ps.map (·.name)).Nodup) (hnd' : (ps'.map (·.name)).Nodup)
    (p : Pipeline ρ) (hp : p ∈ ps) (hp' : p ∈ ps') :
    compileLoop build ps (.named p.name) = compileLoop build ps' (.named p.name) := by
  simp only [compileLoop]
  rw [buildLoop_named build ps hnd p hp, buildLoop_named build ps' hnd' p hp']

/-- Compiling the whole file gives, at each position, what compiling that pipeline alone by name
    gives. -/
theorem all_agrees_with_named (build : Option (Pipeline ρ) → Except ε β) (f : Pipeline ρ → β)
    (ps : List (Pipeline ρ)) (hnd : (ps.map (·.name)).Nodup)
    (h : ∀ p ∈ ps, build (some p) = .ok (f p)) (hne : ps ≠ []) :
    compileLoop build ps .all = .ok (ps.map f) ∧
    ∀ p ∈ ps, compileLoop build ps (.named p.name) = .ok [f p] :=
  ⟨one_per_pipeline_in_order build f ps hne h,
   fun p hp => named_selects_exactly build ps hnd p hp (f p) (h p hp)⟩

/-- A name that no pipeline has is a clean error. -/
theorem unknown_name_error (build : Option (Pipeline ρ) → Except ε β) (ps : List (Pipeline ρ))
    (n : String) (h : ∀ p ∈ ps, p.name ≠ n) :
    compileLoop build ps (.named n) = .errUnknown n := by
  simp only [compileLoop]
  rw [buildLoop_skip build n ps h]

/-- A file without pipelines is a clean error unless no-pipeline mode is requested. -/
theorem no_pipeline_error (build : Option (Pipeline ρ) → Except ε β) :
    compileLoop build [] .all = .errNone := rfl

/-- No-pipeline mode returns exactly one result, whatever pipelines the file defines. -/
theorem no_pipeline_mode_single (build : Option (Pipeline ρ) → Except ε β) (ps : List (Pipeline ρ))
    (b : β) (h : build none = .ok b) : compileLoop build ps .noPipeline = .ok [b] := by
  simp [compileLoop, h]

/-- With distinct names the "multiple pipelines" panic is unreachable. -/
theorem no_multiple_panic (build : Option (Pipeline ρ) → Except ε β) (ps : List (Pipeline ρ))
    (hnd : (ps.map (·.name)).Nodup) (m : Mode) :
    (match compileLoop build ps m with | .panicMultiple => False | _ => True) := by
  cases m with
  | all =>
    simp only [compileLoop]
    cases buildLoop build (fun _ => true) ps with
    | error e => trivial
    | ok bs => cases bs <;> trivial
  | noPipeline =>
    simp only [compileLoop]
    cases build none <;> trivial
  | named n =>
    by_cases hex : ∃ p ∈ ps, p.name = n
    · obtain ⟨p, hp, rfl⟩ := hex
      simp only [compileLoop, buildLoop_named build ps hnd p hp]
      cases build (some p) <;> trivial
    · have : ∀ p ∈ ps, p.name ≠ n := fun p hp e => hex ⟨p, hp, e⟩
      rw [unknown_name_error build ps n this]
      trivial

/-! Non-vacuity -/
example : compileLoop (ε := Unit) (fun p => .ok (p.map (·.payload)))
    [⟨"A", 1⟩, ⟨"B", 2⟩, ⟨"C", 3⟩] (.named "B") = .ok [some 2] := rfl
example : (["A", "B", "C"] : List String).Nodup := by decide


/-! ## The type checker's part: the IR pipeline list is a map over the Pipeline blocks

`Model.PipelineTyper` mirrors `type_check_internal` + `parse_pipeline` + `add_stage`.  The theorems below say that the
pipeline list the type checker hands to `compile()` is obtained definition by definition: element *i* is
`elabCore (registry where block i stands) (block i)`, nothing else of the file enters (in particular no other Pipeline
block, and no table built while an earlier block was processed); that deleting other Pipeline blocks from an accepted
file leaves the file accepted and every remaining element unchanged; and, composed with the selection loop, that the
result for a pipeline compiled by name is the same in both files. -/
namespace Typer
open RsslVerif.Model.PipelineTyper RsslVerif.Gen.PipelineTables

/-- Tie to the source: parse_pipeline / add_stage / parse_blend_state / type_check_internal have the control skeleton
    the model mirrors.  `entryLookupScansLiveRegistry` is the exact text of the loop over
    `context.module.function_registry.iter()` in add_stage: an entry name is resolved against the registry as it is when
    the block is processed, not against a table built earlier. -/
theorem typer_shape_as_modelled :
    typerShape = ⟨true, true, true, true, true, true, true, true, true, true, true, true, true, true, true, true, true,
      true, true, true, true, true, true⟩ := by decide

/-- everything pipelines.rs may reach through the typer context: the context itself (handed on to the expression
    checker), the module (handed to the constant evaluator), the function registry (read only) and the pipeline list -/
def allowedContextUses : List String := [
  "context", "context.module",
  "context.module.function_registry.get_function_implementation()",
  "context.module.function_registry.get_function_name()",
  "context.module.function_registry.get_function_signature()",
  "context.module.function_registry.iter()",
  "context.module.pipelines.iter()",
  "context.module.pipelines.push()"]

/-- Tie to the source: pipelines.rs touches no other part of the type checker's state (a name table cached in the
    context, for example, would be a new entry here and break this obligation). -/
theorem typer_context_uses_covered : contextUses.all (fun u => allowedContextUses.contains u) = true := by decide

/-- the tables the model is driven by are the ones the Rust `match`es spell out -/
theorem typer_tables_sane :
    (stageProps.map (·.1)).Nodup ∧ (stateProps.map (·.1)).Nodup ∧ (blendSubProps.map (·.1)).Nodup ∧
    stageProps.all (fun p => (stageOfName p.2).isSome) = true := by decide

theorem registryFrom_deletePipes (keep : String → Bool) (items : List Item) (reg : List FnDecl) :
    registryFrom reg (deletePipes keep items) = registryFrom reg items := by
  induction items generalizing reg with
  | nil => rfl
  | cons it rest ih =>
    cases it with
    | func f =>
      simp only [deletePipes, List.filter_cons, registryFrom, List.foldl_cons, stepReg, if_true]
      exact ih (registerFn reg f)
    | pipe d =>
      by_cases hk : keep d.name = true
      · simp only [deletePipes, List.filter_cons, hk, registryFrom, List.foldl_cons, stepReg, if_true]
        exact ih reg
      · simp only [deletePipes, List.filter_cons, hk, registryFrom, List.foldl_cons, stepReg]
        exact ih reg

/-- The function registry of a file does not depend on its Pipeline blocks. -/
theorem registry_ignores_pipelines (keep : String → Bool) (items : List Item) :
    registryOf (deletePipes keep items) = registryOf items :=
  registryFrom_deletePipes keep items []

theorem elabCore_name (reg : List FnDecl) (d : PipeDef) (p : IrPipe) (h : elabCore reg d = .ok p) :
    p.name = d.name := by
  revert h
  unfold elabCore
  split
  · intro h; cases h
  · split
    · intro h; cases h
    · split
      · intro h; cases h
      · split
        · intro h; cases h
        · split
          · intro h; cases h
          · intro h; cases h; rfl

theorem step_func (s : TState) (f : FnDecl) : step s (.func f) = .ok ⟨registerFn s.reg f, s.pipes⟩ := rfl

/-- what an accepted Pipeline block does to the state -/
theorem step_pipe_ok (s s1 : TState) (d : PipeDef) (h : step s (.pipe d) = .ok s1) :
    (s.pipes.any (fun p => p.name == d.name)) = false ∧
    ∃ p, elabCore s.reg d = .ok p ∧ s1 = ⟨s.reg, s.pipes ++ [p]⟩ := by
  unfold step at h
  by_cases hd : (s.pipes.any (fun p => p.name == d.name)) = true
  · simp [hd] at h
  · have hd' : (s.pipes.any (fun p => p.name == d.name)) = false := by simpa using hd
    refine ⟨hd', ?_⟩
    simp only [hd', Bool.false_eq_true, if_false] at h
    cases he : elabCore s.reg d with
    | error e => simp [he] at h
    | ok p =>
      simp only [he] at h
      cases h
      exact ⟨p, rfl, rfl⟩

theorem typeCheckFrom_cons_ok (s s' : TState) (it : Item) (rest : List Item)
    (h : typeCheckFrom s (it :: rest) = .ok s') :
    ∃ s1, step s it = .ok s1 ∧ typeCheckFrom s1 rest = .ok s' := by
  unfold typeCheckFrom at h
  cases hs : step s it with
  | error e => simp [hs] at h
  | ok s1 => exact ⟨s1, rfl, by simpa [hs] using h⟩

theorem typeCheckFrom_pipes (items : List Item) (s s' : TState) (h : typeCheckFrom s items = .ok s') :
    s'.reg = registryFrom s.reg items ∧
    ∃ ps, s'.pipes = s.pipes ++ ps ∧
      (pipeDefsFrom s.reg items).map (fun rd => elabCore rd.1 rd.2) = ps.map Except.ok := by
  induction items generalizing s with
  | nil =>
    simp only [typeCheckFrom] at h
    cases h
    exact ⟨rfl, [], by simp, rfl⟩
  | cons it rest ih =>
    obtain ⟨s1, hs, hr⟩ := typeCheckFrom_cons_ok s s' it rest h
    cases it with
    | func f =>
      rw [step_func] at hs
      cases hs
      obtain ⟨hreg, ps, hp, hm⟩ := ih _ hr
      exact ⟨hreg, ps, hp, hm⟩
    | pipe d =>
      obtain ⟨_, p, hp, rfl⟩ := step_pipe_ok s s1 d hs
      obtain ⟨hreg, ps, hps, hm⟩ := ih _ hr
      refine ⟨hreg, p :: ps, ?_, ?_⟩
      · simpa using hps
      · simp only [pipeDefsFrom, List.map_cons, hp]
        exact congrArg _ hm

/-- **The IR pipeline list is a map over the Pipeline blocks**: element *i* of the list the type checker produces is
    `elabCore` of the registry where block *i* stands and of block *i* itself. -/
theorem typeCheck_pipelines_map (items : List Item) (s : TState) (h : typeCheck items = .ok s) :
    s.reg = registryOf items ∧
    (pipeDefs items).map (fun rd => elabCore rd.1 rd.2) = s.pipes.map Except.ok := by
  obtain ⟨hr, ps, hps, hm⟩ := typeCheckFrom_pipes items ⟨[], []⟩ s h
  refine ⟨hr, ?_⟩
  simp only [List.nil_append] at hps
  rw [hps]; exact hm

theorem typeCheckFrom_names (items : List Item) (s s' : TState) (h : typeCheckFrom s items = .ok s')
    (hnd : (s.pipes.map (·.name)).Nodup) : (s'.pipes.map (·.name)).Nodup := by
  induction items generalizing s with
  | nil => simp only [typeCheckFrom] at h; cases h; exact hnd
  | cons it rest ih =>
    obtain ⟨s1, hs, hr⟩ := typeCheckFrom_cons_ok s s' it rest h
    cases it with
    | func f =>
      rw [step_func] at hs
      cases hs
      exact ih _ hr hnd
    | pipe d =>
      obtain ⟨hdup, p, hp, rfl⟩ := step_pipe_ok s s1 d hs
      refine ih _ hr ?_
      have hn := elabCore_name _ _ _ hp
      simp only [List.map_append, List.map_cons, List.map_nil]
      rw [List.nodup_append]
      refine ⟨hnd, by simp, ?_⟩
      intro a ha b hb
      simp only [List.mem_cons, List.not_mem_nil, or_false] at hb
      subst hb
      intro e
      have : (s.pipes.any (fun p => p.name == d.name)) = true := by
        obtain ⟨q, hq, hqn⟩ := List.mem_map.1 ha
        exact List.any_eq_true.2 ⟨q, hq, by simp [hqn, e, hn]⟩
      rw [hdup] at this
      cases this

/-- An accepted file has pairwise distinct pipeline names (so the selection theorems apply to it). -/
theorem typeCheck_names_nodup (items : List Item) (s : TState) (h : typeCheck items = .ok s) :
    (s.pipes.map (·.name)).Nodup :=
  typeCheckFrom_names items ⟨[], []⟩ s h (by simp)

theorem deletePipes_func (keep : String → Bool) (f : FnDecl) (rest : List Item) :
    deletePipes keep (.func f :: rest) = .func f :: deletePipes keep rest := by
  simp [deletePipes]

theorem deletePipes_pipe_keep (keep : String → Bool) (d : PipeDef) (rest : List Item) (h : keep d.name = true) :
    deletePipes keep (.pipe d :: rest) = .pipe d :: deletePipes keep rest := by
  simp [deletePipes, h]

theorem deletePipes_pipe_drop (keep : String → Bool) (d : PipeDef) (rest : List Item) (h : keep d.name = false) :
    deletePipes keep (.pipe d :: rest) = deletePipes keep rest := by
  simp [deletePipes, h]

theorem typeCheckFrom_deletePipes (keep : String → Bool) (items : List Item) (s s' : TState)
    (h : typeCheckFrom s items = .ok s') :
    typeCheckFrom ⟨s.reg, s.pipes.filter (fun p => keep p.name)⟩ (deletePipes keep items) =
      .ok ⟨s'.reg, s'.pipes.filter (fun p => keep p.name)⟩ := by
  induction items generalizing s with
  | nil => simp only [typeCheckFrom] at h; cases h; rfl
  | cons it rest ih =>
    obtain ⟨s1, hs, hr⟩ := typeCheckFrom_cons_ok s s' it rest h
    cases it with
    | func f =>
      rw [step_func] at hs
      cases hs
      have := ih _ hr
      rw [deletePipes_func]
      simpa [typeCheckFrom, step] using this
    | pipe d =>
      obtain ⟨hdup, p, hp, rfl⟩ := step_pipe_ok s s1 d hs
      have hn := elabCore_name _ _ _ hp
      have ih' := ih _ hr
      cases hk : keep d.name with
      | true =>
        have hkp : keep p.name = true := by rw [hn]; exact hk
        have hnodup : ((s.pipes.filter (fun p => keep p.name)).any (fun p => p.name == d.name)) = false := by
          rw [Bool.eq_false_iff]
          intro hc
          obtain ⟨q, hq, hqn⟩ := List.any_eq_true.1 hc
          have : (s.pipes.any (fun p => p.name == d.name)) = true :=
            List.any_eq_true.2 ⟨q, (List.mem_filter.1 hq).1, hqn⟩
          rw [hdup] at this
          cases this
        rw [deletePipes_pipe_keep keep d rest hk]
        simp only [typeCheckFrom, step, hnodup, hp, Bool.false_eq_true, if_false]
        simpa [List.filter_append, hkp] using ih'
      | false =>
        have hkp : keep p.name = false := by rw [hn]; exact hk
        rw [deletePipes_pipe_drop keep d rest hk]
        simpa [List.filter_append, hkp] using ih'

/-- **Deleting other Pipeline blocks changes nothing for the ones that stay**: an accepted file stays accepted, its
    function registry is the same, and its IR pipeline list is the old list restricted to the kept names - each kept
    element is literally the same value. -/
theorem typeCheck_delete_others (keep : String → Bool) (items : List Item) (s : TState)
    (h : typeCheck items = .ok s) :
    typeCheck (deletePipes keep items) = .ok ⟨s.reg, s.pipes.filter (fun p => keep p.name)⟩ := by
  have := typeCheckFrom_deletePipes keep items ⟨[], []⟩ s h
  simpa [typeCheck] using this

/-- `compile()` = front end, then the selection loop over the IR pipeline list.  `build` stands for `build_pipeline`:
    it sees the module without its pipeline list (here: the function registry) and the selected pipeline. -/
inductive FileOutcome (β ε : Type) where
  | frontErr (pipeline : String) (e : Err)
  | out (o : Outcome β ε)

def toPipeline (p : IrPipe) : Pipeline IrPipe := ⟨p.name, p⟩

def compileFile (build : List FnDecl → Option (Pipeline IrPipe) → Except ε β) (items : List Item) (m : Mode) :
    FileOutcome β ε :=
  match typeCheck items with
  | .error e => .frontErr e.1 e.2
  | .ok s => .out (compileLoop (build s.reg) (s.pipes.map toPipeline) m)

theorem map_toPipeline_names (ps : List IrPipe) :
    (ps.map toPipeline).map (·.name) = ps.map (·.name) := by
  induction ps with
  | nil => rfl
  | cons p ps ih => simp [toPipeline, ih]

/-- **Independence, front end included**: for an accepted file, compiling pipeline `n` by name gives the same outcome
    whether or not the other Pipeline blocks (any set of them that does not contain `n`) are deleted from the file. -/
theorem independent_of_other_pipelines_file (build : List FnDecl → Option (Pipeline IrPipe) → Except ε β)
    (items : List Item) (s : TState) (h : typeCheck items = .ok s) (keep : String → Bool) (n : String)
    (hk : keep n = true) :
    compileFile build (deletePipes keep items) (.named n) = compileFile build items (.named n) := by
  have hd := typeCheck_delete_others keep items s h
  simp only [compileFile, hd, h]
  congr 1
  have hnd := typeCheck_names_nodup items s h
  have hnd1 : ((s.pipes.map toPipeline).map (·.name)).Nodup := by rw [map_toPipeline_names]; exact hnd
  have hnd2 : (((s.pipes.filter (fun p => keep p.name)).map toPipeline).map (·.name)).Nodup := by
    rw [map_toPipeline_names]
    exact List.Nodup.sublist (List.Sublist.map _ List.filter_sublist) hnd
  by_cases hex : ∃ p ∈ s.pipes, p.name = n
  · obtain ⟨p, hp, hpn⟩ := hex
    have h1 : toPipeline p ∈ s.pipes.map toPipeline := List.mem_map_of_mem hp
    have h2 : toPipeline p ∈ (s.pipes.filter (fun p => keep p.name)).map toPipeline :=
      List.mem_map_of_mem (List.mem_filter.2 ⟨hp, by rw [hpn]; exact hk⟩)
    have := independent_of_other_pipelines (build s.reg) _ _ hnd2 hnd1 (toPipeline p) h2 h1
    simpa [toPipeline, hpn] using this
  · have hno1 : ∀ q ∈ s.pipes.map toPipeline, q.name ≠ n := by
      intro q hq e
      obtain ⟨p, hp, rfl⟩ := List.mem_map.1 hq
      exact hex ⟨p, hp, e⟩
    have hno2 : ∀ q ∈ (s.pipes.filter (fun p => keep p.name)).map toPipeline, q.name ≠ n := by
      intro q hq e
      obtain ⟨p, hp, rfl⟩ := List.mem_map.1 hq
      exact hex ⟨p, (List.mem_filter.1 hp).1, e⟩
    rw [unknown_name_error _ _ n hno1, unknown_name_error _ _ n hno2]

/-- The whole file: one result per Pipeline block, in source order, each computed from the registry where the block
    stands and the block itself (`typeCheck_pipelines_map`) and from nothing else. -/
theorem whole_file_one_result_per_block (build : List FnDecl → Option (Pipeline IrPipe) → Except ε β)
    (f : Pipeline IrPipe → β) (items : List Item) (s : TState) (h : typeCheck items = .ok s) (hne : s.pipes ≠ [])
    (hb : ∀ p ∈ s.pipes, build s.reg (some (toPipeline p)) = .ok (f (toPipeline p))) :
    compileFile build items .all = .out (.ok ((s.pipes.map toPipeline).map f)) ∧
    (pipeDefs items).map (fun rd => elabCore rd.1 rd.2) = s.pipes.map Except.ok := by
  refine ⟨?_, (typeCheck_pipelines_map items s h).2⟩
  simp only [compileFile, h]
  congr 1
  apply one_per_pipeline_in_order
  · intro e; exact hne (List.map_eq_nil_iff.1 e)
  · intro q hq
    obtain ⟨p, hp, rfl⟩ := List.mem_map.1 hq
    exact hb p hp

/-- A front-end rejection does not depend on the selection mode. -/
theorem front_error_independent_of_mode (build : List FnDecl → Option (Pipeline IrPipe) → Except ε β)
    (items : List Item) (n : String) (e : Err) (m m' : Mode) (h : typeCheck items = Except.error (n, e)) :
    compileFile build items m = .frontErr n e ∧ compileFile build items m' = .frontErr n e := by
  simp [compileFile, h]

/-! Non-vacuity: an entry point defined *after* an earlier Pipeline block is found (the lookup scans the live registry);
    an entry point defined after its own block is not; deleting a block keeps the other element. -/
def fnCs (n : String) : FnDecl := { name := n, shape := "c", isTemplate := false, hasBody := true, threads := some (8, 1, 1) }
def blockCs (p f : String) : PipeDef := { name := p, props := [("ComputeShader", .single (.ident f))] }

example : (typeCheck [.func (fnCs "a"), .pipe (blockCs "P0" "a"), .func (fnCs "b"), .pipe (blockCs "P1" "b")]).toOption.map
    (fun s => s.pipes.map (fun p => (p.name, p.stages.map (·.entryName)))) = some [("P0", ["a"]), ("P1", ["b"])] := by
  decide
example : (typeCheck [.pipe (blockCs "P0" "a"), .func (fnCs "a")]).toOption.isNone = true := by decide
example : (typeCheck (deletePipes (· == "P1")
    [.func (fnCs "a"), .pipe (blockCs "P0" "a"), .func (fnCs "b"), .pipe (blockCs "P1" "b")])).toOption.map
    (fun s => s.pipes.map (·.name)) = some ["P1"] := by decide


/-! ## what a block sees of the registry: the entry functions it names, with the attributes of their definitions -/

theorem mem_annotateFrom {k : Nat} {props : List (String × Val)} {p : Nat} {n : String} {v : Val}
    (h : (p, n, v) ∈ annotateFrom k props) : (n, v) ∈ props := by
  induction props generalizing k with
  | nil => simp [annotateFrom] at h
  | cons x xs ih =>
    simp only [annotateFrom, List.mem_cons] at h
    rcases h with h | h
    · have h1 : n = x.1 := by simpa using congrArg (fun t => t.2.1) h
      have h2 : v = x.2 := by simpa using congrArg (fun t => t.2.2) h
      exact List.mem_cons.2 (Or.inl (by rw [h1, h2]))
    · exact List.mem_cons_of_mem _ (ih h)

theorem entryPass_congr (reg reg' : List FnDecl) (l : List (Nat × String × Val))
    (h : ∀ p n name, (p, n, Val.single (.ident name)) ∈ l → lookupEntry reg name = lookupEntry reg' name) :
    entryPass reg l = entryPass reg' l := by
  induction l with
  | nil => rfl
  | cons x xs ih =>
    obtain ⟨p, n, v⟩ := x
    have ih' := ih (fun p n name hm => h p n name (List.mem_cons_of_mem _ hm))
    have ha : ∀ st, addStage reg st v p = addStage reg' st v p := by
      intro st
      cases v with
      | agg ps => rfl
      | single sc =>
        cases sc with
        | ident name => simp only [addStage, h p n name (List.mem_cons_self ..)]
        | _ => rfl
    simp only [entryPass, ha, ih']

/-- **A block depends on the registry only through the entry functions it names.**  Two registries that answer the entry
    lookup alike for every identifier the block uses as a property value give the same IR pipeline or the same
    diagnostic.  In particular a function whose `numthreads` attribute does not evaluate (`badThreads`), a prototype, a
    template or an overload elsewhere in the file is invisible to every block that does not name it - and the
    location-less `state requires an integer argument` arises exactly in the blocks that do. -/
theorem elabCore_depends_on_named_entries (reg reg' : List FnDecl) (d : PipeDef)
    (h : ∀ n name, (n, Val.single (.ident name)) ∈ d.props → lookupEntry reg name = lookupEntry reg' name) :
    elabCore reg d = elabCore reg' d := by
  have he : entryPass reg (annotate d.props) = entryPass reg' (annotate d.props) :=
    entryPass_congr reg reg' _ (fun p n name hm => h n name (mem_annotateFrom hm))
  simp only [elabCore, he]

/-- **The thread-group size is the one written on the definition.**  A prototype registered first gives the entry no
    attributes: after the definition the registry entry has the definition's `numthreads` (none if the definition has
    none, whatever the prototype said); a prototype repeated *after* the definition changes nothing. -/
theorem attributes_from_definition (reg : List FnDecl) (p d : FnDecl) (hnew : reg.any (sameFn p) = false)
    (hs : sameFn d p = true) (hp : p.hasBody = false) (hd : d.hasBody = true) :
    registerFn (registerFn reg p) d =
      reg ++ [{ p with hasBody := true, threads := d.threads, badThreads := d.badThreads }] ∧
    registerFn (registerFn reg d) p = registerFn reg d := by
  have hs' : sameFn p d = true := by
    simp only [sameFn, Bool.and_eq_true, beq_iff_eq] at hs ⊢
    exact ⟨hs.1.symm, hs.2.symm⟩
  have hnew' : reg.any (sameFn d) = false := by
    rw [List.any_eq_false] at hnew ⊢
    intro x hx hdx
    apply hnew x hx
    simp only [sameFn, Bool.and_eq_true, beq_iff_eq] at hs hdx ⊢
    exact ⟨hs.1 ▸ hdx.1, hs.2 ▸ hdx.2⟩
  have hmap : ∀ (f : FnDecl) (b : Bool), reg.any (sameFn f) = false →
      reg.map (fun g => if (sameFn f g && b) = true then { g with hasBody := true, threads := f.threads, badThreads := f.badThreads } else g) = reg := by
    intro f b hf
    rw [List.any_eq_false] at hf
    conv => rhs; rw [← List.map_id reg]
    apply List.map_congr_left
    intro g hg
    have : sameFn f g = false := by simpa using hf g hg
    simp [this]
  constructor
  · simp only [registerFn, hnew, Bool.false_eq_true, if_false, List.any_append, List.any_cons, List.any_nil, hs,
      Bool.or_true, Bool.or_false, if_true, List.map_append, List.map_cons, List.map_nil, hd, Bool.and_true]
    rw [show (reg.map fun g => if sameFn d g = true then { g with hasBody := true, threads := d.threads, badThreads := d.badThreads } else g) = reg from by
      simpa using hmap d true hnew']
  · simp only [registerFn, hnew', Bool.false_eq_true, if_false, List.any_append, List.any_cons, List.any_nil, hs',
      Bool.or_true, Bool.or_false, if_true, hp, Bool.and_false, List.map_append, List.map_cons, List.map_nil]
    simp

/-- a compute entry whose `numthreads` does not evaluate -/
def fnBad (n : String) : FnDecl :=
  { name := n, shape := "c", isTemplate := false, hasBody := true, threads := none, badThreads := true }

/-! Non-vacuity: the block that names the function with the unevaluable `numthreads` is rejected without a location,
    a block that does not is unaffected (same IR element with the bad function's block deleted); prototype `[2,1,1]` +
    definition `[4,1,1]` gives 4,1,1; prototype with, definition without the attribute gives none. -/
example : (match typeCheck [.func (fnCs "a"), .func (fnBad "b"), .pipe (blockCs "P0" "a"), .pipe (blockCs "P1" "b")] with
    | .error (n, e) => some (n, e.kind, e.path) | .ok _ => none) = some ("P1", .threadsNotInteger, 0) := by decide
example : (typeCheck [.func (fnCs "a"), .func (fnBad "b"), .pipe (blockCs "P0" "a")]).toOption.map
    (fun s => s.pipes.map (fun p => p.stages.map (·.tgs))) = some [[some (8, 1, 1)]] := by decide
example : (typeCheck [.func { fnCs "a" with hasBody := false, threads := some (2, 1, 1) },
      .func { fnCs "a" with threads := some (4, 1, 1) }, .pipe (blockCs "P0" "a")]).toOption.map
    (fun s => s.pipes.map (fun p => p.stages.map (·.tgs))) = some [[some (4, 1, 1)]] := by decide
example : (typeCheck [.func { fnCs "a" with hasBody := false, threads := some (2, 1, 1) },
      .func { fnCs "a" with threads := none }, .func { fnCs "a" with hasBody := false, threads := some (2, 1, 1) },
      .pipe (blockCs "P0" "a")]).toOption.map
    (fun s => s.pipes.map (fun p => p.stages.map (·.tgs))) = some [[none]] := by decide


/-! ## the module a pipeline is built from: declared functions **and** what the blocks' property values instantiate -/

/-- `compile()` with a build function that sees the whole module: the function registry of the declarations and the
    template instantiations left behind by the property values of the file's Pipeline blocks -/
def compileFileM (build : List FnDecl × List String → Option (Pipeline IrPipe) → Except ε β) (items : List Item) (m : Mode) :
    FileOutcome β ε :=
  compileFile (fun reg => build (reg, instancesOf items)) items m

theorem instancesOf_deletePipes (keep : String → Bool) (items : List Item)
    (h : ∀ d, Item.pipe d ∈ items → keep d.name = false → instantiatedBy d = []) :
    instancesOf (deletePipes keep items) = instancesOf items := by
  induction items with
  | nil => rfl
  | cons it rest ih =>
    have ih' := ih (fun d hd => h d (List.mem_cons_of_mem _ hd))
    cases it with
    | func f => rw [deletePipes_func]; simp only [instancesOf, ih']
    | pipe d =>
      cases hk : keep d.name with
      | true => rw [deletePipes_pipe_keep _ _ _ hk]; simp only [instancesOf, ih']
      | false =>
        rw [deletePipes_pipe_drop _ _ _ hk]
        simp only [instancesOf, ih', h d (List.mem_cons_self ..) hk, List.nil_append]

/-- **Independence with the whole module in view — the part that holds** (`_partial`: it needs the hypothesis that the
    deleted blocks have no property value that instantiates a function template; without it the statement is false on
    the real compiler, see `module_depends_on_instantiating_block`).  For an accepted file, compiling pipeline `n` by
    name gives the same outcome with or without the other blocks, for any build function of (function registry,
    instantiations, selected pipeline). -/
theorem independent_of_other_pipelines_module_partial
    (build : List FnDecl × List String → Option (Pipeline IrPipe) → Except ε β)
    (items : List Item) (s : TState) (h : typeCheck items = .ok s) (keep : String → Bool) (n : String)
    (hk : keep n = true)
    (hinst : ∀ d, Item.pipe d ∈ items → keep d.name = false → instantiatedBy d = []) :
    compileFileM build (deletePipes keep items) (.named n) = compileFileM build items (.named n) := by
  unfold compileFileM
  rw [instancesOf_deletePipes keep items hinst]
  exact independent_of_other_pipelines_file _ items s h keep n hk

/-- the reduced defect program (corpus/C17.txt): `P0` carries `DefaultBindGroup = sizeof(wide_tf<uint>(1u))` -/
def instWitness : List Item :=
  [.func { name := "wide_tf", shape := "z", isTemplate := true, hasBody := true, threads := none },
   .func (fnCs "cs_0"), .func (fnCs "cs_1"),
   .pipe { name := "P0", props := [("ComputeShader", .single (.ident "cs_0")), ("DefaultBindGroup", .single (.sizeofInst "wide_tf"))] },
   .pipe (blockCs "P1" "cs_1")]

/-- a build function that returns the instantiations it finds in the module (the emitted source contains them) -/
def buildShowsInstances : List FnDecl × List String → Option (Pipeline IrPipe) → Except Unit (List String) :=
  fun m _ => .ok m.2

/-- **Negation, with a concrete witness** (replayed on the real compiler by the corpus; known finding
    `property-value-instantiates-template`): the file is accepted (`P0` gets default bind group 4), block `P1` has no
    instantiating value, and yet pipeline `P1` compiled by name is built from a module that contains the instantiation
    `wide_tf<uint>` when block `P0` is in the file and from one that does not when `P0` is deleted - so the returned
    source of `P1` depends on whether another pipeline is defined. -/
theorem module_depends_on_instantiating_block :
    (typeCheck instWitness).toOption.map (fun s => s.pipes.map (fun p => (p.name, p.group))) = some [("P0", 4), ("P1", 0)] ∧
    instantiatedBy (blockCs "P1" "cs_1") = [] ∧
    (match compileFileM buildShowsInstances instWitness (.named "P1") with
      | .out (.ok [x]) => some x | _ => none) = some ["wide_tf"] ∧
    (match compileFileM buildShowsInstances (deletePipes (· == "P1") instWitness) (.named "P1") with
      | .out (.ok [x]) => some x | _ => none) = some [] := by
  refine ⟨by decide, by decide, by decide, by decide⟩


/-! ## the reported HLSL entry name (composition with C15's model of the name map) -/

open RsslVerif.Model RsslVerif.Model.PipelineNames in
/-- **The reported entry name does not depend on the Pipeline blocks.**  The HLSL stage report carries the leaf name the
    whole-module name map gives the entry function (`f_k` when the file has another symbol called `f` in that namespace,
    before or after the block).  That name is a function of the function registry and of the other named symbols only,
    and the registry of a file is the same with any set of Pipeline blocks deleted: compiling a pipeline alone reports
    the same entry name as compiling it as part of the whole file. -/
theorem reported_entry_name_ignores_pipelines (reserved : List String) (o : Others) (keep : String → Bool)
    (items : List Item) (i : Nat) :
    entryName reserved o (registryOf (deletePipes keep items)) i = entryName reserved o (registryOf items) i := by
  rw [registry_ignores_pipelines]

open RsslVerif.Model RsslVerif.Model.PipelineNames in
/-- **Reported entry names are unambiguous.**  Two different registry entries that the name map places in the same
    namespace are never reported under the same name - whatever the source names are (overloads, a method and a free
    function, a function that already has the name `f_0`, reserved words): the stages of one pipeline, and the same
    stage of two pipelines, name different emitted functions iff their entry functions differ (C15
    `injective_per_scope` applied to the whole-module map). -/
theorem reported_entry_names_distinct {reserved : List String} {o : Others} {reg : List FnDecl} {i j : Nat}
    {names : List Names.Named} (hb : Names.build reserved (nameInput o reg) = .ok names) {n₁ n₂ : String}
    (h₁ : entryName reserved o reg i = .ok n₁) (h₂ : entryName reserved o reg j = .ok n₂) (hij : i ≠ j)
    (hs : (Names.lookup names ⟨.func, i⟩).map (·.scope) = (Names.lookup names ⟨.func, j⟩).map (·.scope)) :
    n₁ ≠ n₂ := by
  unfold entryName at h₁ h₂
  rw [hb] at h₁ h₂
  cases ha : Names.lookup names ⟨.func, i⟩ with
  | none => simp [ha] at h₁
  | some a =>
    cases hb' : Names.lookup names ⟨.func, j⟩ with
    | none => simp [hb'] at h₂
    | some b =>
      simp only [ha, Except.ok.injEq] at h₁
      simp only [hb', Except.ok.injEq] at h₂
      subst h₁; subst h₂
      have ham : a ∈ names ∧ a.sym = ⟨.func, i⟩ := by
        unfold Names.lookup at ha
        exact ⟨List.mem_of_find?_eq_some ha, by simpa using List.find?_some ha⟩
      have hbm : b ∈ names ∧ b.sym = ⟨.func, j⟩ := by
        unfold Names.lookup at hb'
        exact ⟨List.mem_of_find?_eq_some hb', by simpa using List.find?_some hb'⟩
      apply RsslVerif.Thm.C15.injective_per_scope hb a ham.1 b hbm.1
      · rw [ham.2]; intro h; cases h
      · rw [hbm.2]; intro h; cases h
      · simpa [ha, hb'] using hs
      · rw [ham.2, hbm.2]; intro e; apply hij; cases e; rfl

/-- the non-function symbols of the reduced seed-1 soak program -/
def soakOthers : RsslVerif.Model.PipelineNames.Others := ⟨[], [(none, "CbS"), (none, "S_ms_0")], [(none, "g_r0")]⟩

/-- a defined, non-template function of the given name and shape -/
def fn (n sh : String) : FnDecl := { name := n, shape := sh, isTemplate := false, hasBody := true, threads := none }

open RsslVerif.Model RsslVerif.Model.PipelineNames in
/-- non-vacuity, and the program of the seed-1 soak: a method `ms_0` (mesh entry, registry index 2) and a helper
    `void ms_0()` defined after the Pipeline block are one group of the root namespace - the entry is reported as
    `ms_0_0`, the helper is `ms_0_1`; with `ms_0_0` already taken by a function of its own the entry becomes `ms_0_1`;
    a same-named function inside `ns1` is another scope and renames nothing. -/
example :
    (entryName ["abs"] soakOthers [fn "helper0" "h", fn "ps_1" "p", fn "ms_0" "hM", fn "ms_0" "h"] 2).toOption = some "ms_0_0" ∧
    (entryName ["abs"] soakOthers [fn "helper0" "h", fn "ps_1" "p", fn "ms_0" "hM", fn "ms_0" "h"] 3).toOption = some "ms_0_1" ∧
    (entryName ["abs"] soakOthers [fn "ms_0_0" "h", fn "ps_1" "p", fn "ms_0" "m", fn "ms_0" "h"] 2).toOption = some "ms_0_1" ∧
    (entryName ["abs"] ⟨[(none, "ns1")], [], []⟩ [fn "ms_0" "m", fn "ms_0" "hN"] 0).toOption = some "ms_0" ∧
    (entryName ["abs"] soakOthers [fn "abs" "c"] 0).toOption = some "abs_0" := by
  refine ⟨?_, ?_, ?_, ?_, ?_⟩ <;> decide +kernel

end Typer

end RsslVerif.Thm.C17

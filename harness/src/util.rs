//! Shared helpers: PRNG, in-memory includes, front-end driver, panic capture, output protocol.
#![allow(dead_code)]

use std::cell::RefCell;
use std::io::Write;
use std::panic::{AssertUnwindSafe, catch_unwind};

/// splitmix64: every random choice of a run derives from one seed
#[derive(Clone)]
pub struct Rng(pub u64);

impl Rng {
    pub fn new(seed: u64) -> Self {
        Rng(seed ^ 0x9E37_79B9_7F4A_7C15)
    }
    pub fn next(&mut self) -> u64 {
        self.0 = self.0.wrapping_add(0x9E37_79B9_7F4A_7C15);
        let mut z = self.0;
        z = (z ^ (z >> 30)).wrapping_mul(0xBF58_476D_1CE4_E5B9);
        z = (z ^ (z >> 27)).wrapping_mul(0x94D0_49BB_1331_11EB);
        z ^ (z >> 31)
    }
    pub fn below(&mut self, n: u64) -> u64 {
        if n == 0 { 0 } else { self.next() % n }
    }
    pub fn range(&mut self, lo: i64, hi: i64) -> i64 {
        lo + self.below((hi - lo + 1) as u64) as i64
    }
    pub fn chance(&mut self, num: u64, den: u64) -> bool {
        self.below(den) < num
    }
    pub fn pick<'a, T>(&mut self, xs: &'a [T]) -> &'a T {
        &xs[self.below(xs.len() as u64) as usize]
    }
    pub fn fork(&mut self) -> Rng {
        Rng(self.next())
    }
}

/// Include handler over an in-memory file table
pub struct MemFiles(pub Vec<(String, String)>);

impl rssl::text::IncludeHandler for MemFiles {
    fn load(
        &mut self,
        file_name: &str,
        _parent: &str,
    ) -> Result<rssl::text::FileData, rssl::text::IncludeError> {
        for (name, data) in &self.0 {
            if name == file_name {
                return Ok(rssl::text::FileData {
                    real_name: name.clone(),
                    contents: data.clone(),
                });
            }
        }
        Err(rssl::text::IncludeError::FileNotFound)
    }
}

thread_local! {
    static LAST_PANIC: RefCell<Option<String>> = const { RefCell::new(None) };
}

/// Install a panic hook that records `file:line: message` instead of printing
pub fn install_panic_hook() {
    std::panic::set_hook(Box::new(|info| {
        let loc = info
            .location()
            .map(|l| {
                let f = l.file();
                let f = f.strip_prefix("/repo/").unwrap_or(f);
                format!("{}:{}", f, l.line())
            })
            .unwrap_or_else(|| "?".to_string());
        let msg = if let Some(s) = info.payload().downcast_ref::<&str>() {
            s.to_string()
        } else if let Some(s) = info.payload().downcast_ref::<String>() {
            s.clone()
        } else {
            "?".to_string()
        };
        let msg: String = msg.chars().take(120).collect();
        LAST_PANIC.with(|p| *p.borrow_mut() = Some(format!("{}: {}", loc, one_line(&msg))));
    }));
}

/// Run `f`, mapping a panic to `Err("file:line: message")`
pub fn guard<T>(f: impl FnOnce() -> T) -> Result<T, String> {
    match catch_unwind(AssertUnwindSafe(f)) {
        Ok(v) => Ok(v),
        Err(_) => Err(LAST_PANIC
            .with(|p| p.borrow_mut().take())
            .unwrap_or_else(|| "?: panic".to_string())),
    }
}

pub fn one_line(s: &str) -> String {
    s.replace('\\', "\\\\")
        .replace('\t', "\\t")
        .replace('\n', "\\n")
        .replace('\r', "\\r")
}

pub fn hex(bytes: &[u8]) -> String {
    let mut s = String::with_capacity(bytes.len() * 2);
    for b in bytes {
        s.push_str(&format!("{:02x}", b));
    }
    s
}

pub fn unhex(s: &str) -> Option<Vec<u8>> {
    if s.len() % 2 != 0 {
        return None;
    }
    (0..s.len())
        .step_by(2)
        .map(|i| u8::from_str_radix(&s[i..i + 2], 16).ok())
        .collect()
}

/// Front end on an in-memory file set: preprocess, prepare, parse, type check
pub enum FrontError {
    Preprocess(String),
    Parse(String),
    Type(String),
}

impl FrontError {
    pub fn stage(&self) -> &'static str {
        match self {
            FrontError::Preprocess(_) => "preprocess",
            FrontError::Parse(_) => "parse",
            FrontError::Type(_) => "type",
        }
    }
    pub fn text(&self) -> &str {
        match self {
            FrontError::Preprocess(s) | FrontError::Parse(s) | FrontError::Type(s) => s,
        }
    }
}

pub fn front_end(
    entry: &str,
    files: &[(String, String)],
    defines: &[(&str, &str)],
) -> Result<rssl::ir::Module, FrontError> {
    use rssl::text::CompileErrorExt;
    let mut sm = rssl::text::SourceManager::new();
    let mut inc = MemFiles(files.to_vec());
    let tokens = match rssl::preprocess::preprocess(entry, &mut sm, &mut inc, defines) {
        Ok(t) => t,
        Err(e) => return Err(FrontError::Preprocess(format!("{}", e.display(&sm)))),
    };
    let tokens = rssl::preprocess::prepare_tokens(&tokens);
    let ast = match rssl::parser::parse(&tokens) {
        Ok(a) => a,
        Err(e) => return Err(FrontError::Parse(format!("{}", e.display(&sm)))),
    };
    match rssl::typer::type_check(&ast) {
        Ok(ir) => Ok(ir),
        Err(e) => Err(FrontError::Type(format!("{}", e.display(&sm)))),
    }
}

pub fn front_end_src(src: &str) -> Result<rssl::ir::Module, FrontError> {
    front_end("main.rssl", &[("main.rssl".to_string(), src.to_string())], &[])
}

/// Output channel of the line protocol.
///   CASE \t <request fields...> \t => \t <observation> \t <oracle: ok | FAIL:detail | SKIP:why>
///   STAT \t <json>
pub struct Out {
    w: std::io::BufWriter<std::io::Stdout>,
    pub cases: u64,
    pub oracle_fail: u64,
}

impl Out {
    pub fn new() -> Self {
        Out {
            w: std::io::BufWriter::new(std::io::stdout()),
            cases: 0,
            oracle_fail: 0,
        }
    }
    pub fn case(&mut self, request: &str, observation: &str, oracle: &str) {
        self.cases += 1;
        if oracle.starts_with("FAIL") {
            self.oracle_fail += 1;
        }
        writeln!(
            self.w,
            "CASE\t{}\t=>\t{}\t{}",
            request,
            one_line_keep_tabs(observation),
            one_line(oracle)
        )
        .unwrap();
    }
    pub fn stat(&mut self, json: &str) {
        writeln!(self.w, "STAT\t{}", json).unwrap();
    }
    pub fn finish(&mut self) {
        self.w.flush().unwrap();
    }
}

fn one_line_keep_tabs(s: &str) -> String {
    s.replace('\n', "\\n").replace('\r', "\\r").replace('\t', "\\t")
}

/// Minimal JSON string escaping for STAT lines
pub fn json_str(s: &str) -> String {
    let mut o = String::from("\"");
    for c in s.chars() {
        match c {
            '"' => o.push_str("\\\""),
            '\\' => o.push_str("\\\\"),
            '\n' => o.push_str("\\n"),
            '\r' => o.push_str("\\r"),
            '\t' => o.push_str("\\t"),
            c if (c as u32) < 0x20 => o.push_str(&format!("\\u{:04x}", c as u32)),
            c => o.push(c),
        }
    }
    o.push('"');
    o
}

/// Counter map rendered as a JSON object
#[derive(Default)]
pub struct Hist(pub std::collections::BTreeMap<String, u64>);

impl Hist {
    pub fn add(&mut self, k: &str) {
        *self.0.entry(k.to_string()).or_insert(0) += 1;
    }
    pub fn json(&self) -> String {
        let parts: Vec<String> = self
            .0
            .iter()
            .map(|(k, v)| format!("{}:{}", json_str(k), v))
            .collect();
        format!("{{{}}}", parts.join(","))
    }
}

/// Command-line arguments shared by all property modules
pub struct Args {
    pub tier: String,
    pub seed: u64,
    pub n: Option<u64>,
    /// replay mode: request lines (without the CASE prefix) are read from this file
    pub requests: Option<String>,
    pub extra: Vec<String>,
}

impl Args {
    pub fn thorough(&self) -> bool {
        self.tier == "thorough"
    }
    pub fn request_lines(&self) -> Option<Vec<String>> {
        self.requests.as_ref().map(|p| {
            std::fs::read_to_string(p)
                .unwrap_or_default()
                .lines()
                .filter(|l| !l.trim().is_empty())
                .map(|l| l.to_string())
                .collect()
        })
    }
}

import RsslVerif.Lemmas.ConstEvalArith
import RsslVerif.Lemmas.ConstEvalSimp
import RsslVerif.Model.ConstEvalWf
/-!
# C13 helper lemmas, part 2: each arm of `evaluate_operator` (as tabulated in `Gen.EvalTable`) computes
the value the specification defines, and its result is again in range
-/
namespace RsslVerif.Lemmas.ConstEval
open RsslVerif.Gen.EvalTable RsslVerif.Model.ConstEval
open RsslVerif.Spec.HlslConst (bv sInt uInt fitsLit lit?)
namespace S
export RsslVerif.Spec.HlslConst (unop binop litArith sArith uArith bitArith relOf valueOrd valueEq sameType castScalar cast strip enumId? applyOp opValue eval evalArgs sizeOfTy sizeOfScalar isComparison)
end S

theorem okInt_ok {rk : Kind} {r : Except Err Int} {c : Constant} :
    okInt rk r = .ok c ↔ ∃ z, r = .ok z ∧ mkInt rk z = some c := by
  unfold okInt
  cases r with
  | error e => simp
  | ok z => cases h : mkInt rk z <;> simp [h]

@[c13] theorem okInt_error (rk : Kind) (e : Err) : okInt rk (.error e) = .error e := rfl

theorem deliver_checked {t : IntTy} {a : Arith} {z z' : Int} :
    deliver t .checked a z = .ok z' ↔ t.inRange z = true ∧ z' = z := by
  unfold deliver
  by_cases h : t.inRange z = true <;> simp [h, eq_comm]

theorem deliver_wrapping {t : IntTy} {a : Arith} {z : Int} : deliver t .wrapping a z = .ok (t.wrap z) := rfl

theorem int32_wrap (z : Int) : Constant.int32 (i32.wrap z) = sInt (bv z) := by rw [wrap_i32]; rfl
theorem uint32_wrap (z : Int) : Constant.uint32 (u32.wrap z) = uInt (bv z) := by rw [wrap_u32]; rfl
@[simp, c13] theorem plain_sInt (b : BitVec 32) : plain (sInt b) = true := by simp [plain, wf, sInt, inRange_sInt, Constant.kind]
@[simp, c13] theorem plain_uInt (b : BitVec 32) : plain (uInt b) = true := by simp [plain, wf, uInt, inRange_uInt, Constant.kind]
@[simp, c13] theorem plain_intLit (v : Int) : plain (.intLit v) = i128.inRange v := by simp [plain, wf, Constant.kind]
@[simp, c13] theorem plain_int32 (v : Int) : plain (.int32 v) = i32.inRange v := by simp [plain, wf, Constant.kind]
@[simp, c13] theorem plain_uint32 (v : Int) : plain (.uint32 v) = u32.inRange v := by simp [plain, wf, Constant.kind]
@[simp, c13] theorem plain_bool (v : Bool) : plain (.bool v) = true := by simp [plain, wf, Constant.kind]
@[simp, c13] theorem plain_enum (i : Nat) (c : Constant) : plain (.enum i c) = false := by simp [plain, Constant.kind]

attribute [c13] applyOp opTable lookupArm applyRule Constant.kind intTyOf Constant.intVal? evalArith
  mkInt evalDiv evalRem evalShl evalShr zeroDivisor remOverflow shiftAmount okInt_ok deliver_checked deliver_wrapping
  S.binop S.unop S.relOf S.litArith S.sArith S.uArith S.bitArith lit? fitsLit_iff
  int32_wrap uint32_wrap bv_add bv_sub bv_mul bv_neg bv_not

theorem binop_Add {a b r : Constant} (ha : plain a = true) (hb : plain b = true)
    (h : applyOp .Add [a, b] = .ok r) : S.binop .Add a b = some r ∧ plain r = true := by
  cases a <;> cases b <;> simp [c13] at h ha hb ⊢
  all_goals first
    | (obtain ⟨z, ⟨h1, rfl⟩, rfl⟩ := h; simp [c13, h1]; done)
    | (subst h; simp [c13]; done)
theorem binop_Subtract {a b r : Constant} (ha : plain a = true) (hb : plain b = true)
    (h : applyOp .Subtract [a, b] = .ok r) : S.binop .Subtract a b = some r ∧ plain r = true := by
  cases a <;> cases b <;> simp [c13] at h ha hb ⊢
  all_goals first
    | (obtain ⟨z, ⟨h1, rfl⟩, rfl⟩ := h; simp [c13, h1]; done)
    | (subst h; simp [c13]; done)
theorem binop_Multiply {a b r : Constant} (ha : plain a = true) (hb : plain b = true)
    (h : applyOp .Multiply [a, b] = .ok r) : S.binop .Multiply a b = some r ∧ plain r = true := by
  cases a <;> cases b <;> simp [c13] at h ha hb ⊢
  all_goals first
    | (obtain ⟨z, ⟨h1, rfl⟩, rfl⟩ := h; simp [c13, h1]; done)
    | (subst h; simp [c13]; done)
theorem int32_tdiv {x y : Int} (hx : i32.inRange x = true) (hy : i32.inRange y = true) :
    sInt (bv (x.tdiv y)) = sInt ((bv x).sdiv (bv y)) := by
  have := sdiv_i32 hx hy
  rw [wrap_i32] at this
  rw [BitVec.toInt_inj.mp this]
theorem int32_tmod {x y : Int} (hx : i32.inRange x = true) (hy : i32.inRange y = true) :
    Constant.int32 (x.tmod y) = sInt ((bv x).srem (bv y)) := by
  rw [srem_i32 hx hy]; rfl
theorem uint32_tdiv {x y : Int} (hx : u32.inRange x = true) (hy : u32.inRange y = true) :
    Constant.uint32 (x.tdiv y) = uInt (bv x / bv y) := by
  rw [udiv_u32 hx hy]; rfl
theorem uint32_tmod {x y : Int} (hx : u32.inRange x = true) (hy : u32.inRange y = true) :
    Constant.uint32 (x.tmod y) = uInt (bv x % bv y) := by
  rw [umod_u32 hx hy]; rfl

theorem binop_Divide {a b r : Constant} (ha : plain a = true) (hb : plain b = true)
    (h : applyOp .Divide [a, b] = .ok r) : S.binop .Divide a b = some r ∧ plain r = true := by
  cases a <;> cases b <;> simp [c13] at h ha hb ⊢
  · rename_i x y
    by_cases hz : y = 0 <;> simp [c13, hz] at h ⊢
    obtain ⟨z, ⟨h1, rfl⟩, rfl⟩ := h; simp [c13, h1]
  · rename_i x y
    by_cases hz : y = 0 <;> simp [c13, hz] at h ⊢
    subst h; simp [c13, int32_tdiv ha hb, bv_eq_zero_i32 hb, hz]
  · rename_i x y
    by_cases hz : y = 0 <;> simp [c13, hz] at h ⊢
    obtain ⟨z, ⟨h1, rfl⟩, rfl⟩ := h
    simp [c13, uint32_tdiv ha hb, bv_eq_zero_u32 hb, hz]
theorem tmod_bounds (x y : Int) :
    (0 ≤ x → 0 ≤ x.tmod y ∧ x.tmod y ≤ x) ∧ (x ≤ 0 → x ≤ x.tmod y ∧ x.tmod y ≤ 0) := by
  have h := Int.natAbs_tmod x y
  have hle : x.natAbs % y.natAbs ≤ x.natAbs := Nat.mod_le _ _
  constructor
  · intro hx; have := Int.tmod_nonneg y hx; omega
  · intro hx
    have h2 : 0 ≤ (-x).tmod y := Int.tmod_nonneg y (by omega)
    rw [Int.neg_tmod] at h2
    omega

theorem inRange_tmod {t : IntTy} {x : Int} (y : Int) (hx : t.inRange x = true) : t.inRange (x.tmod y) = true := by
  have hb := tmod_bounds x y
  simp only [IntTy.inRange, Bool.and_eq_true, decide_eq_true_eq] at hx ⊢
  have p1 : 0 < 2 ^ (t.bits - 1) := Nat.pow_pos (by decide)
  have p2 : 0 < 2 ^ t.bits := Nat.pow_pos (by decide)
  have hlo : t.lo ≤ 0 := by unfold IntTy.lo; split <;> omega
  have hhi : 0 ≤ t.hi := by
    unfold IntTy.hi
    split <;> omega
  by_cases h0 : 0 ≤ x
  · have := hb.1 h0; omega
  · have := hb.2 (by omega); omega

theorem binop_Modulus {a b r : Constant} (ha : plain a = true) (hb : plain b = true)
    (h : applyOp .Modulus [a, b] = .ok r) : S.binop .Modulus a b = some r ∧ plain r = true := by
  cases a <;> cases b <;> simp [c13] at h ha hb ⊢
  · rename_i x y
    by_cases hz : y = 0 <;> simp [c13, hz] at h ⊢
    split at h
    · simp [c13] at h
    · simp [c13] at h; subst h; simp [c13, inRange_tmod y ha]
  · rename_i x y
    by_cases hz : y = 0 <;> simp [c13, hz] at h ⊢
    split at h
    · rename_i hov
      simp [c13] at h; subst h
      obtain ⟨_, rfl, rfl⟩ := hov
      refine ⟨⟨_, ⟨?_, rfl⟩, ?_⟩, ?_⟩
      · rw [bv_eq_zero_i32 hb]; omega
      · rw [← int32_tmod ha hb]; simp [c13]
      · simp [c13, IntTy.inRange, IntTy.lo, IntTy.hi, i32]
    · simp [c13] at h; subst h; simp [c13, int32_tmod ha hb, bv_eq_zero_i32 hb, hz]
  · rename_i x y
    by_cases hz : y = 0 <;> simp [c13, hz] at h ⊢
    split at h
    · rename_i hov; simp [c13, u32] at hov
    · simp [c13] at h; subst h; simp [c13, uint32_tmod ha hb, bv_eq_zero_u32 hb, hz]
theorem bv_pow' (n : Nat) : bv ((2 : Int) ^ n) = BitVec.twoPow 32 n := by
  have := bv_pow n
  simpa using this
@[c13] theorem bv_mul_pow (x : Int) (n : Nat) : bv x * bv ((2 : Int) ^ n) = bv x <<< n := by
  rw [bv_pow', BitVec.shiftLeft_eq_mul_twoPow]
@[c13] theorem shamt_i32 (y : Int) : (y % ((i32.bits : Nat) : Int)).toNat = (bv y).toNat % 32 := shamt y
@[c13] theorem shamt_u32 (y : Int) : (y % ((u32.bits : Nat) : Int)).toNat = (bv y).toNat % 32 := shamt y

theorem inRange_wrap_signed (w : Nat) (z : Int) : (IntTy.mk true w).inRange ((IntTy.mk true w).wrap z) = true := by
  rw [wrap_signed]; exact inRange_toInt _

theorem shiftAmount_checked {t : IntTy} {a : Arith} {y : Int} {n : Nat} :
    shiftAmount t .checked a y = .ok n ↔ (0 ≤ y ∧ y < (t.bits : Int)) ∧ n = y.toNat := by
  unfold shiftAmount
  by_cases h : 0 ≤ y ∧ y < (t.bits : Int) <;> simp [h, eq_comm]

theorem evalShl_checked {t : IntTy} {x y s : Int} :
    evalShl t .checked x y = .ok s ↔ (0 ≤ y ∧ y < (t.bits : Int)) ∧ s = t.wrap (x * ((2 ^ y.toNat : Nat) : Int)) := by
  unfold evalShl
  cases hsa : shiftAmount t .checked .shl y with
  | error e =>
    simp only [reduceCtorEq, false_iff]
    intro ⟨hy, _⟩
    have := (shiftAmount_checked (t := t) (a := .shl) (y := y) (n := y.toNat)).mpr ⟨hy, rfl⟩
    rw [hsa] at this; cases this
  | ok n =>
    have := shiftAmount_checked.mp hsa
    simp [this.1, this.2, eq_comm]

theorem evalShr_checked {t : IntTy} {x y s : Int} :
    evalShr t .checked x y = .ok s ↔ (0 ≤ y ∧ y < (t.bits : Int)) ∧ s = x / ((2 ^ y.toNat : Nat) : Int) := by
  unfold evalShr
  cases hsa : shiftAmount t .checked .shr y with
  | error e =>
    simp only [reduceCtorEq, false_iff]
    intro ⟨hy, _⟩
    have := (shiftAmount_checked (t := t) (a := .shr) (y := y) (n := y.toNat)).mpr ⟨hy, rfl⟩
    rw [hsa] at this; cases this
  | ok n =>
    have := shiftAmount_checked.mp hsa
    simp [this.1, this.2, eq_comm]

theorem evalShr_plain {t : IntTy} {x y : Int} (hy : 0 ≤ y ∧ y < (t.bits : Int)) :
    evalShr t .plain x y = .ok (x / ((2 ^ y.toNat : Nat) : Int)) := by
  simp [evalShr, shiftAmount, hy]

/-- `s ≡ x·2^n (mod 2^128)` and `⌊s / 2^n⌋ = x` with `n < 128` force `s = x·2^n` -/
theorem shl_roundtrip {x s : Int} {n : Nat} (hn : n < 128)
    (hs : s = i128.wrap (x * ((2 ^ n : Nat) : Int))) (hback : s / ((2 ^ n : Nat) : Int) = x) :
    s = x * 2 ^ n := by
  have hcong : s % (2 ^ 128 : Int) = (x * ((2 ^ n : Nat) : Int)) % (2 ^ 128 : Int) := by
    rw [hs]; simp only [IntTy.wrap, i128, if_true]
    have := @Int.bmod_emod (x * ((2 ^ n : Nat) : Int)) (2 ^ 128)
    simpa using this
  have hpos : (0 : Int) < ((2 ^ n : Nat) : Int) := by
    have : 0 < 2 ^ n := Nat.pow_pos (by decide)
    omega
  have hle : ((2 ^ n : Nat) : Int) ≤ 2 ^ 127 := by
    have : 2 ^ n ≤ 2 ^ 127 := Nat.pow_le_pow_right (by decide) (by omega)
    exact_mod_cast this
  have hdm := Int.mul_ediv_add_emod s ((2 ^ n : Nat) : Int)
  have hm0 := Int.emod_nonneg s (Int.ne_of_gt hpos)
  have hm1 := Int.emod_lt_of_pos s hpos
  rw [hback] at hdm
  have hdvd : (2 ^ 128 : Int) ∣ s - x * ((2 ^ n : Nat) : Int) := by
    apply Int.dvd_of_emod_eq_zero
    rw [Int.sub_emod, hcong]; simp
  obtain ⟨k, hk⟩ := hdvd
  have hcomm : x * ((2 ^ n : Nat) : Int) = ((2 ^ n : Nat) : Int) * x := Int.mul_comm _ _
  have : ((2 ^ n : Nat) : Int) = (2 : Int) ^ n := by simp
  rw [← this]
  generalize ((2 ^ n : Nat) : Int) * x = p at *
  generalize ((2 ^ n : Nat) : Int) = q at *
  omega

/-- the literal `<<` arm returns a value only when it is the exact product -/
theorem evalLitShl_exact {x y z : Int} (h : evalLitShl .checked true x y = .ok z) :
    0 ≤ y ∧ z = x * 2 ^ y.toNat ∧ i128.inRange z = true := by
  unfold evalLitShl at h
  split at h
  · simp at h
  simp only [evalArith] at h
  cases hs : evalShl i128 .checked x y with
  | error e => rw [hs] at h; simp at h
  | ok s =>
    rw [hs] at h
    obtain ⟨hy, hsv⟩ := evalShl_checked.mp hs
    simp only [if_true, evalShr_plain hy] at h
    split at h
    · simp at h
    rename_i hback
    simp only [Decidable.not_not] at hback
    simp at h; subst h
    have hn : y.toNat < 128 := by have := hy.2; simp [i128] at this; omega
    refine ⟨hy.1, shl_roundtrip hn hsv hback, ?_⟩
    rw [hsv]; exact inRange_wrap_signed 128 _

theorem evalLitShr_exact {x y z : Int} (h : evalLitShr .checked x y = .ok z) :
    0 ≤ y ∧ z = x / 2 ^ y.toNat := by
  unfold evalLitShr at h
  split at h
  · simp at h
  simp only [evalArith] at h
  obtain ⟨hy, hz⟩ := evalShr_checked.mp h
  refine ⟨hy.1, ?_⟩
  rw [hz]; simp

theorem ediv_pow_inRange {t : IntTy} {x : Int} (n : Nat) (hx : t.inRange x = true) :
    t.inRange (x / 2 ^ n) = true := by
  simp only [IntTy.inRange, Bool.and_eq_true, decide_eq_true_eq] at hx ⊢
  have p1 : 0 < 2 ^ (t.bits - 1) := Nat.pow_pos (by decide)
  have p2 : 0 < 2 ^ t.bits := Nat.pow_pos (by decide)
  have hlo : t.lo ≤ 0 := by unfold IntTy.lo; split <;> omega
  have hhi : 0 ≤ t.hi := by unfold IntTy.hi; split <;> omega
  have hpos : (0 : Int) < 2 ^ n := Int.pow_pos (by decide)
  have h1 : (1 : Int) ≤ 2 ^ n := hpos
  by_cases h0 : 0 ≤ x
  · have := Int.ediv_nonneg h0 (Int.le_of_lt hpos)
    have := Int.ediv_le_self (2 ^ n) h0
    omega
  · have hneg : x / 2 ^ n < 0 := Int.ediv_neg_of_neg_of_pos (by omega) hpos
    have hdm := Int.mul_ediv_add_emod x (2 ^ n)
    have hm := Int.emod_lt_of_pos x hpos
    have hprod : (2 ^ n - 1) * (x / 2 ^ n + 1) ≤ 0 :=
      Int.mul_nonpos_of_nonneg_of_nonpos (by omega) (by omega)
    have e : (2 ^ n - 1) * (x / 2 ^ n + 1) = 2 ^ n * (x / 2 ^ n) + 2 ^ n - (x / 2 ^ n) - 1 := by
      rw [Int.sub_mul, Int.mul_add]; simp; omega
    rw [e] at hprod
    generalize 2 ^ n * (x / 2 ^ n) = p at *
    generalize x / 2 ^ n = q at *
    generalize x % 2 ^ n = r at *
    generalize (2 : Int) ^ n = d at *
    omega


theorem binop_LeftShift {a b r : Constant} (ha : plain a = true) (hb : plain b = true)
    (h : applyOp .LeftShift [a, b] = .ok r) : S.binop .LeftShift a b = some r ∧ plain r = true := by
  cases a <;> cases b <;> simp [c13] at h ha hb ⊢
  · obtain ⟨z, hz, rfl⟩ := h
    obtain ⟨h0, rfl, hr⟩ := evalLitShl_exact hz
    simp [c13, h0, hr]
  · subst h; simp [c13]
  · subst h; simp [c13]

theorem int32_shr {x : Int} (hx : i32.inRange x = true) (n : Nat) :
    Constant.int32 (x / 2 ^ n) = sInt ((bv x).sshiftRight n) := by
  have e : (2 : Int) ^ n = ((2 ^ n : Nat) : Int) := by simp
  rw [e, shr_i32 hx n]; rfl
theorem uint32_shr {x : Int} (hx : u32.inRange x = true) (n : Nat) :
    Constant.uint32 (x / 2 ^ n) = uInt (bv x >>> n) := by
  have e : (2 : Int) ^ n = ((2 ^ n : Nat) : Int) := by simp
  rw [e, shr_u32 hx n]; rfl

theorem binop_RightShift {a b r : Constant} (ha : plain a = true) (hb : plain b = true)
    (h : applyOp .RightShift [a, b] = .ok r) : S.binop .RightShift a b = some r ∧ plain r = true := by
  cases a <;> cases b <;> simp [c13] at h ha hb ⊢
  · obtain ⟨z, hz, rfl⟩ := h
    obtain ⟨h0, rfl⟩ := evalLitShr_exact hz
    simp [c13, h0, ediv_pow_inRange _ ha]
  · subst h; simp [c13, int32_shr ha]
  · subst h; simp [c13, uint32_shr ha]

theorem int32_bitOp (f : Nat → Nat → Nat) (g : BitVec 32 → BitVec 32 → BitVec 32)
    (hfg : ∀ a b : BitVec 32, f a.toNat b.toNat = (g a b).toNat) (x y : Int) :
    Constant.int32 (bitOp i32 f x y) = sInt (g (bv x) (bv y)) := by rw [bitOp_i32 f g hfg]; rfl
theorem uint32_bitOp (f : Nat → Nat → Nat) (g : BitVec 32 → BitVec 32 → BitVec 32)
    (hfg : ∀ a b : BitVec 32, f a.toNat b.toNat = (g a b).toNat) (x y : Int) :
    Constant.uint32 (bitOp u32 f x y) = uInt (g (bv x) (bv y)) := by rw [bitOp_u32 f g hfg]; rfl
theorem inRange_bitOp_i128 (f : Nat → Nat → Nat) (x y : Int) : i128.inRange (bitOp i128 f x y) = true := by
  unfold bitOp; exact inRange_wrap_signed 128 _

theorem binop_BitwiseAnd {a b r : Constant} (ha : plain a = true) (hb : plain b = true)
    (h : applyOp .BitwiseAnd [a, b] = .ok r) : S.binop .BitwiseAnd a b = some r ∧ plain r = true := by
  cases a <;> cases b <;> simp [c13] at h ha hb ⊢
  · subst h; exact ⟨by simp [c13, bitOp_i128 _ _ land_toNat], by rw [plain_intLit]; exact inRange_bitOp_i128 _ _ _⟩
  · subst h; simp [c13, int32_bitOp _ _ land_toNat]
  · subst h; simp [c13, uint32_bitOp _ _ land_toNat]
theorem binop_BitwiseOr {a b r : Constant} (ha : plain a = true) (hb : plain b = true)
    (h : applyOp .BitwiseOr [a, b] = .ok r) : S.binop .BitwiseOr a b = some r ∧ plain r = true := by
  cases a <;> cases b <;> simp [c13] at h ha hb ⊢
  · subst h; exact ⟨by simp [c13, bitOp_i128 _ _ lor_toNat], by rw [plain_intLit]; exact inRange_bitOp_i128 _ _ _⟩
  · subst h; simp [c13, int32_bitOp _ _ lor_toNat]
  · subst h; simp [c13, uint32_bitOp _ _ lor_toNat]
theorem binop_BitwiseXor {a b r : Constant} (ha : plain a = true) (hb : plain b = true)
    (h : applyOp .BitwiseXor [a, b] = .ok r) : S.binop .BitwiseXor a b = some r ∧ plain r = true := by
  cases a <;> cases b <;> simp [c13] at h ha hb ⊢
  · subst h; exact ⟨by simp [c13, bitOp_i128 _ _ xor_toNat], by rw [plain_intLit]; exact inRange_bitOp_i128 _ _ _⟩
  · subst h; simp [c13, int32_bitOp _ _ xor_toNat]
  · subst h; simp [c13, uint32_bitOp _ _ xor_toNat]
theorem binop_BooleanAnd {a b r : Constant} (ha : plain a = true) (hb : plain b = true)
    (h : applyOp .BooleanAnd [a, b] = .ok r) : S.binop .BooleanAnd a b = some r ∧ plain r = true := by
  cases a <;> cases b <;> simp [c13] at h ha hb ⊢
  subst h; simp [c13]
theorem binop_BooleanOr {a b r : Constant} (ha : plain a = true) (hb : plain b = true)
    (h : applyOp .BooleanOr [a, b] = .ok r) : S.binop .BooleanOr a b = some r ∧ plain r = true := by
  cases a <;> cases b <;> simp [c13] at h ha hb ⊢
  subst h; simp [c13]
@[c13] theorem cmpOrd_lt (o : Option Ordering) : cmpOrd .lt o = (o == some .lt) := by
  cases o with | none => rfl | some o => cases o <;> rfl
@[c13] theorem cmpOrd_le (o : Option Ordering) : cmpOrd .le o = (o == some .lt || o == some .eq) := by
  cases o with | none => rfl | some o => cases o <;> rfl
@[c13] theorem cmpOrd_gt (o : Option Ordering) : cmpOrd .gt o = (o == some .gt) := by
  cases o with | none => rfl | some o => cases o <;> rfl
@[c13] theorem cmpOrd_ge (o : Option Ordering) : cmpOrd .ge o = (o == some .gt || o == some .eq) := by
  cases o with | none => rfl | some o => cases o <;> rfl
attribute [c13] S.sameType S.valueOrd ordOf

theorem binop_LessThan {a b r : Constant} (ha : plain a = true) (hb : plain b = true)
    (h : applyOp .LessThan [a, b] = .ok r) : S.binop .LessThan a b = some r ∧ plain r = true := by
  cases a <;> cases b <;> simp [c13] at h ha hb ⊢ <;> (subst h; simp [c13])
theorem binop_LessEqual {a b r : Constant} (ha : plain a = true) (hb : plain b = true)
    (h : applyOp .LessEqual [a, b] = .ok r) : S.binop .LessEqual a b = some r ∧ plain r = true := by
  cases a <;> cases b <;> simp [c13] at h ha hb ⊢ <;> (subst h; simp [c13])
theorem binop_GreaterThan {a b r : Constant} (ha : plain a = true) (hb : plain b = true)
    (h : applyOp .GreaterThan [a, b] = .ok r) : S.binop .GreaterThan a b = some r ∧ plain r = true := by
  cases a <;> cases b <;> simp [c13] at h ha hb ⊢ <;> (subst h; simp [c13])
theorem binop_GreaterEqual {a b r : Constant} (ha : plain a = true) (hb : plain b = true)
    (h : applyOp .GreaterEqual [a, b] = .ok r) : S.binop .GreaterEqual a b = some r ∧ plain r = true := by
  cases a <;> cases b <;> simp [c13] at h ha hb ⊢ <;> (subst h; simp [c13])

theorem compare_int_eq (a b : Int) : (compare a b == Ordering.eq) = (a == b) := by
  rw [Bool.eq_iff_iff]; simp
theorem compare_nat_eq (a b : Nat) : (compare a b == Ordering.eq) = (a == b) := by
  rw [Bool.eq_iff_iff]; simp

theorem bool_beq_toNat (a b : Bool) : (a.toNat == b.toNat) = (a == b) := by cases a <;> cases b <;> rfl

theorem constEq_eq_valueEq : ∀ a b : Constant, constEq a b = S.valueEq a b := by
  intro a
  induction a with
  | enum i c ih =>
    intro b
    cases b <;> simp [constEq, S.valueEq, S.sameType, ih]
  | _ =>
    intro b
    cases b <;> simp [constEq, S.valueEq, S.sameType, S.valueOrd, compare_int_eq, compare_nat_eq, bool_beq_toNat,
      RsslVerif.Model.ConstEvalFloat.feq]

theorem binop_Equality {a b r : Constant} (h : applyOp .Equality [a, b] = .ok r) :
    S.binop .Equality a b = some r ∧ plain r = true := by
  simp [c13] at h; subst h; simp [c13, constEq_eq_valueEq]
theorem binop_Inequality {a b r : Constant} (h : applyOp .Inequality [a, b] = .ok r) :
    S.binop .Inequality a b = some r ∧ plain r = true := by
  simp [c13] at h; subst h; simp [c13, constEq_eq_valueEq]

/-- every binary arm of `evaluate_operator`: a returned value is the specified one and is in range -/
theorem binop_agrees (o : Op) {a b r : Constant} (hn : arityOk o 2 = true) (ha : plain a = true) (hb : plain b = true)
    (h : applyOp o [a, b] = .ok r) : S.binop o a b = some r ∧ plain r = true := by
  cases o
  case Add => exact binop_Add ha hb h
  case Subtract => exact binop_Subtract ha hb h
  case Multiply => exact binop_Multiply ha hb h
  case Divide => exact binop_Divide ha hb h
  case Modulus => exact binop_Modulus ha hb h
  case LeftShift => exact binop_LeftShift ha hb h
  case RightShift => exact binop_RightShift ha hb h
  case BitwiseAnd => exact binop_BitwiseAnd ha hb h
  case BitwiseOr => exact binop_BitwiseOr ha hb h
  case BitwiseXor => exact binop_BitwiseXor ha hb h
  case BooleanAnd => exact binop_BooleanAnd ha hb h
  case BooleanOr => exact binop_BooleanOr ha hb h
  case LessThan => exact binop_LessThan ha hb h
  case LessEqual => exact binop_LessEqual ha hb h
  case GreaterThan => exact binop_GreaterThan ha hb h
  case GreaterEqual => exact binop_GreaterEqual ha hb h
  case Equality => exact binop_Equality h
  case Inequality => exact binop_Inequality h
  all_goals first
    | (simp [arityOk, opTable] at hn; done)
    | (cases a <;> simp [c13] at h)

end RsslVerif.Lemmas.ConstEval

import RsslVerif.Model.GenHlsl
import RsslVerif.Spec.SemIeee
import RsslVerif.Spec.SemWT
import RsslVerif.Driver.Util
/-!
Line-protocol front end of the C01 model.

`C01.fn <source> <function> <argument vectors> <ctx> <ir>`: parses the IR s-expressions the harness produced from the
real `ir::Module`, recomputes the exporter's tree with `GenHlsl.genFunc`, prints it, and runs `Ir.phi` (typed semantics)
on every argument vector with the concrete primitive interpretation the harness uses; it also runs `Ast.phi` on the
generated program and appends `MODEL-AST-DIFF` if the two semantics disagree (an instance of theorem `gen_sem_*`).
(Imports `Spec.SemStmt` besides the models: the evaluators are core-only Lean and are what is executed here.)
-/
namespace RsslVerif.Driver.C01
open RsslVerif.Gen.HlslGenTables RsslVerif.Gen.HlslIntrinsicTables RsslVerif.Model RsslVerif.Model.GenHlsl RsslVerif.Spec.Sem RsslVerif.Driver
open RsslVerif.Model.Ir (Ty Var Const Dir)

/-! ## s-expressions -/
inductive Sx where
  | a (s : String)
  | l (xs : List Sx)
  deriving Inhabited

partial def Sx.show : Sx → String
  | .a s => s
  | .l xs => "(" ++ " ".intercalate (xs.map Sx.show) ++ ")"

def tokenize (s : String) : List String :=
  let rec go (cs : List Char) (cur : List Char) (acc : List String) : List String :=
    let flush := if cur.isEmpty then acc else String.ofList cur.reverse :: acc
    match cs with
    | [] => flush.reverse
    | c :: r =>
      if c == '(' then go r [] ("(" :: flush)
      else if c == ')' then go r [] (")" :: flush)
      else if c == ' ' then go r [] flush
      else go r (c :: cur) acc
  go s.toList [] []

/-- parse a sequence of items up to the matching `)` (or end of input) -/
partial def parseItems : List String → List Sx → (List Sx × List String)
  | [], acc => (acc.reverse, [])
  | ")" :: r, acc => (acc.reverse, r)
  | "(" :: r, acc =>
    let (items, rest) := parseItems r []
    parseItems rest (Sx.l items :: acc)
  | t :: r, acc => parseItems r (Sx.a t :: acc)

def parseAll (s : String) : List Sx := (parseItems (tokenize s) []).1

def Sx.head : Sx → String
  | .l (.a h :: _) => h
  | _ => ""

def Sx.args : Sx → List Sx
  | .l (_ :: r) => r
  | _ => []

def Sx.atom : Sx → String
  | .a s => s
  | _ => ""

partial def Sx.hasHead (h : String) : Sx → Bool
  | .a _ => false
  | .l xs => (Sx.l xs).head == h || xs.any (Sx.hasHead h)

/-! ## numbers -/
def hexVal? (s : String) : Option Nat :=
  s.toList.foldl (fun acc c => match acc, hexDigit? c with
    | some n, some d => some (n * 16 + d)
    | _, _ => none) (some 0)

def hexOf (digits : Nat) (n : Nat) : String :=
  String.ofList ((List.range digits).reverse.map fun k => hexNibble ((n / 16 ^ k) % 16))

def tyOf? : String → Option Ty
  | "bool" => some .bool | "int" => some .int | "uint" => some .uint | "float" => some .float
  | "lit" => some .lit | "flit" => some .flit | "void" => some .void | _ => none

def showVal : Val → String
  | .b x => "b:" ++ (if x then "1" else "0")
  | .i x => "i:" ++ hexOf 8 x.toNat
  | .u x => "u:" ++ hexOf 8 x.toNat
  | .f x => "f:" ++ hexOf 8 x.toNat
  | .lit n => "l:" ++ toString n
  | .flit x => "d:" ++ hexOf 16 x.toNat
  | .void => "v"

def parseVal? (s : String) : Option Val :=
  if s == "v" then some .void else
  match s.splitOn ":" with
  | [k, r] =>
    match k with
    | "b" => some (.b (r == "1"))
    | "i" => (hexVal? r).map fun n => .i (BitVec.ofNat 32 n)
    | "u" => (hexVal? r).map fun n => .u (BitVec.ofNat 32 n)
    | "f" => (hexVal? r).map fun n => .f (BitVec.ofNat 32 n)
    | "l" => r.toInt?.map .lit
    | "d" => (hexVal? r).map fun n => .flit (BitVec.ofNat 64 n)
    | _ => none
  | _ => none

/-! ## IR from s-expressions -/
def parseConst? (x : Sx) : Option Const :=
  match x.args with
  | [k, v] =>
    match k.atom with
    | "bool" => some (.bool (v.atom == "1"))
    | "intlit" => v.atom.toInt?.map .intLit
    | "i32" => (hexVal? v.atom).map fun n => .int32 (BitVec.ofNat 32 n)
    | "u32" => (hexVal? v.atom).map fun n => .uint32 (BitVec.ofNat 32 n)
    | "f32" => (hexVal? v.atom).map fun n => .float32 (BitVec.ofNat 32 n)
    | "flit" => (hexVal? v.atom).map fun n => .floatLit (BitVec.ofNat 64 n)
    | _ => none
  | _ => none

mutual
partial def parseExpr? (x : Sx) : Option Ir.Expr :=
  match x.head, x.args with
  | "lit", _ => (parseConst? x).map .lit
  | "var", [n] => n.atom.toNat?.map .var
  | "glob", [n] => n.atom.toNat?.map .global
  | "tern", [c, t, f] => do
    let c ← parseExpr? c; let t ← parseExpr? t; let f ← parseExpr? f
    pure (.tern c t f)
  | "seq", es => (parseExprs? es).map .seq
  | "cast", [t, e] => do
    let t ← tyOf? t.atom; let e ← parseExpr? e
    pure (.cast t e)
  | "op", o :: es => do
    let o ← IntrinsicOp.ofName? o.atom
    let es ← parseExprs? es
    pure (.op o es)
  | "intr", n :: ret :: tys :: es => do
    let i ← Intrinsic.ofName? n.atom
    let ret ← tyOf? ret.atom
    let ts ← sequenceOpt (tys.args.map fun t => tyOf? t.atom)
    -- `tys` is a plain list `(t1 t2 …)`: its head is the first type
    let ts := match tyOf? tys.head with | some t => t :: ts | none => ts
    let t ← ts.head?
    if ts.all (· == t) then
      let es ← parseExprs? es
      pure (.intr i t ret es)
    else none
  | "call", f :: es => do
    let f ← f.atom.toNat?
    let es ← parseExprs? es
    pure (.call f es)
  | _, _ => none
partial def parseExprs? : List Sx → Option Ir.Exprs
  | [] => some .nil
  | x :: r => do
    let e ← parseExpr? x
    let t ← parseExprs? r
    pure (.cons e t)
end

def parseOptExpr? (x : Sx) : Option (Option Ir.Expr) :=
  if x.head == "none" then some none else (parseExpr? x).map some

def parseVarDef? (items : List Sx) : Option (Nat × Option Ir.Expr) :=
  match items with
  | [n] => n.atom.toNat?.map (·, none)
  | [n, e] => do
    let n ← n.atom.toNat?; let e ← parseExpr? e
    pure (n, some e)
  | _ => none

mutual
partial def parseStmt? (x : Sx) : Option Ir.Stmt :=
  match x.head, x.args with
  | "expr", [e] => (parseExpr? e).map .expr
  | "var", items => (parseVarDef? items).map fun (n, i) => .var n i
  | "block", [b] => (parseBlock? b).map .block
  | "if", [c, b] => do
    let c ← parseExpr? c; let b ← parseBlock? b
    pure (.ifThen c b)
  | "ifelse", [c, t, f] => do
    let c ← parseExpr? c; let t ← parseBlock? t; let f ← parseBlock? f
    pure (.ifElse c t f)
  | "for", [i, c, n, b] => do
    let init ← match i.head with
      | "none" => some Ir.ForInit.empty
      | "e" => (i.args.head?.bind parseExpr?).map Ir.ForInit.expr
      | "defs" => (sequenceOpt (i.args.map fun d => parseVarDef? d.args)).map Ir.ForInit.defs
      | _ => none
    let c ← parseOptExpr? c; let n ← parseOptExpr? n; let b ← parseBlock? b
    pure (.for init c n b)
  | "while", [c, b] => do
    let c ← parseExpr? c; let b ← parseBlock? b
    pure (.while c b)
  | "dowhile", [b, c] => do
    let b ← parseBlock? b; let c ← parseExpr? c
    pure (.doWhile b c)
  | "switch", [t, c, b] => do
    let t ← tyOf? t.atom; let c ← parseExpr? c; let b ← parseBlock? b
    pure (.switch t c b)
  | "case", [c] => (parseConst? c).map .caseLabel
  | "default", [] => some .defaultLabel
  | "break", [] => some .break
  | "continue", [] => some .continue
  | "ret", [] => some (.ret none)
  | "ret", [e] => (parseExpr? e).map fun e => .ret (some e)
  | _, _ => none
partial def parseStmts? : List Sx → Option Ir.Stmts
  | [] => some .nil
  | x :: r => do
    let s ← parseStmt? x
    let t ← parseStmts? r
    pure (.cons s t)
partial def parseBlock? (x : Sx) : Option Ir.Stmts :=
  if x.head == "b" then parseStmts? x.args else none
end

def parseDir? : String → Option Dir
  | "in" => some .in_ | "out" => some .out | "inout" => some .inout | _ => none

def parseFunc? (x : Sx) : Option Ir.Func :=
  match x.head, x.args with
  | "fn", [id, ret, ps, body] => do
    let id ← id.atom.toNat?
    let ret ← tyOf? ret.atom
    let ps ← sequenceOpt (ps.args.map fun p =>
      match p.args with
      | [n, d, t] => do
        let n ← n.atom.toNat?; let d ← parseDir? d.atom; let t ← tyOf? t.atom
        pure (n, d, t)
      | _ => none)
    let body ← parseBlock? body
    pure { id := id, ret := ret, params := ps, body := body }
  | _, _ => none

/-! ## the exporter's tree as s-expression text -/
def showLit : HlslAst.Lit → String
  | .bool b => "(lit bool " ++ (if b then "1" else "0") ++ ")"
  | .intUntyped n => "(lit int " ++ toString n ++ ")"
  | .intUnsigned32 n => "(lit uint " ++ toString n ++ ")"
  | .float32 x => "(lit f32 " ++ hexOf 8 x.toNat ++ ")"
  | .floatUntyped x => "(lit flt " ++ hexOf 16 x.toNat ++ ")"

mutual
def showExpr : HlslAst.Expr → String
  | .lit l => showLit l
  | .ident s => "(id " ++ s ++ ")"
  | .un op e => "(un " ++ op.name ++ " " ++ showExpr e ++ ")"
  | .bin op x y => "(bin " ++ op.name ++ " " ++ showExpr x ++ " " ++ showExpr y ++ ")"
  | .tern c t f => "(tern " ++ showExpr c ++ " " ++ showExpr t ++ " " ++ showExpr f ++ ")"
  | .cast t e => "(cast " ++ t ++ " " ++ showExpr e ++ ")"
  | .call f args => "(call " ++ f ++ showArgs args ++ ")"
def showArgs : HlslAst.Exprs → String
  | .nil => ""
  | .cons e r => " " ++ showExpr e ++ showArgs r
end

def showOptExpr : Option HlslAst.Expr → String
  | none => "(none)"
  | some e => showExpr e

def showDef (d : String × Option HlslAst.Expr) : String :=
  match d.2 with
  | none => "(d " ++ d.1 ++ ")"
  | some e => "(d " ++ d.1 ++ " " ++ showExpr e ++ ")"

mutual
def showStmt : HlslAst.Stmt → String
  | .expr e => "(expr " ++ showExpr e ++ ")"
  | .var t n i => "(var " ++ t ++ " " ++ showDef (n, i) ++ ")"
  | .block b => "(block" ++ showStmts b ++ ")"
  | .ifThen c b => "(if " ++ showExpr c ++ " " ++ showStmt b ++ ")"
  | .ifElse c t f => "(ifelse " ++ showExpr c ++ " " ++ showStmt t ++ " " ++ showStmt f ++ ")"
  | .for i c n b =>
    let init := match i with
      | .empty => "(none)"
      | .expr e => "(e " ++ showExpr e ++ ")"
      | .decl t ds => "(decl " ++ t ++ String.join (ds.map fun d => " " ++ showDef d) ++ ")"
    "(for " ++ init ++ " " ++ showOptExpr c ++ " " ++ showOptExpr n ++ " " ++ showStmt b ++ ")"
  | .while c b => "(while " ++ showExpr c ++ " " ++ showStmt b ++ ")"
  | .doWhile b c => "(dowhile " ++ showStmt b ++ " " ++ showExpr c ++ ")"
  | .break => "(break)"
  | .continue => "(continue)"
  | .ret none => "(ret)"
  | .ret (some e) => "(ret " ++ showExpr e ++ ")"
  | .empty => "(empty)"
  | .switch c b => "(switch " ++ showExpr c ++ " " ++ showStmt b ++ ")"
  | .caseLabel e s => "(case " ++ showExpr e ++ " " ++ showStmt s ++ ")"
  | .defaultLabel s => "(default " ++ showStmt s ++ ")"
def showStmts : HlslAst.Stmts → String
  | .nil => ""
  | .cons s r => " " ++ showStmt s ++ showStmts r
end

def showDir : Dir → String
  | .in_ => "in" | .out => "out" | .inout => "inout"

def showFunc (f : HlslAst.Func) : String :=
  let ps := f.params.map fun (n, d, t) => "(p " ++ n ++ " " ++ showDir d ++ " " ++ t ++ ")"
  "(fn " ++ f.name ++ " " ++ f.ret ++ " (" ++ " ".intercalate ("params" :: ps) ++ ") (block" ++ showStmts f.body ++ "))"

/-! ## the concrete primitive interpretation (must equal harness/src/c01/sx.rs) -/
def fcode : MBin → Nat
  | .add => 1 | .sub => 2 | .mul => 3 | .div => 4 | .mod => 5 | _ => 0

def concretePrim : Prim where
  -- arithmetic: a hash-like function that satisfies no algebraic law (not commutative, no identities, no inverses)
  fbin m x y := (x.rotateLeft 5 ^^^ (y * 0x9E3779B1#32)) + BitVec.ofNat 32 (fcode m)
  -- comparisons: IEEE-754 (NaN is unordered: `¬(a < b)` is not `a >= b`; `+0 == -0`); see Model/Ieee.lean
  fcmp := ieeeCmp
  fneg x := x ^^^ 0x80000000#32
  fstep inc x := if inc then x + 0x00800000#32 else x - 0x00800000#32
  idiv signed x y := if y == 0 then 0xFFFFFFFF#32 else if signed then x.sdiv y else x / y
  imod signed x y := if y == 0 then x else if signed then x.srem y else x % y
  -- conversions: the real ones (round to nearest even; toward zero, NaN ↦ 0, saturating)
  i2f x := Ieee.i2f x
  u2f x := Ieee.u2f x
  f2i x := Ieee.f2i x
  f2u x := Ieee.f2u x
  f2b x := (x &&& 0x7FFFFFFF#32) != 0
  d2f d := d.truncate 32 ^^^ (d >>> 32).truncate 32
  intr i t vals :=
    let step (h : UInt32) (x : UInt32) : UInt32 := (h ^^^ x) * 16777619
    let bytes (s : String) (h : UInt32) : UInt32 := s.toList.foldl (fun h c => step h c.toNat.toUInt32) h
    let tyName : Ty → String
      | .bool => "bool" | .int => "int" | .uint => "uint" | .float => "float" | .lit => "lit" | .flit => "flit" | .void => "void"
    let payload : Val → UInt32
      | .b x => if x then 1 else 0
      | .i x => x.toNat.toUInt32 | .u x => x.toNat.toUInt32 | .f x => x.toNat.toUInt32
      | _ => 0xdead
    let h := vals.foldl (fun h v => step h (payload v)) (bytes (tyName t) (bytes i.name 2166136261))
    match Ast.builtinRet i t with
    | .bool => some (.b (h &&& 1 == 1))
    | .int => some (.i (BitVec.ofNat 32 h.toNat))
    | .uint => some (.u (BitVec.ofNat 32 h.toNat))
    | .float => some (.f (BitVec.ofNat 32 h.toNat))
    | _ => none

def FUEL : Nat := 64
def DEPTH : Nat := 12

/-! ## context -/
structure Info where
  vars : List (Nat × String × Ty)
  globs : List (Nat × String × Ty × Val)
  funcs : List (Nat × String)
  target : Nat

def parseCtx? (s : String) : Option Info := do
  let parts := s.splitOn ";"
  let field (k : String) : Option String :=
    (parts.find? (·.startsWith (k ++ "="))).map fun p => (p.drop (k.length + 1)).toString
  let items (t : String) : List String := if t.isEmpty then [] else t.splitOn ","
  let vars ← sequenceOpt ((items (← field "vars")).map fun it =>
    match it.splitOn ":" with
    | [i, n, t] => do pure ((← i.toNat?), n, (← tyOf? t))
    | _ => none)
  let globs ← sequenceOpt ((items (← field "globs")).map fun it =>
    match it.splitOn ":" with
    | [i, n, t, k, v] => do pure ((← i.toNat?), n, (← tyOf? t), (← parseVal? (k ++ ":" ++ v)))
    | [i, n, t, "v"] => do pure ((← i.toNat?), n, (← tyOf? t), Val.void)
    | _ => none)
  let funcs ← sequenceOpt ((items (← field "funcs")).map fun it =>
    match it.splitOn ":" with
    | [i, n] => do pure ((← i.toNat?), n)
    | _ => none)
  let target ← (← field "target").toNat?
  pure { vars := vars, globs := globs, funcs := funcs, target := target }

def Info.ctx (inf : Info) : Ctx where
  locName n := ((inf.vars.find? (·.1 == n)).map (·.2.1)).getD ("?v" ++ toString n)
  globName n := ((inf.globs.find? (·.1 == n)).map (·.2.1)).getD ("?g" ++ toString n)
  funcName n := ((inf.funcs.find? (·.1 == n)).map (·.2)).getD ("?f" ++ toString n)
  vty
    | .loc n => ((inf.vars.find? (·.1 == n)).map (·.2.2)).getD .void
    | .glob n => ((inf.globs.find? (·.1 == n)).map (·.2.2.1)).getD .void

/-- C name lookup for the emitted program: an identifier denotes the variable that was given that name -/
def Info.env (inf : Info) (locals : List Nat) : Ast.Env where
  res s :=
    -- parameters and locals of the function first, then globals (C scoping for the names of this subset)
    match (inf.vars.filter fun v => locals.contains v.1).find? (·.2.1 == s) with
    | some v => some (.loc v.1)
    | none => (inf.globs.find? (·.2.1 == s)).map fun g => .glob g.1
  vty := inf.ctx.vty
  fres s := (inf.funcs.find? (·.2 == s)).map (·.1)

mutual
partial def exprVars : Ir.Expr → List Nat
  | .var n => [n]
  | .op _ a => exprsVars a
  | .tern c t f => exprVars c ++ exprVars t ++ exprVars f
  | .seq a => exprsVars a
  | .cast _ e => exprVars e
  | .call _ a => exprsVars a
  | .intr _ _ _ a => exprsVars a
  | _ => []
partial def exprsVars : Ir.Exprs → List Nat
  | .nil => []
  | .cons e r => exprVars e ++ exprsVars r
end

def optVars : Option Ir.Expr → List Nat
  | none => []
  | some e => exprVars e

mutual
partial def stmtVars : Ir.Stmt → List Nat
  | .expr e => exprVars e
  | .var n i => n :: optVars i
  | .block b => stmtsVars b
  | .ifThen c b => exprVars c ++ stmtsVars b
  | .ifElse c t f => exprVars c ++ stmtsVars t ++ stmtsVars f
  | .for i c n b =>
    (match i with
      | .empty => []
      | .expr e => exprVars e
      | .defs ds => ds.flatMap fun d => d.1 :: optVars d.2) ++ optVars c ++ optVars n ++ stmtsVars b
  | .while c b => exprVars c ++ stmtsVars b
  | .doWhile b c => stmtsVars b ++ exprVars c
  | .ret e => optVars e
  | .switch _ c b => exprVars c ++ stmtsVars b
  | _ => []
partial def stmtsVars : Ir.Stmts → List Nat
  | .nil => []
  | .cons s r => stmtVars s ++ stmtsVars r
end

def showOutcome (inf : Info) (r : Option (Val × List Val × Store)) : String :=
  match r with
  | none => "none"
  | some (ret, ps, σ) =>
    "r=" ++ showVal ret ++ " p=" ++ ",".intercalate (ps.map showVal) ++
    " g=" ++ ",".intercalate (inf.globs.map fun g => showVal (σ (.glob g.1)))

def panicCategory (site : String) : String :=
  if (site.splitOn "negate with overflow").length > 1 then "negate-overflow"
  else if (site.splitOn "cannot represent").length > 1 then "cannot-represent"
  else if (site.splitOn "assertion").length > 1 then "assert"
  else "other"

def parseVectors (s : String) : Option (List (List Val)) :=
  if s.isEmpty then some [[]] else
  sequenceOpt ((s.splitOn ";").map fun v =>
    if v.isEmpty then some [] else sequenceOpt ((v.splitOn ",").map parseVal?))

/-- the emitted program's callable functions: every AST function runs in its own name environment -/
def astPhi (inf : Info) (irProg : List Ir.Func) (astProg : List (Nat × HlslAst.Func)) : Nat → FEnv
  | 0 => fun _ _ _ => none
  | d + 1 => fun f vals σ =>
    match astProg.find? (·.1 == f), irProg.find? (·.id == f) with
    | some (_, afn), some ifn =>
      let env := inf.env (ifn.params.map (·.1) ++ stmtsVars ifn.body)
      let sig := Ast.sigOf env (astProg.map (·.2))
      Ast.callFunc { P := concretePrim, phi := astPhi inf irProg astProg d, sig := sig } env FUEL afn vals σ
    | _, _ => none

/-- Is the hypothesis `Agree` of the theorems satisfiable for this module?  The C semantics of the Lean model resolves a
name through one flat environment per function (`Info.env`): it needs the emitted names of a function's parameters and
locals to be pairwise different and different from the names of the static globals.  That fails (a) for source programs
that shadow a name or re-use it in a sibling block — the name map keeps both verbatim; the harness's text evaluator
handles those by C block scoping (harness/src/c01/scopes.rs) — and (b) when the name map itself gives two variables of
one function the same name (what C15 / `Thm.C01Names.local_pass_collision_free` exclude).  Without it a difference
between the two Lean semantics says nothing about the exporter. -/
def namesFlat (inf : Info) (prog : List Ir.Func) : Bool :=
  prog.all fun f =>
    let ids := (f.params.map (·.1) ++ stmtsVars f.body).eraseDups
    let ns := ids.map inf.ctx.locName
    ns.eraseDups.length == ns.length && ns.all fun n => !(inf.globs.any (·.2.1 == n))

def handleFn (vectors ctx ir : String) : String :=
  let items := parseAll ir
  if items.any (Sx.hasHead "unsupported") || (ctx.splitOn "unsupported").length > 1 then "unsupported" else
  match parseCtx? ctx, sequenceOpt (items.map parseFunc?), parseVectors vectors with
  | some inf, some prog, some vecs =>
    match prog.find? (·.id == inf.target) with
    | none => "bad-request: target"
    | some fn =>
      let cx := inf.ctx
      -- the exporter generates every function of the module: the first failure is what the caller sees
      let gens := prog.map fun f => (f.id, genFunc cx f)
      let firstErr : Option GenErr := gens.findSome? (fun g => match g.2 with | .error e => some e | .ok _ => none)
      match firstErr with
      | some (GenErr.panic site) => "panic " ++ panicCategory site
      | some (GenErr.diag _) => "generate-error"
      | some (GenErr.unsupported _) => "unsupported"
      | none =>
        let astProg : List (Nat × HlslAst.Func) := gens.filterMap fun g => match g.2 with | .ok a => some (g.1, a) | .error _ => none
        match astProg.find? (·.1 == fn.id) with
        | none => "bad-request: gen"
        | some (_, afn) =>
          let σ0 : Store := fun x => match x with
            | .glob n => ((inf.globs.find? (·.1 == n)).map (·.2.2.2)).getD .void
            | .loc _ => .void
          -- hypotheses of theorem `gen_sem_*`: only under them is a difference between the two semantics a defect of the model
          let wt := (prog.all fun f => Ir.wtFunc (Ir.sigOf prog) cx.vty f) && namesFlat inf prog
          let outs := vecs.map fun v =>
            let r1 := Ir.phi concretePrim prog FUEL DEPTH fn.id v σ0
            let r2 := astPhi inf prog astProg DEPTH fn.id v σ0
            let s1 := showOutcome inf r1
            let s2 := showOutcome inf r2
            if s1 == s2 || !wt then s1 else s1 ++ " MODEL-AST-DIFF(" ++ s2 ++ ")"
          "ast " ++ showFunc afn ++ " ;; run " ++ " | ".intercalate outs
  | _, _, _ => "bad-request"

/-- `C01.prim`: the concrete primitive interpretation itself, compared with the harness's (sx.rs) on edge values —
`cmp a b,b,…` ↦ per `b` the six comparisons `< <= > >= == !=` as bits; `conv x,x,…` ↦ per `x` the five conversions -/
def handlePrim (kind : String) (rest : List String) : String :=
  let bit (b : Bool) : String := if b then "1" else "0"
  let vals (t : String) : Option (List (BitVec 32)) :=
    sequenceOpt ((t.splitOn ",").map fun w => (hexVal? w).map (BitVec.ofNat 32))
  match kind, rest with
  | "cmp", [a, bs] =>
    match hexVal? a, vals bs with
    | some a, some bs =>
      let a := BitVec.ofNat 32 a
      " ".intercalate (bs.map fun b =>
        String.join ([MBin.lt, .le, .gt, .ge, .eq, .ne].map fun m => bit (concretePrim.fcmp m a b)))
    | _, _ => "bad-request"
  | "conv", [xs] =>
    match vals xs with
    | some xs =>
      " ".intercalate (xs.map fun x =>
        hexOf 8 (concretePrim.i2f x).toNat ++ "," ++ hexOf 8 (concretePrim.u2f x).toNat ++ "," ++
        hexOf 8 (concretePrim.f2i x).toNat ++ "," ++ hexOf 8 (concretePrim.f2u x).toNat ++ "," ++ bit (concretePrim.f2b x))
    | none => "bad-request"
  | _, _ => "bad-request"

def handle (op : String) (args : List String) : String :=
  match op, args with
  | "C01.prim", kind :: rest => handlePrim kind rest
  | "C01.fn", [_src, name, vectors, ctx, ir] => if name == "-" then "skip" else handleFn vectors ctx ir
  | "C01.wt", [_src, _name, _vectors, ctx, ir] =>
    -- do the hypotheses of the theorems hold for this program? (statistics of the correspondence run)
    match parseCtx? ctx, sequenceOpt ((parseAll ir).map parseFunc?) with
    | some inf, some prog =>
      if !(prog.all fun f => Ir.wtFunc (Ir.sigOf prog) inf.ctx.vty f) then "not-wt"
      else if namesFlat inf prog then "wt" else "no-agree"
    | _, _ => "unsupported"
  | "C01.fn", _ => "skip"
  | _, _ => "unsupported-op"

end RsslVerif.Driver.C01

import RsslVerif.Lemmas.MacroScope
import RsslVerif.Lemmas.Include
/-!
# C12 — macro expansion and inclusion equal reference textual substitution

Theorems about `Model.Macro` / `Model.Include` (the model of `preprocess/src/preprocess.rs`), for token lists, macro
tables, include graphs of any size.  The model is tied to the code by `Gen.MacroTables` (re-extracted every run) and
by the correspondence run on generated macro programs.
-/
namespace RsslVerif.Thm.C12
open RsslVerif.Gen.MacroTables RsslVerif.Model.Macro RsslVerif.Model.Include RsslVerif.Spec.CPre
open RsslVerif.Lemmas.MacroScope RsslVerif.Lemmas.Include

/-- Tie to the source: the shapes of `preprocess_command`, `apply_single_macro`, `preprocess_initial_file`,
`Token::is_whitespace` and `compile()` the model was written against. -/
theorem source_shape :
    definingDirectives = ["define", "undef"] ∧ defineRetainsThenPushes = true ∧ undefRetains = true ∧
    argsShareDisabled = true ∧ initialDefinesPlainPush = true ∧
    pragmas = ["once", "warning"] ∧
    whitespaceTokens = ["Endline", "PhysicalEndline", "Whitespace", "Comment"] ∧
    (∀ t, (compileDefines t).map (·.1) = ["__HLSL_VERSION", "RSSL_TARGET_HLSL", "RSSL_TARGET_MSL"]) ∧
    userDefinesAppended = true := by
  refine ⟨by decide, by decide, by decide, by decide, by decide, by decide, by decide, ?_, by decide⟩
  intro t; cases t <;> decide

/-! ## Scope of definitions -/

/-- **define_undef_scoping.** Starting from a macro list with pairwise distinct names (in particular the empty
one, or API-level defines with distinct names), any sequence of `#define` / `#undef` directives keeps the names
pairwise distinct -- the list never holds two entries of one name -- the `assert_eq!` in the `undef` arm never fails,
and, starting from the empty list, looking a name up gives the latest `#define` of that name that is not followed by
an `#undef` of it. -/
theorem define_undef_scoping :
    (∀ (ms : List Macro) (evs : List (Event Macro)), (names ms).Nodup → (names (applyEvents ms evs)).Nodup) ∧
    (∀ (ms ms' : List Macro) cmd, doDefine ms cmd = .ok ms' →
        ∃ m, parseDefine cmd = .ok m ∧ ms' = applyEvent ms (.define m.name m)) ∧
    (∀ (ms ms' : List Macro) cmd, doUndef ms cmd = .ok ms' →
        ∃ n b, trim cmd = [⟨.id n, b⟩] ∧ ms' = applyEvent ms (.undef n)) ∧
    (∀ (ms : List Macro) cmd site, (names ms).Nodup → doUndef ms cmd ≠ .error (.panic site)) ∧
    (∀ (evs : List (Event Macro)) n, (∀ e ∈ evs, WellNamed e) →
        lookupList (applyEvents [] evs) n = lookup evs n) :=
  ⟨fun _ evs h => nodup_applyEvents h evs, fun _ _ _ h => doDefine_eq h, fun _ _ _ h => doUndef_eq h,
   fun _ cmd site h => doUndef_no_panic h cmd site, fun evs n h => lookupList_applyEvents evs h n⟩

/-- non-vacuity: define, redefine, undefine, define again -/
example :
    let a1 : Macro := ⟨"A", false, 0, [⟨.int "1", true⟩]⟩
    let a2 : Macro := ⟨"A", false, 0, [⟨.int "2", true⟩]⟩
    let b : Macro := ⟨"B", true, 1, [⟨.arg 0, true⟩]⟩
    let evs : List (Event Macro) := [.define "A" a1, .define "B" b, .define "A" a2, .undef "B"]
    applyEvents [] evs = [a2] ∧ lookup evs "A" = some a2 ∧ lookup evs "B" = none := by
  decide

/-- The full statement "the macro list never holds two entries of one name" is **false** for the pinned code when the
API-level define list repeats a name: both entries are kept, and `#undef` of that name then trips the assertion
(replayed on the real code: corpus/C12.txt). -/
theorem api_duplicates_break_scoping :
    let ms := [("A", [Tok.int "1"]), ("A", [Tok.int "2"])].map apiMacro
    ¬ (names ms).Nodup ∧
    doUndef ms [⟨.ws, true⟩, ⟨.id "A", true⟩] =
      .error (.panic "preprocess/src/preprocess.rs: assertion `left == right` failed") := by
  refine ⟨by decide, rfl⟩

/-! ## Inclusion -/

/-- **include_is_paste.** If `#include "f"` succeeds (the file loads, is not marked `#pragma once`, and has no
top-level `#pragma once` line of its own), then replacing the directive by the lines of `f`, placed between two
directives without effect (`#pragma warning`: they stand for the two block boundaries the inclusion creates --
macro invocations do not span the start or the end of an included file), gives exactly the same state: same output
tokens, same macro list, same once-set.  (`pre`, `post`: the lines before and after the directive; nested
includes inside `f` are processed by the same recursive call on both sides.) -/
theorem include_is_paste (h : Handler) (fuel : Nat) (cur f : String) (lines pre post : List Line)
    (s r : State × List PTok)
    (hload : h f = some lines)
    (hnot : ∀ s' : State × List PTok,
        foldLines (includeFile h (fuel + 1)) cur s pre = .ok s' → s'.1.once.contains f = false)
    (hne : lines ≠ []) (hno : Line.pragmaOnce ∉ lines)
    (hrun : foldLines (includeFile h (fuel + 1)) cur s (pre ++ [.incl f] ++ post) = .ok r) :
    foldLines (includeFile h (fuel + 1)) cur s
      (pre ++ [.pragmaWarning] ++ lines ++ [.pragmaWarning] ++ post) = .ok r := by
  simp only [List.append_assoc] at hrun ⊢
  rw [foldLines_append] at hrun ⊢
  cases hpre : foldLines (includeFile h (fuel + 1)) cur s pre with
  | error e => simp [hpre] at hrun
  | ok s1 =>
    obtain ⟨st1, act1⟩ := s1
    simp only [hpre] at hrun ⊢
    simp only [List.cons_append, List.nil_append, foldLines, stepLine] at hrun ⊢
    cases hfl : flush st1 act1 with
    | error e => simp [hfl] at hrun
    | ok st2 =>
      simp only [hfl] at hrun ⊢
      have honce : st2.once.contains f = false := by
        have := hnot _ hpre
        simpa [flush_once hfl] using this
      simp only [includeFile, hload, honce, Bool.false_eq_true, if_false] at hrun
      have hstart : fileStart lines = [] := by
        cases lines with
        | nil => exact absurd rfl hne
        | cons _ _ => rfl
      simp only [runFile, hstart] at hrun
      rw [foldLines_append]
      cases hin : foldLines (includeFile h fuel) f (st2, []) lines with
      | error e => simp [hin] at hrun
      | ok s3 =>
        obtain ⟨st3, act3⟩ := s3
        simp only [hin] at hrun
        -- the same lines, read as part of the including file and with one more unit of fuel
        have h1 : foldLines (includeFile h (fuel + 1)) cur (st2, []) lines = .ok (st3, act3) := by
          rw [foldLines_cur_irrelevant _ cur f _ _ hno]
          exact foldLines_mono (includeFile_fuel_mono h fuel) f _ lines _ hin
        simp only [h1, foldLines, stepLine]
        cases hfl3 : flush st3 act3 with
        | error e => simp [hfl3] at hrun
        | ok st4 =>
          simp only [hfl3] at hrun ⊢
          exact hrun

/-- **pragma_once_once.** Once a file with a top-level `#pragma once` line has been processed, it is in the once-set,
it stays there for the rest of the compilation (the set only grows, through every nested include), and every later
`#include` of it contributes nothing but the line end the lexer adds to an empty file: no macro is defined or
removed and no other token is emitted. -/
theorem pragma_once_once (h : Handler) (fuel : Nat) (f : String) (lines : List Line) (st st1 : State)
    (hload : h f = some lines) (hmem : Line.pragmaOnce ∈ lines) (hfresh : st.once.contains f = false)
    (hrun : includeFile h (fuel + 1) f st = .ok st1) :
    f ∈ st1.once ∧
    (∀ (fuel' : Nat) (g : String) (st2 : State), includeFile h fuel' g st1 = .ok st2 → f ∈ st2.once) ∧
    (∀ (fuel' : Nat) (st2 : State), f ∈ st2.once →
      includeFile h (fuel' + 1) f st2 = .ok { st2 with out := st2.out ++ [eol] }) := by
  refine ⟨?_, ?_, ?_⟩
  · simp only [includeFile, hload, hfresh, Bool.false_eq_true, if_false, runFile] at hrun
    cases hin : foldLines (includeFile h fuel) f (st, fileStart lines) lines with
    | error e => simp [hin] at hrun
    | ok s3 =>
      obtain ⟨st3, act3⟩ := s3
      simp only [hin] at hrun
      have := foldLines_marks (includeFile_onceGrows h fuel) f _ _ lines hmem hin
      simpa [flush_once hrun] using this
  · intro fuel' g st2 hr
    have h1 : f ∈ st1.once := by
      simp only [includeFile, hload, hfresh, Bool.false_eq_true, if_false, runFile] at hrun
      cases hin : foldLines (includeFile h fuel) f (st, fileStart lines) lines with
      | error e => simp [hin] at hrun
      | ok s3 =>
        obtain ⟨st3, act3⟩ := s3
        simp only [hin] at hrun
        have := foldLines_marks (includeFile_onceGrows h fuel) f _ _ lines hmem hin
        simpa [flush_once hrun] using this
    exact includeFile_onceGrows h fuel' g st1 st2 hr f h1
  · intro fuel' st2 hin
    have hc : st2.once.contains f = true := by simpa using hin
    simp only [includeFile, hload, hc, if_true, runFile, fileStart, foldLines, flush, applyMacros_eol]

end RsslVerif.Thm.C12

import RsslVerif.Model.ElabX
/-!
# Model of statement checking (typer/src/typer/statements.rs)

`parse_statement`, `parse_scopeblock`, `parse_vardef` (one declarator per definition), `parse_initializer` (single
expressions and aggregate initialisers `{..}`), `parse_for_init`.

What the code does, and the model follows:

* the condition of `if` / `while` / `do` / `switch` and the condition and increment of `for` are checked by `parse_expr`
  and stored **as they are**: no conversion to `bool` or to an integer type is inserted, any typed expression is accepted;
* `return e;` converts `e` to the function's return type (`WrongTypeInReturnStatement`), `return;` needs a `void` function;
* `T v = e;` converts `e` to the unmodified `T` (`InitializerExpressionWrongType`);
* `T v = { .. };` there is **no flattening**: a scalar takes exactly one item (`{x}` and `{{x}}` are read as `x`), a vector of
  width `n` exactly `n` items each initialising one scalar, an array of length `n` exactly `n` items each initialising one
  element, a struct one item per data member; matrices, enums and everything else are
  `InitializerAggregateDoesNotMatchType`; a wrong count is `InitializerAggregateWrongDimension`;
* a definition's initialiser is checked before the variable is registered; variables get consecutive ids in
  `variable_registry` (`Env.vars`), and leave the name scope at the end of the block that declared them (`Env.hidden`);
* `if` / `for` / `while` / `do` / `switch` open a scope that is merged with the scope of their body (`parse_scopeblock`);
  the condition of `do .. while` is checked after that scope has been closed;
* `case e:` checks `e` and evaluates it as a constant expression: the model covers literal labels only (anything else is
  `unsupported`); a label and the statement it is attached to become consecutive statements.
-/
namespace RsslVerif.Model.StmtX
open RsslVerif.Gen.RankTable RsslVerif.Gen.TypingTables RsslVerif.Model.Conv RsslVerif.Model.Overload
open RsslVerif.Model.IrTypingX RsslVerif.Model.ElabX
open RsslVerif.Model.Elab (Err)

mutual
/-- `ast::Initializer` -/
inductive SInit where
  | expr (e : SExpr)
  | agg (items : SInits)
  deriving Repr, Inhabited
inductive SInits where
  | nil
  | cons (i : SInit) (r : SInits)
  deriving Repr, Inhabited
end

def SInits.length : SInits → Nat
  | .nil => 0
  | .cons _ r => r.length + 1

def SInits.ofList : List SInit → SInits
  | [] => .nil
  | i :: r => .cons i (SInits.ofList r)

/-- `ast::InitStatement` -/
inductive SForInit where
  | none
  | expr (e : SExpr)
  | decl (t : Ty) (init : Option SInit)
  deriving Repr, Inhabited

mutual
/-- fragment of `ast::StatementKind` -/
inductive SStmt where
  | expr (e : SExpr)
  | ret (e : Option SExpr)
  /-- `T v<n> [= init];` where `n` is the number of variables registered so far -/
  | decl (t : Ty) (init : Option SInit)
  | block (ss : SStmts)
  | ifS (c : SExpr) (s : SStmt)
  | ifElse (c : SExpr) (s1 s2 : SStmt)
  | forS (init : SForInit) (c n : Option SExpr) (s : SStmt)
  | whileS (c : SExpr) (s : SStmt)
  | doS (s : SStmt) (c : SExpr)
  | switchS (c : SExpr) (s : SStmt)
  | caseS (c : SExpr) (s : SStmt)
  | defaultS (s : SStmt)
  | breakS
  | continueS
  | discardS
  | emptyS
  deriving Repr, Inhabited
inductive SStmts where
  | nil
  | cons (s : SStmt) (r : SStmts)
  deriving Repr, Inhabited
end

def SStmts.ofList : List SStmt → SStmts
  | [] => .nil
  | s :: r => .cons s (SStmts.ofList r)

mutual
/-- `ir::Initializer` -/
inductive IInit where
  | expr (e : IExpr)
  | agg (items : IInits)
  deriving Repr, Inhabited
inductive IInits where
  | nil
  | cons (i : IInit) (r : IInits)
  deriving Repr, Inhabited
end

def IInits.toList : IInits → List IInit
  | .nil => []
  | .cons i r => i :: r.toList

/-- `ir::ForInit` (one definition per declaration) -/
inductive IForInit where
  | none
  | expr (e : IExpr)
  | decl (t : Ty) (id : Nat) (init : Option IInit)
  deriving Repr, Inhabited

mutual
/-- fragment of `ir::StatementKind`; a `ScopeBlock` is its statement list -/
inductive IStmt where
  | expr (e : IExpr)
  | ret (e : Option IExpr)
  /-- `Var(VarDef { id, init })`; `t` is the type registered for the variable -/
  | decl (t : Ty) (id : Nat) (init : Option IInit)
  | block (ss : IStmts)
  | ifS (c : IExpr) (b : IStmts)
  | ifElse (c : IExpr) (b1 b2 : IStmts)
  | forS (init : IForInit) (c n : Option IExpr) (b : IStmts)
  | whileS (c : IExpr) (b : IStmts)
  | doS (b : IStmts) (c : IExpr)
  | switchS (c : IExpr) (b : IStmts)
  | caseLabel
  | defaultLabel
  | breakS
  | continueS
  | discardS
  deriving Repr, Inhabited
inductive IStmts where
  | nil
  | cons (s : IStmt) (r : IStmts)
  deriving Repr, Inhabited
end

def IStmts.toList : IStmts → List IStmt
  | .nil => []
  | .cons s r => s :: r.toList

def IStmts.append : IStmts → IStmts → IStmts
  | .nil, b => b
  | .cons s r, b => .cons s (r.append b)

def IStmts.one (s : IStmt) : IStmts := .cons s .nil

/-- `pop_scope_with_locals` for a scope opened when `mark` variables were registered: the variables registered since
    leave the name scope -/
def popScope (Γ : Env) (mark : Nat) : Env :=
  { Γ with hidden := Γ.hidden ++ (List.range (Γ.vars.length - mark)).map (· + mark) }

/-- registering a local variable: it gets the next id -/
def pushVar (Γ : Env) (t : Ty) : Env := { Γ with vars := Γ.vars ++ [t] }

/-- the `Expression` arm of `parse_initializer` -/
def elabInitExpr (dbg : Bool) (Γ : Env) (t : Ty) (e : SExpr) : Except Err IExpr :=
  match elabTop dbg Γ e with
  | .error m => .error m
  | .ok (e', τ) =>
    match find τ t.unmod.r with
    | .error m => .error (.panic m)
    | .ok none => .error (.reject "InitializerExpressionWrongType")
    | .ok (some c) => applyConv c e'

mutual
/-- `parse_initializer(init, ty)` -/
def elabInit (dbg : Bool) (Γ : Env) (t : Ty) : SInit → Except Err IInit
  | .expr e =>
    match elabInitExpr dbg Γ t e with
    | .error m => .error m
    | .ok e' => .ok (.expr e')
  | .agg items =>
    match t.layer with
    | .scalar s =>
      match items with
      -- `Reparse as if it was a single expression instead of a 1 element aggregate`
      | .cons i .nil => elabInit dbg Γ ⟨{}, .scalar s⟩ i
      | _ => .error (.reject "InitializerAggregateWrongDimension")
    | .vector s n =>
      if items.length ≠ n then .error (.reject "InitializerAggregateWrongDimension") else
      match elabInitsSame dbg Γ ⟨{}, .scalar s⟩ items with
      | .error m => .error m
      | .ok is => .ok (.agg is)
    | .other id =>
      match Γ.others[id]? with
      | some (.array elem len) =>
        if items.length ≠ len then .error (.reject "InitializerAggregateWrongDimension") else
        match elabInitsSame dbg Γ elem items with
        | .error m => .error m
        | .ok is => .ok (.agg is)
      | some (.struct ms) =>
        if items.length ≠ ms.length then .error (.reject "InitializerAggregateWrongDimension") else
        match elabInitsZip dbg Γ (ms.map (·.2)) items with
        | .error m => .error m
        | .ok is => .ok (.agg is)
      | some _ => .error (.reject "InitializerAggregateDoesNotMatchType")
      | none => .error (.unsupported "undeclared type")
    | _ => .error (.reject "InitializerAggregateDoesNotMatchType")
/-- `build_elements`: every item initialises a value of type `t` -/
def elabInitsSame (dbg : Bool) (Γ : Env) (t : Ty) : SInits → Except Err IInits
  | .nil => .ok .nil
  | .cons i r =>
    match elabInit dbg Γ t i with
    | .error m => .error m
    | .ok i' =>
      match elabInitsSame dbg Γ t r with
      | .error m => .error m
      | .ok r' => .ok (.cons i' r')
/-- the struct arm: `members.zip(exprs)` -/
def elabInitsZip (dbg : Bool) (Γ : Env) : List Ty → SInits → Except Err IInits
  | t :: ts, .cons i r =>
    match elabInit dbg Γ t i with
    | .error m => .error m
    | .ok i' =>
      match elabInitsZip dbg Γ ts r with
      | .error m => .error m
      | .ok r' => .ok (.cons i' r')
  | _, _ => .ok .nil
end

/-- `is_void` of the declared type (`parse_localtype`) -/
def isVoid (Γ : Env) (t : Ty) : Bool :=
  match t.layer with
  | .other id => Γ.others[id]? == some .void
  | _ => false

/-- `parse_vardef` for one declarator: the initialiser is checked, then the variable is registered -/
def elabDecl (dbg : Bool) (Γ : Env) (t : Ty) (init : Option SInit) : Except Err (Option IInit × Nat × Env) :=
  if isVoid Γ t then .error (.reject "VariableHasIncompleteType") else
  match init with
  | none => .ok (none, Γ.vars.length, pushVar Γ t)
  | some i =>
    match elabInit dbg Γ t i with
    | .error m => .error m
    | .ok i' => .ok (some i', Γ.vars.length, pushVar Γ t)

/-- an optional `parse_expr` (condition / increment of `for`) -/
def elabOpt (dbg : Bool) (Γ : Env) : Option SExpr → Except Err (Option IExpr)
  | none => .ok none
  | some e =>
    match elabTop dbg Γ e with
    | .error m => .error m
    | .ok (e', _) => .ok (some e')

/-- `parse_for_init` -/
def elabForInit (dbg : Bool) (Γ : Env) : SForInit → Except Err (IForInit × Env)
  | .none => .ok (.none, Γ)
  | .expr e =>
    match elabTop dbg Γ e with
    | .error m => .error m
    | .ok (e', _) => .ok (.expr e', Γ)
  | .decl t init =>
    match elabDecl dbg Γ t init with
    | .error m => .error m
    | .ok (i', id, Γ') => .ok (.decl t id i', Γ')

/-- the conversion of a returned value to the expected type `rt` -/
def convertRet (e : IExpr) (τ : ETy) (rt : Ty) : Except Err IExpr :=
  match find τ rt.r with
  | .error m => .error (.panic m)
  | .ok none => .error (.reject "WrongTypeInReturnStatement")
  | .ok (some c) => applyConv c e

/-- `Return(Some(expr))`: the value is converted to the function's return type.  In a `void` function the expected type
    is `void`, to which only an expression of type `void` (a call of a `void` function) converts. -/
def elabRet (dbg : Bool) (Γ : Env) (e : SExpr) : Except Err IExpr :=
  match elabTop dbg Γ e with
  | .error m => .error m
  | .ok (e', τ) =>
    match Γ.ret with
    | none =>
      match τ.ty.layer with
      | .other id =>
        if Γ.others[id]? = some .void then convertRet e' τ ⟨{}, .other id⟩
        else .error (.reject "WrongTypeInReturnStatement")
      | _ => .error (.reject "WrongTypeInReturnStatement")
    | some rt => convertRet e' τ rt

mutual
/-- `parse_statement` (`sc = false`): one source statement gives a list of typed statements (labels are statements of their
    own); and `parse_scopeblock` without its final `pop_scope` (`sc = true`): the statement is the body of an `if` / loop /
    `switch`, whose scope it shares — a block statement is then read without opening a scope of its own and its statements
    become the body directly, any other statement is read as usual -/
def elabStmt (dbg : Bool) (sc : Bool) (Γ : Env) : SStmt → Except Err (IStmts × Env)
  | .emptyS => .ok (.nil, Γ)
  | .expr e =>
    match elabTop dbg Γ e with
    | .error m => .error m
    | .ok (e', _) => .ok (.one (.expr e'), Γ)
  | .decl t init =>
    match elabDecl dbg Γ t init with
    | .error m => .error m
    | .ok (i', id, Γ') => .ok (.one (.decl t id i'), Γ')
  | .block ss =>
    match elabStmts dbg Γ ss with
    | .error m => .error m
    | .ok (ss', Γ') => if sc then .ok (ss', Γ') else .ok (.one (.block ss'), popScope Γ' Γ.vars.length)
  | .ifS c s =>
    match elabTop dbg Γ c with
    | .error m => .error m
    | .ok (c', _) =>
      match elabStmt dbg true Γ s with
      | .error m => .error m
      | .ok (b, Γ') => .ok (.one (.ifS c' b), popScope Γ' Γ.vars.length)
  | .ifElse c s1 s2 =>
    match elabTop dbg Γ c with
    | .error m => .error m
    | .ok (c', _) =>
      match elabStmt dbg true Γ s1 with
      | .error m => .error m
      | .ok (b1, Γ1) =>
        match elabStmt dbg true (popScope Γ1 Γ.vars.length) s2 with
        | .error m => .error m
        | .ok (b2, Γ2) => .ok (.one (.ifElse c' b1 b2), popScope Γ2 Γ.vars.length)
  | .forS init c n s =>
    match elabForInit dbg Γ init with
    | .error m => .error m
    | .ok (init', Γ0) =>
      match elabOpt dbg Γ0 c with
      | .error m => .error m
      | .ok c' =>
        match elabOpt dbg Γ0 n with
        | .error m => .error m
        | .ok n' =>
          match elabStmt dbg true Γ0 s with
          | .error m => .error m
          | .ok (b, Γ') => .ok (.one (.forS init' c' n' b), popScope Γ' Γ.vars.length)
  | .whileS c s =>
    match elabTop dbg Γ c with
    | .error m => .error m
    | .ok (c', _) =>
      match elabStmt dbg true Γ s with
      | .error m => .error m
      | .ok (b, Γ') => .ok (.one (.whileS c' b), popScope Γ' Γ.vars.length)
  | .doS s c =>
    match elabStmt dbg true Γ s with
    | .error m => .error m
    | .ok (b, Γ') =>
      -- the condition is checked after the scope of the body has been closed
      match elabTop dbg (popScope Γ' Γ.vars.length) c with
      | .error m => .error m
      | .ok (c', _) => .ok (.one (.doS b c'), popScope Γ' Γ.vars.length)
  | .switchS c s =>
    match elabTop dbg Γ c with
    | .error m => .error m
    | .ok (c', _) =>
      match elabStmt dbg true Γ s with
      | .error m => .error m
      | .ok (b, Γ') => .ok (.one (.switchS c' b), popScope Γ' Γ.vars.length)
  | .breakS => .ok (.one .breakS, Γ)
  | .continueS => .ok (.one .continueS, Γ)
  | .discardS => .ok (.one .discardS, Γ)
  | .ret none =>
    match Γ.ret with
    | none => .ok (.one (.ret none), Γ)
    | some _ => .error (.reject "WrongTypeInReturnStatement")
  | .ret (some e) =>
    match elabRet dbg Γ e with
    | .error m => .error m
    | .ok e' => .ok (.one (.ret (some e')), Γ)
  | .caseS c s =>
    match elabTop dbg Γ c with
    | .error m => .error m
    | .ok (c', _) =>
      match c' with
      | .lit _ =>
        match elabStmt dbg false Γ s with
        | .error m => .error m
        | .ok (ss, Γ') => .ok (.cons .caseLabel ss, Γ')
      | _ => .error (.unsupported "case label that is not a literal")
  | .defaultS s =>
    match elabStmt dbg false Γ s with
    | .error m => .error m
    | .ok (ss, Γ') => .ok (.cons .defaultLabel ss, Γ')
/-- `parse_statement_list` -/
def elabStmts (dbg : Bool) (Γ : Env) : SStmts → Except Err (IStmts × Env)
  | .nil => .ok (.nil, Γ)
  | .cons s r =>
    match elabStmt dbg false Γ s with
    | .error m => .error m
    | .ok (ss, Γ') =>
      match elabStmts dbg Γ' r with
      | .error m => .error m
      | .ok (rs, Γ'') => .ok (ss.append rs, Γ'')
end

end RsslVerif.Model.StmtX

//! C19: layout-consistency validation. Compiles generated programs whose buffer element types are the
//! request's types with `validate_layout_consistency(true)` and judges the verdict with two independent
//! reference layout calculators (HLSL structured-buffer packing, Metal struct layout).
//!
//! request : C19.check \t <use> \t <type>;<type>;...
//!   use   : sb | rwsb | bload | rwbload | rwbstore | baload | rwbaload | rwbastore
//!   type  : h i u f d b            scalar half/int/uint/float/double/bool
//!           f3                      vector          f2x3  matrix
//!           ei eu                   enum with underlying int / uint
//!           [N type]                array of N elements
//!           {type type ...}         struct (members in order)
//! observe : ok | unknown@K | mismatch@K hlsl=SIZE/ALIGN metal=SIZE/ALIGN | panic:<message>
//!           | error:<first line of an unexpected compile error>
//!   (K = index of the blamed type in the request, `?` when the message carries no location)
use crate::util::*;

#[derive(Clone, Debug, PartialEq)]
pub enum Ty {
    Scalar(char),
    Vec(char, u32),
    Mat(char, u32, u32),
    Enum(bool),
    Arr(Box<Ty>, u64),
    Struct(Vec<Ty>),
}

const USES: &[&str] = &[
    "sb", "rwsb", "bload", "rwbload", "rwbstore", "baload", "rwbaload", "rwbastore",
];

// ------------------------------------------------------------------------------------------------
// type syntax
// ------------------------------------------------------------------------------------------------
pub fn show(t: &Ty) -> String {
    match t {
        Ty::Scalar(c) => c.to_string(),
        Ty::Vec(c, n) => format!("{}{}", c, n),
        Ty::Mat(c, r, k) => format!("{}{}x{}", c, r, k),
        Ty::Enum(false) => "ei".into(),
        Ty::Enum(true) => "eu".into(),
        Ty::Arr(t, n) => format!("[{} {}]", n, show(t)),
        Ty::Struct(ms) => format!("{{{}}}", ms.iter().map(show).collect::<Vec<_>>().join(" ")),
    }
}

fn tokens(s: &str) -> Vec<String> {
    let mut out = Vec::new();
    let mut cur = String::new();
    for c in s.chars() {
        if "{}[]".contains(c) || c.is_whitespace() {
            if !cur.is_empty() {
                out.push(std::mem::take(&mut cur));
            }
            if !c.is_whitespace() {
                out.push(c.to_string());
            }
        } else {
            cur.push(c);
        }
    }
    if !cur.is_empty() {
        out.push(cur);
    }
    out
}

fn parse_ty(toks: &[String], i: &mut usize) -> Option<Ty> {
    let t = toks.get(*i)?.clone();
    *i += 1;
    match t.as_str() {
        "{" => {
            let mut ms = Vec::new();
            while toks.get(*i)? != "}" {
                ms.push(parse_ty(toks, i)?);
            }
            *i += 1;
            Some(Ty::Struct(ms))
        }
        "[" => {
            let n: u64 = toks.get(*i)?.parse().ok()?;
            *i += 1;
            let e = parse_ty(toks, i)?;
            if toks.get(*i)? != "]" {
                return None;
            }
            *i += 1;
            Some(Ty::Arr(Box::new(e), n))
        }
        "ei" => Some(Ty::Enum(false)),
        "eu" => Some(Ty::Enum(true)),
        w => {
            let cs: Vec<char> = w.chars().collect();
            if !"hiufdb".contains(cs[0]) {
                return None;
            }
            let d = |c: char| c.to_digit(10);
            match cs.len() {
                1 => Some(Ty::Scalar(cs[0])),
                2 => Some(Ty::Vec(cs[0], d(cs[1])?)),
                4 if cs[2] == 'x' => Some(Ty::Mat(cs[0], d(cs[1])?, d(cs[3])?)),
                _ => None,
            }
        }
    }
}

pub fn parse_types(s: &str) -> Option<Vec<Ty>> {
    let mut out = Vec::new();
    for part in s.split(';') {
        let toks = tokens(part);
        let mut i = 0;
        let t = parse_ty(&toks, &mut i)?;
        if i != toks.len() {
            return None;
        }
        out.push(t);
    }
    Some(out)
}

// ------------------------------------------------------------------------------------------------
// source text
// ------------------------------------------------------------------------------------------------
fn scalar_name(c: char) -> &'static str {
    match c {
        'h' => "half",
        'i' => "int",
        'u' => "uint",
        'f' => "float",
        'd' => "double",
        _ => "bool",
    }
}

struct Src {
    lines: Vec<String>,
    next: usize,
}

impl Src {
    /// spelling of a type usable as a template argument / declaration specifier, plus array suffix
    fn spell(&mut self, t: &Ty) -> (String, String) {
        match t {
            Ty::Scalar(c) => (scalar_name(*c).into(), String::new()),
            Ty::Vec(c, n) => (format!("{}{}", scalar_name(*c), n), String::new()),
            Ty::Mat(c, r, k) => (format!("{}{}x{}", scalar_name(*c), r, k), String::new()),
            Ty::Enum(unsigned) => {
                let id = self.next;
                self.next += 1;
                let init = if *unsigned { " = 4294967295" } else { "" };
                self.lines.push(format!("enum E{} {{ E{}_A{} }};", id, id, init));
                (format!("E{}", id), String::new())
            }
            Ty::Arr(e, n) => {
                let (base, suffix) = self.spell(e);
                (base, format!("[{}]{}", n, suffix))
            }
            Ty::Struct(ms) => {
                let mut body = String::new();
                for (k, m) in ms.iter().enumerate() {
                    let (base, suffix) = self.spell(m);
                    body.push_str(&format!(" {} m{}{};", base, k, suffix));
                }
                let id = self.next;
                self.next += 1;
                self.lines.push(format!("struct S{} {{{} }};", id, body));
                (format!("S{}", id), String::new())
            }
        }
    }
}

/// program text and, per request type, the 1-based line a diagnostic about it points at
pub fn source(usage: &str, tys: &[Ty]) -> (String, Vec<usize>) {
    let mut s = Src { lines: Vec::new(), next: 0 };
    let mut blame = Vec::new();
    let mut names = Vec::new();
    for t in tys {
        let (base, suffix) = s.spell(t);
        // arrays cannot be template arguments; the generators never put one at the top
        names.push(format!("{}{}", base, suffix));
        blame.push(s.lines.len()); // line of the struct definition (if it is one)
    }
    match usage {
        "sb" | "rwsb" => {
            let obj = if usage == "sb" { "StructuredBuffer" } else { "RWStructuredBuffer" };
            for (k, n) in names.iter().enumerate() {
                s.lines.push(format!("{}<{}> g{};", obj, n, k));
                blame[k] = s.lines.len();
            }
            s.lines.push("void main() {}".into());
        }
        _ => {
            let obj = match usage {
                "bload" => "ByteAddressBuffer",
                "rwbload" | "rwbstore" => "RWByteAddressBuffer",
                "baload" => "BufferAddress",
                _ => "RWBufferAddress",
            };
            s.lines.push(format!("{} gb;", obj));
            s.lines.push("void main() {".into());
            for (k, n) in names.iter().enumerate() {
                if usage.ends_with("store") {
                    s.lines.push(format!("  {} v{}; gb.Store(0, v{});", n, k, k));
                } else {
                    s.lines.push(format!("  {} v{} = gb.Load<{}>(0);", n, k, n));
                }
            }
            s.lines.push("}".into());
        }
    }
    (s.lines.join("\n") + "\n", blame)
}

// ------------------------------------------------------------------------------------------------
// the real code
// ------------------------------------------------------------------------------------------------
pub enum Real {
    Accepted,
    /// layout check passed but a later stage failed (compile() did not succeed)
    AcceptedThenError(String),
    Unknown(Option<usize>),
    Mismatch(Option<usize>, [u64; 4]),
    Error(String),
    Panic(String),
}

fn run_real(src: &str, blame: &[usize]) -> Real {
    let text = src.to_string();
    let r = guard(move || {
        let mut files = [("main.rssl", text.as_str())];
        let args = rssl::CompileArgs::new("main.rssl", &mut files, rssl::Target::HlslForVulkan)
            .no_pipeline_mode()
            .support_buffer_address(true)
            .validate_layout_consistency(true);
        match rssl::compile(args) {
            Ok(_) => Ok(()),
            Err(e) => Err(format!("{}", e)),
        }
    });
    let msg = match r {
        Err(p) => return Real::Panic(p),
        Ok(Ok(())) => return Real::Accepted,
        Ok(Err(m)) => m,
    };
    if std::env::var("C19_DEBUG").is_ok() {
        eprintln!("--- source\n{}--- message\n{}", src, msg);
    }
    let index = |m: &str| -> Option<usize> {
        // "main.rssl:LINE:COL: error: ..."
        let a = m.find("main.rssl:")? + "main.rssl:".len();
        let b = a + m[a..].find(|c: char| !c.is_ascii_digit())?;
        let line: usize = m[a..b].parse().ok()?;
        blame.iter().position(|l| *l == line)
    };
    if msg.contains("struct has unknown size") {
        return Real::Unknown(index(&msg));
    }
    if let Some(p) = msg.find("struct has size=") {
        let nums: Vec<u64> = msg[p..]
            .split(|c: char| !c.is_ascii_digit())
            .filter(|s| !s.is_empty())
            .take(4)
            .filter_map(|s| s.parse().ok())
            .collect();
        if nums.len() == 4 {
            return Real::Mismatch(index(&msg), [nums[0], nums[1], nums[2], nums[3]]);
        }
    }
    // an error that does not come from the layout checker: did the layout check itself pass?
    let text = src.to_string();
    let direct = guard(move || match front_end_src(&text) {
        Ok(ir) => Some(rssl::ir::layout_checker::check_layout(&ir).is_ok()),
        Err(_) => None,
    });
    match direct {
        Ok(Some(true)) => Real::AcceptedThenError(msg.lines().next().unwrap_or("").to_string()),
        _ => Real::Error(msg.lines().next().unwrap_or("").to_string()),
    }
}

fn show_k(k: Option<usize>) -> String {
    k.map(|k| k.to_string()).unwrap_or_else(|| "?".into())
}

fn show_real(r: &Real) -> String {
    match r {
        Real::Accepted | Real::AcceptedThenError(_) => "ok".into(),
        Real::Unknown(k) => format!("unknown@{}", show_k(*k)),
        Real::Mismatch(k, n) => format!(
            "mismatch@{} hlsl={}/{} metal={}/{}",
            show_k(*k), n[0], n[1], n[2], n[3]
        ),
        Real::Error(m) => format!("error:{}", m),
        Real::Panic(p) => {
            let msg = p.splitn(2, ": ").nth(1).unwrap_or(p);
            format!("panic:{}", msg)
        }
    }
}

// ------------------------------------------------------------------------------------------------
// independent reference layout calculators (the property's own words)
// ------------------------------------------------------------------------------------------------
#[derive(Clone, Copy, PartialEq)]
pub enum Rule {
    HlslSB,
    Metal,
}

#[derive(Clone, Debug, PartialEq)]
pub struct RefLayout {
    pub size: u64,
    pub align: u64,
    /// (path, absolute byte offset) of every field, recursively, in declaration order
    pub fields: Vec<(String, u64)>,
    /// some struct strictly below the top needs tail padding
    pub inner_tail_pad: bool,
}

fn up(x: u64, a: u64) -> u64 {
    x.div_ceil(a) * a
}

fn scalar_bytes(c: char) -> Option<u64> {
    match c {
        'h' => Some(2),
        'i' | 'u' | 'f' => Some(4),
        'd' => Some(8),
        _ => None,
    }
}

/// returns (size, align, fields relative to the start, needs tail padding somewhere at-or-below)
fn reference(rule: Rule, t: &Ty, path: &str, top: bool) -> Option<(u64, u64, Vec<(String, u64)>, bool, bool)> {
    // (size, align, fields, self_tail_pad, inner_tail_pad)
    match t {
        Ty::Scalar(c) => {
            let b = scalar_bytes(*c)?;
            Some((b, b, vec![], false, false))
        }
        Ty::Enum(_) => Some((4, 4, vec![], false, false)),
        Ty::Vec(c, n) => {
            let b = scalar_bytes(*c)?;
            if *n < 1 || *n > 4 {
                return None;
            }
            let n = *n as u64;
            match rule {
                Rule::HlslSB => Some((n * b, b, vec![], false, false)),
                Rule::Metal => {
                    let lanes = if n == 3 { 4 } else { n };
                    Some((lanes * b, lanes * b, vec![], false, false))
                }
            }
        }
        Ty::Mat(..) => None,
        Ty::Arr(e, n) => {
            let (es, ea, ef, self_pad, inner_pad) = reference(rule, e, "", false)?;
            let stride = up(es, ea);
            let mut fields = Vec::new();
            for k in 0..*n {
                let base = k * stride;
                fields.push((format!("{}[{}]", path, k), base));
                for (p, o) in &ef {
                    fields.push((format!("{}[{}]{}", path, k, p), base + o));
                }
            }
            let _ = top;
            Some((n * stride, ea, fields, false, self_pad || inner_pad))
        }
        Ty::Struct(ms) => {
            if ms.is_empty() {
                return None;
            }
            let mut cur = 0u64;
            let mut align = 1u64;
            let mut fields = Vec::new();
            let mut inner = false;
            for (k, m) in ms.iter().enumerate() {
                let (s, a, f, self_pad, inner_pad) = reference(rule, m, "", false)?;
                let off = up(cur, a);
                let name = format!("{}.m{}", path, k);
                fields.push((name.clone(), off));
                for (p, o) in f {
                    fields.push((format!("{}{}", name, p), off + o));
                }
                cur = off + s;
                align = align.max(a);
                inner |= self_pad || inner_pad;
            }
            let size = up(cur, align);
            Some((size, align, fields, size != cur, inner))
        }
    }
}

pub fn ref_layout(rule: Rule, t: &Ty) -> Option<RefLayout> {
    let (size, align, fields, _self_pad, inner) = reference(rule, t, "", true)?;
    Some(RefLayout { size, align, fields, inner_tail_pad: inner })
}

/// first difference between the two reference layouts, if any
fn difference(h: &RefLayout, m: &RefLayout) -> Option<String> {
    if h.size != m.size {
        return Some(format!("size {} vs {}", h.size, m.size));
    }
    for ((p, a), (_, b)) in h.fields.iter().zip(&m.fields) {
        if a != b {
            return Some(format!("offset of {} {} vs {}", p, a, b));
        }
    }
    None
}

/// The property's oracle on the real verdict. Returns the oracle string and a statistics class.
fn oracle(tys: &[Ty], real: &Real) -> (String, &'static str) {
    match real {
        Real::Accepted | Real::AcceptedThenError(_) => {
            // every element type must have identical reference layouts
            for t in tys {
                if !matches!(t, Ty::Struct(_)) {
                    continue; // the property speaks about structures used as element types
                }
                let (h, m) = match (ref_layout(Rule::HlslSB, t), ref_layout(Rule::Metal, t)) {
                    (Some(h), Some(m)) => (h, m),
                    _ => return (format!("FAIL:accepted/no-reference-layout {}", show(t)), "accepted-unknown"),
                };
                if let Some(d) = difference(&h, &m) {
                    let class = if h.inner_tail_pad || m.inner_tail_pad {
                        "nested-tail-pad"
                    } else if h.size == m.size {
                        "offsets-only"
                    } else {
                        "sizes"
                    };
                    if let Real::AcceptedThenError(e) = real {
                        // compile() as a whole did not succeed: the property's premise is false
                        return (format!("SKIP:layout check accepted a differing type but a later stage failed: {}", e), "accepted-then-error");
                    }
                    return (
                        format!("FAIL:accepted/{} {} differs: {}", class, show(t), d),
                        if class == "nested-tail-pad" { "accepted-differ-nested" } else if class == "offsets-only" { "accepted-differ-offsets" } else { "accepted-differ-sizes" },
                    );
                }
            }
            if let Real::AcceptedThenError(_) = real {
                return ("ok".into(), "accepted-then-error");
            }
            ("ok".into(), "accepted-agree")
        }
        Real::Mismatch(k, n) => {
            let k = match k {
                Some(k) if *k < tys.len() => *k,
                _ if tys.len() == 1 => 0,
                _ => return ("SKIP:cannot tell which type was rejected".into(), "rejected-unlocated"),
            };
            let t = &tys[k];
            if !matches!(t, Ty::Struct(_)) {
                return ("ok".into(), "rejected-non-struct");
            }
            match (ref_layout(Rule::HlslSB, t), ref_layout(Rule::Metal, t)) {
                (Some(h), Some(m)) => {
                    if n[0] != h.size || n[2] != m.size {
                        let class = if h.inner_tail_pad || m.inner_tail_pad { "nested-tail-pad" } else { "sizes" };
                        (
                            format!(
                                "FAIL:rejected/{} {} reported hlsl={} metal={} but true sizes are hlsl={} metal={}",
                                class, show(t), n[0], n[2], h.size, m.size
                            ),
                            if class == "nested-tail-pad" { "rejected-wrong-size-nested" } else { "rejected-wrong-size" },
                        )
                    } else if difference(&h, &m).is_none() {
                        ("ok".into(), "rejected-though-agree")
                    } else {
                        ("ok".into(), "rejected-true-sizes")
                    }
                }
                _ => (format!("FAIL:rejected/no-reference-layout {}", show(t)), "rejected-unknown"),
            }
        }
        Real::Unknown(_) => {
            // no sizes are reported; fine when some type has no reference layout
            let any_none = tys
                .iter()
                .any(|t| ref_layout(Rule::HlslSB, t).is_none() || ref_layout(Rule::Metal, t).is_none());
            if any_none {
                ("ok".into(), "unknown-size")
            } else {
                ("ok".into(), "unknown-size-though-known")
            }
        }
        Real::Error(e) => (format!("SKIP:compile error outside the layout checker: {}", e), "other-error"),
        // panics are C08's subject; C19 only needs the model to predict them
        Real::Panic(_) => ("ok".into(), "panic"),
    }
}

// ------------------------------------------------------------------------------------------------
// running and statistics
// ------------------------------------------------------------------------------------------------
fn depth(t: &Ty) -> usize {
    match t {
        Ty::Struct(ms) => 1 + ms.iter().map(depth).max().unwrap_or(0),
        Ty::Arr(e, _) => depth(e),
        _ => 0,
    }
}

fn note_shape(t: &Ty, hist: &mut Hist, top: bool) {
    match t {
        Ty::Scalar(c) => hist.add(&format!("leaf:{}", scalar_name(*c))),
        Ty::Vec(c, n) => {
            hist.add(&format!("leaf:{}", scalar_name(*c)));
            hist.add(&format!("vec:{}", n));
        }
        Ty::Mat(..) => hist.add("leaf:matrix"),
        Ty::Enum(_) => hist.add("leaf:enum"),
        Ty::Arr(e, n) => {
            hist.add(&format!("array-len:{}", n));
            hist.add(match **e {
                Ty::Struct(_) => "array-of:struct",
                Ty::Arr(..) => "array-of:array",
                Ty::Vec(..) => "array-of:vector",
                _ => "array-of:scalar",
            });
            note_shape(e, hist, false);
        }
        Ty::Struct(ms) => {
            if top {
                hist.add(&format!("members:{}", ms.len()));
            } else {
                hist.add("nested-struct");
            }
            for m in ms {
                note_shape(m, hist, false);
            }
        }
    }
}

fn run_one(usage: &str, tys: &[Ty], out: &mut Out, hist: &mut Hist) {
    let req = format!(
        "C19.check\t{}\t{}",
        usage,
        tys.iter().map(show).collect::<Vec<_>>().join(";")
    );
    let (src, blame) = source(usage, tys);
    let real = run_real(&src, &blame);
    let (orc, class) = oracle(tys, &real);
    hist.add(&format!("use:{}", usage));
    hist.add(&format!("class:{}", class));
    hist.add(&format!("types:{}", tys.len()));
    for t in tys {
        hist.add(&format!("depth:{}", depth(t)));
        note_shape(t, hist, true);
    }
    out.case(&req, &show_real(&real), &orc);
}

// ------------------------------------------------------------------------------------------------
// generators
// ------------------------------------------------------------------------------------------------
const SCALARS: &[char] = &['h', 'i', 'u', 'f', 'd'];

fn leaves() -> Vec<Ty> {
    let mut v = Vec::new();
    for c in SCALARS {
        v.push(Ty::Scalar(*c));
        for n in 2..=4 {
            v.push(Ty::Vec(*c, n));
        }
    }
    v.push(Ty::Enum(false));
    v
}

fn random_leaf(rng: &mut Rng) -> Ty {
    match rng.below(20) {
        0 => Ty::Enum(rng.chance(1, 4)),
        1..=8 => Ty::Scalar(*rng.pick(SCALARS)),
        _ => Ty::Vec(*rng.pick(SCALARS), rng.range(2, 4) as u32),
    }
}

fn random_member(rng: &mut Rng, depth_left: u32) -> Ty {
    let t = if depth_left > 0 && rng.chance(1, 4) {
        random_struct(rng, depth_left - 1, 4)
    } else {
        random_leaf(rng)
    };
    if rng.chance(1, 5) {
        let inner = Ty::Arr(Box::new(t), rng.range(1, 4) as u64);
        if rng.chance(1, 8) {
            Ty::Arr(Box::new(inner), rng.range(1, 3) as u64)
        } else {
            inner
        }
    } else {
        t
    }
}

/// struct of nesting depth <= depth_left + 1 with 1..=max_members members
fn random_struct(rng: &mut Rng, depth_left: u32, max_members: i64) -> Ty {
    let n = rng.range(1, max_members);
    Ty::Struct((0..n).map(|_| random_member(rng, depth_left)).collect())
}

/// structs biased towards the interesting region: member sizes that sum to equal totals
fn random_tight_struct(rng: &mut Rng) -> Ty {
    // few distinct scalar types, vectors of 2 and 4, so that both rules often give the same size
    let pool: Vec<Ty> = match rng.below(3) {
        0 => vec![Ty::Scalar('f'), Ty::Vec('f', 2), Ty::Vec('f', 4), Ty::Scalar('d'), Ty::Scalar('u')],
        1 => vec![Ty::Scalar('h'), Ty::Vec('h', 2), Ty::Vec('h', 4), Ty::Scalar('f'), Ty::Vec('h', 3)],
        _ => vec![Ty::Scalar('i'), Ty::Vec('u', 2), Ty::Vec('d', 2), Ty::Scalar('d'), Ty::Vec('f', 3), Ty::Scalar('f')],
    };
    let n = rng.range(2, 6);
    let mut ms: Vec<Ty> = (0..n).map(|_| rng.pick(&pool).clone()).collect();
    if rng.chance(1, 3) {
        let k = rng.below(ms.len() as u64) as usize;
        let inner_n = rng.range(1, 3);
        ms[k] = Ty::Struct((0..inner_n).map(|_| rng.pick(&pool).clone()).collect());
    }
    if rng.chance(1, 6) {
        let k = rng.below(ms.len() as u64) as usize;
        ms[k] = Ty::Arr(Box::new(ms[k].clone()), rng.range(1, 4) as u64);
    }
    Ty::Struct(ms)
}

pub fn run(args: &Args, out: &mut Out) {
    let mut hist = Hist::default();
    if let Some(lines) = args.request_lines() {
        for line in lines {
            let f: Vec<&str> = line.split('\t').collect();
            if f.len() != 3 || f[0] != "C19.check" || !USES.contains(&f[1]) {
                out.case(&line, "bad-request", "SKIP:bad request");
                continue;
            }
            match parse_types(f[2]) {
                Some(tys) => run_one(f[1], &tys, out, &mut hist),
                None => out.case(&line, "bad-request", "SKIP:bad request"),
            }
        }
        out.stat(&format!("{{\"stream\":\"requests\",\"hist\":{}}}", hist.json()));
        return;
    }
    let mut rng = Rng::new(args.seed);
    let thorough = args.thorough();
    let lv = leaves();

    // 1. every leaf type on its own and every flat struct with 1 and 2 members (exhaustive)
    for a in &lv {
        if !matches!(a, Ty::Enum(_)) {
            // an enum cannot be a structured buffer's element type
            run_one("sb", &[a.clone()], out, &mut hist);
        }
        run_one("sb", &[Ty::Struct(vec![a.clone()])], out, &mut hist);
    }
    for a in &lv {
        for b in &lv {
            run_one("sb", &[Ty::Struct(vec![a.clone(), b.clone()])], out, &mut hist);
        }
    }
    // 2. three members: exhaustive in the thorough tier, a sample otherwise
    let mut triples = Vec::new();
    for a in &lv {
        for b in &lv {
            for c in &lv {
                triples.push(Ty::Struct(vec![a.clone(), b.clone(), c.clone()]));
            }
        }
    }
    let n3 = if thorough { triples.len() } else { 600 };
    for k in 0..n3 {
        let t = if thorough { triples[k].clone() } else { rng.pick(&triples).clone() };
        run_one("sb", &[t], out, &mut hist);
    }
    // 3. depth 2: { {a b} c }, { c {a b} }, { [n {a b}] }, { [n a] b } over a reduced alphabet
    let small: Vec<Ty> = vec![
        Ty::Scalar('h'), Ty::Scalar('f'), Ty::Scalar('d'), Ty::Vec('h', 2), Ty::Vec('f', 2),
        Ty::Vec('f', 3), Ty::Vec('f', 4), Ty::Vec('h', 3), Ty::Enum(false),
    ];
    let mut d2 = Vec::new();
    for a in &small {
        for b in &small {
            let inner = Ty::Struct(vec![a.clone(), b.clone()]);
            for c in &small {
                d2.push(Ty::Struct(vec![inner.clone(), c.clone()]));
                d2.push(Ty::Struct(vec![c.clone(), inner.clone()]));
            }
            for n in 1..=4u64 {
                d2.push(Ty::Struct(vec![Ty::Arr(Box::new(inner.clone()), n)]));
                d2.push(Ty::Struct(vec![Ty::Arr(Box::new(a.clone()), n), b.clone()]));
            }
        }
    }
    let nd2 = if thorough { d2.len() } else { 500 };
    for k in 0..nd2 {
        let t = if thorough { d2[k].clone() } else { rng.pick(&d2).clone() };
        run_one("sb", &[t], out, &mut hist);
    }
    // 4. random structs to depth 3 with 1-6 members, arrays 1-4, nested structs, enums; all uses
    let n = args.n.unwrap_or(if thorough { 150000 } else { 2500 });
    for k in 0..n {
        let usage = if k % 3 == 0 { *rng.pick(USES) } else { "sb" };
        let count = if rng.chance(1, 8) { rng.range(2, 3) } else { 1 };
        let mut tys = Vec::new();
        for _ in 0..count {
            let t = match rng.below(10) {
                0..=3 => random_tight_struct(&mut rng),
                4..=8 => random_struct(&mut rng, 2, 6),
                _ => random_struct(&mut rng, 1, 3),
            };
            tys.push(t);
        }
        // now and then a member without a layout (bool / matrix): the "unknown size" verdict
        if rng.chance(1, 40) {
            if let Ty::Struct(ms) = &mut tys[0] {
                let bad = if rng.chance(1, 2) { Ty::Scalar('b') } else { Ty::Mat('f', 2, 2) };
                let at = rng.below(ms.len() as u64 + 1) as usize;
                ms.insert(at, bad);
            }
        }
        run_one(usage, &tys, out, &mut hist);
    }
    out.stat(&format!(
        "{{\"stream\":\"generated\",\"tier\":{},\"seed\":{},\"hist\":{}}}",
        json_str(&args.tier),
        args.seed,
        hist.json()
    ));
}

import RsslVerif.Model.LayoutCollect
/-!
Wave 11: globals and functions the two collection loops of `check_layout` pass over (`continue` / `_ => {}`) have no
influence at all on what is collected — resources of other kinds, plain variables, intrinsics that are not typed
loads / stores, user functions and their instantiations.  Core Lean only.
-/

namespace RsslVerif.Lemmas.LayoutIgnored
open RsslVerif.Gen.LayoutTables RsslVerif.Model.Layout RsslVerif.Model.LayoutCollect

/-- the global loop reaches its `types_seen.insert`: below the peeled layers there is an object of a matched kind -/
def globalMatters (g : Global) : Bool :=
  match peel globalPeelOps g.ty with
  | .object k (some _) => checkedObjects.contains k
  | _ => false

/-- the function loop gets past its three `continue`s: a matched intrinsic with template instantiation data -/
def fnMatters (f : Fn) : Bool :=
  match f.intrinsic with
  | none => false
  | some i => checkedIntrinsics.contains i && f.template.isSome

theorem stepGlobal_ignored (a : Acc) (g : Global) (h : globalMatters g = false) : stepGlobal a g = a := by
  unfold globalMatters at h
  unfold stepGlobal
  split <;> simp_all

theorem stepFn_ignored (a : Acc) (f : Fn) (h : fnMatters f = false) : stepFn a f = .ok a := by
  unfold fnMatters at h
  unfold stepFn
  split
  · rfl
  · rename_i i hi
    rw [hi] at h
    cases hc : checkedIntrinsics.contains i with
    | false => simp
    | true =>
      have ht : f.template = none := by
        cases hf : f.template with
        | none => rfl
        | some v =>
          have hm : i ∈ checkedIntrinsics := by simpa using hc
          simp [hf] at h
          exact absurd hm h
      simp [ht]

theorem foldl_filter_globals (gs : List Global) (a : Acc) :
    (gs.filter globalMatters).foldl stepGlobal a = gs.foldl stepGlobal a := by
  induction gs generalizing a with
  | nil => rfl
  | cons g gs ih =>
    by_cases h : globalMatters g
    · simp [List.filter, h, ih]
    · have h' : globalMatters g = false := by simpa using h
      simp [List.filter, h', ih, stepGlobal_ignored a g h']

theorem foldFns_filter (fs : List Fn) (a : Acc) :
    foldFns (fs.filter fnMatters) a = foldFns fs a := by
  induction fs generalizing a with
  | nil => rfl
  | cons f fs ih =>
    by_cases h : fnMatters f
    · simp only [List.filter, h, foldFns]
      cases stepFn a f with
      | ok a' => exact ih a'
      | error e => rfl
    · have h' : fnMatters f = false := by simpa using h
      simp only [List.filter, h', foldFns, stepFn_ignored a f h']
      exact ih a

theorem collect_filter (m : Module) :
    collect ⟨m.globals.filter globalMatters, m.fns.filter fnMatters⟩ = collect m := by
  unfold collect
  simp only [foldl_filter_globals, foldFns_filter]

end RsslVerif.Lemmas.LayoutIgnored

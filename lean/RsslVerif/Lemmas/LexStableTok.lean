import RsslVerif.Lemmas.LexStable
/-!
# `token_intermediate` does not look past a stopper (words, trivia, strings, symbols, the dispatcher)
-/
namespace RsslVerif.Lemmas.LexStable
open RsslVerif.Gen.LexTables RsslVerif.Model.Lexer

/-! ## words -/

theorem spanIdent_len (x : Bytes) : (spanIdent x).1.length + (spanIdent x).2.length = x.length := by
  induction x with
  | nil => simp [spanIdent]
  | cons b r ih =>
    simp only [spanIdent]
    split <;> simp <;> omega

theorem spanIdent_stable (c q s s' : Bytes) (w : Bytes)
    (h : spanIdent (c ++ (q ++ s)) = (w, q ++ s)) (hs : HeadStop s') :
    spanIdent (c ++ (q ++ s')) = (w, q ++ s') := by
  induction c generalizing w with
  | nil =>
    simp only [List.nil_append] at h ⊢
    have hl := spanIdent_len (q ++ s)
    rw [h] at hl
    have hw : w = [] := by
      cases w with
      | nil => rfl
      | cons d t => simp at hl
    subst hw
    cases q with
    | nil =>
      simp only [List.nil_append]
      cases s' with
      | nil => simp [spanIdent]
      | cons b r => simp [spanIdent, identChar_stop hs]
    | cons b r =>
      simp only [List.cons_append, spanIdent] at h ⊢
      by_cases hb : isIdentChar b = true
      · rw [if_pos hb] at h; simp at h
      · rw [if_neg hb]
  | cons b c ih =>
    simp only [List.cons_append, spanIdent] at h ⊢
    by_cases hb : isIdentChar b = true
    · rw [if_pos hb] at h ⊢
      simp only [Prod.mk.injEq] at h
      have := ih (spanIdent (c ++ (q ++ s))).1 (Prod.ext rfl h.2)
      rw [this, ← h.1]
    · rw [if_neg hb] at h
      simp only [Prod.mk.injEq] at h
      have := congrArg List.length h.2
      simp [List.length_append] at this
      omega

theorem anyWord_okStable : OkStable anyWord := by
  intro c q s s' tok h hs
  cases c with
  | nil =>
    exfalso
    have := anyWord_strict (q ++ s)
    simp only [List.nil_append] at h
    rw [h] at this
    simp [Strict] at this
  | cons b c =>
    simp only [List.cons_append, anyWord] at h ⊢
    by_cases hb : isIdentStart b = true
    · rw [if_pos hb] at h ⊢
      simp only [Except.ok.injEq, Prod.mk.injEq] at h
      have := spanIdent_stable c q s s' (spanIdent (c ++ (q ++ s))).1 (Prod.ext rfl h.1) hs
      rw [this]
      simp only [h.2]
    · rw [if_neg hb] at h; simp [otherTokenChars] at h

/-! ## line ends and splices -/

theorem u8_ne_of_toNat {a b : UInt8} (h : a.toNat ≠ b.toNat) : a ≠ b := by
  intro hab; exact h (by rw [hab])

/-- what `whitespace_endline` accepts -/
theorem whitespaceEndline_ok {x rest : Bytes} {tok : Token} (h : whitespaceEndline x = .ok (rest, tok)) :
    (x = [92, 13, 10] ++ rest ∧ tok = .simple .PhysicalEndline) ∨ (x = [92, 10] ++ rest ∧ tok = .simple .PhysicalEndline) ∨
    (x = [13, 10] ++ rest ∧ tok = .simple .Endline) ∨ (x = [10] ++ rest ∧ tok = .simple .Endline) := by
  unfold whitespaceEndline at h
  cases h1 : stripPrefix? [92, 13, 10] x with
  | some r =>
    rw [h1] at h; simp only [Except.ok.injEq, Prod.mk.injEq] at h
    left; exact ⟨by rw [← h.1]; exact stripPrefix?_eq h1, h.2.symm⟩
  | none =>
    rw [h1] at h; simp only at h
    cases h2 : stripPrefix? [92, 10] x with
    | some r =>
      rw [h2] at h; simp only [Except.ok.injEq, Prod.mk.injEq] at h
      right; left; exact ⟨by rw [← h.1]; exact stripPrefix?_eq h2, h.2.symm⟩
    | none =>
      rw [h2] at h; simp only at h
      cases h3 : stripPrefix? [13, 10] x with
      | some r =>
        rw [h3] at h; simp only [Except.ok.injEq, Prod.mk.injEq] at h
        right; right; left; exact ⟨by rw [← h.1]; exact stripPrefix?_eq h3, h.2.symm⟩
      | none =>
        rw [h3] at h; simp only at h
        cases h4 : stripPrefix? [10] x with
        | some r =>
          rw [h4] at h; simp only [Except.ok.injEq, Prod.mk.injEq] at h
          right; right; right; exact ⟨by rw [← h.1]; exact stripPrefix?_eq h4, h.2.symm⟩
        | none => rw [h4] at h; simp [otherTokenChars] at h

theorem whitespaceEndline_pe1 (y : Bytes) : whitespaceEndline ([92, 13, 10] ++ y) = .ok (y, .simple .PhysicalEndline) := by
  simp [whitespaceEndline, stripPrefix?]
theorem whitespaceEndline_pe2 (y : Bytes) : whitespaceEndline ([92, 10] ++ y) = .ok (y, .simple .PhysicalEndline) := by
  simp [whitespaceEndline, stripPrefix?]
theorem whitespaceEndline_el1 (y : Bytes) : whitespaceEndline ([13, 10] ++ y) = .ok (y, .simple .Endline) := by
  simp [whitespaceEndline, stripPrefix?]
theorem whitespaceEndline_el2 (y : Bytes) : whitespaceEndline ([10] ++ y) = .ok (y, .simple .Endline) := by
  simp [whitespaceEndline, stripPrefix?]

theorem whitespaceEndline_okStable : OkStable whitespaceEndline := by
  intro c q s s' tok h _
  rcases whitespaceEndline_ok h with ⟨hx, ht⟩ | ⟨hx, ht⟩ | ⟨hx, ht⟩ | ⟨hx, ht⟩ <;>
    (have hc := List.append_cancel_right hx; subst hc ht)
  · exact whitespaceEndline_pe1 _
  · exact whitespaceEndline_pe2 _
  · exact whitespaceEndline_el1 _
  · exact whitespaceEndline_el2 _

/-! ## line comments -/

theorem lce_append (u y : Bytes) (h : lineCommentEnd u ≠ []) : lineCommentEnd (u ++ y) = lineCommentEnd u ++ y := by
  fun_induction lineCommentEnd u <;>
    first
    | (simp_all [lineCommentEnd]; done)
    | (simp only [List.cons_append]
       conv => lhs; rw [lineCommentEnd.eq_def]
       simp_all; done)

/-- does the text end in a CR -/
def endsCR : Bytes → Bool
  | [] => false
  | [b] => b.toNat == 13
  | _ :: c :: r => endsCR (c :: r)

theorem endsCR_tail {b : UInt8} {r : Bytes} (h : endsCR (b :: r) = false) : endsCR r = false := by
  cases r with
  | nil => rfl
  | cons c r => simpa [endsCR] using h

theorem lce_after_backslash (b : UInt8) (hb : b.toNat = 92) (y : Bytes) : lineCommentEnd (b :: y) <:+ y := by
  rw [lineCommentEnd.eq_def]
  simp only [hb, if_true]
  cases y with
  | nil => simp
  | cons c r2 =>
    simp only
    by_cases h10 : c.toNat = 10
    · rw [if_pos h10]; exact List.IsSuffix.trans (lineCommentEnd_suffix r2) (List.suffix_cons _ _)
    · rw [if_neg h10]
      by_cases h13 : c.toNat = 13
      · rw [if_pos h13]
        cases r2 with
        | nil => exact lineCommentEnd_suffix _
        | cons d r3 =>
          simp only
          by_cases hd : d.toNat = 10
          · rw [if_pos hd]
            exact List.IsSuffix.trans (lineCommentEnd_suffix r3) (List.IsSuffix.trans (List.suffix_cons _ _) (List.suffix_cons _ _))
          · rw [if_neg hd]; exact lineCommentEnd_suffix _
      · rw [if_neg h13]; exact lineCommentEnd_suffix _

/-- the scan ran off the end of `u` (and `u` does not end in a lone CR): it continues in what follows -/
theorem lce_append_nil (u y : Bytes) (h : lineCommentEnd u = []) (hl : endsCR u = false) :
    lineCommentEnd (u ++ y) <:+ y := by
  fun_induction lineCommentEnd u with
  | case2 b hb => exact lce_after_backslash b hb y
  | case3 b hb d r3 hd ih =>
    simp only [List.cons_append]
    rw [lineCommentEnd.eq_def]
    simp only [hb, hd, if_true]
    exact ih h (endsCR_tail (endsCR_tail hl))
  | case5 b hb c hc10 hc13 d r3 hd ih =>
    simp only [List.cons_append]
    rw [lineCommentEnd.eq_def]
    simp only [hb, hc10, hc13, hd, if_true, if_false]
    exact ih h (endsCR_tail (endsCR_tail (endsCR_tail hl)))
  | case12 b r h92 h10 h13 ih =>
    simp only [List.cons_append]
    rw [lineCommentEnd.eq_def]
    simp only [h92, h10, h13, if_false]
    exact ih h (endsCR_tail hl)
  | _ => first
    | (simp_all [lineCommentEnd_suffix, endsCR]; done)
    | (simp only [List.cons_append]
       conv => lhs; rw [lineCommentEnd.eq_def]
       simp_all [endsCR]; done)

theorem endsCR_append (c t : Bytes) (ht : t ≠ []) : endsCR (c ++ t) = endsCR t := by
  induction c with
  | nil => rfl
  | cons b c ih =>
    cases hct : c ++ t with
    | nil => simp at hct; exact absurd hct.2 ht
    | cons x r => simp only [List.cons_append, hct, endsCR]; rw [← hct, ih]

/-- a line comment that ended at a line ending `t` (LF or CRLF) ends there whatever follows the line ending -/
theorem lce_stable (c t y y' : Bytes) (ht : t = [10] ∨ t = [13, 10])
    (h : lineCommentEnd (c ++ (t ++ y)) = t ++ y) : lineCommentEnd (c ++ (t ++ y')) = t ++ y' := by
  have htne : t ≠ [] := by rcases ht with rfl | rfl <;> simp
  have hcr : endsCR (c ++ t) = false := by
    rw [endsCR_append c t htne]
    rcases ht with rfl | rfl <;> rfl
  rw [← List.append_assoc] at h ⊢
  by_cases hz : lineCommentEnd (c ++ t) = []
  · exfalso
    have := (lce_append_nil (c ++ t) y hz hcr).length_le
    rw [h] at this
    have : 0 < t.length := List.length_pos_iff.2 htne
    simp [List.length_append] at *
    omega
  · have h1 := lce_append (c ++ t) y hz
    rw [h] at h1
    have h2 : lineCommentEnd (c ++ t) = t := (List.append_cancel_right h1).symm
    rw [lce_append (c ++ t) y' hz, h2]

theorem lineComment_okStable (c q s s' : Bytes) (tok : Token)
    (h : lineComment (c ++ (q ++ s)) = .ok (q ++ s, tok))
    (hq : (∃ q', q = 10 :: q') ∨ (∃ q', q = 13 :: 10 :: q')) :
    lineComment (c ++ (q ++ s')) = .ok (q ++ s', tok) := by
  unfold lineComment at h ⊢
  cases hp : stripPrefix? [47, 47] (c ++ (q ++ s)) with
  | none => rw [hp] at h; simp [otherTokenChars] at h
  | some r =>
    rw [hp] at h
    simp only [Except.ok.injEq, Prod.mk.injEq] at h
    have hx := stripPrefix?_eq hp
    have hsuf : (q ++ s) <:+ r := by rw [← h.1]; exact lineCommentEnd_suffix r
    obtain ⟨c1, q1, hc, hr⟩ := split_mid (suffix_of_append hx) hsuf
    subst hr
    have hc1 : c1 = [47, 47] := by
      rw [hc] at hx
      have : c1 ++ (q1 ++ (q ++ s)) = [47, 47] ++ (q1 ++ (q ++ s)) := by simpa [List.append_assoc] using hx
      exact List.append_cancel_right this
    subst hc1
    rw [hc]
    have hp' : stripPrefix? [47, 47] ([47, 47] ++ q1 ++ (q ++ s')) = some (q1 ++ (q ++ s')) := by
      rw [List.append_assoc]; exact stripPrefix_append _ _
    rw [hp']
    simp only [Except.ok.injEq, Prod.mk.injEq]
    refine ⟨?_, h.2⟩
    rcases hq with ⟨q', rfl⟩ | ⟨q', rfl⟩
    · have := lce_stable q1 [10] (q' ++ s) (q' ++ s') (Or.inl rfl) (by simpa using h.1)
      simpa using this
    · have := lce_stable q1 [13, 10] (q' ++ s) (q' ++ s') (Or.inr rfl) (by simpa using h.1)
      simpa using this

/-! ## block comments and strings -/

theorem blockSearch_cons2 (a b : UInt8) (r : Bytes) :
    blockSearch (a :: b :: r) = if a.toNat = 42 ∧ b.toNat = 47 then some r else blockSearch (b :: r) := rfl

theorem blockSearch_lt {x r : Bytes} (h : blockSearch x = some r) : r.length + 2 ≤ x.length := by
  induction x with
  | nil => simp [blockSearch] at h
  | cons a t ih =>
    cases t with
    | nil => simp [blockSearch] at h
    | cons b r2 =>
      rw [blockSearch_cons2] at h
      by_cases hab : a.toNat = 42 ∧ b.toNat = 47
      · rw [if_pos hab] at h; simp at h; subst h; simp
      · rw [if_neg hab] at h
        have := ih h
        simp at this ⊢; omega

theorem blockSearch_stable (c q s s' : Bytes) (h : blockSearch (c ++ (q ++ s)) = some (q ++ s)) :
    blockSearch (c ++ (q ++ s')) = some (q ++ s') := by
  induction c with
  | nil =>
    exfalso
    have := blockSearch_lt h
    simp at this
    omega
  | cons a c ih =>
    cases c with
    | nil =>
      exfalso
      -- one byte left before the rest: the closing `*/` cannot lie there
      simp only [List.cons_append, List.nil_append] at h
      cases hx : q ++ s with
      | nil => rw [hx] at h; simp [blockSearch] at h
      | cons b r =>
        rw [hx, blockSearch_cons2] at h
        by_cases hab : a.toNat = 42 ∧ b.toNat = 47
        · rw [if_pos hab] at h
          simp only [Option.some.injEq] at h
          have := congrArg List.length h; simp at this
        · rw [if_neg hab] at h
          have := blockSearch_lt h
          simp at this
          omega
    | cons b c =>
      simp only [List.cons_append] at h ⊢
      rw [blockSearch_cons2] at h ⊢
      by_cases hab : a.toNat = 42 ∧ b.toNat = 47
      · rw [if_pos hab] at h ⊢
        simp only [Option.some.injEq] at h
        have := nil_of_same_len h
        subst this; rfl
      · rw [if_neg hab] at h ⊢
        exact ih h

theorem blockComment_okStable : OkStable blockComment := by
  intro c q s s' tok h _
  unfold blockComment at h ⊢
  cases hp : stripPrefix? [47, 42] (c ++ (q ++ s)) with
  | none => rw [hp] at h; simp [otherTokenChars] at h
  | some r =>
    rw [hp] at h
    simp only at h
    cases hb : blockSearch r with
    | none => rw [hb] at h; simp [endOfStream] at h
    | some rest =>
      rw [hb] at h
      simp only [Except.ok.injEq, Prod.mk.injEq] at h
      obtain ⟨hrest, htok⟩ := h
      subst hrest
      have hx := stripPrefix?_eq hp
      have hsuf : (q ++ s) <:+ r := by
        have := blockSearch_suffix hb; exact this
      obtain ⟨c1, q1, hc, hr⟩ := split_mid (suffix_of_append hx) hsuf
      subst hr
      have hc1 : c1 = [47, 42] := by
        rw [hc] at hx
        have : c1 ++ (q1 ++ (q ++ s)) = [47, 42] ++ (q1 ++ (q ++ s)) := by simpa [List.append_assoc] using hx
        exact List.append_cancel_right this
      subst hc1
      rw [hc]
      have hp' : stripPrefix? [47, 42] ([47, 42] ++ q1 ++ (q ++ s')) = some (q1 ++ (q ++ s')) := by
        rw [List.append_assoc]; exact stripPrefix_append _ _
      rw [hp']
      simp only
      rw [blockSearch_stable q1 q s s' hb]
      simp [htok]

theorem splitAtByte_stable (cl : UInt8) (c q s s' body : Bytes)
    (h : splitAtByte cl (c ++ (q ++ s)) = some (body, q ++ s)) :
    splitAtByte cl (c ++ (q ++ s')) = some (body, q ++ s') := by
  induction c generalizing body with
  | nil =>
    exfalso
    have := splitAtByte_eq h
    have := congrArg List.length this
    simp [List.length_append] at this
    omega
  | cons b c ih =>
    simp only [List.cons_append, splitAtByte] at h ⊢
    by_cases hb : b = cl
    · rw [if_pos hb] at h ⊢
      simp only [Option.some.injEq, Prod.mk.injEq] at h
      have := nil_of_same_len h.2
      subst this
      simp [h.1]
    · rw [if_neg hb] at h ⊢
      cases hr : splitAtByte cl (c ++ (q ++ s)) with
      | none => rw [hr] at h; cases h
      | some xy =>
        obtain ⟨x, y⟩ := xy
        rw [hr] at h
        simp only [Option.some.injEq, Prod.mk.injEq] at h
        obtain ⟨hbody, hy⟩ := h
        subst hy
        rw [ih x hr]
        simp [hbody]

theorem delimited_okStable (opn cls : Nat) (mk : Bytes → Token) (r1 r2 r3 : Reason) :
    OkStable (delimited opn cls mk r1 r2 r3) := by
  intro c q s s' tok h _
  cases c with
  | nil =>
    exfalso
    have := delimited_strict opn cls mk r1 r2 r3 (q ++ s)
    simp only [List.nil_append] at h
    rw [h] at this
    simp [Strict] at this
  | cons b c =>
    simp only [List.cons_append, delimited] at h ⊢
    by_cases hb : b.toNat = opn
    · rw [if_pos hb] at h ⊢
      cases hsp : splitAtByte (UInt8.ofNat cls) (c ++ (q ++ s)) with
      | none => rw [hsp] at h; cases h
      | some br =>
        obtain ⟨body, remaining⟩ := br
        rw [hsp] at h
        simp only at h
        by_cases hv : validUtf8 body = true
        · rw [if_pos hv] at h
          by_cases hn : body.contains 10 = true
          · rw [if_pos hn] at h; cases h
          · rw [if_neg hn] at h
            simp only [Except.ok.injEq, Prod.mk.injEq] at h
            obtain ⟨hrem, htok⟩ := h
            subst hrem
            rw [splitAtByte_stable _ c q s s' body hsp]
            simp only
            rw [if_pos hv, if_neg hn, htok]
        · rw [if_neg hv] at h; cases h
    · rw [if_neg hb] at h; simp [otherTokenChars] at h

/-! ## the entries of the `choose` list -/

/-- the first bytes an entry can accept -/
def subFirst : Sub → List Nat
  | .whitespaceSimple => [32, 9]
  | .whitespaceEndline => [92, 13, 10]
  | .lineComment => [47]
  | .blockComment => [47]
  | .literalString => [34]
  | .leftAngle => [60]
  | .rightAngle => [62]
  | .single c _ => [c]
  | .opOrEq c _ _ _ => [c]

/-- a doubled operator (`++`, `&&`, `##`, `::`) is never made of a stopper byte -/
def subBlind : Sub → Bool
  | .opOrEq c _ _ (some _) => !(c == 32 || c == 9 || c == 10 || c == 13 || c == 92 || c == 47)
  | _ => true

theorem stripPrefix_head_ne (a : UInt8) (pat : Bytes) (b : UInt8) (r : Bytes) (h : a ≠ b) :
    stripPrefix? (a :: pat) (b :: r) = none := by
  simp [stripPrefix?, h]

/-- an entry answers "not my token" when the first byte is not one of its first bytes -/
theorem runSub_other_first (sub : Sub) (look : Unit → LexResult Token) (b : UInt8) (r : Bytes)
    (h : b.toNat ∉ subFirst sub) : runSub sub look (b :: r) = otherTokenChars (b :: r) := by
  cases sub with
  | whitespaceSimple =>
    simp only [subFirst, List.mem_cons, List.not_mem_nil, or_false, not_or] at h
    simp [runSub, whitespaceSimple, h.1, h.2]
  | whitespaceEndline =>
    simp only [subFirst, List.mem_cons, List.not_mem_nil, or_false, not_or] at h
    have h1 : (92 : UInt8) ≠ b := u8_ne_of_toNat (by simpa using Ne.symm h.1)
    have h2 : (13 : UInt8) ≠ b := u8_ne_of_toNat (by simpa using Ne.symm h.2.1)
    have h3 : (10 : UInt8) ≠ b := u8_ne_of_toNat (by simpa using Ne.symm h.2.2)
    simp [runSub, whitespaceEndline, stripPrefix_head_ne, h1, h2, h3]
  | lineComment =>
    simp only [subFirst, List.mem_cons, List.not_mem_nil, or_false] at h
    have h1 : (47 : UInt8) ≠ b := u8_ne_of_toNat (by simpa using Ne.symm h)
    simp [runSub, lineComment, stripPrefix_head_ne, h1]
  | blockComment =>
    simp only [subFirst, List.mem_cons, List.not_mem_nil, or_false] at h
    have h1 : (47 : UInt8) ≠ b := u8_ne_of_toNat (by simpa using Ne.symm h)
    simp [runSub, blockComment, stripPrefix_head_ne, h1]
  | literalString =>
    simp only [subFirst, List.mem_cons, List.not_mem_nil, or_false] at h
    simp [runSub, literalString, delimited, h]
  | leftAngle =>
    simp only [subFirst, List.mem_cons, List.not_mem_nil, or_false] at h
    simp [runSub, h]
  | rightAngle =>
    simp only [subFirst, List.mem_cons, List.not_mem_nil, or_false] at h
    simp [runSub, h]
  | single c t =>
    simp only [subFirst, List.mem_cons, List.not_mem_nil, or_false] at h
    simp [runSub, h]
  | opOrEq c op e o =>
    simp only [subFirst, List.mem_cons, List.not_mem_nil, or_false] at h
    simp [runSub, h]

theorem runSub_first (sub : Sub) (look : Unit → LexResult Token) (b : UInt8) (r rest : Bytes) (tok : Token)
    (h : runSub sub look (b :: r) = .ok (rest, tok)) : b.toNat ∈ subFirst sub := by
  by_cases hm : b.toNat ∈ subFirst sub
  · exact hm
  · rw [runSub_other_first sub look b r hm] at h; simp [otherTokenChars] at h

theorem stopNat_of_isStop {b : UInt8} (h : isStop b = true) :
    (b.toNat == 32 || b.toNat == 9 || b.toNat == 10 || b.toNat == 13 || b.toNat == 92 || b.toNat == 47) = true := h

/-- an entry that produced a token produces the same token when the text after it is replaced by a
stopper-headed one; for a line comment the line ending that stopped it has to be kept; for `<` and `>` the
look-ahead has to classify the following token the same way -/
theorem runSub_okStable (sub : Sub) (hbl : subBlind sub = true) (look look' : Unit → LexResult Token)
    (c q s s' : Bytes) (tok : Token)
    (h : runSub sub look (c ++ (q ++ s)) = .ok (q ++ s, tok)) (hs : HeadStop s')
    (hlc : sub = .lineComment → (∃ q', q = 10 :: q') ∨ (∃ q', q = 13 :: 10 :: q'))
    (hlook : sub = .leftAngle ∨ sub = .rightAngle → followedBy (look ()) = followedBy (look' ())) :
    runSub sub look' (c ++ (q ++ s')) = .ok (q ++ s', tok) := by
  -- every entry consumes at least one byte
  cases c with
  | nil =>
    exfalso
    have := runSub_strict sub look (q ++ s)
    simp only [List.nil_append] at h
    rw [h] at this
    simp [Strict] at this
  | cons b c =>
  cases sub with
  | whitespaceSimple =>
    simp only [runSub, List.cons_append, whitespaceSimple] at h ⊢
    by_cases hb : b.toNat = 32 ∨ b.toNat = 9
    · rw [if_pos hb] at h ⊢
      obtain ⟨rfl, rfl⟩ := ok_rest_nil h; simp
    · rw [if_neg hb] at h; simp [otherTokenChars] at h
  | whitespaceEndline => exact whitespaceEndline_okStable (b :: c) q s s' tok h hs
  | lineComment => exact lineComment_okStable (b :: c) q s s' tok h (hlc rfl)
  | blockComment => exact blockComment_okStable (b :: c) q s s' tok h hs
  | literalString => exact delimited_okStable _ _ _ _ _ _ (b :: c) q s s' tok h hs
  | leftAngle =>
    simp only [runSub, List.cons_append] at h ⊢
    by_cases hb : b.toNat = 60
    · rw [if_pos hb] at h ⊢
      obtain ⟨rfl, rfl⟩ := ok_rest_nil h
      simp [hlook (Or.inl rfl)]
    · rw [if_neg hb] at h; simp [otherTokenChars] at h
  | rightAngle =>
    simp only [runSub, List.cons_append] at h ⊢
    by_cases hb : b.toNat = 62
    · rw [if_pos hb] at h ⊢
      obtain ⟨rfl, rfl⟩ := ok_rest_nil h
      simp [hlook (Or.inr rfl)]
    · rw [if_neg hb] at h; simp [otherTokenChars] at h
  | single ch t =>
    simp only [runSub, List.cons_append] at h ⊢
    by_cases hb : b.toNat = ch
    · rw [if_pos hb] at h ⊢
      obtain ⟨rfl, rfl⟩ := ok_rest_nil h; simp
    · rw [if_neg hb] at h; simp [otherTokenChars] at h
  | opOrEq ch op opEq opOp =>
    simp only [runSub, List.cons_append] at h ⊢
    by_cases hb : b.toNat = ch
    · rw [if_pos hb] at h ⊢
      cases c with
      | cons b2 c =>
        -- the second byte was consumed: a two-byte operator
        simp only [List.cons_append] at h ⊢
        cases he : (if b2.toNat = 61 then opEq else none) with
        | some t =>
          rw [he] at h
          simp only at h ⊢
          obtain ⟨rfl, rfl⟩ := ok_rest_nil h; simp
        | none =>
          rw [he] at h
          simp only at h ⊢
          cases ho : (if b2.toNat = ch then opOp else none) with
          | some t =>
            rw [ho] at h
            simp only at h ⊢
            obtain ⟨rfl, rfl⟩ := ok_rest_nil h; simp
          | none =>
            rw [ho] at h
            simp only [Except.ok.injEq, Prod.mk.injEq] at h
            have := congrArg List.length h.1
            simp [List.length_append] at this
            omega
      | nil =>
        -- a one-byte operator: the next byte is neither `=` nor the operator again
        simp only [List.nil_append] at h ⊢
        have hop : tok = .simple op := by
          cases hx : q ++ s with
          | nil => rw [hx] at h; simp at h; exact h.symm
          | cons b2 r2 =>
            rw [hx] at h
            simp only at h
            cases he : (if b2.toNat = 61 then opEq else none) with
            | some t =>
              rw [he] at h
              simp only [Except.ok.injEq, Prod.mk.injEq] at h
              have := congrArg List.length h.1; simp at this
            | none =>
              rw [he] at h
              simp only at h
              cases ho : (if b2.toNat = ch then opOp else none) with
              | some t =>
                rw [ho] at h
                simp only [Except.ok.injEq, Prod.mk.injEq] at h
                have := congrArg List.length h.1; simp at this
              | none => rw [ho] at h; simp at h; exact h.symm
        subst hop
        cases q with
        | cons qb qr =>
          -- the same next byte
          simp only [List.cons_append] at h ⊢
          cases he : (if qb.toNat = 61 then opEq else none) with
          | some t =>
            rw [he] at h
            simp only [Except.ok.injEq, Prod.mk.injEq] at h
            have := congrArg List.length h.1; simp at this
          | none =>
            rw [he] at h
            simp only at h ⊢
            cases ho : (if qb.toNat = ch then opOp else none) with
            | some t =>
              rw [ho] at h
              simp only [Except.ok.injEq, Prod.mk.injEq] at h
              have := congrArg List.length h.1; simp at this
            | none => rfl
        | nil =>
          simp only [List.nil_append]
          cases s' with
          | nil => rfl
          | cons sb sr =>
            have hsb := isStop_cases hs
            have h61 : ¬ sb.toNat = 61 := by omega
            simp only [if_neg h61]
            cases opOp with
            | none => simp
            | some t =>
              have hne : ¬ sb.toNat = ch := by
                intro hh
                simp only [subBlind] at hbl
                rw [← hh] at hbl
                rw [stopNat_of_isStop hs] at hbl
                cases hbl
              simp [hne]
    · rw [if_neg hb] at h; simp [otherTokenChars] at h

/-! ## `choose` -/

/-- an entry may share a first byte with a later entry only if it is one of the two comment lexers -/
def tableOK : List Sub → Bool
  | [] => true
  | s :: more =>
    (more.all fun t => (subFirst t).all fun b =>
      !(subFirst s).contains b || decide (s = .lineComment) || decide (s = .blockComment)) && tableOK more

theorem choose_ok_mem (subs : List Sub) (look : Unit → LexResult Token) (x rest : Bytes) (tok : Token)
    (h : choose subs look x = .ok (rest, tok)) : ∃ t ∈ subs, runSub t look x = .ok (rest, tok) := by
  induction subs with
  | nil => simp [choose, wrongChars] at h
  | cons sub more ih =>
    unfold choose at h
    cases hr : runSub sub look x with
    | ok v => rw [hr] at h; simp only [Except.ok.injEq] at h; subst h; exact ⟨sub, by simp, hr⟩
    | error e =>
      rw [hr] at h
      cases e with
      | panic site => cases h
      | lex pos reason =>
        cases reason <;> try (cases h)
        simp only at h
        by_cases hl : pos.len = x.length
        · rw [if_pos hl] at h
          obtain ⟨t, ht, hrt⟩ := ih h
          exact ⟨t, by simp [ht], hrt⟩
        · rw [if_neg hl] at h; cases h

/-- a comment lexer that said "not my token" says so again: the byte after a `/` is the same, or a stopper other than `/` -/
theorem comment_other_stable (sub : Sub) (hsub : sub = .lineComment ∨ sub = .blockComment)
    (look look' : Unit → LexResult Token) (b : UInt8) (c q s s' : Bytes)
    (h : runSub sub look (b :: (c ++ (q ++ s))) = otherTokenChars (b :: (c ++ (q ++ s)))) (hs : HeadStop s')
    (hsl : c = [] → q = [] → ∀ r, s' ≠ 47 :: r) :
    runSub sub look' (b :: (c ++ (q ++ s'))) = otherTokenChars (b :: (c ++ (q ++ s'))) := by
  -- the second byte
  have hsecond : ∀ (pat2 : UInt8), pat2.toNat = 47 ∨ pat2.toNat = 42 →
      stripPrefix? [47, pat2] (b :: (c ++ (q ++ s))) = none →
      (pat2.toNat = 47 → c = [] → q = [] → ∀ r, s' ≠ 47 :: r) →
      stripPrefix? [47, pat2] (b :: (c ++ (q ++ s'))) = none := by
    intro pat2 hp2 hn hsl'
    simp only [stripPrefix?] at hn ⊢
    by_cases hb : (47 : UInt8) = b
    · rw [if_pos hb] at hn ⊢
      cases c with
      | cons c0 c1 =>
        simp only [List.cons_append, stripPrefix?] at hn ⊢
        by_cases h2 : pat2 = c0
        · rw [if_pos h2] at hn; cases hn
        · rw [if_neg h2]
      | nil =>
        cases q with
        | cons q0 q1 =>
          simp only [List.nil_append, List.cons_append, stripPrefix?] at hn ⊢
          by_cases h2 : pat2 = q0
          · rw [if_pos h2] at hn; cases hn
          · rw [if_neg h2]
        | nil =>
          simp only [List.nil_append] at hn ⊢
          cases s' with
          | nil => rfl
          | cons sb sr =>
            simp only [stripPrefix?]
            have : pat2 ≠ sb := by
              intro he; subst he
              rcases hp2 with h47 | h42
              · have : pat2 = 47 := by
                  apply UInt8.toNat_inj.1; simpa using h47
                subst this
                exact hsl' rfl rfl rfl sr rfl
              · have := isStop_cases hs; omega
            rw [if_neg this]
    · rw [if_neg hb]
  rcases hsub with rfl | rfl
  · simp only [runSub, lineComment] at h ⊢
    cases hp : stripPrefix? [47, 47] (b :: (c ++ (q ++ s))) with
    | some r => rw [hp] at h; simp [otherTokenChars] at h
    | none => rw [hsecond 47 (Or.inl rfl) hp (fun _ => hsl)]
  · simp only [runSub, blockComment] at h ⊢
    cases hp : stripPrefix? [47, 42] (b :: (c ++ (q ++ s))) with
    | some r =>
      rw [hp] at h
      simp only at h
      cases hb : blockSearch r with
      | none => rw [hb] at h; simp [endOfStream, otherTokenChars] at h
      | some rest => rw [hb] at h; simp [otherTokenChars] at h
    | none => rw [hsecond 42 (Or.inr rfl) hp (fun h42 => by simp at h42)]

/-- what has to be known about the text after the token, beyond "stopper-headed" -/
structure SideOK (b : UInt8) (c q s' : Bytes) : Prop where
  /-- a `/` directly followed by the new text: that text does not start with `/` -/
  slash : b.toNat = 47 → c = [] → q = [] → ∀ r, s' ≠ 47 :: r
  /-- a line comment: the line ending that stopped it is kept -/
  lineComment : ∀ c0 c1, c = c0 :: c1 → b.toNat = 47 → c0.toNat = 47 →
    (∃ q', q = 10 :: q') ∨ (∃ q', q = 13 :: 10 :: q')

theorem choose_stable (subs : List Sub) (htab : tableOK subs = true) (hbl : subs.all subBlind = true)
    (look look' : Unit → LexResult Token) (b : UInt8) (c q s s' : Bytes) (tok : Token)
    (h : choose subs look (b :: (c ++ (q ++ s))) = .ok (q ++ s, tok)) (hs : HeadStop s')
    (hside : SideOK b c q s')
    (hlook : b.toNat = 60 ∨ b.toNat = 62 → followedBy (look ()) = followedBy (look' ())) :
    choose subs look' (b :: (c ++ (q ++ s'))) = .ok (q ++ s', tok) := by
  induction subs with
  | nil => simp [choose, wrongChars] at h
  | cons sub more ih =>
    simp only [tableOK, Bool.and_eq_true] at htab
    simp only [List.all_cons, Bool.and_eq_true] at hbl
    unfold choose at h ⊢
    cases hr : runSub sub look (b :: (c ++ (q ++ s))) with
    | ok v =>
      rw [hr] at h
      simp only [Except.ok.injEq] at h
      subst h
      have hfirst := runSub_first sub look b _ _ _ hr
      have hr' := runSub_okStable sub hbl.1 look look' (b :: c) q s s' tok (by simpa using hr) hs
        (by
          intro hsub
          subst hsub
          -- a line comment starts with `//`
          simp only [runSub, lineComment] at hr
          cases hp : stripPrefix? [47, 47] (b :: (c ++ (q ++ s))) with
          | none => rw [hp] at hr; simp [otherTokenChars] at hr
          | some r =>
            have hx := stripPrefix?_eq hp
            cases c with
            | nil =>
              exfalso
              rw [hp] at hr
              simp only [Except.ok.injEq, Prod.mk.injEq] at hr
              have h1 := (lineCommentEnd_suffix r).length_le
              rw [hr.1] at h1
              have h2 := congrArg List.length hx
              simp at h2 h1
              omega
            | cons c0 c1 =>
              simp only [List.cons_append, List.cons.injEq] at hx
              have hb47 : b.toNat = 47 := by rw [hx.1]; rfl
              have hc47 : c0.toNat = 47 := by rw [hx.2.1]; rfl
              exact hside.lineComment c0 c1 rfl hb47 hc47)
        (by
          intro hsub
          apply hlook
          rcases hsub with rfl | rfl
          · left; simpa [subFirst] using hfirst
          · right; simpa [subFirst] using hfirst)
      simp only [List.cons_append] at hr'
      rw [hr']
    | error e =>
      rw [hr] at h
      have hoth := runSub_other sub look (b :: (c ++ (q ++ s)))
      rw [hr] at hoth
      cases e with
      | panic site => cases h
      | lex pos reason =>
        cases reason <;> try (cases h)
        simp only [OtherAtStart] at hoth
        subst hoth
        simp only [ErrAt.len, if_true] at h
        -- the same entry says "not my token" on the edited text
        have hr' : runSub sub look' (b :: (c ++ (q ++ s'))) = otherTokenChars (b :: (c ++ (q ++ s'))) := by
          by_cases hm : b.toNat ∈ subFirst sub
          · obtain ⟨t, ht, hrt⟩ := choose_ok_mem more look _ _ _ h
            have htf := runSub_first t look b _ _ _ hrt
            have hsub : sub = .lineComment ∨ sub = .blockComment := by
              have h1 := List.all_eq_true.1 htab.1 t ht
              have h2 := List.all_eq_true.1 h1 _ htf
              simp only [Bool.or_eq_true, Bool.not_eq_true', decide_eq_true_eq] at h2
              rcases h2 with (h2 | h2) | h2
              · exfalso
                have : (subFirst sub).contains b.toNat = true := by simpa using hm
                rw [h2] at this; cases this
              · exact Or.inl h2
              · exact Or.inr h2
            have hb47 : b.toNat = 47 := by
              rcases hsub with rfl | rfl <;> simpa [subFirst] using hm
            exact comment_other_stable sub hsub look look' b c q s s' hr hs (hside.slash hb47)
          · exact runSub_other_first sub look' b _ hm
        rw [hr']
        simp only [otherTokenChars, ErrAt.len, if_true]
        exact ih htab.2 hbl.2 h

/-! ## `token_intermediate` -/

theorem tokenStep_digit (b : UInt8) (r : Bytes) (look : Unit → LexResult Token)
    (hb : 48 ≤ b.toNat ∧ b.toNat ≤ 57) : tokenStep b r false look = numTok (b :: r) := by
  unfold tokenStep numTok
  rw [if_pos hb]
  rfl

theorem decDigit_of_range (b : UInt8) (hb : 48 ≤ b.toNat ∧ b.toNat ≤ 57) : decDigit? b = some (b.toNat - 48) := by
  simp [decDigit?, hb]

/-- **The token at the front of a text does not depend on what follows it, as far as stopper-headed
replacements go.**  `token_intermediate` produced `tok` from `b :: c` (rest `q ++ s`); then it produces the same
token from `b :: c` followed by `q ++ s'`, for every `s'` that is empty or begins with a stopper, provided:
the float lexer did not give up on an `x` suffix (`1.xxx`), a `/` is not directly followed by a new `/`,
a line comment keeps its line ending, and for `<` / `>` the look-ahead classifies the next token alike. -/
theorem tokenIntermediate_stable (b : UInt8) (c q s s' : Bytes) (tok : Token)
    (h : tokenIntermediate (b :: (c ++ (q ++ s))) false = .ok (q ++ s, tok)) (hs : HeadStop s')
    (hnx : ¬ FloatGaveUpOnX (b :: (c ++ (q ++ s))))
    (hside : SideOK b c q s')
    (hlook : b.toNat = 60 ∨ b.toNat = 62 →
      followedBy (tokenIntermediate (c ++ (q ++ s)) false) = followedBy (tokenIntermediate (c ++ (q ++ s')) false)) :
    tokenIntermediate (b :: (c ++ (q ++ s'))) false = .ok (q ++ s', tok) := by
  simp only [tokenIntermediate] at h ⊢
  by_cases hd : 48 ≤ b.toNat ∧ b.toNat ≤ 57
  · rw [tokenStep_digit b _ _ hd] at h ⊢
    exact numTok_stable b _ (decDigit_of_range b hd) c q s s' tok h hnx hs
  · unfold tokenStep at h ⊢
    rw [if_neg hd] at h ⊢
    by_cases hi : isIdentStart b = true
    · rw [if_pos hi] at h ⊢
      have := anyWord_okStable (b :: c) q s s' tok (by simpa using h) hs
      simpa using this
    · rw [if_neg hi] at h ⊢
      simp only [Bool.false_eq_true, if_false] at h ⊢
      exact choose_stable tokenChoice (by decide) (by decide) _ _ b c q s s' tok h hs hside hlook

end RsslVerif.Lemmas.LexStable

import RsslVerif.Spec.Dec2Bin
import RsslVerif.Model.Lexer
/-!
# Model of `format_literal` (formatter/src/formatter.rs) on numeric literals

What the code does, arm by arm (the arms, guards and format strings are re-extracted on every run into
`Gen.LitFormatTables` and pinned by `Thm.C10.literal_tables_as_modelled`):

* integers: Rust's `Display` of the `u64` / `i64` payload followed by the suffix (`""`, `u`, `ul`, `l`);
* floats (`f64` for the untyped and the `L` kind, `f32` for the `f` **and** the `h` kind — a half literal is kept
  and printed as a single): infinity by name (`1.#INF` + suffix for HLSL, `INFINITY` for Metal), `FLT_MAX` for the
  largest single on Metal, `-0.0`, whole values in `[-2^63, 2^63]` through `v as i64` with `.0` appended, larger
  whole values as `Display` with `.0` appended, everything else as `Display` followed by the suffix — except (since
  fix 265a080) a single (`f` / `h` kind) whose `Display` digits, read the way the lexer reads a literal (nearest
  double, narrowed once), are *not* the value again (`f32_digits_round_twice`): it is printed with `Display` of the same
  value as a double (`*v as f64`) followed by the suffix.

`Display` of a float is *not* computed here: the request carries the texts Rust printed (of the value, and for the
single-precision kinds of the value as a double) and the harness checks, with exact integer arithmetic, that they are
plain decimals whose nearest value is the value printed (the assumption of `Thm.C10.emit_value_exact`).  The guard
`f32_digits_round_twice` *is* computed here (`roundTwice?`): `str::parse::<f64>` is the nearest double of the digits
(`nearest64`, the reading `calculate_float64_from_parts` of the lexer uses as well) and `as f32` is `narrow32`.
Core Lean only (linked into `rsslmodel_c10`).
-/
namespace RsslVerif.Model.LitFormat
open RsslVerif.Spec

abbrev Bytes := List UInt8

inductive Kind where
  | int | u32 | u64 | s64 | float | f16 | f32 | f64
  deriving DecidableEq, Repr

def Kind.ofName : String → Option Kind
  | "Int" => some .int
  | "IntU32" => some .u32
  | "IntU64" => some .u64
  | "IntS64" => some .s64
  | "Float" => some .float
  | "Float16" => some .f16
  | "Float32" => some .f32
  | "Float64" => some .f64
  | _ => none

def str (s : String) : Bytes := s.toUTF8.toList

/-- the suffix `format_literal` appends -/
def Kind.suffix : Kind → Bytes
  | .int => []
  | .u32 => [117]
  | .u64 => [117, 108]
  | .s64 => [108]
  | .float => []
  | .f16 => [104]
  | .f32 => [102]
  | .f64 => [76]

/-- the format a float kind is stored in (`ast::Literal::Float16(f32)`!) -/
def Kind.fmt : Kind → Dec2Bin.Fmt
  | .f16 | .f32 => Dec2Bin.binary32
  | _ => Dec2Bin.binary64

/-- least significant digit first; `fuel > n` suffices -/
def decDigitsRev : Nat → Nat → List Nat
  | 0, _ => []
  | fuel + 1, n => if n < 10 then [n] else (n % 10) :: decDigitsRev fuel (n / 10)

/-- the decimal digits of `n`, most significant first (`[0]` for zero): `Display for u64` -/
def decDigits (n : Nat) : List Nat := (decDigitsRev (n + 1) n).reverse

def digitByte (d : Nat) : UInt8 := UInt8.ofNat (48 + d)

def decText (n : Nat) : Bytes := (decDigits n).map digitByte

/-- sign bit of the storage format (`2^63` / `2^31`) -/
def signBit (f : Dec2Bin.Fmt) : Nat := 2 ^ (f.ebits + f.p - 1)

/-- the value of a finite magnitude is a whole number: `(m, q)` with `q ≥ 0`, or `2^-q ∣ m` -/
def wholeValue? (f : Dec2Bin.Fmt) (mag : Nat) : Option Nat :=
  let mq := Dec2Bin.decode f mag
  if 0 ≤ mq.2 then some (mq.1 * 2 ^ mq.2.toNat)
  else if mq.1 % 2 ^ (-mq.2).toNat = 0 then some (mq.1 / 2 ^ (-mq.2).toNat) else none

/-- the bytes of `.0` -/
def dotZero : Bytes := [46, 48]

/-- the bytes of `1.#INF` -/
def infHlsl : Bytes := [49, 46, 35, 73, 78, 70]

/-- the name of `+∞`: `write_infinity_*` -/
def infText (k : Kind) (msl : Bool) : Except String Bytes :=
  if msl then
    if k = .f64 then .error "panic: invalid msl" else .ok (str "INFINITY")
  else .ok (infHlsl ++ k.suffix)

/-- a plain decimal `L` or `L.R` (both digit runs non-empty, nothing else): what `Display` writes for a finite
non-negative float.  Anything else is outside the model (`none`). -/
def parsePlain (t : Bytes) : Option (List Nat × List Nat) :=
  match Lexer.spanDigits t with
  | ([], _) => none
  | (L, []) => some (L, [])
  | (L, 46 :: r) =>
    (match Lexer.spanDigits r with
     | ([], _) => none
     | (R, []) => some (L, R)
     | _ => none)
  | _ => none

/-- `f32_digits_round_twice(v)` = `v.to_string().parse::<f64>().map(|d| d as f32) != Ok(v)` on a finite single with
magnitude `mag`: the `Display` text (its `-` taken off for a negative value: rounding is symmetric) read as the nearest
double and narrowed once is not the value.  `none`: the text is not a plain decimal (outside the model). -/
def roundTwice? (neg : Bool) (mag : Nat) (disp : Bytes) : Option Bool :=
  let body : Option Bytes := if neg then (match disp with | 45 :: d => some d | _ => none) else some disp
  match body with
  | none => none
  | some d =>
    match parsePlain d with
    | none => none
    | some (L, R) => some (Dec2Bin.narrow32 (Dec2Bin.nearest64 (L ++ R) (0 - (R.length : Nat))) != mag)

/-- `*v as f64` on the magnitude of a finite single: the double with exactly the same value -/
def widen32 (mag : Nat) : Nat :=
  let mq := Dec2Bin.decode Dec2Bin.binary32 mag
  if 0 ≤ mq.2 then Dec2Bin.nearestRat Dec2Bin.binary64 (mq.1 * 2 ^ mq.2.toNat) 1
  else Dec2Bin.nearestRat Dec2Bin.binary64 mq.1 (2 ^ (-mq.2).toNat)

/-- what `fmtFloat` answers when a `Display` text is not a plain decimal -/
def notPlain : String := "unsupported: Display is not digits[.digits]"

/-- `format_literal` on a float literal: `bits` is the stored bit pattern (sign included), `disp` Rust's `Display`
of the stored value, `disp64` Rust's `Display` of the stored value as a double (`*v as f64`; read only for the
single-precision kinds, and only when `f32_digits_round_twice` holds) -/
def fmtFloat (k : Kind) (msl : Bool) (bits : Nat) (disp disp64 : Bytes) : Except String Bytes :=
  let f := k.fmt
  let neg := decide (signBit f ≤ bits)
  let mag := bits % signBit f
  if f.infBits < mag then .error "NaN"
  else if mag = f.infBits then
    match infText k msl with
    | .ok t => .ok (if neg then 45 :: t else t)
    | .error e => .error e
  else if k = .f32 ∧ msl = true ∧ neg = false ∧ mag = f.infBits - 1 then .ok (str "FLT_MAX")
  else if mag = 0 ∧ neg = true then .ok (45 :: 48 :: dotZero ++ k.suffix)
  else
    match wholeValue? f mag with
    | some n =>
      if n ≤ 2 ^ 63 then
        -- `*v as i64` saturates: `2^63` prints as `i64::MAX`
        let shown := if neg then n else Nat.min n (2 ^ 63 - 1)
        .ok ((if neg then [45] else []) ++ decText shown ++ dotZero ++ k.suffix)
      else .ok (disp ++ dotZero ++ k.suffix)
    | none =>
      if k = .f16 ∨ k = .f32 then
        match roundTwice? neg mag disp with
        | some true => .ok (disp64 ++ k.suffix)
        | some false => .ok (disp ++ k.suffix)
        | none => .error notPlain
      else .ok (disp ++ k.suffix)

/-- `format_literal` on an integer literal: `bits` is the 64-bit payload (two's complement for `IntSigned64`) -/
def fmtInt (k : Kind) (bits : Nat) : Bytes :=
  if k = .s64 ∧ 2 ^ 63 ≤ bits then 45 :: decText (2 ^ 64 - bits) ++ k.suffix
  else decText bits ++ k.suffix

def fmtLiteral (k : Kind) (msl : Bool) (bits : Nat) (disp disp64 : Bytes) : Except String Bytes :=
  match k with
  | .int | .u32 | .u64 | .s64 => .ok (fmtInt k bits)
  | _ => fmtFloat k msl bits disp disp64

end RsslVerif.Model.LitFormat

import RsslVerif.Driver.C02
import RsslVerif.Driver.C01Vec
import RsslVerif.Model.GenMslVec
import RsslVerif.Spec.SemMslVec
/-!
Line-protocol front end of the C02 *vector layer* model.

`C02.vex <source> <function> <argument vectors> vars=<id>:<name>:<type>,… <IR of the returned expression>`:
parses the expression into `VExpr` (parser of `Driver.C01Vec`: a maximal sub-expression without any vector is a scalar leaf
of `Model.Ir`), recomputes the Metal exporter's tree with `GenMslVec.genMV`, prints it, and evaluates `VIr.eval` on every
argument vector with the harness's concrete primitives; it also evaluates the Metal reading `VMsl.eval` on the generated
tree and appends `MODEL-MSL-DIFF` if the two semantics disagree although the hypotheses of `gen_sem_msl_vec_expr` hold.
`C02.vwt`: do those hypotheses hold for the request?  Everything else is passed to `Driver.C02.handle`.
-/
namespace RsslVerif.Driver.C02Vec
open RsslVerif.Gen.HlslGenTables RsslVerif.Gen.HlslVecTables RsslVerif.Model RsslVerif.Model.IrVec
open RsslVerif.Model.GenMslVec RsslVerif.Spec.Sem RsslVerif.Spec.SemVec RsslVerif.Spec.SemMslVec
open RsslVerif.Driver RsslVerif.Driver.C01 RsslVerif.Driver.C01Vec
open RsslVerif.Model.Ir (Ty Var Const Dir)

def ctxOf (inf : VInfo) : GenMsl.Ctx where
  locName n := ((inf.vars.find? (·.1 == n)).map (·.2.1)).getD ("?v" ++ toString n)
  globName n := "?g" ++ toString n
  funcName n := "?f" ++ toString n
  vty
    | .loc n => match inf.ty n with | some (.sc t) => t | _ => .void
    | .glob _ => .void
  retTy _ := none
  req _ := some []
  called _ := true

def M0 : Msl.MWorld := { P := concretePrim, mphi := fun _ _ _ _ => none, msig := fun _ _ => none }

/-- the side conditions are evaluated with every parameter in scope -/
def sideOf (inf : VInfo) : Ir.Side :=
  { sig := W0.sig, vty := (ctxOf inf).vty, vis := fun _ => true, req := fun _ => some [], rsv := fun _ => [], called := fun _ => true }

def hypotheses (inf : VInfo) (e : VExpr) : Bool :=
  (VIr.typeOf W0.sig (ctxOf inf).vty inf.vvty e).isSome && VOk.okMV (sideOf inf) inf.vvty e

def handleVex (vectors ctx ir : String) : String :=
  if (ir.splitOn "unsupported").length > 1 || (ctx.splitOn "unsupported").length > 1 then "unsupported" else
  match parseVCtx? ctx, parseAll ir, parseVVectors vectors with
  | some inf, [x], some vecs =>
    match parseV? inf x with
    | none => "unsupported outside-the-vector-layer"
    | some e =>
      let cx := ctxOf inf
      match genMV cx inf.vvty e with
      | .error (.panic site) => "panic " ++ RsslVerif.Driver.C02Sem.panicCategory site
      | .error (.unsupported _) => "unsupported"
      | .ok a =>
        let env := inf.env
        let wt := hypotheses inf e
        let outs := vecs.map fun vals =>
          let bound : List ((Nat × String × VTy) × VVal) := inf.vars.zip vals
          let σ0 : Store := fun v => match v with
            | .loc n => match bound.find? (·.1.1 == n) with | some (_, VVal.sc s) => s | _ => .void
            | .glob _ => .void
          let ρ : VStore := fun v => match v with
            | .loc n => match bound.find? (·.1.1 == n) with | some (_, w) => w | none => .vec []
            | .glob _ => .vec []
          let r1 := (VIr.eval W0 ρ e σ0).map (·.1)
          let r2 := (VMsl.eval M0 env ρ a σ0).map (·.1)
          let s1 := match r1 with | some v => showVVal v | none => "none"
          let s2 := match r2 with | some v => showVVal v | none => "none"
          if s1 == s2 || !wt then s1 else s1 ++ " MODEL-MSL-DIFF(" ++ s2 ++ ")"
        "vast " ++ showV a ++ " ;; run " ++ " | ".intercalate outs
  | _, _, _ => "bad-request"

def handle (op : String) (args : List String) : String :=
  match op, args with
  | "C02.vex", [_src, name, vectors, ctx, ir] => if name == "-" || ctx == "-" then "skip" else handleVex vectors ctx ir
  | "C02.vex", _ => "skip"
  | "C02.vwt", [_src, _name, _vectors, ctx, ir] =>
    match parseVCtx? ctx, parseAll ir with
    | some inf, [x] =>
      match parseV? inf x with
      | some e => if hypotheses inf e then "wt" else "not-wt"
      | none => "unsupported"
    | _, _ => "unsupported"
  | _, _ => RsslVerif.Driver.C02.handle op args

end RsslVerif.Driver.C02Vec

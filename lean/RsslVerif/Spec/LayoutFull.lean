import RsslVerif.Spec.Layout
/-!
# Reference layouts over the full type universe of the language (C19)

`Spec.Layout` covers the property's grid (half/int/uint/float/double, vectors, enums, arrays, structs).  The
language has more element types: `bool` and vectors of it, and matrices of every scalar with 1–4 rows and
columns, optionally `row_major` / `column_major`.  `XTy` is that universe; `erase` maps it to the model's `Ty`
(what `get_type_layout` can see: a matrix is just `TypeLayer::Matrix`, its arm ignores the dimensions).

Reference rules for the additions (independent of the model, plain `Nat`):
* `bool`: a 32-bit value under HLSL structured-buffer packing, one byte in Metal; `boolN` under Metal has
  size = alignment = N bytes (4 for N = 3).
* `SxRxC` matrix (R rows, C columns).  HLSL structured buffer: R·C scalars, tightly packed, aligned like the
  scalar (`row_major` / `column_major` only permute the elements).  Metal: the compiler emits
  `metal::S{C}x{R}` = C columns, each an R-component vector with the vector's size and alignment; Metal has
  matrices of `half` and `float` with 2–4 rows and columns only — other matrices have no reference layout.
* an empty struct occupies no bytes in HLSL and one byte in Metal (C++).  (Until /repo d25724e the checker gave
  it 0 bytes in both modes and such types were outside `xwf`, the subject of a negation witness; now they are in.)
-/
namespace RsslVerif.Spec.LayoutFull
open RsslVerif.Gen.LayoutTables RsslVerif.Model.Layout RsslVerif.Spec.Layout

inductive Major where | none | row | column
  deriving DecidableEq, Repr

mutual
/-- every type that can occur below a buffer element type in a program -/
inductive XTy where
  | scalar (s : Scalar)
  | vec (s : Scalar) (n : Nat)
  | mat (s : Scalar) (rows cols : Nat) (major : Major)
  | arr (t : XTy) (n : Nat)
  | struct (ms : XTys)
  | enum (u : Scalar)
inductive XTys where
  | nil
  | cons (t : XTy) (ts : XTys)
end

def XTys.ofList : List XTy → XTys
  | [] => .nil
  | t :: ts => .cons t (XTys.ofList ts)

mutual
/-- what the layout checker sees of the type -/
def erase : XTy → Ty
  | .scalar s => .scalar s
  | .vec s n => .vec s n
  | .mat _ _ _ _ => .other .Matrix
  | .arr t n => .arr (erase t) n
  | .struct ms => .struct (eraseAll ms)
  | .enum u => .enum u
def eraseAll : XTys → Tys
  | .nil => .nil
  | .cons t ts => .cons (erase t) (eraseAll ts)
end

/-- byte size of a scalar: `bool` is 4 bytes in an HLSL structured buffer and 1 byte in Metal -/
def xbytes (m : Mode) : Scalar → Nat
  | .Bool => match m with | .hlsl => 4 | .metal => 1
  | s => bytes s

def xsized (s : Scalar) : Bool := sized s || s == .Bool

def xvecSize (m : Mode) (s : Scalar) (n : Nat) : Nat :=
  match m with
  | .hlsl => n * xbytes m s
  | .metal => metalLanes n * xbytes m s

def xvecAlign (m : Mode) (s : Scalar) (n : Nat) : Nat :=
  match m with
  | .hlsl => xbytes m s
  | .metal => metalLanes n * xbytes m s

def matSize (m : Mode) (s : Scalar) (r c : Nat) : Nat :=
  match m with
  | .hlsl => r * c * xbytes m s
  | .metal => c * (metalLanes r * xbytes m s)

def matAlign (m : Mode) (s : Scalar) (r : Nat) : Nat :=
  match m with
  | .hlsl => xbytes m s
  | .metal => metalLanes r * xbytes m s

mutual
def xalign (m : Mode) : XTy → Nat
  | .scalar s => xbytes m s
  | .vec s n => xvecAlign m s n
  | .mat s r _ _ => matAlign m s r
  | .arr t _ => xalign m t
  | .struct ms => xalignMax m ms
  | .enum u => xbytes m u
def xalignMax (m : Mode) : XTys → Nat
  | .nil => 1
  | .cons t ts => max (xalign m t) (xalignMax m ts)
end

mutual
/-- total size in bytes, including tail padding -/
def xsize (m : Mode) : XTy → Nat
  | .scalar s => xbytes m s
  | .vec s n => xvecSize m s n
  | .mat s r c _ => matSize m s r c
  | .arr t n => n * roundUp (xsize m t) (xalign m t)
  | .struct ms =>
    match ms with
    | .nil => (match m with | .hlsl => 0 | .metal => 1)
    | .cons _ _ => roundUp (xendOf m ms 0) (xalignMax m ms)
  | .enum u => xbytes m u
def xendOf (m : Mode) : XTys → Nat → Nat
  | .nil, c => c
  | .cons t ts, c => xendOf m ts (roundUp c (xalign m t) + xsize m t)
end

def xoffsets (m : Mode) : XTys → Nat → List Nat
  | .nil, _ => []
  | .cons t ts, c => roundUp c (xalign m t) :: xoffsets m ts (roundUp c (xalign m t) + xsize m t)

def xstride (m : Mode) (t : XTy) : Nat := roundUp (xsize m t) (xalign m t)

mutual
/-- types for which both rule sets define a layout -/
def xwf : XTy → Bool
  | .scalar s => xsized s
  | .vec s n => xsized s && (1 ≤ n && n ≤ 4)
  | .mat s r c _ => (s == .Float16 || s == .Float32) && (2 ≤ r && r ≤ 4) && (2 ≤ c && c ≤ 4)
  | .arr t n => decide (1 ≤ n) && xwf t
  | .struct ms => xwfAll ms
  | .enum u => u == .Int32 || u == .UInt32
def xwfAll : XTys → Bool
  | .nil => true
  | .cons t ts => xwf t && xwfAll ts
end

mutual
/-- absolute byte offset of every field below `t` placed at `base`, recursively (a matrix is one field) -/
def xfieldsAt (m : Mode) : XTy → Nat → List Nat
  | .arr t n, base =>
    (List.range n).flatMap fun k => (base + k * xstride m t) :: xfieldsAt m t (base + k * xstride m t)
  | .struct ms, base => xmembersAt m ms base 0
  | _, _ => []
def xmembersAt (m : Mode) : XTys → Nat → Nat → List Nat
  | .nil, _, _ => []
  | .cons t ts, base, c =>
    (base + roundUp c (xalign m t)) :: (xfieldsAt m t (base + roundUp c (xalign m t)) ++
      xmembersAt m ts base (roundUp c (xalign m t) + xsize m t))
end

def xref (m : Mode) (t : XTy) : Option Ref :=
  if xwf t then some ⟨xsize m t, xalign m t, xfieldsAt m t 0⟩ else none

/-- the reference calculator for HLSL structured-buffer packing, full universe -/
def xhlslSB (t : XTy) : Option Ref := xref .hlsl t
/-- the reference calculator for Metal, full universe -/
def xmetal (t : XTy) : Option Ref := xref .metal t

mutual
/-- every field below `t` has the same offset relative to the start of `t` under both rules -/
def xagreeIn : XTy → Bool
  | .arr t n => n == 0 || ((n ≤ 1 || xstride .hlsl t == xstride .metal t) && xagreeIn t)
  | .struct ms => xoffsets .hlsl ms 0 == xoffsets .metal ms 0 && xagreeInAll ms
  | _ => true
def xagreeInAll : XTys → Bool
  | .nil => true
  | .cons t ts => xagreeIn t && xagreeInAll ts
end

/-- same total size, same offset of every field, recursively -/
def XAgree (t : XTy) : Prop := xsize .hlsl t = xsize .metal t ∧ xagreeIn t = true

instance (t : XTy) : Decidable (XAgree t) := by unfold XAgree; exact inferInstance

mutual
/-- no `bool`, no matrix anywhere: the part of the universe `get_type_layout` has an answer for -/
def plain : XTy → Bool
  | .scalar s => s != .Bool
  | .vec s _ => s != .Bool
  | .mat _ _ _ _ => false
  | .arr t _ => plain t
  | .struct ms => plainAll ms
  | .enum _ => true
def plainAll : XTys → Bool
  | .nil => true
  | .cons t ts => plain t && plainAll ts
end

end RsslVerif.Spec.LayoutFull

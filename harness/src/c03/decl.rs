//! C03, declared types: the modifiers a named type (typedef over typedefs, struct-template type parameter) carries and
//! the modifiers written at the use site, followed by a write to the declared object.
//!
//! request : C03.decl \t <layer> \t <carrier> \t <layers> \t <use> \t <storage> \t <write>
//!             layer   = the type below all modifiers (`s.Float32`, `v.Float32.3`, `m.Float32.2.2`, `o.0` = struct S0, ...)
//!             carrier = td   `typedef <kws0> B T0; typedef <kws1> T0 T1; ...`, the object is declared `<use> Tn`
//!                     | tp   the same typedefs but the last layer is the argument of a struct template:
//!                            `template<typename T> struct W { ... <use> T xq ... }` instantiated as `W<<kwsn> Tn-1>`
//!             layers  = `-` (the type is named directly) | <kws>,<kws>,...   innermost first
//!             kws     = `0` / `-` (no keyword) | letters of `cvrkun` in written order (const volatile row_major column_major unorm snorm)
//!             use     = kws written at the declaration of the object
//!             storage = local | param | static | member (of a struct; the object is `sq.mq`) | elem (`<use> Tn xq[2]`, the object is `xq[0]`)
//!             write   = none | read | assign | opassign | inc | preinc | out | comp (component / member write) | elemw (`[0] =`)
//! observe : reject <TyperError variant>                      the declarations alone are rejected
//!         | decl <mods of the registered type of the object> accept | reject <variant> | panic <file>
//! oracle  : **from the request alone** (never from the types the checker registered): the object is const iff `const` is
//!           written in any typedef layer, in the template argument or at the use site; a write form accepted on such an
//!           object is a failure.  Accepted modules are also walked by the IR oracle of the other streams.
use super::*;

const WRITES: &[&str] = &["assign", "opassign", "inc", "preinc", "out", "comp", "elemw"];

fn kw_words(s: &str) -> Option<String> {
    if s == "-" || s == "0" {
        return Some(String::new());
    }
    let mut out = String::new();
    for c in s.bytes() {
        let i = MOD_LETTERS.iter().position(|x| *x == c)?;
        out.push_str(MOD_WORDS[i]);
        out.push(' ');
    }
    Some(out)
}

fn base_name(l: Layer) -> Option<String> {
    match l {
        Layer::Other(0) => Some("S0".into()),
        Layer::Other(_) | Layer::Enum(_) => None,
        _ => spell_base(l),
    }
}

struct DeclReq<'a> {
    layer: Layer,
    carrier: &'a str,
    layers: Vec<&'a str>,
    use_: &'a str,
    storage: &'a str,
    write: &'a str,
}

impl<'a> DeclReq<'a> {
    fn parse(f: &[&'a str]) -> Option<DeclReq<'a>> {
        if f.len() != 6 {
            return None;
        }
        let layers: Vec<&str> = if f[2] == "-" { vec![] } else { f[2].split(',').collect() };
        Some(DeclReq { layer: parse_layer(f[0])?, carrier: f[1], layers, use_: f[3], storage: f[4], write: f[5] })
    }

    /// the oracle's view of the declarations: is `const` written anywhere on the way to the object?
    fn const_written(&self) -> bool {
        self.layers.iter().any(|l| l.contains('c')) || self.use_.contains('c')
    }

    fn path(&self) -> String {
        format!(
            "decl[{}:{}|use:{}|{}]:c",
            self.carrier,
            if self.layers.is_empty() { "-".to_string() } else { self.layers.join(",") },
            self.use_,
            self.storage
        )
    }

    fn write_stmt(&self, tgt: &str) -> Option<String> {
        Some(match self.write {
            "none" => String::new(),
            "read" => format!("yq = {};", tgt),
            "assign" => format!("{} = yq;", tgt),
            "opassign" => format!("{} += yq;", tgt),
            "inc" => format!("{}++;", tgt),
            "preinc" => format!("++{};", tgt),
            "out" => format!("f0({});", tgt),
            "comp" => {
                let c = match self.layer {
                    Layer::Scalar(_) => "x",
                    Layer::Vector(..) => "y",
                    Layer::Matrix(..) => "_m01",
                    Layer::Other(0) => "q",
                    _ => return None,
                };
                format!("{}.{} = 1;", tgt, c)
            }
            "elemw" => format!("{}[0] = 1;", tgt),
            _ => return None,
        })
    }

    fn source(&self, with_write: bool) -> Option<String> {
        let b = base_name(self.layer)?;
        let use_ = kw_words(self.use_)?;
        let mut s = String::from("struct S0 { int q; float3 v; };\n");
        // the typedef layers; with a template parameter the last layer is written in the template argument
        let n_td = match self.carrier {
            "td" => self.layers.len(),
            "tp" => self.layers.len().saturating_sub(1),
            _ => return None,
        };
        let mut name = b.clone();
        for (i, l) in self.layers.iter().take(n_td).enumerate() {
            s.push_str(&format!("typedef {}{} T{};\n", kw_words(l)?, name, i));
            name = format!("T{}", i);
        }
        s.push_str(&format!("int f0(out {} p0);\n", b));
        let tgt = match self.storage {
            "local" | "param" | "static" => "xq",
            "member" => "sq.mq",
            "elem" => "xq[0]",
            _ => return None,
        };
        let w = if with_write { self.write_stmt(tgt)? } else { String::new() };
        if self.carrier == "td" {
            let t = name;
            let mut params = String::new();
            let mut body = String::new();
            match self.storage {
                "local" => body.push_str(&format!("    {}{} xq;\n", use_, t)),
                "elem" => body.push_str(&format!("    {}{} xq[2];\n", use_, t)),
                "param" => params = format!("{}{} xq", use_, t),
                "static" => s.push_str(&format!("static {}{} xq;\n", use_, t)),
                "member" => {
                    s.push_str(&format!("struct M1 {{ {}{} mq; }};\n", use_, t));
                    body.push_str("    M1 sq;\n");
                }
                _ => return None,
            }
            s.push_str(&format!("void t({}) {{\n{}    {} yq;\n    {}\n}}\n", params, body, b, w));
        } else {
            let arg = match self.layers.last() {
                Some(l) => format!("{}{}", kw_words(l)?, name),
                None => name,
            };
            match self.storage {
                "local" | "elem" | "param" => {
                    let (params, decl) = match self.storage {
                        "local" => (String::new(), format!("{}T xq; ", use_)),
                        "elem" => (String::new(), format!("{}T xq[2]; ", use_)),
                        _ => (format!("{}T xq", use_), String::new()),
                    };
                    s.push_str(&format!("template<typename T> struct W {{ void w({}) {{ {}{} yq; {} }} }};\n", params, decl, b, w));
                    s.push_str(&format!("void t(W<{}> wq) {{\n}}\n", arg));
                }
                "member" => {
                    s.push_str(&format!("template<typename T> struct W {{ {}T mq; }};\n", use_));
                    s.push_str(&format!("void t(W<{}> sq) {{\n    {} yq;\n    {}\n}}\n", arg, b, w));
                }
                // a static data member is not expressible
                _ => return None,
            }
        }
        Some(s)
    }

    /// the modifier of the registered type of the declared object
    fn declared(&self, m: &ir::Module) -> Option<Mods> {
        let reg = &m.type_registry;
        let ty = match self.storage {
            "local" | "param" | "elem" => {
                let mut found = None;
                for id in m.variable_registry.iter() {
                    let v = m.variable_registry.get_local_variable(id);
                    if v.name.node == "xq" {
                        found = Some(v.type_id);
                    }
                }
                found?
            }
            "static" => m.global_registry.iter().find(|g| g.name.node == "xq")?.type_id,
            "member" => m.struct_registry.iter().flat_map(|sd| sd.members.iter()).find(|x| x.name == "mq")?.type_id,
            _ => return None,
        };
        let ty = if self.storage == "elem" {
            match reg.get_type_layer(reg.remove_modifier(ty)) {
                ir::TypeLayer::Array(inner, _) => inner,
                _ => return None,
            }
        } else {
            ty
        };
        Some(mods_of(reg.extract_modifier(ty).1))
    }
}

impl Runner {
    pub fn decl_case(&mut self, f: &[&str], out: &mut Out) {
        let req = format!("C03.decl\t{}", f.join("\t"));
        let Some(d) = DeclReq::parse(f) else {
            out.case(&req, "-", "SKIP:bad request");
            return;
        };
        let (Some(prelude), Some(src)) = (d.source(false), d.source(true)) else {
            out.case(&req, "-", "SKIP:not expressible as an RSSL program");
            self.hist.add("decl:skip-inexpressible");
            return;
        };
        self.compiles += 2;
        self.hist.add(&format!("decl:storage:{}", d.storage));
        self.hist.add(&format!("decl:write:{}", d.write));
        self.hist.add(&format!("decl:carrier:{}", d.carrier));
        self.hist.add(&format!("decl:depth:{}", d.layers.len()));
        self.hist.add(if d.const_written() { "decl:const-written" } else { "decl:no-const" });
        let declared = match guard(|| type_check(&prelude)) {
            Err(p) => {
                out.case(&req, &format!("panic {}", panic_file(&p)), &format!("FAIL:panic {}", p));
                return;
            }
            Ok(Checked::Front(stage)) => {
                out.case(&req, &format!("front {}", stage), "SKIP:rejected before type checking");
                self.hist.add("decl:skip-front");
                return;
            }
            Ok(Checked::Reject(kind)) => {
                self.hist.add(&format!("decl:declaration-reject:{}", kind));
                out.case(&req, &format!("reject {}", kind), "ok");
                return;
            }
            Ok(Checked::Accept(m)) => match d.declared(&m) {
                Some(x) => x,
                None => {
                    out.case(&req, "-", "SKIP:the declared object was not found in the module");
                    return;
                }
            },
        };
        let shown = show_mods(declared);
        let (verdict, mut oracle) = if d.write == "none" {
            ("accept".to_string(), "ok".to_string())
        } else {
            match guard(|| type_check(&src)) {
                Err(p) => (format!("panic {}", panic_file(&p)), format!("FAIL:panic {}", p)),
                Ok(Checked::Front(stage)) => (format!("front {}", stage), "SKIP:rejected before type checking".to_string()),
                Ok(Checked::Reject(kind)) => {
                    self.hist.add(&format!("decl:reject:{}", kind));
                    (format!("reject {}", kind), "ok".to_string())
                }
                Ok(Checked::Accept(m)) => {
                    self.hist.add("decl:accept");
                    let names = Names::build(&m);
                    let (nodes, errors) = walk_module(&m, &names);
                    self.nodes += nodes;
                    ("accept".to_string(), errors.first().map(|e| format!("FAIL:{}", e)).unwrap_or_else(|| "ok".into()))
                }
            }
        };
        // the declaration-based oracle: `const` written on any layer makes the object const
        if verdict == "accept" && WRITES.contains(&d.write) && d.const_written() {
            let what = match d.write {
                "inc" | "preinc" => "increment",
                "out" => "out/inout argument",
                _ => "assignment",
            };
            oracle = format!("FAIL:{} writes to a const object per the declarations: {}", what, d.path());
        }
        out.case(&req, &format!("decl {} {}", shown, verdict), &oracle);
    }
}

const BASES: &[&str] = &["s.Float32", "m.Float32.2.2", "v.Float32.3", "s.Int32", "m.Int32.2.2", "o.0"];
const SINGLES: &[&str] = &["c", "v", "r", "k", "u", "n"];
const USES: &[&str] = &["-", "c", "v", "r", "k", "u", "n", "cv", "vc", "vu", "cr", "rc", "ck", "cu", "un", "rk", "vr", "vn", "cvu", "vrn"];
const STORAGES: &[&str] = &["local", "param", "static", "member", "elem"];
const ALL_WRITES: &[&str] = &["none", "read", "assign", "opassign", "inc", "preinc", "out", "comp", "elemw"];
const CHAINS: &[&str] = &[
    "-", "0", "c", "v", "r", "k", "u", "n", "cv", "cr", "cu", "c,0", "0,c", "c,v", "v,c", "c,c", "c,r", "r,c", "c,u", "u,c", "c,k", "c,n", "r,k", "k,r", "u,n",
    "n,u", "v,r", "r,v", "v,u", "r,u", "c,0,v", "0,c,0", "v,c,r", "c,v,u", "0,0,c", "c,0,0,0", "r,0,c,v",
];

pub fn run_decl(r: &mut Runner, rng: &mut Rng, thorough: bool, n_random: u64, out: &mut Out) {
    let mut case = |r: &mut Runner, b: &str, carrier: &str, chain: &str, u: &str, st: &str, w: &str| {
        // a template has no static data member to declare
        let carrier = if st == "static" { "td" } else { carrier };
        r.decl_case(&[b, carrier, chain, u, st, w], out);
    };
    // (a) every modifier carried by a typedef x every use-site modifier set x every storage x the write forms
    //     (a matrix order on a non-matrix / a normalisation on a non-float is refused at the declaration: one case each)
    let uses_a = ["-", "c", "v", "r", "k", "u", "n", "cv"];
    for b in BASES {
        let matrix = b.starts_with("m.");
        let float = b.contains("Float32");
        for m in SINGLES {
            for u in uses_a {
                let refused = |k: &str| (!matrix && (k.contains('r') || k.contains('k'))) || (!float && (k.contains('u') || k.contains('n')));
                if refused(m) || refused(u) {
                    case(r, b, "td", m, u, "local", "assign");
                    continue;
                }
                for st in STORAGES {
                    for w in ["assign", "inc", "out", "comp"] {
                        case(r, b, "td", m, u, st, w);
                    }
                    case(r, b, "tp", m, u, st, "assign");
                    if thorough {
                        for w in ["none", "read", "opassign", "preinc", "elemw"] {
                            case(r, b, "td", m, u, st, w);
                        }
                        for w in ["inc", "out", "comp"] {
                            case(r, b, "tp", m, u, st, w);
                        }
                    }
                }
            }
        }
    }
    // (b) nested typedefs / template parameters over typedefs: every chain x use-site sets, local objects
    for (i, chain) in CHAINS.iter().enumerate() {
        for (j, u) in USES.iter().enumerate() {
            if !thorough && (i + j) % 3 != 0 {
                continue;
            }
            let b = if chain.contains('r') || chain.contains('k') || u.contains('r') || u.contains('k') { "m.Float32.2.2" } else { BASES[(i + j) % 3] };
            for carrier in ["td", "tp"] {
                case(r, b, carrier, chain, u, "local", "assign");
                case(r, b, carrier, chain, u, STORAGES[(i + j) % 5], ALL_WRITES[2 + (i * 7 + j) % 7]);
            }
        }
    }
    // (c) random points of the whole product
    for _ in 0..n_random {
        let carrier = if rng.below(3) == 0 { "tp" } else { "td" };
        let chain = *rng.pick(CHAINS);
        let u = *rng.pick(USES);
        let order = chain.contains('r') || chain.contains('k') || u.contains('r') || u.contains('k');
        let norm = chain.contains('u') || chain.contains('n') || u.contains('u') || u.contains('n');
        // mostly a type below the modifiers that the written keywords are allowed on
        let b = if rng.below(8) == 0 {
            *rng.pick(BASES)
        } else if order && norm {
            "m.Float32.2.2"
        } else if order {
            *rng.pick(&["m.Float32.2.2", "m.Int32.2.2"])
        } else if norm {
            *rng.pick(&["s.Float32", "v.Float32.3", "m.Float32.2.2"])
        } else {
            *rng.pick(BASES)
        };
        let st = *rng.pick(STORAGES);
        let w = *rng.pick(ALL_WRITES);
        case(r, b, carrier, chain, u, st, w);
    }
}

"""C17 — pipelines are selected and compiled independently."""
import re

T = "RsslVerif.Thm.C17."

KEY_INSTANTIATION = "property-value-instantiates-template"


def finding_key(req, obs, detail):
    """One class: a Pipeline block has a property value `z:<template>` (= `sizeof(<template><uint>(1u))`, accepted, value 4)
    whose type check instantiates a function template; the instantiated function is then part of the module, so the
    source of every *other* pipeline of the file (and of no-pipeline mode) contains it - and does not when that block is
    deleted.  Only these two oracle verdicts, only when an active block other than the failing one carries such a value."""
    f = req.split("\t")
    m = re.match(r"FAIL:panic ([^:]+):\d+: (.*)$", detail or "")
    if m:
        return f"panic {m.group(1)}: " + re.sub(r"\d+", "N", m.group(2))
    if f[0] == "C17.wide" and len(f) == 7 and detail:
        on = f[3].startswith("on")
        inst = []
        for it in f[4].split(" | "):
            w = it.split(" ")
            if w[0] == "P" and len(w) > 3 and not ("D" in w[2] and not on) and not ("E" in w[2] and on):
                if any("=z:" in x for x in w[3:]):
                    inst.append(w[1])
        m = re.match(r"FAIL:pipeline (\S+) by name Ok\(1 pipelines, [^)]*\) but alone in the file Ok\(1 pipelines, ", detail)
        if m and any(n != m.group(1) for n in inst):
            return KEY_INSTANTIATION
        if inst and detail == "FAIL:no-pipeline output depends on the pipeline definitions in the file":
            return KEY_INSTANTIATION
    return req


def nontrivial(req, obs):
    # at least two pipelines defined in the file
    f = req.split("\t")
    if f[0] == "C17.typer":
        return len(f) > 2 and f[2].count("| P ") + (1 if f[2].startswith("P ") else 0) >= 2
    if f[0] == "C17.wide":
        return len(f) > 4 and f[4].count("| P ") + (1 if f[4].startswith("P ") else 0) >= 2
    return len(f) > 3 and f[3].count(";") >= 1


# The witness search of tools/vlib.py (after a model disagreement / broken obligation without a failing input) first calls
# SPEC.search and then starts three more harness runs on other seeds *at the tier of the check*: at thorough that was three
# more ~5 min runs (the 1344 s of the seed-1 soak).  `search` marks the search phase and `harness_args` then caps those
# runs at 300 progen + 300 wide programs each (~20 s), so a thorough check that has to search stays under ~10 min.
_PHASE = {"search": False}
TARGETS = ["dx", "vk", "vkba", "msl"]


def harness_args(tier, seed):
    return ["--n", "300"] if _PHASE["search"] else []


def search(ctx):
    """targeted candidates: every disagreeing wide / select request again on every target and in every selection mode
    (whole file, each pipeline by name, a missing name, no-pipeline): if the disagreement hides an independence
    violation the harness's own oracle (whole == by name == alone) shows it on one of these."""
    _PHASE["search"] = True
    out, seen = [], set()
    for req, _obs, _mobs in ctx.disagreements[:40]:
        f = req.split("\t")
        if f[0] == "C17.wide" and len(f) == 7:
            names = [it.split(" ")[1] for it in f[4].split(" | ") if it.startswith("P ") and len(it.split(" ")) > 1]
            modes = ["all", "nopipeline", "name=Nope"] + ["name=" + n for n in dict.fromkeys(names)]
            for t in TARGETS:
                for m in modes:
                    r = "\t".join([f[0], t, m] + f[3:])
                    if r not in seen:
                        seen.add(r)
                        out.append(r)
        elif f[0] == "C17.select" and len(f) == 6:
            names = [x.split(":")[0].rstrip("!") for x in f[3].split(";") if x]
            for t in TARGETS:
                for m in ["all", "nopipeline", "name=Nope"] + ["name=" + n for n in dict.fromkeys(names)]:
                    r = "\t".join([f[0], t, m] + f[3:])
                    if r not in seen:
                        seen.add(r)
                        out.append(r)
    return out[:1500]


SPEC = {
    "id": "C17",
    "gens": ["CompileTables", "PipelineTables", "Reserved"],
    "lean_modules": ["RsslVerif.Thm.C17"],
    "theorems": [T + n for n in [
        "loop_shape_as_modelled", "pipelines_reads_covered", "one_per_pipeline_in_order",
        "named_selects_exactly", "independent_of_other_pipelines", "all_agrees_with_named",
        "unknown_name_error", "no_pipeline_error", "no_pipeline_mode_single", "no_multiple_panic",
        "Typer.typer_shape_as_modelled", "Typer.typer_context_uses_covered", "Typer.typer_tables_sane",
        "Typer.registry_ignores_pipelines", "Typer.typeCheck_pipelines_map", "Typer.typeCheck_names_nodup",
        "Typer.typeCheck_delete_others", "Typer.independent_of_other_pipelines_file",
        "Typer.whole_file_one_result_per_block", "Typer.front_error_independent_of_mode",
        "Typer.reported_entry_name_ignores_pipelines", "Typer.reported_entry_names_distinct",
        "Typer.elabCore_depends_on_named_entries", "Typer.attributes_from_definition",
        "Typer.instancesOf_deletePipes", "Typer.independent_of_other_pipelines_module_partial",
        "Typer.module_depends_on_instantiating_block"]],
    "harness": "c17",
    "nontrivial": nontrivial,
    "finding_key": finding_key,
    "harness_args": harness_args,
    "search": search,
    "rule": "(1) progen shader files (0-4 pipelines: compute, vertex+pixel, mesh+pixel, task+mesh; shared and private entry "
            "points, shared resources, helper call graphs, interleaved layout) x {dx, vk, vk+buffer-address, msl} x {all, an "
            "existing name, unknown name, no-pipeline}; (2) self-contained 'wide' programs (harness/src/c17/wgen.rs: 21 resource "
            "kinds, 9 entry signature shapes, every pipeline state property and enum value, items in a random order compatible "
            "with use-before-definition, prefix / case-variant pipeline names, ~40 % with 1-4 more functions named like an entry "
            "point or helper (overload, inside a namespace, method, declared only, the generated candidate name itself; before "
            "and after the blocks), ~50 % with 1-2 of 25 odd edits: entry defined "
            "after the block, overloads, declarations, templates, methods, intrinsic names, duplicate names / properties, bad "
            "stage combinations, bad values, items under an API define, syntax errors ...) x one or two targets x {all, first / "
            "middle / last name, near-miss and inactive names, no-pipeline} x {API define on/off, include file, layout "
            "validation, forced buffer address}; the oracle compares, on the real compile(), every pipeline compiled by name, "
            "as part of the whole file, and alone in a file whose other Pipeline blocks were deleted (bytes, stages, "
            "metadata, pipeline state), and the same at the level of the type checker's IR pipeline list; "
            "final wave additions to the wide programs: numthreads arguments that do not evaluate (negative, 2^32, float, not "
            "constant) on entry points and on functions nobody names, prototype / definition pairs with different or missing "
            "numthreads (prototype before and / or after the definition), `ns1::f` and `::f` entry values, one well-formed but "
            "unknown / out-of-range state value per program, integer values that are typed but not constant, values whose type "
            "check instantiates a function template (`sizeof(wide_tf<uint>(1u))`), 4 more entry signature shapes (plain "
            "per-primitive mesh output, pixel with system-value inputs, compute with every thread id, vertex with instance id); "
            "non-trivial = the file defines at least two pipelines",
    "level_text": "Proof: (a) compile()'s selection loop is modelled for an arbitrary build function and proved, for any number of "
                  "pipelines with distinct names, to return one result per definition in source order, exactly the named "
                  "pipeline (independently of what else the file defines or whether the others build), clean errors for an "
                  "unknown name / empty file, exactly one result in no-pipeline mode, and never the 'multiple pipelines' panic. "
                  "(b) The type checker's pipeline processing (type_check_internal's walk, parse_pipeline, add_stage with its "
                  "scan of the live function registry, the state pass, parse_blend_state) is modelled and proved, by induction "
                  "over files of any length, to produce the IR pipeline list as a map over the Pipeline blocks - element i is a "
                  "function of block i and of the function registry where it stands -, to give accepted files distinct names, "
                  "and to be stable under deleting any other blocks (same registry, every kept element the same value); composed "
                  "with (a): compiling a pipeline by name gives the same outcome with or without the other blocks, for any build "
                  "function of (registry, selected pipeline). The loop's shape, select_pipeline, the default-set read, every "
                  "textual reader of Module.pipelines, 21 exact-text fingerprints of the typer skeleton, its property / enum "
                  "tables and every way pipelines.rs touches the typer context are re-extracted from the source on each run "
                  "and are obligations; (c) the entry name in the HLSL stage report is the leaf name of the whole-module name "
                  "map (C15's model of NameMap::build composed with the registry; reserved words re-extracted): proved to be "
                  "the same with any other Pipeline blocks deleted and never shared by two functions of one namespace; "
                  "(d) add_stage's attribute loop is in the model: a numthreads argument of the entry's *definition* that does "
                  "not evaluate to a u32 rejects exactly the blocks that name the function (location-less diagnostic), the "
                  "thread-group size is the definition's whatever a prototype says (attributes_from_definition), and a block "
                  "depends on the registry only through the entry functions it names (elabCore_depends_on_named_entries). "
                  "(e) NEGATIVE RESULT on the pinned code: a property value whose type check instantiates a function template "
                  "(`DefaultBindGroup = sizeof(tf<uint>(1u))`) leaves the instantiation in the module, so the source of every "
                  "other pipeline depends on that block being in the file: module_depends_on_instantiating_block is the "
                  "machine-checked witness (replayed on the real compiler by the corpus, known finding "
                  "property-value-instantiates-template); with the hypothesis that the deleted blocks have no such value the "
                  "independence theorem holds for build functions that see registry + instantiations + selected pipeline "
                  "(independent_of_other_pipelines_module_partial; the hypothesis is what is missing for full strength). "
                  "23 exact-text fingerprints now (numthreads evaluation, extract_uint32 on the live context). "
                  "The claim that build_pipeline depends only on the selected pipeline (and the module's functions) is carried by "
                  "the type of the model's build parameter, by the reader inventory, and by the metamorphic run on the real compiler.",
    "trusted_base": [
        "Lean 4.33 kernel; axioms propext / Classical.choice / Quot.sound only",
        "tools/gens/c17.py: regex / exact-text facts about compile(), build_pipeline, select_pipeline, assign_api_bindings, "
        "parse_pipeline, add_stage, parse_blend_state, type_check_internal; the inventories of `.pipelines` uses and of "
        "`context.*` uses in pipelines.rs; the property / enum / intrinsic-name tables",
        "Model/PipelineTyper.lean is a hand-written mirror of parse_pipeline / add_stage whose tables come from Gen; tied by the "
        "C17.typer correspondence run (IR pipeline list or diagnostic kind + property path)",
        "modelling assumption: build_pipeline reads the pipeline list only through the selected index "
        "(inventory + metamorphic correspondence; not a theorem about the Rust code)",
        "modelling assumption: evaluating a property value (parse_expr + evaluate_constexpr) adds nothing to the module except "
        "the template instantiations counted by `instancesOf` (value kind `z:`); FALSE without that exception on the pinned "
        "code - see the known finding; instantiations made by function *bodies* are not generated (the entry lookup is "
        "insensitive to them: a template's name is never an entry)",
        "harness/src/c17/wgen.rs renders thread components `x<k>` as `-1` / `4294967296` / `1.5` / `lds_payload.start_location` and "
        "`v:0` as `lds_payload.start_location`; the model takes 'does not evaluate to a u32' from the encoding (tied by the "
        "C17.typer / C17.wide correspondence: `err:other:error: state requires an integer argument`)",
        "Model/PipelineNames.lean + Model/Names.lean (C15's model of NameMap::build, proved there) give the reported HLSL entry "
        "name; Driver/C17.lean `othersOf` lists the non-function symbols of a wide program by hand (preamble structs / globals, "
        "method structs, resources, statics); Gen/Reserved.lean (tools/gens/c15.py) = RESERVED_NAMES of hlsl/src/names.rs; "
        "tied by the C17.wide correspondence run (generator adds same-named functions to ~40 % of the programs)",
    ],
    "assumptions": ["HashMap iteration order does not influence outputs (C07)",
                    "covered by the correspondence run and its oracle only (not predicted by the model): the bytes / metadata of "
                    "the new entry signature shapes u f g w (per-primitive analysis, system-value pixel inputs) - the model "
                    "predicts their stage reports, thread-group sizes and state; the emitted text of a template instantiation "
                    "(the model only counts which instantiations the module contains)",
                    "a second numthreads attribute on one function, malformed static samplers and redefinitions are front-end "
                    "errors at a declaration, outside pipeline processing (err:decl / unsupported: 0 in quick and thorough)"],
}

import RsslVerif.Lemmas.MacroTame
/-!
# `tameRun` is sound: what it accepts has a tame derivation

So membership in the class of `Thm.C12.tame_refines_spec` is decidable: run `tameRun`.
-/
namespace RsslVerif.Lemmas.MacroTameRun
open RsslVerif.Model.Macro RsslVerif.Model.MacroTame RsslVerif.Lemmas.MacroTame RsslVerif.Lemmas.MacroHang

def entryNames (env : List Entry) : List String := env.map (·.m.name)

theorem names_disable (env : List Entry) (mi : Nat) : entryNames (disable env mi) = entryNames env := by
  unfold entryNames disable
  apply List.ext_getElem?
  intro j
  simp only [List.getElem?_map, List.getElem?_modify]
  cases env[j]? with
  | none => rfl
  | some e => simp only [Option.map_some]; split <;> rfl

theorem findName_spec (n : String) (env : List Entry) (i mi : Nat) (e : Entry)
    (h : findName n env i = some (mi, e)) : i ≤ mi ∧ env[mi - i]? = some e ∧ e.m.name = n := by
  induction env generalizing i with
  | nil => simp [findName] at h
  | cons x xs ih =>
    unfold findName at h
    split at h
    · rename_i hn
      simp only [Option.some.injEq, Prod.mk.injEq] at h
      obtain ⟨rfl, rfl⟩ := h
      exact ⟨Nat.le_refl _, by simp, hn⟩
    · obtain ⟨h1, h2, h3⟩ := ih (i + 1) h
      refine ⟨by omega, ?_, h3⟩
      have : mi - i = (mi - (i + 1)) + 1 := by omega
      rw [this, List.getElem?_cons_succ]
      exact h2

theorem selects_of_selectIdx (env : List Entry) (n : String) (mi : Nat) (e : Entry) (hnd : (entryNames env).Nodup)
    (h : selectIdx env n = some (mi, e)) : Selects env n mi e := by
  unfold selectIdx at h
  split at h
  · rename_i mi' e' hf
    split at h
    · cases h
    · rename_i hd
      simp only [Option.some.injEq, Prod.mk.injEq] at h
      obtain ⟨rfl, rfl⟩ := h
      obtain ⟨_, hget, hname⟩ := findName_spec n env 0 mi' e' hf
      simp only [Nat.sub_zero] at hget
      refine ⟨hget, hname, by simpa using hd, ?_⟩
      intro j e2 hj hn2
      have hlt : j < (entryNames env).length := by
        simp only [entryNames, List.length_map]
        exact (List.getElem?_eq_some_iff.mp hj).1
      have h1 : (entryNames env)[j]? = (entryNames env)[mi']? := by
        simp only [entryNames, List.getElem?_map, hj, hget, Option.map_some, hn2, hname]
      exact (List.getElem?_inj hlt hnd).mp h1
  · cases h

theorem kept_of_keptB (env : List Entry) (t : PTok) (rest : List PTok) (h : keptB env t rest = true) :
    Kept env t rest := by
  unfold keptB at h
  constructor
  · intro hc; simp [hc] at h
  · intro n hn e he hname
    simp only [hn, List.all_eq_true] at h
    have := h e he
    simp only [Bool.or_eq_true, bne_iff_ne, ne_eq, Bool.and_eq_true, Bool.not_eq_true'] at this
    rcases this with (h1 | h1) | h1
    · exact absurd hname h1
    · exact Or.inl h1
    · exact Or.inr h1

theorem onlyDisabled_of_B (env : List Entry) (l : List PTok) (h : onlyDisabledB env l = true) :
    OnlyDisabled env l := by
  unfold onlyDisabledB at h
  rw [List.all_eq_true] at h
  intro t ht n hn e he hname
  have := h t ht
  simp only [hn, List.all_eq_true] at this
  have := this e he
  simp only [Bool.or_eq_true, bne_iff_ne, ne_eq] at this
  rcases this with h1 | h1
  · exact absurd hname h1
  · exact h1

theorem allKept_of_B (env : List Entry) : ∀ (l : List PTok), allKeptB env l = true → AllKept env l
  | [], _ => trivial
  | t :: rest, h => by
    simp only [allKeptB, Bool.and_eq_true] at h
    exact ⟨kept_of_keptB env t rest h.1, allKept_of_B env rest h.2⟩

theorem argsOK_of_B (env : List Entry) : ∀ (args args' : List (List PTok)), argsOKB env args args' = true →
    ∀ (i : Nat) (a a' : List PTok), args[i]? = some a → args'[i]? = some a' → ArgOK env a a'
  | [], _, _ => fun i a a' ha => by simp at ha
  | _ :: _, [], _ => fun i a a' _ ha' => by simp at ha'
  | x :: xs, y :: ys, h => by
    simp only [argsOKB, Bool.and_eq_true, Bool.or_eq_true] at h
    intro i a a' ha ha'
    cases i with
    | zero =>
      simp only [List.getElem?_cons_zero, Option.some.injEq] at ha ha'
      subst ha; subst ha'
      rcases h.1 with h1 | h1
      · exact Or.inl (onlyDisabled_of_B env _ h1)
      · exact Or.inr (allKept_of_B env _ h1)
    | succ j => exact argsOK_of_B env xs ys h.2 j a a' (by simpa using ha) (by simpa using ha')

theorem lastTok_ws (l : List PTok) (h : ∀ t ∈ l, t.tok.isWhitespace = true) : lastTok l = none := by
  induction l with
  | nil => rfl
  | cons t r ih =>
    simp only [lastTok, ih (fun x hx => h x (by simp [hx])), h t (by simp), if_true]

theorem lastTok_split (R0 R1 : List PTok) (g : PTok) (hg : g.tok.isWhitespace = false)
    (h : ∀ t ∈ R1, t.tok.isWhitespace = true) : lastTok (R0 ++ g :: R1) = some g.tok := by
  induction R0 with
  | nil => simp [lastTok, lastTok_ws R1 h, hg]
  | cons t r ih => simp [lastTok, ih]

theorem noFireFrom_spec (g : String) (mi : Nat) (env : List Entry) (k : Nat) (h : noFireFrom g mi env k = true) :
    ∀ j e, env[j]? = some e → e.m.name = g → e.m.isFunction = true → e.disabled = true ∨ k + j = mi := by
  induction env generalizing k with
  | nil => intro j e hj; simp at hj
  | cons x xs ih =>
    simp only [noFireFrom, Bool.and_eq_true, Bool.or_eq_true, bne_iff_ne, ne_eq, Bool.not_eq_true',
      beq_iff_eq] at h
    intro j e hj hn hf
    cases j with
    | zero =>
      simp only [List.getElem?_cons_zero, Option.some.injEq] at hj
      subst hj
      rcases h.1 with ((h1 | h1) | h1) | h1
      · exact absurd hn h1
      · rw [hf] at h1; cases h1
      · exact Or.inl h1
      · exact Or.inr (by omega)
    | succ j' =>
      have := ih (k + 1) h.2 j' e (by simpa using hj) hn hf
      rcases this with h1 | h1
      · exact Or.inl h1
      · exact Or.inr (by omega)

theorem noFire_of_B (env : List Entry) (mi : Nat) (R rest : List PTok) (h : noFireB env mi R rest = true) :
    NoFire env mi R rest := by
  intro R0 g b R1 hR hws hsp j e hj hn hf
  unfold noFireB at h
  simp only [hsp, if_true] at h
  rw [hR, lastTok_split R0 R1 ⟨.id g, b⟩ rfl hws] at h
  simp only at h
  have := noFireFrom_spec g mi env 0 h j e hj hn hf
  simpa using this

theorem mapO_spec {α β : Type} (f : α → Option β) (l : List α) (r : List β) (h : mapO f l = some r) :
    r.length = l.length ∧ ∀ (i : Nat) (a : α) (b : β), l[i]? = some a → r[i]? = some b → f a = some b := by
  induction l generalizing r with
  | nil => simp only [mapO, Option.some.injEq] at h; subst h; exact ⟨rfl, fun i a b ha => by simp at ha⟩
  | cons x xs ih =>
    unfold mapO at h
    split at h
    · cases h
    · rename_i b0 hb0
      split at h
      · cases h
      · rename_i bs hbs
        cases h
        obtain ⟨h1, h2⟩ := ih bs hbs
        refine ⟨by simp [h1], ?_⟩
        intro i a b ha hb
        cases i with
        | zero => simp at ha hb; subst ha; subst hb; exact hb0
        | succ j => exact h2 j a b (by simpa using ha) (by simpa using hb)

/-- **`tameRun` is sound.** -/
theorem tameRun_sound (f : Nat) : ∀ (env : List Entry) (l out : List PTok), (entryNames env).Nodup →
    tameRun f env l = some out → Tame env l out := by
  induction f with
  | zero => intro env l out _ h; simp [tameRun] at h
  | succ f ih =>
    intro env l out hnd h
    cases l with
    | nil => simp only [tameRun, Option.some.injEq] at h; subst h; exact Tame.nil env
    | cons t rest =>
      have keepCase : (if keptB env t rest = true then
            match tameRun f env rest with
            | some out => some (t :: out)
            | none => none
          else none) = some out → Tame env (t :: rest) out := by
        intro hk
        split at hk
        · rename_i hkept
          split at hk
          · rename_i o ho
            cases hk
            exact Tame.keep env t rest o (kept_of_keptB env t rest hkept) (ih env rest o hnd ho)
          · cases hk
        · cases hk
      unfold tameRun at h
      simp only at h
      split at h
      · rename_i n hn
        split at h
        · exact keepCase h
        · rename_i mi e hsel
          split at h
          · exact keepCase h
          · rename_i rest' args hra
            split at h
            · cases h
            · rename_i args' hargs
              split at h
              · rename_i hod
                split at h
                · cases h
                · rename_i body' hsub
                  split at h
                  · cases h
                  · rename_i R hR
                    split at h
                    · rename_i hnf
                      split at h
                      · rename_i o ho
                        cases h
                        obtain ⟨hlen, hpt⟩ := mapO_spec _ _ _ hargs
                        obtain ⟨tt, tb⟩ := t
                        simp only at hn
                        subst hn
                        refine Tame.invoke env n tb rest mi e rest' args args' body' R o
                          (selects_of_selectIdx env n mi e hnd hsel) hra hlen ?_ ?_ hsub ?_
                          (noFire_of_B env mi R rest' hnf) (ih env rest' o hnd ho)
                        · intro i a a' ha ha'
                          exact ih env a a' hnd (hpt i a a' ha ha')
                        · exact argsOK_of_B env args args' hod
                        · exact ih (disable env mi) body' R (by rw [names_disable]; exact hnd) hR
                      · cases h
                    · cases h
              · cases h
      · exact keepCase h

/-! ## `tameRun` is complete: every tame derivation is found, given enough fuel -/

theorem keptB_of_kept (env : List Entry) (t : PTok) (rest : List PTok) (h : Kept env t rest) :
    keptB env t rest = true := by
  unfold keptB
  cases htk : t.tok with
  | concat => exact absurd htk h.1
  | id n =>
    simp only [List.all_eq_true, Bool.or_eq_true, bne_iff_ne, ne_eq, Bool.and_eq_true, Bool.not_eq_true']
    intro e he
    by_cases hn : e.m.name = n
    · rcases h.2 n htk e he hn with hd | ⟨hf, hs⟩
      · exact Or.inl (Or.inr hd)
      · exact Or.inr ⟨hf, hs⟩
    · exact Or.inl (Or.inl hn)
  | _ => rfl

theorem onlyDisabledB_of (env : List Entry) (l : List PTok) (h : OnlyDisabled env l) : onlyDisabledB env l = true := by
  unfold onlyDisabledB
  rw [List.all_eq_true]
  intro t ht
  cases htk : t.tok with
  | id n =>
    simp only [List.all_eq_true, Bool.or_eq_true, bne_iff_ne, ne_eq]
    intro e he
    by_cases hn : e.m.name = n
    · exact Or.inr (h t ht n htk e he hn)
    · exact Or.inl hn
  | _ => rfl

theorem allKeptB_of (env : List Entry) : ∀ (l : List PTok), AllKept env l → allKeptB env l = true
  | [], _ => rfl
  | t :: rest, h => by
    simp only [allKeptB, Bool.and_eq_true]
    exact ⟨keptB_of_kept env t rest h.1, allKeptB_of env rest h.2⟩

theorem argsOKB_of (env : List Entry) : ∀ (args args' : List (List PTok)),
    (∀ (i : Nat) (a a' : List PTok), args[i]? = some a → args'[i]? = some a' → ArgOK env a a') →
    argsOKB env args args' = true
  | [], _, _ => by simp [argsOKB]
  | _ :: _, [], _ => by simp [argsOKB]
  | x :: xs, y :: ys, h => by
    simp only [argsOKB, Bool.and_eq_true, Bool.or_eq_true]
    refine ⟨?_, argsOKB_of env xs ys (fun i a a' ha ha' => h (i + 1) a a' (by simpa using ha) (by simpa using ha'))⟩
    rcases h 0 x y (by simp) (by simp) with h1 | h1
    · exact Or.inl (onlyDisabledB_of env _ h1)
    · exact Or.inr (allKeptB_of env _ h1)

theorem lastTok_some (R : List PTok) (k : Tok) (h : lastTok R = some k) :
    ∃ R0 b R1, R = R0 ++ ⟨k, b⟩ :: R1 ∧ ∀ t ∈ R1, t.tok.isWhitespace = true := by
  induction R with
  | nil => simp [lastTok] at h
  | cons t r ih =>
    unfold lastTok at h
    cases hr : lastTok r with
    | some k' =>
      simp only [hr, Option.some.injEq] at h
      subst h
      obtain ⟨R0, b, R1, hR, hws⟩ := ih hr
      exact ⟨t :: R0, b, R1, by simp [hR], hws⟩
    | none =>
      simp only [hr] at h
      split at h
      · cases h
      · rename_i hw
        simp only [Option.some.injEq] at h
        refine ⟨[], t.located, r, by subst h; rfl, ?_⟩
        -- `lastTok r = none`: everything in `r` is white space
        have : ∀ (l : List PTok), lastTok l = none → ∀ x ∈ l, x.tok.isWhitespace = true := by
          intro l
          induction l with
          | nil => intro _ x hx; cases hx
          | cons y ys ihy =>
            intro hl x hx
            unfold lastTok at hl
            cases hy : lastTok ys with
            | some _ => simp [hy] at hl
            | none =>
              simp only [hy] at hl
              split at hl
              · rename_i hwy
                rcases List.mem_cons.mp hx with rfl | hx
                · exact hwy
                · exact ihy hy x hx
              · cases hl
        exact this r hr

theorem noFireFrom_of (g : String) (mi : Nat) (env : List Entry) (k : Nat)
    (h : ∀ j e, env[j]? = some e → e.m.name = g → e.m.isFunction = true → e.disabled = true ∨ k + j = mi) :
    noFireFrom g mi env k = true := by
  induction env generalizing k with
  | nil => rfl
  | cons x xs ih =>
    simp only [noFireFrom, Bool.and_eq_true, Bool.or_eq_true, bne_iff_ne, ne_eq, Bool.not_eq_true', beq_iff_eq]
    constructor
    · by_cases hn : x.m.name = g
      · by_cases hf : x.m.isFunction = true
        · rcases h 0 x (by simp) hn hf with hd | hk
          · exact Or.inl (Or.inr hd)
          · exact Or.inr (by omega)
        · exact Or.inl (Or.inl (Or.inr (by simpa using hf)))
      · exact Or.inl (Or.inl (Or.inl hn))
    · apply ih (k + 1)
      intro j e hj hn hf
      rcases h (j + 1) e (by simpa using hj) hn hf with hd | hk
      · exact Or.inl hd
      · exact Or.inr (by omega)

theorem noFireB_of (env : List Entry) (mi : Nat) (R rest : List PTok) (h : NoFire env mi R rest) :
    noFireB env mi R rest = true := by
  unfold noFireB
  by_cases hsp : startsParen rest = true
  · simp only [hsp, if_true]
    cases hl : lastTok R with
    | none => rfl
    | some k =>
      cases k with
      | id g =>
        obtain ⟨R0, b, R1, hR, hws⟩ := lastTok_some R _ hl
        simp only
        apply noFireFrom_of
        intro j e hj hn hf
        simpa using h R0 g b R1 hR hws hsp j e hj hn hf
      | _ => rfl
  · simp [hsp]

theorem findName_of_uniq (n : String) (env : List Entry) (k mi : Nat) (e : Entry) (hget : env[mi]? = some e)
    (hname : e.m.name = n) (huniq : ∀ j e', env[j]? = some e' → e'.m.name = n → j = mi) :
    findName n env k = some (k + mi, e) := by
  induction env generalizing k mi with
  | nil => simp at hget
  | cons x xs ih =>
    unfold findName
    cases mi with
    | zero =>
      simp only [List.getElem?_cons_zero, Option.some.injEq] at hget
      subst hget
      simp [hname]
    | succ m =>
      have hx : x.m.name ≠ n := by
        intro hh
        have := huniq 0 x (by simp) hh
        omega
      simp only [hx, if_false]
      have := ih (k + 1) m (by simpa using hget) (fun j e' hj hn => by
        have := huniq (j + 1) e' (by simpa using hj) hn
        omega)
      rw [this]
      congr 2; omega

theorem selectIdx_of_selects (env : List Entry) (n : String) (mi : Nat) (e : Entry) (h : Selects env n mi e) :
    selectIdx env n = some (mi, e) := by
  unfold selectIdx
  rw [findName_of_uniq n env 0 mi e h.get h.name h.uniq]
  simp [h.enabled]

theorem mapO_of_pointwise {α β : Type} (f : α → Option β) (l : List α) (r : List β) (hlen : r.length = l.length)
    (h : ∀ (i : Nat) a b, l[i]? = some a → r[i]? = some b → f a = some b) : mapO f l = some r := by
  induction l generalizing r with
  | nil =>
    cases r with
    | nil => rfl
    | cons _ _ => simp at hlen
  | cons a as ih =>
    cases r with
    | nil => simp at hlen
    | cons b bs =>
      have h0 := h 0 a b (by simp) (by simp)
      have := ih bs (by simpa using hlen) (fun i x y hx hy => h (i + 1) x y (by simpa using hx) (by simpa using hy))
      simp only [mapO, h0, this]

theorem exists_fuel_bound_tame (env : List Entry) (args args' : List (List PTok))
    (h : ∀ (i : Nat) (a a' : List PTok), args[i]? = some a → args'[i]? = some a' →
      ∃ f, ∀ f', f ≤ f' → tameRun f' env a = some a') :
    ∃ F, ∀ (i : Nat) (a a' : List PTok), args[i]? = some a → args'[i]? = some a' →
      ∀ f', F ≤ f' → tameRun f' env a = some a' := by
  induction args generalizing args' with
  | nil => exact ⟨0, fun i a a' ha => by simp at ha⟩
  | cons a0 as ih =>
    cases args' with
    | nil => exact ⟨0, fun i a a' _ ha' => by simp at ha'⟩
    | cons e0 es =>
      obtain ⟨f0, hf0⟩ := h 0 a0 e0 (by simp) (by simp)
      obtain ⟨F, hF⟩ := ih es (fun i a a' ha ha' => h (i + 1) a a' (by simpa using ha) (by simpa using ha'))
      refine ⟨max f0 F, ?_⟩
      intro i a a' ha ha' f' hf'
      cases i with
      | zero =>
        simp at ha ha'
        subst ha; subst ha'
        exact hf0 f' (by omega)
      | succ j => exact hF j a a' (by simpa using ha) (by simpa using ha') f' (by omega)

/-- **`tameRun` is complete**: it finds every tame derivation, given enough fuel -- so the class of
`expand_refines_spec` is exactly what `tameRun` accepts. -/
theorem tameRun_complete {env : List Entry} {l out : List PTok} (h : Tame env l out) :
    ∃ f, ∀ f', f ≤ f' → tameRun f' env l = some out := by
  induction h with
  | nil env =>
    refine ⟨1, fun f' hf' => ?_⟩
    obtain ⟨g, rfl⟩ : ∃ g, f' = g + 1 := ⟨f' - 1, by omega⟩
    rfl
  | keep env t rest out hk _ ih =>
    obtain ⟨f0, hf0⟩ := ih
    refine ⟨f0 + 1, fun f' hf' => ?_⟩
    obtain ⟨g, rfl⟩ : ∃ g, f' = g + 1 := ⟨f' - 1, by omega⟩
    have hkb := keptB_of_kept env t rest hk
    have hrest := hf0 g (by omega)
    unfold tameRun
    simp only
    cases htk : t.tok with
    | id n =>
      simp only
      cases hsel : selectIdx env n with
      | none => simp only [hkb, if_true, hrest]
      | some p =>
        obtain ⟨mi, e⟩ := p
        simp only
        cases hra : readArgs e.m rest with
        | error er => simp only [hkb, if_true, hrest]
        | ok ra =>
          exfalso
          obtain ⟨rest', args⟩ := ra
          -- an enabled entry whose arguments can be read is not kept
          unfold selectIdx at hsel
          split at hsel
          · rename_i mi' e' hf
            split at hsel
            · cases hsel
            · rename_i hd
              simp only [Option.some.injEq, Prod.mk.injEq] at hsel
              obtain ⟨rfl, rfl⟩ := hsel
              obtain ⟨_, hget, hname⟩ := findName_spec n env 0 mi' e' hf
              simp only [Nat.sub_zero] at hget
              rcases hk.2 n htk e' (List.mem_of_getElem? hget) hname with hdis | ⟨hfn, hsp⟩
              · exact hd hdis
              · have hs := RsslVerif.Lemmas.MacroTerm.readArgs_spec e'.m rest rest' args hra
                simp only [hfn, if_true] at hs
                obtain ⟨b, tail, htrim, _, _⟩ := hs
                rw [startsParen_of_trimStartAll rest b tail htrim] at hsp
                cases hsp
          · cases hsel
    | _ => simp only [hkb, if_true, hrest]
  | invoke env n b rest mi e rest' args args' body' R out hsel hra hlen _ hod hsub _ hnf _ ihargs ihbody ihrest =>
    obtain ⟨F, hF⟩ := exists_fuel_bound_tame env args args' ihargs
    obtain ⟨f1, hf1⟩ := ihbody
    obtain ⟨f2, hf2⟩ := ihrest
    refine ⟨max F (max f1 f2) + 1, fun f' hf' => ?_⟩
    obtain ⟨g, rfl⟩ : ∃ g, f' = g + 1 := ⟨f' - 1, by omega⟩
    have hargs : mapO (tameRun g env) args = some args' :=
      mapO_of_pointwise _ _ _ hlen (fun i a a' ha ha' => hF i a a' ha ha' g (by omega))
    have hodB : argsOKB env args args' = true := argsOKB_of env args args' hod
    unfold tameRun
    simp only [selectIdx_of_selects env n mi e hsel, hra, hargs, hodB, if_true, hsub, hf1 g (by omega),
      noFireB_of env mi R rest' hnf, hf2 g (by omega)]


/-! ## object-like macros: every expansion is tame -/

theorem findName_none (n : String) (env : List Entry) (i : Nat) (h : findName n env i = none) :
    ∀ e ∈ env, e.m.name ≠ n := by
  induction env generalizing i with
  | nil => intro e he; cases he
  | cons x xs ih =>
    unfold findName at h
    split at h
    · cases h
    · rename_i hn
      intro e he
      rcases List.mem_cons.mp he with rfl | he
      · exact hn
      · exact ih (i + 1) h e he

theorem selectIdx_none (env : List Entry) (n : String) (hnd : (entryNames env).Nodup) (h : selectIdx env n = none) :
    ∀ e ∈ env, e.m.name = n → e.disabled = true := by
  unfold selectIdx at h
  split at h
  · rename_i mi e0 hf
    split at h
    · rename_i hd
      obtain ⟨_, hget, hname⟩ := findName_spec n env 0 mi e0 hf
      simp only [Nat.sub_zero] at hget
      intro e he hn
      obtain ⟨j, hj⟩ := List.mem_iff_getElem?.mp he
      have hlt : j < (entryNames env).length := by
        simp only [entryNames, List.length_map]
        exact (List.getElem?_eq_some_iff.mp hj).1
      have h1 : (entryNames env)[j]? = (entryNames env)[mi]? := by
        simp only [entryNames, List.getElem?_map, hj, hget, Option.map_some, hn, hname]
      have := (List.getElem?_inj hlt hnd).mp h1
      subst this
      rw [hget] at hj
      cases hj
      exact hd
    · cases h
  · rename_i hf
    intro e he hn
    exact absurd hn (findName_none n env 0 hf e he)

/-- a table of object-like macros whose replacement lists contain no `##` (and no parameter) -/
structure ObjTable (env : List Entry) : Prop where
  nodup : (entryNames env).Nodup
  obj : ∀ e ∈ env, e.m.isFunction = false
  noConcat : ∀ e ∈ env, NoConcat e.m.body
  noArg : ∀ e ∈ env, ∀ t ∈ e.m.body, ∀ i, t.tok ≠ .arg i

theorem objTable_disable {env : List Entry} (h : ObjTable env) (mi : Nat) : ObjTable (disable env mi) := by
  have hm : ∀ e ∈ disable env mi, ∃ e0 ∈ env, e.m = e0.m := by
    intro e he
    obtain ⟨e0, he0, hm0, _⟩ := mem_disable he
    exact ⟨e0, he0, hm0⟩
  refine ⟨by rw [names_disable]; exact h.nodup, ?_, ?_, ?_⟩
  · intro e he; obtain ⟨e0, he0, hm0⟩ := hm e he; rw [hm0]; exact h.obj e0 he0
  · intro e he; obtain ⟨e0, he0, hm0⟩ := hm e he; rw [hm0]; exact h.noConcat e0 he0
  · intro e he; obtain ⟨e0, he0, hm0⟩ := hm e he; rw [hm0]; exact h.noArg e0 he0

/-- **With object-like macros only, every token list has a tame expansion** -- also when the macros refer to
themselves and to each other: the recursion is on the number of enabled entries. -/
theorem tame_object_total (n : Nat) : ∀ (env : List Entry), enabledCount env = n → ObjTable env →
    ∀ l, NoConcat l → ∃ out, Tame env l out := by
  induction n using Nat.strongRecOn with
  | ind n ih =>
    intro env hcount htab l
    induction l with
    | nil => intro _; exact ⟨[], Tame.nil env⟩
    | cons t rest ihl =>
      intro hnc
      obtain ⟨outr, hrest⟩ := ihl (fun x hx => hnc x (by simp [hx]))
      have keepCase : (∀ k, t.tok = .id k → ∀ e ∈ env, e.m.name = k → e.disabled = true) →
          ∃ out, Tame env (t :: rest) out := by
        intro hk
        refine ⟨t :: outr, Tame.keep env t rest outr ⟨hnc t (by simp), ?_⟩ hrest⟩
        intro k hk' e he hn
        exact Or.inl (hk k hk' e he hn)
      cases htk : t.tok with
      | id k =>
        cases hsel : selectIdx env k with
        | none =>
          apply keepCase
          intro k' hk' e he hn
          rw [htk] at hk'
          cases hk'
          exact selectIdx_none env k htab.nodup hsel e he hn
        | some p =>
          obtain ⟨mi, e⟩ := p
          have hs := selects_of_selectIdx env k mi e htab.nodup hsel
          have hmem : e ∈ env := List.mem_of_getElem? hs.get
          have hlt := enabledCount_disable_lt env mi e hs.get hs.enabled
          obtain ⟨R, hR⟩ := ih (enabledCount (disable env mi)) (by omega) (disable env mi) rfl
            (objTable_disable htab mi) e.m.body (htab.noConcat e hmem)
          obtain ⟨tt, tb⟩ := t
          simp only at htk
          subst htk
          refine ⟨R ++ outr, Tame.invoke env k tb rest mi e rest [] [] e.m.body R outr hs ?_ rfl ?_ ?_ ?_ hR ?_ hrest⟩
          · simp [readArgs, htab.obj e hmem]
          · intro i a a' ha; simp at ha
          · intro i a a' ha; simp at ha
          · exact RsslVerif.Lemmas.MacroSubst.substitute_noargs _ _ (htab.noArg e hmem)
          · intro R0 g b R1 _ _ _ j e' hj _ hf
            rw [htab.obj e' (List.mem_of_getElem? hj)] at hf
            cases hf
      | _ =>
        apply keepCase
        intro k hk
        rw [htk] at hk
        cases hk


end RsslVerif.Lemmas.MacroTameRun

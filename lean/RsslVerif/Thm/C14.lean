import RsslVerif.Lemmas.SourceMap
import RsslVerif.Spec.SourceMap
import RsslVerif.Lemmas.Trivia
import RsslVerif.Lemmas.TriviaLexer
import RsslVerif.Gen.MacroTables
/-!
# C14 — layout trivia never changes results and diagnostics track source positions

Part 1 (this section): positions.  Theorems about `Model.SourceMap` — the model of `SourceManager`
(`text/src/location.rs`) and `MessagePrinter::write_message` (`text/src/errors.rs`) — for all texts, all
insertion points, all inserted texts and all file lists.
-/
namespace RsslVerif.Thm.C14
open RsslVerif.Gen.SourceMapTables RsslVerif.Model.SourceMap RsslVerif.Lemmas.SourceMap RsslVerif.Spec.SourceMap

/-- Tie to the source: the constants and format pieces the model is written against are the ones
    `location.rs`, `errors.rs`, `tokens.rs` and `prepare_tokens` contain today. -/
theorem tables_as_modelled :
    unknownRaw = 2 ^ 32 - 1 ∧ firstRaw = 0 ∧ firstLine = 1 ∧ firstColumn = 1 ∧ extraSlots = 1 ∧ newlineByte = 10 ∧
    locSep = ":" ∧ headSep = ": " ∧ unknownText = "<unknown>" ∧ caretText = "^" ∧ padText = " " ∧
    Severity.Error.text = "error" ∧ Severity.Note.text = "note" ∧
    whitespaceKinds = ["Endline", "PhysicalEndline", "Whitespace", "Comment"] ∧
    prepareDropsWhitespace = true ∧ prepareAppendsEofUnknown = true ∧
    spaceTabAreWhitespace = true ∧ spliceIsPhysicalEndline = true ∧ newlineIsEndline = true := by decide

/-! ## positions inside one file -/

/-- **General insertion formula.** After inserting any `ins` at `p`, the old offset `q ≥ p` (now at
    `q + |ins|`) is `nlCount ins` lines further down; its column is unchanged once a line break lies
    between `p` and `q`, and otherwise is the column reached by scanning `ins` and then the bytes up to `q`. -/
theorem insert_shift (s ins : Bytes) (p q : Nat) (hpq : p ≤ q) (hq : q ≤ s.length) :
    (lineCol (insertAt s p ins) (q + ins.length)).line = (lineCol s q).line + nlCount ins ∧
    (0 < nlCount ((s.drop p).take (q - p)) →
      (lineCol (insertAt s p ins) (q + ins.length)).col = (lineCol s q).col) := by
  rw [lineCol_insertAt_after s ins p q hpq hq, lineCol_split s p q hpq]
  constructor
  · simp only [scan_line]; omega
  · intro h
    simp only [scan_col]
    exact scanCol_reset _ _ _ h

/-- **line_shift.** Inserting `k` newline-terminated lines (`ins`) at the start of a line (`p`) moves
    every position `q ≥ p` down by exactly `k` lines and leaves its column unchanged — for all texts,
    all `k`, all `p`, all `q`. -/
theorem line_shift (s ins : Bytes) (p q k : Nat) (hpq : p ≤ q) (hq : q ≤ s.length)
    (hstart : (lineCol s p).col = firstColumn) (hins : NlTerminated ins) (hk : nlCount ins = k) :
    lineCol (insertAt s p ins) (q + ins.length) = ⟨(lineCol s q).line + k, (lineCol s q).col⟩ := by
  rw [lineCol_insertAt_after s ins p q hpq hq, lineCol_split s p q hpq,
    scan_lines (lineCol s p) ins hins hstart]
  have hl : ∀ (a : Pos) (n : Nat) (bs : Bytes),
      scan ⟨a.line + n, a.col⟩ bs = ⟨(scan a bs).line + n, (scan a bs).col⟩ := by
    intro a n bs
    have h1 := scan_line ⟨a.line + n, a.col⟩ bs
    have h2 := scan_col ⟨a.line + n, a.col⟩ bs
    have h3 := scan_line a bs
    have h4 := scan_col a bs
    cases hs : scan ⟨a.line + n, a.col⟩ bs with
    | mk l c =>
      rw [hs] at h1 h2
      simp at h1 h2
      simp [h1, h2, h3, h4]
      omega
  rw [hl, hk]

/-- non-vacuity: `"ab\ncd"`, two lines (`"//\n\n"`) inserted at the start of line 2: `d` moves from 2:2 to 4:2 -/
example :
    let s : Bytes := [97, 98, 10, 99, 100]
    let ins : Bytes := [47, 47, 10, 10]
    (lineCol s 3).col = firstColumn ∧ NlTerminated ins ∧ nlCount ins = 2 ∧
    lineCol s 4 = ⟨2, 2⟩ ∧ lineCol (insertAt s 3 ins) (4 + ins.length) = ⟨4, 2⟩ :=
  ⟨by decide, Or.inr ⟨[47, 47, 10], 10, rfl, by decide⟩, by decide, by decide, by decide⟩

/-- positions before the inserted lines do not move at all -/
theorem line_shift_before (s ins : Bytes) (p q : Nat) (hqp : q ≤ p) (hp : p ≤ s.length) :
    lineCol (insertAt s p ins) q = lineCol s q :=
  lineCol_insertAt_before s ins p q hqp hp

/-- **Inline trivia.** Inserting `w` without a line break at `p`: a position on the rest of that line
    moves right by `|w|`, positions on later lines do not move, the line number never changes. -/
theorem inline_trivia_shift (s w : Bytes) (p q : Nat) (hpq : p ≤ q) (hq : q ≤ s.length) (hw : nlCount w = 0) :
    (lineCol (insertAt s p w) (q + w.length)).line = (lineCol s q).line ∧
    (nlCount ((s.drop p).take (q - p)) = 0 →
      (lineCol (insertAt s p w) (q + w.length)).col = (lineCol s q).col + w.length) ∧
    (0 < nlCount ((s.drop p).take (q - p)) →
      (lineCol (insertAt s p w) (q + w.length)).col = (lineCol s q).col) := by
  have h := insert_shift s w p q hpq hq
  refine ⟨by rw [h.1, hw]; rfl, ?_, h.2⟩
  intro h0
  rw [lineCol_insertAt_after s w p q hpq hq, lineCol_split s p q hpq]
  simp only [scan_col]
  rw [scanCol_noNl _ _ h0, scanCol_noNl _ _ h0, scanCol_noNl _ _ hw]
  omega

/-- line and column determine the offset: two different positions of a file never print the same `line:col` -/
theorem lineCol_injective (s : Bytes) (p q : Nat) (hpq : p ≤ q) (hq : q ≤ s.length)
    (h : lineCol s p = lineCol s q) : p = q := by
  have hl : (lineCol s q).line = (lineCol s p).line + nlCount ((s.drop p).take (q - p)) := by
    rw [lineCol_split s p q hpq, scan_line]
  have hc : (lineCol s q).col = scanCol (lineCol s p).col ((s.drop p).take (q - p)) := by
    rw [lineCol_split s p q hpq, scan_col]
  rw [← h] at hl hc
  have h0 : nlCount ((s.drop p).take (q - p)) = 0 := by omega
  rw [scanCol_noNl _ _ h0] at hc
  have hlen : ((s.drop p).take (q - p)).length = q - p := by
    simp [List.length_take, List.length_drop]; omega
  omega

/-- bounds: lines and columns start at 1 and never exceed the offset + 1 -/
theorem lineCol_bounds (s : Bytes) (q : Nat) (hq : q ≤ s.length) :
    firstLine ≤ (lineCol s q).line ∧ (lineCol s q).line ≤ firstLine + q ∧
    firstColumn ≤ (lineCol s q).col ∧ (lineCol s q).col ≤ firstColumn + q := by
  have hlen : (s.take q).length = q := by simp [List.length_take]; omega
  have h1 : nlCount (s.take q) ≤ q := by
    have := List.countP_le_length (p := isNl) (l := s.take q)
    unfold nlCount; omega
  have h2 : (lastLine (s.take q)).length ≤ q := by
    have : (lastLine (s.take q)).length ≤ (s.take q).length := by
      unfold lastLine
      rw [List.length_reverse]
      have := (List.takeWhile_sublist (fun c => !isNl c) (l := (s.take q).reverse)).length_le
      simpa using this
    omega
  rw [lineCol_line, lineCol_col]
  omega

/-- **Several insertions.** With the insertion offsets given in original coordinates in ascending
    order (what the harness sends and the driver applies), `moveThrough` is where each original byte
    ends up: the edited text has, at the moved offset, the very byte the original had. -/
theorem applyEdits_tracks (s : Bytes) (es : List (Nat × Bytes)) (hasc : Ascending es)
    (hle : ∀ e ∈ es, e.1 ≤ s.length) (q : Nat) (hq : q < s.length) :
    (applyEdits s es)[moveThrough es q]? = s[q]? := by
  induction es with
  | nil => simp [applyEdits, moveThrough]
  | cons e rest ih =>
    obtain ⟨p, ins⟩ := e
    have ih' := ih hasc.2 (fun e he => hle e (by simp [he]))
    have hp : p ≤ s.length := hle (p, ins) (by simp)
    have hlen := length_applyEdits_ge s rest
    rw [moveThrough_cons]
    simp only [applyEdits]
    by_cases hpq : p ≤ q
    · simp only [hpq, if_true]
      rw [getElem?_insertAt_after _ ins p _ (Nat.le_trans hpq (moveThrough_ge rest q)) (by omega)]
      exact ih'
    · have hall : ∀ e ∈ rest, q < e.1 := fun e he => by have := hasc.1 e he; omega
      rw [moveThrough_all_after rest q hall] at ih' ⊢
      simp only [hpq, if_false, Nat.add_zero]
      rw [getElem?_insertAt_before _ ins p q (by omega) (by omega)]
      exact ih'

/-! ## positions across files (`SourceManager`) -/

theorem totalSlots_append (a b : SourceManager) : totalSlots (a ++ b) = totalSlots a + totalSlots b := by
  induction a with
  | nil => simp [totalSlots, show firstRaw = 0 from rfl]
  | cons f a ih => simp [totalSlots, ih]; omega

theorem getFileLocation_skip (pre rest : SourceManager) (loc : Nat) :
    getFileLocation (pre ++ rest) (totalSlots pre + loc) = getFileLocation rest loc := by
  induction pre with
  | nil => simp [totalSlots, show firstRaw = 0 from rfl]
  | cons f pre ih =>
    have hnot : ¬ (f.slots + totalSlots pre + loc < f.slots) := by omega
    have hsub : f.slots + totalSlots pre + loc - f.slots = totalSlots pre + loc := by omega
    simp only [List.cons_append, getFileLocation, totalSlots, hnot, if_false, hsub]
    exact ih

theorem getFileOffset_skip (pre rest : SourceManager) (loc : Nat) :
    getFileOffset (pre ++ rest) (totalSlots pre + loc) =
      (getFileOffset rest loc).map fun (i, o) => (pre.length + i, o) := by
  induction pre with
  | nil =>
    simp [totalSlots, show firstRaw = 0 from rfl]
  | cons f pre ih =>
    have hnot : ¬ (f.slots + totalSlots pre + loc < f.slots) := by omega
    have hsub : f.slots + totalSlots pre + loc - f.slots = totalSlots pre + loc := by omega
    simp only [List.cons_append, getFileOffset, totalSlots, hnot, if_false, hsub, ih]
    cases getFileOffset rest loc with
    | none => rfl
    | some io => cases io; simp; omega

/-- **include_location.** A location inside a file — wherever that file sits among the loaded files,
    whatever the files loaded before it (the including files) and after it contain — decodes to that
    file's own name and to the line and column counted inside that file alone. -/
theorem include_location (pre post : SourceManager) (f : SourceFile) (off : Nat)
    (h : off ≤ f.contents.length) :
    getFileLocation (pre ++ f :: post) (totalSlots pre + off) =
      .known f.name (lineCol f.contents off).line (lineCol f.contents off).col ∧
    getFileOffset (pre ++ f :: post) (totalSlots pre + off) = some (pre.length, off) := by
  have hlt : off < f.slots := by unfold SourceFile.slots; have : extraSlots = 1 := rfl; omega
  constructor
  · rw [getFileLocation_skip]; simp [getFileLocation, hlt]
  · rw [getFileOffset_skip]; simp [getFileOffset, hlt]

/-- editing the including files (any change of the files loaded earlier or later) does not change
    what a position inside an included file decodes to -/
theorem include_independent_of_includer (pre pre' post post' : SourceManager) (f : SourceFile) (off : Nat)
    (h : off ≤ f.contents.length) :
    getFileLocation (pre' ++ f :: post') (totalSlots pre' + off) =
      getFileLocation (pre ++ f :: post) (totalSlots pre + off) := by
  rw [(include_location pre post f off h).1, (include_location pre' post' f off h).1]

/-- `get_source_location_from_file_offset` produces exactly the locations `include_location` speaks about -/
theorem sourceLocation_eq (pre post : SourceManager) (f : SourceFile) (off : Nat) (h : off ≤ f.contents.length) :
    sourceLocation (pre ++ f :: post) pre.length off = .ok (totalSlots pre + off) := by
  have hlt : off < f.slots := by unfold SourceFile.slots; have : extraSlots = 1 := rfl; omega
  simp [sourceLocation, hlt, baseOf]

/-- **location_in_range.** A raw location decodes to a file position exactly when it is below the
    total number of slots; the decoded pair lies inside its file (`offset ≤ size`) and re-encodes to the
    same raw location; both decoders agree on the owner. -/
theorem location_in_range (sm : SourceManager) (loc : Nat) :
    (loc < totalSlots sm ↔ getFileLocation sm loc ≠ .unknown) ∧
    (getFileOffset sm loc = none ↔ getFileLocation sm loc = .unknown) ∧
    (∀ i off, getFileOffset sm loc = some (i, off) →
      ∃ f, sm[i]? = some f ∧ off ≤ f.contents.length ∧ baseOf sm i + off = loc ∧
        getFileLocation sm loc = .known f.name (lineCol f.contents off).line (lineCol f.contents off).col) := by
  induction sm generalizing loc with
  | nil => simp [totalSlots, getFileLocation, getFileOffset, show firstRaw = 0 from rfl]
  | cons f sm ih =>
    by_cases hlt : loc < f.slots
    · refine ⟨?_, ?_, ?_⟩
      · simp [totalSlots, getFileLocation, hlt]; omega
      · simp [getFileLocation, getFileOffset, hlt]
      · intro i off hio
        simp [getFileOffset, hlt] at hio
        obtain ⟨rfl, rfl⟩ := hio
        refine ⟨f, by simp, ?_, ?_, ?_⟩
        · unfold SourceFile.slots at hlt; have : extraSlots = 1 := rfl; omega
        · simp [baseOf, totalSlots, show firstRaw = 0 from rfl]
        · simp [getFileLocation, hlt]
    · obtain ⟨h1, h2, h3⟩ := ih (loc - f.slots)
      refine ⟨?_, ?_, ?_⟩
      · simp only [totalSlots, getFileLocation, hlt, if_false]
        rw [← h1]; omega
      · simp only [getFileLocation, getFileOffset, hlt, if_false]
        rw [← h2]
        cases getFileOffset sm (loc - f.slots) <;> simp
      · intro i off hio
        simp only [getFileOffset, hlt, if_false] at hio
        cases hg : getFileOffset sm (loc - f.slots) with
        | none => rw [hg] at hio; simp at hio
        | some jo =>
          obtain ⟨j, o⟩ := jo
          rw [hg] at hio
          simp at hio
          obtain ⟨rfl, rfl⟩ := hio
          obtain ⟨g, hg1, hg2, hg3, hg4⟩ := h3 j o hg
          refine ⟨g, by simpa using hg1, hg2, ?_, ?_⟩
          · simp only [baseOf, List.take_succ_cons, totalSlots] at hg3 ⊢
            omega
          · simp only [getFileLocation, hlt, if_false]; exact hg4

/-- **line_shift across files.** `f` is any loaded file, `k` whole lines are inserted at the line start
    `p` of `f`.  A location at or after `p` in `f` moves by `|ins|` raw slots and decodes to the same
    file name, the same column and `line + k`; locations before `p`, and all locations of files loaded
    earlier, decode as before; locations of files loaded later move by `|ins|` raw slots and decode as before. -/
theorem line_shift_located (pre post : SourceManager) (f : SourceFile) (ins : Bytes) (p q k : Nat)
    (hpq : p ≤ q) (hq : q ≤ f.contents.length)
    (hstart : (lineCol f.contents p).col = firstColumn) (hins : NlTerminated ins) (hk : nlCount ins = k) :
    getFileLocation (pre ++ { f with contents := insertAt f.contents p ins } :: post)
        (totalSlots pre + q + ins.length) =
      .known f.name ((lineCol f.contents q).line + k) (lineCol f.contents q).col ∧
    getFileLocation (pre ++ f :: post) (totalSlots pre + q) =
      .known f.name (lineCol f.contents q).line (lineCol f.contents q).col := by
  constructor
  · have hq' : q + ins.length ≤ (insertAt f.contents p ins).length := by rw [length_insertAt]; omega
    have := (include_location pre post { f with contents := insertAt f.contents p ins } (q + ins.length) hq').1
    rw [Nat.add_assoc, this]
    simp only [line_shift f.contents ins p q k hpq hq hstart hins hk]
  · exact (include_location pre post f q hq).1

/-- locations of files loaded after the edited file: the raw value moves, the decoded position does not -/
theorem later_files_unaffected (pre post : SourceManager) (f f' : SourceFile) (loc : Nat) :
    getFileLocation (pre ++ f' :: post) (totalSlots pre + f'.slots + loc) =
      getFileLocation (pre ++ f :: post) (totalSlots pre + f.slots + loc) := by
  have e1 : pre ++ f' :: post = (pre ++ [f']) ++ post := by simp
  have e2 : pre ++ f :: post = (pre ++ [f]) ++ post := by simp
  have t1 : totalSlots pre + f'.slots = totalSlots (pre ++ [f']) := by
    rw [totalSlots_append]; simp [totalSlots, show firstRaw = 0 from rfl]
  have t2 : totalSlots pre + f.slots = totalSlots (pre ++ [f]) := by
    rw [totalSlots_append]; simp [totalSlots, show firstRaw = 0 from rfl]
  rw [e1, e2, t1, t2, getFileLocation_skip, getFileLocation_skip]

/-- locations of files loaded before the edited file are untouched -/
theorem earlier_files_unaffected (pre rest rest' : SourceManager) (loc : Nat) (h : loc < totalSlots pre) :
    getFileLocation (pre ++ rest') loc = getFileLocation (pre ++ rest) loc := by
  induction pre generalizing loc with
  | nil => simp [totalSlots, show firstRaw = 0 from rfl] at h
  | cons g pre ih =>
    by_cases hlt : loc < g.slots
    · simp [getFileLocation, hlt]
    · simp only [List.cons_append, getFileLocation, hlt, if_false]
      exact ih _ (by simp only [totalSlots] at h; omega)

/-! ## command-line defines (`CompileArgs::defines`)

`preprocess_initial_file` loads every define as a file named `<define>` holding `NAME VALUE` *before* the entry
file and lexes it from offset 0 of that file: for the source manager they are ordinary files in front of the
program's files. -/

/-- Tie to the source: how the command-line defines are loaded is what the statements below assume (extracted
    from `preprocess_initial_file` this run). -/
theorem commandline_defines_as_modelled :
    defineFileName = "<define>" ∧ defineFileFormat = "{name} {value}" ∧
    defineTokensStartAtOffsetZero = true ∧ definesAreLoadedBeforeTheEntryFile = true := by decide

/-- a command-line define as a loaded file -/
def defineFile (name value : Bytes) : SourceFile :=
  { name := defineFileName, contents := name ++ strBytes " " ++ value }

/-- **commandline_defines_location.** Whatever defines are passed on the command line (any number, any names and
    values) and whatever they are replaced by, (1) a position inside a file of the program decodes to that file's
    own name and to the line and column counted inside that file alone, and so to the same place as without any
    define; (2) a position inside the text of a define decodes to `<define>` and the line / column inside that
    text, independently of the program's files; (3) inserting `k` lines into a file of the program moves a later
    position of that file by exactly `k` lines, same column, with the defines in front. -/
theorem commandline_defines_location (defs defs' : List (Bytes × Bytes)) (pre post : SourceManager) (f : SourceFile)
    (off : Nat) (h : off ≤ f.contents.length) :
    let D := defs.map fun d => defineFile d.1 d.2
    let D' := defs'.map fun d => defineFile d.1 d.2
    getFileLocation (D ++ (pre ++ f :: post)) (totalSlots (D ++ pre) + off) =
      .known f.name (lineCol f.contents off).line (lineCol f.contents off).col ∧
    getFileLocation (D' ++ (pre ++ f :: post)) (totalSlots (D' ++ pre) + off) =
      getFileLocation (pre ++ f :: post) (totalSlots pre + off) ∧
    (∀ (D₁ D₂ : SourceManager) (name value : Bytes) (o : Nat) (rest rest' : SourceManager),
      o ≤ (defineFile name value).contents.length →
      getFileLocation (D₁ ++ defineFile name value :: (D₂ ++ rest)) (totalSlots D₁ + o) =
        .known "<define>" (lineCol (name ++ strBytes " " ++ value) o).line (lineCol (name ++ strBytes " " ++ value) o).col ∧
      getFileLocation (D₁ ++ defineFile name value :: (D₂ ++ rest')) (totalSlots D₁ + o) =
        getFileLocation (D₁ ++ defineFile name value :: (D₂ ++ rest)) (totalSlots D₁ + o)) := by
  intro D D'
  refine ⟨?_, ?_, ?_⟩
  · have := (include_location (D ++ pre) post f off h).1
    simpa [List.append_assoc] using this
  · have h1 := (include_location (D' ++ pre) post f off h).1
    have h2 := (include_location pre post f off h).1
    rw [h2]
    simpa [List.append_assoc] using h1
  · intro D₁ D₂ name value o rest rest' ho
    have h1 := (include_location D₁ (D₂ ++ rest) (defineFile name value) o ho).1
    have h2 := (include_location D₁ (D₂ ++ rest') (defineFile name value) o ho).1
    refine ⟨?_, ?_⟩
    · rw [h1]; rfl
    · rw [h1, h2]

/-- non-vacuity, and what the real compiler prints for `-D CLD_BAD=(1 + q)` used in `main.rssl`: the `q` of the
    define is `<define>:1:14`, the first byte of the entry file behind two defines is `main.rssl:1:1` -/
example :
    getFileLocation [defineFile (strBytes "CLD_ONE") (strBytes "1"), defineFile (strBytes "CLD_BAD") (strBytes "(1 + q)"),
      { name := "main.rssl", contents := strBytes "int v = CLD_BAD;\n" }] (10 + 13) = .known "<define>" 1 14 ∧
    getFileLocation [defineFile (strBytes "CLD_ONE") (strBytes "1"), defineFile (strBytes "CLD_BAD") (strBytes "(1 + q)"),
      { name := "main.rssl", contents := strBytes "int v = CLD_BAD;\n" }] (10 + 16) = .known "main.rssl" 1 1 := by
  decide +kernel

/-! ## the printed diagnostic -/

theorem isNl_iff (c : UInt8) : (!isNl c) = (c != 10) := by
  have h : (c.toNat == 10) = (c == 10) := by
    cases hc : (c == 10)
    · have : c ≠ 10 := by simpa using hc
      have : c.toNat ≠ 10 := fun h => this (UInt8.toNat_inj.1 (by simpa using h))
      simpa using this
    · have : c = 10 := by simpa using hc
      subst this; rfl
  unfold isNl
  rw [show newlineByte = 10 from rfl, h]
  cases hc : (c == 10) <;> simp [bne, hc]

/-- the model's source line is the reference "line around the offset" -/
theorem sourceLine_eq_lineAround (s : Bytes) (q : Nat) : sourceLine s q = lineAround s q := by
  unfold sourceLine lineAround lastLine
  have : (fun c => !isNl c) = (fun c : UInt8 => c != 10) := funext isNl_iff
  rw [this]

theorem getD_append_cons (pre post : SourceManager) (f d : SourceFile) :
    (pre ++ f :: post).getD pre.length d = f := by
  simp [List.getD]

/-- `write_message` for a position inside a loaded file prints the reference rendering of
    (file name, line, column, severity, message, source line) — or panics off a character boundary. -/
theorem writeMessage_located (pre post : SourceManager) (f : SourceFile) (q : Nat) (msg : Bytes) (sev : Severity)
    (hq : q ≤ f.contents.length) (hknown : totalSlots pre + q ≠ unknownRaw) :
    writeMessage (pre ++ f :: post) msg (totalSlots pre + q) sev =
      if isCharBoundary f.contents q then
        .ok (renderLocated f.name (lineCol f.contents q).line (lineCol f.contents q).col sev msg
          (lineAround f.contents q))
      else .error "panic: byte index is not a char boundary" := by
  obtain ⟨h1, h2⟩ := include_location pre post f q hq
  unfold writeMessage writeSourceForError
  simp only [hknown, ne_eq, not_false_eq_true, if_true, h1, h2, getD_append_cons]
  by_cases hb : isCharBoundary f.contents q
  · simp [hb, renderLocated, FileLocation.render, caretLine, sourceLine_eq_lineAround,
      show locSep = ":" from rfl, show headSep = ": " from rfl, show caretText = "^" from rfl]
  · simp [hb]

/-- a message without a position is `severity: message` -/
theorem writeMessage_unlocated (sm : SourceManager) (msg : Bytes) (sev : Severity) :
    writeMessage sm msg unknownRaw sev = .ok (strBytes sev.text ++ strBytes ": " ++ msg ++ [nl]) := by
  simp [writeMessage, show headSep = ": " from rfl]

/-- **message_render_shift.** `k` whole lines are inserted at the line start `p` of the loaded file `f`.
    The diagnostic printed for a position `q ≥ p` of `f` before the edit, and the diagnostic printed for
    the moved position after the edit, are the reference rendering of the *same* file name, column,
    severity, message and source-line text, with `line` and `line + k` — they differ in the line number
    and in nothing else.  (Both positions are character boundaries: otherwise the printer panics.) -/
theorem message_render_shift (pre post : SourceManager) (f : SourceFile) (ins msg : Bytes) (sev : Severity)
    (p q k : Nat) (hpq : p ≤ q) (hq : q ≤ f.contents.length)
    (hstart : (lineCol f.contents p).col = firstColumn) (hins : NlTerminated ins) (hk : nlCount ins = k)
    (hknown : totalSlots pre + q ≠ unknownRaw) (hknown' : totalSlots pre + (q + ins.length) ≠ unknownRaw)
    (hb : isCharBoundary f.contents q = true)
    (hb' : isCharBoundary (insertAt f.contents p ins) (q + ins.length) = true) :
    ∃ name line col src,
      writeMessage (pre ++ f :: post) msg (totalSlots pre + q) sev =
        .ok (renderLocated name line col sev msg src) ∧
      writeMessage (pre ++ { f with contents := insertAt f.contents p ins } :: post) msg
          (totalSlots pre + (q + ins.length)) sev =
        .ok (renderLocated name (line + k) col sev msg src) := by
  refine ⟨f.name, (lineCol f.contents q).line, (lineCol f.contents q).col, lineAround f.contents q, ?_, ?_⟩
  · rw [writeMessage_located pre post f q msg sev hq hknown, hb]; rfl
  · have hq' : q + ins.length ≤ (insertAt f.contents p ins).length := by rw [length_insertAt]; omega
    rw [writeMessage_located pre post { f with contents := insertAt f.contents p ins } (q + ins.length) msg sev hq' hknown']
    simp only [hb', if_true, line_shift f.contents ins p q k hpq hq hstart hins hk]
    rw [← sourceLine_eq_lineAround, ← sourceLine_eq_lineAround, sourceLine_insert_lines f.contents ins p q hpq hq hstart hins]

/-- the moved position is a character boundary whenever the old one was (except at the very start of
    the file, where Rust's `is_char_boundary(0)` is true for any contents) -/
theorem boundary_preserved (s ins : Bytes) (p q : Nat) (hpq : p ≤ q) (hq : q ≤ s.length) (hq0 : 0 < q)
    (hb : isCharBoundary s q = true) : isCharBoundary (insertAt s p ins) (q + ins.length) = true := by
  unfold isCharBoundary at hb ⊢
  have hq0' : (q == 0) = false := by simp; omega
  have hq1 : (q + ins.length == 0) = false := by simp; omega
  rw [length_insertAt]
  simp only [hq0', hq1, Bool.false_or] at hb ⊢
  have hget : (insertAt s p ins)[q + ins.length]? = s[q]? := by
    have := congrArg (fun l => l[0]?) (drop_insertAt_after s ins p q hpq hq)
    simpa [List.getElem?_drop] using this
  rw [hget]
  have : (q + ins.length == s.length + ins.length) = (q == s.length) := by
    cases h : (q == s.length) <;> simp at h ⊢ <;> omega
  rw [this]
  exact hb

/-!
# Part 2: trivia insensitivity of `read_to_end` + `prepare_tokens`, over an abstract lexer

What a concrete lexer has to provide, for each trivia text `w` and each token kind `t` after which insertion
is allowed:

* `LexesAs L w ws` with every token of `ws` whitespace — (T) the trivia lexes as trivia whatever follows;
* `AdjacentStable L w t` / `AdjacentStableIf` — (A) the token is closed under following trivia;
* `DistantStable L w` / `DistantStableIf` — (D) a token does not depend on text at or beyond the end of the next
  token, as far as inserting `w` there is concerned (the `If` form: provided the next token is itself unchanged,
  and under a side condition on the text at the token's start).

Part 4 discharges them for the byte-level model of `preprocess/src/lexer.rs`: `<` and `>` fail (A) (their
`FollowedBy` flag looks at the next token), a line comment fails (A) (the inserted text joins the comment), `/`
fails (A) for a `w` that starts with `/`, and a swizzled numeric literal (`1.xxx`) fails the side condition: these
are exactly the insertion points the harness excludes or lists as a known finding.
-/
open RsslVerif.Model.Trivia RsslVerif.Lemmas.Trivia

variable {τ : Type}

/-- **trivia_insensitive (general form, with a side condition `good` on the text at token starts).** `s` lexes; `i` is the start of the text or the end of a token after which
    insertion is allowed; `w` is a trivia text for this lexer ((T), (A), (D)).  Then the edited text
    lexes, and `prepare_tokens` of the edited text is `prepare_tokens` of the original text with every
    location at or after `i` moved by `|w|` and nothing else changed: the same tokens in the same order,
    each still pointing at its own bytes. -/
theorem trivia_insensitive_if (L : Lexer τ) (hEnd : L.isWs L.endline = true)
    (w : Bytes) (ws : List (τ × Nat)) (allowed : τ → Prop) (good : Bytes → Prop)
    (hT : LexesAs L w ws) (hws : ∀ t ∈ ws, L.isWs t.1 = true)
    (hA : ∀ t, allowed t → AdjacentStableIf L w good t) (hD : DistantStableIf L w good)
    (s : Bytes) (i : Nat) (trailing : Bool) (toks0 toks : List (Spanned τ))
    (h0 : lexBytes L s 0 = .ok toks0) (hb : BoundaryOK allowed 0 i toks0)
    (hg : ∀ t ∈ toks0, t.stop ≤ i → good (s.drop t.start))
    (h : readToEnd L s trailing = .ok toks) :
    ∃ toks', readToEnd L (insertAt s i w) trailing = .ok toks' ∧
      prepare L toks' = (prepare L toks).map fun tl => (tl.1, relocate i w.length tl.2) := by
  have hins := lexBytes_insert_if L w ws allowed good hT hA hD s 0 i toks0 h0 hb (by simpa using hg)
  simp only [Nat.sub_zero] at hins
  have hb' : i = 0 ∨ ∃ t ∈ toks0, t.stop = i := by
    rcases hb with hb | ⟨t, ht, hti, _⟩
    · exact Or.inl hb
    · exact Or.inr ⟨t, ht, hti⟩
  obtain ⟨hsplit, hafter⟩ := lexBytes_split L s 0 i toks0 h0 hb'
  have hsp := lexBytes_spans L s 0 toks0 h0
  -- the old token list up to a trailing Endline
  have hold : prepare L toks = prepare L toks0 := by
    unfold readToEnd at h
    rw [h0] at h
    simp only at h
    split at h
    · cases h
      exact prepare_append_ws L toks0 _ (by intro t ht; simp at ht; subst ht; exact hEnd)
    · cases h; rfl
  -- the new token list up to a trailing Endline
  let new0 := beforeB i toks0 ++ spansFrom ws i ++ (afterB i toks0).map (Spanned.shift w.length)
  have hnew : ∃ toks', readToEnd L (insertAt s i w) trailing = .ok toks' ∧ prepare L toks' = prepare L new0 := by
    unfold readToEnd
    rw [hins]
    simp only
    split
    · exact ⟨_, rfl, prepare_append_ws L _ _ (by intro t ht; simp at ht; subst ht; exact hEnd)⟩
    · exact ⟨_, rfl, rfl⟩
  obtain ⟨toks', hr, hp⟩ := hnew
  refine ⟨toks', hr, ?_⟩
  rw [hp, hold]
  -- compare the two prepared lists
  have hwsnil : (spansFrom ws i).filter (fun t => !L.isWs t.tok) = [] := by
    rw [List.filter_eq_nil_iff]
    intro t ht
    simp [spansFrom_tok ws i L.isWs hws t ht]
  have hshift : ((afterB i toks0).map (Spanned.shift w.length)).filter (fun t => !L.isWs t.tok) =
      ((afterB i toks0).filter (fun t => !L.isWs t.tok)).map (Spanned.shift w.length) := by
    rw [List.filter_map]
    rfl
  conv => rhs; rw [hsplit]
  show prepare L new0 = _
  unfold prepare
  simp only [new0, List.filter_append, hwsnil, hshift, List.append_nil, List.map_append, List.map_map,
    List.map_cons, List.map_nil, relocate]
  congr 1
  congr 1
  · apply List.map_congr_left
    intro t ht
    have htm : t ∈ beforeB i toks0 := (List.mem_filter.1 ht).1
    have hstop : t.stop ≤ i := by simpa [beforeB] using (List.mem_filter.1 htm).2
    have := hsp t (List.mem_filter.1 htm).1
    simp only [Function.comp, relocate, moveOffset]
    have hlt : ¬ i ≤ t.start := by omega
    simp [hlt]
  · apply List.map_congr_left
    intro t ht
    have htm : t ∈ afterB i toks0 := (List.mem_filter.1 ht).1
    have := hafter t htm
    simp [Function.comp, relocate, moveOffset, Spanned.shift, this]

/-- **trivia_insensitive.** The form without side condition: (A) and (D) hold outright. -/
theorem trivia_insensitive (L : Lexer τ) (hEnd : L.isWs L.endline = true)
    (w : Bytes) (ws : List (τ × Nat)) (allowed : τ → Prop)
    (hT : LexesAs L w ws) (hws : ∀ t ∈ ws, L.isWs t.1 = true)
    (hA : ∀ t, allowed t → AdjacentStable L w t) (hD : DistantStable L w)
    (s : Bytes) (i : Nat) (trailing : Bool) (toks0 toks : List (Spanned τ))
    (h0 : lexBytes L s 0 = .ok toks0) (hb : BoundaryOK allowed 0 i toks0)
    (h : readToEnd L s trailing = .ok toks) :
    ∃ toks', readToEnd L (insertAt s i w) trailing = .ok toks' ∧
      prepare L toks' = (prepare L toks).map fun tl => (tl.1, relocate i w.length tl.2) :=
  trivia_insensitive_if L hEnd w ws allowed (fun _ => True) hT hws
    (fun t ht x n _ h1 h2 h3 => hA t ht x n h1 h2 h3)
    (fun x t n t2 n2 j _ h1 h2 h3 h4 h5 h6 h7 _ => hD x t n t2 n2 j h1 h2 h3 h4 h5 h6 h7)
    s i trailing toks0 toks h0 hb (fun _ _ _ => trivial) h

/-- **trivia_insensitive, rejected texts.** If the lexer rejects `s`, and `i` is the start of the text
    or the end of one of the tokens lexed before the failure (after which insertion is allowed), the
    edited text is rejected too — same reason, at the moved offset.  Together with
    `trivia_insensitive`: the lexer's accept/reject verdict is unchanged. -/
theorem trivia_insensitive_rejected_if (L : Lexer τ)
    (w : Bytes) (ws : List (τ × Nat)) (allowed : τ → Prop) (good : Bytes → Prop)
    (hT : LexesAs L w ws) (hA : ∀ t, allowed t → AdjacentStableIf L w good t) (hD : DistantStableIf L w good)
    (s : Bytes) (i : Nat) (trailing : Bool) (e : LexErr)
    (h : readToEnd L s trailing = .error e) (hb : BoundaryOK allowed 0 i (lexPrefix L s 0))
    (hg : ∀ t ∈ lexPrefix L s 0, t.stop ≤ i → good (s.drop t.start)) :
    readToEnd L (insertAt s i w) trailing = .error (e.shift w.length) := by
  have h0 : lexBytes L s 0 = .error e := by
    unfold readToEnd at h
    cases hl : lexBytes L s 0 with
    | ok ts => rw [hl] at h; simp only at h; split at h <;> cases h
    | error e' => rw [hl] at h; simp only at h; cases h; rfl
  have := (lexBytes_insert_error_if L w ws allowed good hT hA hD s 0 i e h0 hb (by simpa using hg)).1
  simp only [Nat.sub_zero] at this
  unfold readToEnd
  rw [this]

/-- the form without side condition -/
theorem trivia_insensitive_rejected (L : Lexer τ)
    (w : Bytes) (ws : List (τ × Nat)) (allowed : τ → Prop)
    (hT : LexesAs L w ws) (hA : ∀ t, allowed t → AdjacentStable L w t) (hD : DistantStable L w)
    (s : Bytes) (i : Nat) (trailing : Bool) (e : LexErr)
    (h : readToEnd L s trailing = .error e) (hb : BoundaryOK allowed 0 i (lexPrefix L s 0)) :
    readToEnd L (insertAt s i w) trailing = .error (e.shift w.length) :=
  trivia_insensitive_rejected_if L w ws allowed (fun _ => True) hT
    (fun t ht x n _ h1 h2 h3 => hA t ht x n h1 h2 h3)
    (fun x t n t2 n2 j _ h1 h2 h3 h4 h5 h6 h7 _ => hD x t n t2 n2 j h1 h2 h3 h4 h5 h6 h7)
    s i trailing e h hb (fun _ _ _ => trivial)

/-! ### a concrete lexer satisfying the hypotheses (non-vacuity) -/

/-- words of letters (maximal munch), single spaces, newlines, and `<` with a one-token lookahead flag
    like `leftanglebracket`; everything else is an error -/
inductive ToyTok where
  | word (n : Nat) | space | newline | langle (followedByToken : Bool)
  deriving DecidableEq, Repr

def isLetter (c : UInt8) : Bool := 97 ≤ c.toNat && c.toNat ≤ 122

def toyTok (x : Bytes) : Option (ToyTok × Nat) :=
  match x with
  | [] => none
  | c :: r =>
    if c = 32 then some (.space, 1)
    else if c = 10 then some (.newline, 1)
    else if c = 60 then
      some (.langle (match r with
        | [] => false
        | d :: _ => isLetter d || d = 60), 1)
    else if isLetter c then some (.word (1 + (r.takeWhile isLetter).length), 1 + (r.takeWhile isLetter).length)
    else none

def toyLexer : Lexer ToyTok where
  tok := toyTok
  isWs := fun t => t = .space || t = .newline
  endline := .newline
  isEndline := fun t => t = .newline

/-- the hypotheses of `trivia_insensitive` hold for the toy lexer, `w` = one space, after any token
    other than `<` -/
theorem toy_lexesAs : LexesAs toyLexer [32] [(.space, 1)] := by
  intro y off
  have ht : toyLexer.tok ([32] ++ y) = some (.space, 1) := by simp [toyLexer, toyTok]
  rw [lexBytes_step toyLexer ([32] ++ y) off .space 1 (by simp) ht (by omega) (by simp)]
  simp only [List.singleton_append, List.drop_succ_cons, List.drop_zero, List.length_singleton]
  cases lexBytes toyLexer y (off + 1) <;> simp [consOk, mapOk, spansFrom]

theorem takeWhile_letter_stop (r : Bytes) (rest : Bytes) (c : UInt8) (hc : isLetter c = false) :
    ((r.takeWhile isLetter ++ c :: rest).takeWhile isLetter) = r.takeWhile isLetter := by
  induction r with
  | nil => simp [List.takeWhile_cons, hc]
  | cons a r ih =>
    by_cases ha : isLetter a
    · simp [List.takeWhile_cons, ha, ih]
    · simp [List.takeWhile_cons, ha, hc]

theorem take_takeWhile_length (p : UInt8 → Bool) (r : Bytes) : r.take (r.takeWhile p).length = r.takeWhile p := by
  induction r with
  | nil => rfl
  | cons a r ih =>
    by_cases ha : p a
    · simp [List.takeWhile_cons, ha, ih]
    · simp [List.takeWhile_cons, ha]

theorem toy_adjacent (t : ToyTok) (hl : ∀ b, t ≠ .langle b) : AdjacentStable toyLexer [32] t := by
  intro x n ht hn hle
  cases x with
  | nil => simp [toyLexer, toyTok] at ht
  | cons c r =>
    simp only [toyLexer, toyTok] at ht ⊢
    by_cases h1 : c = 32
    · simp [h1] at ht ⊢; obtain ⟨rfl, rfl⟩ := ht; simp
    · by_cases h2 : c = 10
      · simp [h1, h2] at ht ⊢; obtain ⟨rfl, rfl⟩ := ht; simp
      · by_cases h3 : c = 60
        · simp [h1, h2, h3] at ht
          exact absurd ht.1.symm (hl _)
        · by_cases h4 : isLetter c
          · simp only [h1, h2, h3, h4, if_false, if_true, Option.some.injEq, Prod.mk.injEq] at ht
            obtain ⟨rfl, rfl⟩ := ht
            have hs : isLetter 32 = false := by decide
            have htake : (c :: r).take (1 + (r.takeWhile isLetter).length) = c :: r.takeWhile isLetter := by
              rw [Nat.add_comm, List.take_succ_cons]
              congr 1
              exact take_takeWhile_length isLetter r
            rw [htake]
            simp only [List.cons_append, h1, h2, h3, h4, if_false, if_true, List.append_assoc]
            have := takeWhile_letter_stop r ([] ++ (c :: r).drop (1 + (r.takeWhile isLetter).length)) 32 hs
            rw [this]
          · simp [h1, h2, h3, h4] at ht

theorem takeWhile_length_of_take_eq (p : UInt8 → Bool) (r r' : Bytes) (l : Nat)
    (hl : (r.takeWhile p).length = l) (h : r.take (l + 1) = r'.take (l + 1)) :
    (r'.takeWhile p).length = l := by
  induction r generalizing r' l with
  | nil =>
    simp at hl; subst hl
    cases r' with
    | nil => rfl
    | cons b r' => simp at h
  | cons a r ih =>
    cases r' with
    | nil => simp at h
    | cons b r' =>
      simp only [List.take_succ_cons, List.cons.injEq] at h
      obtain ⟨rfl, h⟩ := h
      by_cases ha : p a
      · simp only [List.takeWhile_cons, ha, if_true, List.length_cons] at hl ⊢
        cases l with
        | zero => omega
        | succ l =>
          have := ih r' l (by omega) h
          omega
      · simp only [List.takeWhile_cons, ha] at hl ⊢
        simpa using hl

/-- the toy lexer reads at most one byte beyond the token -/
theorem toyTok_prefix (x x' : Bytes) (t : ToyTok) (n : Nat) (h : toyTok x = some (t, n))
    (hp : x.take (n + 1) = x'.take (n + 1)) : toyTok x' = some (t, n) := by
  cases x with
  | nil => simp [toyTok] at h
  | cons c r =>
    cases x' with
    | nil => simp at hp
    | cons c' r' =>
      simp only [List.take_succ_cons, List.cons.injEq] at hp
      obtain ⟨rfl, hp⟩ := hp
      simp only [toyTok] at h ⊢
      by_cases h1 : c = 32
      · simpa [h1] using h
      · by_cases h2 : c = 10
        · simpa [h1, h2] using h
        · by_cases h3 : c = 60
          · subst h3
            simp at h ⊢
            obtain ⟨rfl, rfl⟩ := h
            cases r <;> cases r' <;> simp_all
          · by_cases h4 : isLetter c
            · simp only [h1, h2, h3, h4, if_false, if_true, Option.some.injEq, Prod.mk.injEq] at h ⊢
              obtain ⟨rfl, rfl⟩ := h
              have := takeWhile_length_of_take_eq isLetter r r' _ rfl (by rw [Nat.add_comm]; exact hp)
              simp [this]
            · simp [h1, h2, h3, h4] at h

theorem toy_distant (w : Bytes) : DistantStable toyLexer w := by
  intro x t n t2 n2 j ht hn hle ht2 hn2 hj hjx
  apply toyTok_prefix x _ t n ht
  exact (take_insertAt_before x w j (n + 1) (by omega) hjx).symm

/-- the hypotheses of `trivia_insensitive` are satisfiable: the toy lexer, one inserted space, after
    any token except `<`; and the conclusion on a concrete text (`ab<c` with a space after `ab`) -/
example (s : Bytes) (i : Nat) (trailing : Bool) (toks0 toks : List (Spanned ToyTok))
    (h0 : lexBytes toyLexer s 0 = .ok toks0)
    (hb : BoundaryOK (fun t => ∀ b, t ≠ ToyTok.langle b) 0 i toks0)
    (h : readToEnd toyLexer s trailing = .ok toks) :
    ∃ toks', readToEnd toyLexer (insertAt s i [32]) trailing = .ok toks' ∧
      prepare toyLexer toks' = (prepare toyLexer toks).map fun tl => (tl.1, relocate i 1 tl.2) :=
  trivia_insensitive toyLexer rfl [32] [(.space, 1)] _ toy_lexesAs (by simp [toyLexer])
    (fun t ht => toy_adjacent t ht) (toy_distant [32]) s i trailing toks0 toks h0 hb h

/-- adjacency after `<` is significant — the exception in the property is real: inserting a space
    directly after `<` changes the token (`FollowedBy::Token` becomes `FollowedBy::Whitespace`) -/
theorem angle_bracket_not_closed : ¬ AdjacentStable toyLexer [32] (.langle true) := by
  intro h
  have := h [60, 97] 1 (by decide) (by omega) (by decide)
  revert this
  decide

/-!
# Part 3: where the macro expander is *not* trivia-insensitive (witnesses; replayed on the real code by
the corpus lines `hand:newline-between-macro-name-and-paren` and `hand:newline-in-empty-macro-args`)
-/

/-- trivia without a line break between a function-like macro's name and `(` never matters … -/
theorem macro_call_gap_inline_insensitive (gap rest : List PTok)
    (h : ∀ t ∈ gap, t = .whitespace ∨ t = .comment ∨ t = .physicalEndline) :
    activatesFunctionMacro (gap ++ rest) = activatesFunctionMacro rest := by
  induction gap with
  | nil => rfl
  | cons t gap ih =>
    have ht := h t (by simp)
    have ih' := ih (fun u hu => h u (by simp [hu]))
    unfold activatesFunctionMacro at ih' ⊢
    rcases ht with rfl | rfl | rfl <;>
      simpa [trimWhitespaceStart, PTok.isWs] using ih'

/-- … but a line break there does, as long as `trim_whitespace_start` keeps `Endline` tokens and
    `find_single_macro` uses it (both re-read from the source on every run): **the property is false on
    the current code** — `F <newline> (` is not an invocation although `F (` is.  (C11 6.10.3p10 counts
    new-lines as white space here.) -/
theorem macro_call_gap_linebreak_witness : trimKeepsEndline = true → findMacroUsesTrimStart = true →
    activatesFunctionMacro [.whitespace, .leftParen] = true ∧
    activatesFunctionMacro [.comment, .physicalEndline, .leftParen] = true ∧
    activatesFunctionMacro [.endline, .leftParen] = false ∧
    activatesFunctionMacro [.comment, .endline, .leftParen] = false := by decide

/-- once `trim_whitespace_start` also skips `Endline`, every kind of trivia in the gap is harmless -/
theorem macro_call_gap_insensitive_if_fixed (hfix : trimKeepsEndline = false) (gap rest : List PTok)
    (h : ∀ t ∈ gap, t.isWs = true) :
    activatesFunctionMacro (gap ++ rest) = activatesFunctionMacro rest := by
  induction gap with
  | nil => rfl
  | cons t gap ih =>
    have ht := h t (by simp)
    have ih' := ih (fun u hu => h u (by simp [hu]))
    unfold activatesFunctionMacro at ih' ⊢
    simpa [trimWhitespaceStart, ht, hfix] using ih'

/-- the same for the empty argument list of a zero-parameter macro: `Z( )` is accepted, `Z(<newline>)` is not -/
theorem empty_argument_linebreak_witness :
    trimKeepsEndline = true → macroArgsUseTrim = true → emptyArgsTestIsEmpty = true →
    acceptsEmptyArgument [] = true ∧ acceptsEmptyArgument [.whitespace, .comment] = true ∧
    acceptsEmptyArgument [.endline] = false ∧ acceptsEmptyArgument [.whitespace, .endline, .whitespace] = false := by
  decide

/-!
# Part 3b: white space inside a higher-order invocation (`SELECT(INC<trivia>)(b)`; seeded mutant C14-7)

`#define SELECT(f) f`, `#define INC(v) ((v)+1)`: in `SELECT(INC)(b)` the replaced region is the expanded argument, `INC`,
and the `(` that invokes it is the text *behind* the region.  Trivia between the argument and the `)` of the outer
invocation stays in the region when it ends in a line break (`trim_whitespace_end` keeps an `Endline`:
`trimEndKeepsEndline`), so the region is `INC` + line break.  That the name is still invoked rests on where the scan is
resumed: at the first token of the region (`earlyFunctionPosIsRegionStart`, and `Gen.MacroTables.searchPositions`, the
table C12 pins too).  What C14 takes from C12 (`Thm.C12.agrees_on_higher_order_invocation` (file Thm/C12Boundary.lean), in this check's
`theorems` list): the macro-expander model, evaluated on higher-order invocations whose name is invoked by the
*replacement list* (`APPLY(NEG, a)`, `LIST(DECL)`, `CALL(ADD, (p, q))`, with white space tokens inside the argument
lists), agrees with the reference semantics -- i.e. an argument that is a bare function-like macro name reaches the
rescan unexpanded and is invoked there.  What C12's theorem does not cover and is proved here: the name is invoked by
text *behind* the region, whatever white space (line breaks included) the region ends in.
-/

/-- the three places of preprocess.rs this part rests on are the modelled ones; the second conjunct is the same fact read
from C12's table of every `MacroSearchPosition` literal (entry 1 = the `User` arm of `apply_single_macro`).  Fails under
seeded mutant C14-7 (`early_function_pos: if tokens_added > 0 { new_end - 1 } else { pos }`). -/
theorem macro_resume_as_modelled :
    (earlyFunctionPosIsRegionStart = true ∧ findMacroScansFromEarlyFunctionPos = true ∧ trimEndKeepsEndline = true) ∧
    RsslVerif.Gen.MacroTables.searchPositions[1]? =
      some ["new_end", "pos", "if macro_def.is_function { macro_index } else { usize::MAX }"] := by
  decide

theorem skipAllWs_ws (w r : List RTok) (h : ∀ t ∈ w, t.isWs = true) : skipAllWs (w ++ r) = skipAllWs r := by
  induction w with
  | nil => rfl
  | cons t w ih =>
    have ht := h t (by simp)
    simp [skipAllWs, ht, ih (fun u hu => h u (by simp [hu]))]

theorem scanFrom_skip (n : Nat) (body r : List RTok) (h : ∀ t ∈ body, t ≠ .fnName) (i : Nat) :
    scanFrom n i (body ++ r) = scanFrom n (i + body.length) r := by
  induction body generalizing i with
  | nil => simp
  | cons t body ih =>
    have ht := h t (by simp)
    have := ih (fun u hu => h u (by simp [hu])) (i + 1)
    simp [scanFrom, ht, this]
    congr 1; omega

/-- **For every replaced region that ends in the name of a function-like macro followed by any white space (line breaks
included), and every following text that begins -- behind any white space -- with `(`: the scan resumed at the start of
the region finds that name**, at its own index, whatever precedes the region (`pre`), whatever the region holds in front
of the name (`body`: no other candidate name), whatever white space the region ends in (`trail`) and whatever separates
the `(` (`gap`).  In particular the answer does not depend on `trail` and `gap`: white space between the last argument
and the `)` of the outer invocation, and between that `)` and the next `(`, does not change what is invoked. -/
theorem resume_at_region_start_finds_trailing_name (pre body trail gap tail : List RTok)
    (hbody : ∀ t ∈ body, t ≠ .fnName) (htrail : ∀ t ∈ trail, t.isWs = true) (hgap : ∀ t ∈ gap, t.isWs = true) :
    resumedScan earlyFunctionPosIsRegionStart pre (body ++ .fnName :: trail) (gap ++ .leftParen :: tail) =
      some (pre.length + body.length) := by
  have hflag : earlyFunctionPosIsRegionStart = true := by decide
  rw [hflag]
  have hw : ∀ t ∈ trail ++ gap, t.isWs = true := by
    intro t ht; rcases List.mem_append.mp ht with h | h
    · exact htrail t h
    · exact hgap t h
  have hs : skipAllWs (trail ++ (gap ++ RTok.leftParen :: tail)) = RTok.leftParen :: tail := by
    rw [← List.append_assoc, skipAllWs_ws _ _ hw]; simp [skipAllWs, RTok.isWs]
  unfold resumedScan resumeIndex
  simp only [Bool.true_or, if_true]
  rw [List.append_assoc, List.drop_left, List.append_assoc, scanFrom_skip _ _ _ hbody]
  simp [scanFrom, hs]
  omega

/-- non-vacuity: `x = SELECT(INC // c⏎)(b)` after the expansion of `SELECT`: region `INC` + line break, then ` (b)` -/
example : resumedScan earlyFunctionPosIsRegionStart [.other, .other] [.fnName, .endline] [.ws, .leftParen, .other, .other] = some 2 :=
  resume_at_region_start_finds_trailing_name [.other, .other] [] [.endline] [.ws] [.other, .other]
    (by simp) (by decide) (by decide)

/-- why the start of the region: a scan resumed at the LAST token of the region (what seeded mutant C14-7 does) finds the
name when the region ends with it, and misses it as soon as the region ends in a line break -- `SELECT(INC)(b)` is
expanded, `SELECT(INC⏎)(b)` is not; resumed at the start both are -/
theorem resume_at_region_end_linebreak_witness :
    resumedScan false [] [.fnName] [.leftParen, .other] = some 0 ∧
    resumedScan false [] [.fnName, .endline] [.leftParen, .other] = none ∧
    resumedScan true [] [.fnName] [.leftParen, .other] = some 0 ∧
    resumedScan true [] [.fnName, .endline] [.leftParen, .other] = some 0 := by decide

/-!
# Part 4: trivia insensitivity of the byte-level lexer model (`Model.Lexer`, the model of `preprocess/src/lexer.rs`)

`rsslLexer` = `tokenIntermediate _ false` behind the interface of Part 2; tokens are carried with their spelling.
The hypotheses of Part 2 are discharged for it in `Lemmas/TriviaLexer.lean` (from `tokenIntermediate_stable`,
`Lemmas/LexStableTok.lean`), with these side conditions — each one necessary, with a witness below:

* the insertion point is offset 0 or the end of a token whose spelling does not begin with `<`, `>` (their
  `FollowedBy` flag looks at the next token) or `//` (the text would join the comment);
* after a lone `/` the inserted text does not begin with `/` (`/` + `/* c */` is a line comment);
* no token that ends at or before the insertion point starts a *swizzled numeric literal* — a complete floating
  literal directly followed by `x` (`1.xxx`, `2.0fx`, `1e5x`), which the float lexer gives up on so that the text is
  lexed again as an integer, `.`, … : its first token depends on text several tokens further on.
-/
open RsslVerif.Model.Lexer RsslVerif.Model.TriviaLexer RsslVerif.Lemmas.TriviaLexer RsslVerif.Lemmas.LexStable

/-- Tie to the source: the two comment lexers have the loop shape the model mirrors (`block_comment` searches
    byte by byte for the first `*/` after the opening `/*`; `line_comment` skips spliced line ends and stops in
    front of a line end), and the arms of the directive state machine are the modelled ones. -/
theorem trivia_lexers_as_modelled :
    lineCommentAsModelled = true ∧ blockCommentAsModelled = true ∧
    hashStartsCommandAtStartOfLine = true ∧ startOfLineSkipsAllWhitespace = true ∧
    commandNameIsFirstNonWhitespace = true ∧ endlineEndsCommand = true ∧ endlineStartsLine = true ∧
    otherTokensArePushed = true := by decide

/-- **trivia_insensitive_lexer.** For every text `s` the lexer accepts, every trivia text `w` (`TriviaText`:
    spaces, tabs, LF / CRLF, spliced line ends, block comments closed at their first `*/`, line comments with the
    line end that stops them, in any sequence), and every insertion point `i` that satisfies the side conditions:
    the edited text is accepted, and `prepare_tokens` of it is `prepare_tokens` of the original with every location
    at or after `i` moved by `|w|` — the same non-trivia tokens (kind, payload and spelling) in the same order,
    each pointing at its own bytes. -/
theorem trivia_insensitive_lexer (w : List UInt8) (ws : List (LTok × Nat)) (hw : TriviaText w ws)
    (s : List UInt8) (i : Nat) (trailing : Bool) (toks0 toks : List (Spanned LTok))
    (h0 : lexBytes rsslLexer s 0 = Except.ok toks0)
    (hb : BoundaryOK (allowedBefore w) 0 i toks0)
    (hx : ∀ t ∈ toks0, t.stop ≤ i → ¬ FloatGaveUpOnX (s.drop t.start))
    (h : readToEnd rsslLexer s trailing = Except.ok toks) :
    ∃ toks', readToEnd rsslLexer (insertAt s i w) trailing = Except.ok toks' ∧
      prepare rsslLexer toks' = (prepare rsslLexer toks).map fun tl => (tl.1, relocate i w.length tl.2) :=
  trivia_insensitive_if rsslLexer rfl w ws (allowedBefore w) good (triviaText_lexesAs hw) (triviaText_ws hw)
    (fun t ht => adjacent w (triviaText_headStop hw) t ht) (distant w (triviaText_headStop hw))
    s i trailing toks0 toks h0 hb hx h

/-- **trivia_insensitive_lexer, rejected texts.** If the lexer rejects `s` and `i` is offset 0 or the end of one
    of the tokens lexed before the failure (same side conditions), the edited text is rejected as well, at the
    moved offset: the lexer's verdict is unchanged.  (`LexErr` carries the offset at which the failing token
    starts; that the reported reason and the position inside the token move along is
    `lexer_failure_moves`.) -/
theorem trivia_insensitive_lexer_rejected (w : List UInt8) (ws : List (LTok × Nat)) (hw : TriviaText w ws)
    (s : List UInt8) (i : Nat) (trailing : Bool) (e : Model.Trivia.LexErr)
    (h : readToEnd rsslLexer s trailing = Except.error e)
    (hb : BoundaryOK (allowedBefore w) 0 i (lexPrefix rsslLexer s 0))
    (hx : ∀ t ∈ lexPrefix rsslLexer s 0, t.stop ≤ i → ¬ FloatGaveUpOnX (s.drop t.start)) :
    readToEnd rsslLexer (insertAt s i w) trailing = Except.error (e.shift w.length) :=
  trivia_insensitive_rejected_if rsslLexer w ws (allowedBefore w) good (triviaText_lexesAs hw)
    (fun t ht => adjacent w (triviaText_headStop hw) t ht) (distant w (triviaText_headStop hw))
    s i trailing e h hb hx

/-- the text from the failing token on is the same text after an insertion in front of it, so
    `TokenStream::next` reports the same reason, `|w|` bytes further on -/
theorem lexer_failure_moves (s w : List UInt8) (i pos : Nat) (hi : i ≤ pos) (hp : pos ≤ s.length) :
    failureAt ((insertAt s i w).drop (pos + w.length)) (pos + w.length) =
      (failureAt (s.drop pos) pos).map fun rp => (rp.1, rp.2 + w.length) := by
  have hd : (insertAt s i w).drop (pos + w.length) = s.drop pos := by
    unfold insertAt
    have h1 : (s.take i).length = i := by simp [List.length_take]; omega
    rw [List.append_assoc, List.drop_append, h1]
    have : (s.take i).drop (pos + w.length) = [] := by apply List.drop_of_length_le; omega
    rw [this, List.nil_append, List.drop_append]
    have : w.drop (pos + w.length - i) = [] := by apply List.drop_of_length_le; omega
    rw [this, List.nil_append, List.drop_drop]
    congr 1; omega
  rw [hd]
  unfold failureAt
  cases tokenIntermediate (s.drop pos) false with
  | ok v => rfl
  | error e =>
    cases e with
    | panic site => rfl
    | lex p reason => cases p <;> simp <;> omega

/-- the hypotheses are satisfiable, and the conclusion on a concrete text: a space inserted after the `(` of `(;)` -/
example : ∃ toks', readToEnd rsslLexer (insertAt [40, 59, 41] 1 [32]) true = Except.ok toks' ∧
    prepare rsslLexer toks' =
      [(some (.simple .LeftParen, [40]), some 0), (some (.simple .Semicolon, [59]), some 2),
       (some (.simple .RightParen, [41]), some 3), (none, none)] := by
  have e1 := lexBytes_front [40] [59, 41] (.simple .LeftParen) 0 (by simp) (by rfl)
  have e2 := lexBytes_front [59] [41] (.simple .Semicolon) 1 (by simp) (by rfl)
  have e3 := lexBytes_front [41] [] (.simple .RightParen) 2 (by simp) (by rfl)
  have h0 : lexBytes rsslLexer [40, 59, 41] 0 = Except.ok
      [⟨(.simple .LeftParen, [40]), 0, 1⟩, ⟨(.simple .Semicolon, [59]), 1, 2⟩, ⟨(.simple .RightParen, [41]), 2, 3⟩] := by
    simp only [List.cons_append, List.nil_append, List.length_cons, List.length_nil] at e1 e2 e3
    rw [e1, e2, e3, lexBytes_nil]
    rfl
  have h : readToEnd rsslLexer [40, 59, 41] true = Except.ok
      [⟨(.simple .LeftParen, [40]), 0, 1⟩, ⟨(.simple .Semicolon, [59]), 1, 2⟩, ⟨(.simple .RightParen, [41]), 2, 3⟩,
       ⟨(.simple .Endline, []), 3, 3⟩] := by
    unfold Model.Trivia.readToEnd
    rw [h0]
    rfl
  obtain ⟨toks', h1, h2⟩ := trivia_insensitive_lexer [32] _ (TriviaText.space TriviaText.nil) [40, 59, 41] 1 true _ _ h0
    (Or.inr ⟨_, List.mem_cons_self, rfl, by
      refine ⟨?_, ?_, ?_, ?_⟩
      · intro r h; simp at h
      · intro r h; simp at h
      · intro r h; simp at h
      · intro h; simp at h⟩)
    (by
      intro t ht hst
      simp only [List.mem_cons, List.not_mem_nil, or_false] at ht
      rcases ht with rfl | rfl | rfl
      · rintro ⟨i2, m, hm, _, _⟩; simp [floatMantissa, fractionalConstant, digitSequence, digitWith, decDigit?, opt, wrongChars, otherTokenChars] at hm
      · simp at hst
      · simp at hst) h
  refine ⟨toks', h1, ?_⟩
  rw [h2]
  rfl

/-- each side condition is needed (witnesses on concrete bytes): a space after `<` (in `<(`) changes the token's payload; a
    comment after `/` swallows the `/` into a line comment; text after a line comment joins the comment; a space
    after the `.` of `1.x` turns the integer `1` into the floating literal `1.` (and `1.x` is a swizzled literal) -/
theorem lexer_side_conditions_needed :
    tokenIntermediate [60, 40] false = .ok ([40], .leftAngle .token) ∧
    tokenIntermediate ([60] ++ [32] ++ [40]) false = .ok ([32, 40], .leftAngle .whitespace) ∧
    tokenIntermediate [47, 40] false = .ok ([40], .simple .ForwardSlash) ∧
    tokenIntermediate ([47] ++ [47, 42, 42, 47] ++ [40]) false = .ok ([], .simple .Comment) ∧
    tokenIntermediate [47, 47, 99, 10] false = .ok ([10], .simple .Comment) ∧
    tokenIntermediate ([47, 47, 99] ++ [32] ++ [10]) false = .ok ([10], .simple .Comment) ∧
    tokenIntermediate [49, 46, 120] false = .ok ([46, 120], .litInt 1) ∧
    tokenIntermediate ([49, 46] ++ [32] ++ [120]) false = .ok ([32, 120], .litFloat 0x3ff0000000000000) ∧
    FloatGaveUpOnX [49, 46, 120] :=
  ⟨by rfl, by rfl, by rfl, by rfl, by rfl, by rfl, by rfl, by rfl, ⟨[120], (true, [1], []), by rfl, by decide, by rfl⟩⟩

/-!
# Part 5: directive recognition ignores leading and interior trivia (partial)
-/

theorem dscan_ws (st : DState) (cmd : List DTok) (r : List DTok) (hcmd : st ≠ .commandContents → cmd = []) :
    dscan true st cmd (.ws :: r) = dscan true st cmd r := by
  cases st <;> simp_all [dscan]

/-- **preprocess_trivia_insensitive_partial.** While the `(tok, StartOfLine)` arm of `preprocess_included_file`
    leaves the state alone for *every* whitespace token (`startOfLineSkipsAllWhitespace`, re-read from the source
    on every run — seeded mutant C14-1 breaks exactly this), the split of a file's token stream into normal tokens
    and `#` commands (with their tokens) is the same as that of the stream with all `Whitespace` / `Comment` /
    `PhysicalEndline` tokens removed — hence the same for any two streams that differ only in such tokens: trivia
    before a `#`, between `#` and the command name and inside a command changes nothing.

    Partial: this is the directive state machine alone.  What `preprocess_command`, macro expansion
    (`find_single_macro`: see Part 3 for where it is *not* insensitive), the parser and the type checker do with the
    tokens is covered by the metamorphic run, not proved; and `Endline` tokens are kept (a line break ends a
    command by design). -/
theorem preprocess_trivia_insensitive_partial (hflag : startOfLineSkipsAllWhitespace = true)
    (st : DState) (cmd l : List DTok) (hcmd : st ≠ .commandContents → cmd = []) :
    dscan startOfLineSkipsAllWhitespace st cmd l = dscan startOfLineSkipsAllWhitespace st cmd (l.filter (· ≠ .ws)) := by
  rw [hflag]
  induction l generalizing st cmd with
  | nil => rfl
  | cons t r ih =>
    cases t with
    | ws => rw [dscan_ws st cmd r hcmd]; simpa using ih st cmd hcmd
    | hash =>
      have hf : (DTok.hash :: r).filter (· ≠ .ws) = .hash :: r.filter (· ≠ .ws) := by simp
      rw [hf]
      cases st <;> simp only [dscan]
      · exact ih _ _ (by simp)
      · exact ih _ _ (by simp)
      · exact ih _ _ (by simp)
      · rw [ih _ _ (by simp)]
    | endline =>
      have hf : (DTok.endline :: r).filter (· ≠ .ws) = .endline :: r.filter (· ≠ .ws) := by simp
      rw [hf]
      cases st <;> simp only [dscan] <;> rw [ih _ _ (by simp)]
    | other n =>
      have hf : (DTok.other n :: r).filter (· ≠ .ws) = .other n :: r.filter (· ≠ .ws) := by simp
      rw [hf]
      cases st <;> simp only [dscan]
      · rw [ih _ _ (by simp)]
      · exact ih _ _ (by simp)
      · exact ih _ _ (by simp)
      · rw [ih _ _ (by simp)]

/-- non-vacuity, and what the seeded mutant C14-1 does: `/* c */ # define X` is one command; with an arm that
    only skips `Whitespace` (flag `false`) the comment makes the line normal text and the `#` is never seen -/
example :
    dscan true .startOfLine [] [.ws, .hash, .ws, .other 1, .ws, .other 2, .endline, .other 3] =
      [.command [.other 1, .other 2], .tok (.other 3)] ∧
    dscan false .startOfLine [] [.ws, .hash, .ws, .other 1, .ws, .other 2, .endline, .other 3] =
      [.tok .hash, .tok (.other 1), .tok (.other 2), .tok .endline, .tok (.other 3)] := by decide

end RsslVerif.Thm.C14

import RsslVerif.Lemmas.GenSemLit
/-!
# C01 — HLSL export preserves the meaning of every accepted program (scalar subset)

Theorems about `Model.GenHlsl` (the exporter) against `Spec.Sem` (typed IR semantics vs C-like semantics of the
emitted syntax), for every interpretation `P : Prim` of float arithmetic, conversions and integer division.
-/
namespace RsslVerif.Thm.C01
open RsslVerif.Gen.HlslGenTables RsslVerif.Model RsslVerif.Model.GenHlsl RsslVerif.Spec.Sem RsslVerif.Lemmas.GenSem
open RsslVerif.Model.Ir (Ty Var Const)

/-- `generate_intrinsic_op`'s table (re-extracted from the source on every run) maps every typed operator to the syntax
operator whose C meaning is the RSSL meaning of the typed operator; the operators it panics on have no meaning here. -/
theorem op_table_is_identity :
    (∀ o u, opForm o = .unary u → astUnSem u = irOpSem o) ∧
    (∀ o b, opForm o = .binary b → astBinSem b = irOpSem o) ∧
    (∀ o, opForm o = .unexpected → irOpSem o = .unsupported) := by
  refine ⟨?_, ?_, ?_⟩
  · intro o u h; cases o <;> simp [opForm] at h <;> subst h <;> rfl
  · intro o b h; cases o <;> simp [opForm] at h <;> subst h <;> rfl
  · intro o h; cases o <;> simp [opForm] at h <;> rfl

/-- no typed operator is printed as the comma operator, and every syntax operator except `,`, `*x`, `&x` is the image
of exactly one typed operator (the table is injective: no two operators are merged). -/
theorem op_table_injective : ∀ a b : IntrinsicOp, opForm a = opForm b → opForm a ≠ .unexpected → a = b := by
  intro a b; cases a <;> cases b <;> decide

/-- the expansion of the two forms, the `Sequence` fold, the `Cast` arm and the ternary arm of the source have the
shape `Model.GenHlsl` mirrors (textual facts re-extracted on every run). -/
theorem exporter_shape_as_modelled :
    unaryFormAsModelled = true ∧ binaryFormAsModelled = true ∧ sequenceRightNested = true ∧
    sequenceAssertsTwo = true ∧ castDropsOnlyLiteralTargets = true ∧ ternaryInOrder = true := by decide

/-- **literals**: whatever `generate_literal` emits for a constant has the constant's value, and its static type is the
constant's type — except that a typed `Int32` constant becomes an *unsuffixed* literal (static type "literal int"),
with the same integer value (`Sim` / `astTy` / `astVal`).  Covers `-0` (`IntLiteral 0`), negative values (printed as
unary minus applied to the magnitude), `u32::MAX`, `i32::MAX`, and every 32-bit float pattern incl. `-0.0f`, NaNs. -/
theorem literal_value_preserved (W : World) (env : Ast.Env) (c : Const) (a : HlslAst.Expr)
    (hg : genLiteral c = .ok a) : Sim W env (.lit c) a c.ty :=
  sim_lit W env c a hg

/-- …and the one constant for which the exporter does not produce a tree at all: `i32::MIN` (debug build: `-v`
overflows in `generate_literal`).  Replayed on the real compiler by corpus/C01.txt (`return -2147483648;`). -/
theorem literal_int32_min_panics :
    genLiteral (.int32 (BitVec.intMin 32)) = .error (.panic "hlsl/src/ast_generate.rs: attempt to negate with overflow") := by
  have h : (BitVec.intMin 32).toInt < 0 := by decide
  simp [genLiteral, Const.kind, Const.intValue, findArm_int32_neg _ h, negMagnitude]

/-- every other `Int32`/`UInt32`/`Bool`/`Float32`/`FloatLiteral` constant, and every `IntLiteral` of magnitude ≤ u64::MAX,
is exported without a panic. -/
theorem literal_total_except_min (c : Const)
    (h1 : c ≠ .int32 (BitVec.intMin 32))
    (h2 : ∀ v, c = .intLit v → -u64Max ≤ v ∧ v ≤ u64Max) : ∃ a, genLiteral c = .ok a := by
  cases c with
  | bool b => simp [genLiteral, Const.kind, Const.intValue, findArm_bool, mkLit, Except.map]
  | float32 x => simp [genLiteral, Const.kind, Const.intValue, findArm_f32, mkLit, Except.map]
  | floatLit x => simp [genLiteral, Const.kind, Const.intValue, findArm_flit, mkLit, Except.map]
  | uint32 v => simp [genLiteral, Const.kind, Const.intValue, findArm_uint, mkLit, Except.map]
  | intLit v =>
    have := h2 v rfl
    by_cases hn : v < 0
    · simp [genLiteral, Const.kind, Const.intValue, findArm_intLit_neg v hn (by omega), negMagnitude]
    · simp [genLiteral, Const.kind, Const.intValue, findArm_intLit_nonneg v (by omega) this.2, mkLit, Except.map]
  | int32 v =>
    by_cases hn : v.toInt < 0
    · have hm : v ≠ BitVec.intMin 32 := fun h => h1 (by rw [h])
      simp [genLiteral, Const.kind, Const.intValue, findArm_int32_neg _ hn, negMagnitude, hm]
    · simp [genLiteral, Const.kind, Const.intValue, findArm_int32_nonneg _ hn, mkLit, Except.map]

/-! ### non-vacuity of the literal theorems -/
example : genLiteral (.int32 (-5)) = .ok (.un .Minus (.lit (.intUntyped 5))) := by rfl
example : genLiteral (.intLit 0) = .ok (.lit (.intUntyped 0)) := by rfl
example : genLiteral (.uint32 0xFFFFFFFF) = .ok (.lit (.intUnsigned32 4294967295)) := by rfl
example : genLiteral (.int32 (BitVec.intMin 32 + 1)) = .ok (.un .Minus (.lit (.intUntyped 2147483647))) := by rfl
example : genLiteral (.float32 0x80000000) = .ok (.lit (.float32 0x80000000)) := by rfl

end RsslVerif.Thm.C01

import RsslVerif.Model.Macro
/-!
# Evaluating `applyLoop` on concrete inputs

`applyLoop` is defined by well-founded recursion, which the kernel does not unfold by `decide`.  `applyLoopF` is the
same function with a fuel argument (structural recursion); `applyLoopF_sound`: whenever it answers, `applyLoop`
returns that answer.  Used for the negation witnesses in `Thm/C12.lean`.
-/
deriving instance DecidableEq for Except

namespace RsslVerif.Lemmas.MacroEval
open RsslVerif.Model.Macro

def mapOE (f : List PTok → Option (Except Err (List PTok))) :
    List (List PTok) → Option (Except Err (List (List PTok)))
  | [] => some (.ok [])
  | a :: r =>
    match f a with
    | none => none
    | some (.error e) => some (.error e)
    | some (.ok b) =>
      match mapOE f r with
      | none => none
      | some (.error e) => some (.error e)
      | some (.ok bs) => some (.ok (b :: bs))

def applyLoopF : Nat → List Entry → List PTok → SearchPos → Option (Except Err (List PTok))
  | 0, _, _, _ => none
  | n + 1, env, toks, sp =>
    if sp.next < toks.length then
      match findSingle toks sp env with
      | .error e => some (.error e)
      | .ok .none => some (.ok toks)
      | .ok (.concat l r) =>
        match toks[l]?, toks[r]? with
        | some lt, some rt =>
          if l + 1 < r then
            match pasteTokens lt rt with
            | .error e => some (.error e)
            | .ok merged =>
              if sp.next < r ∧ r < toks.length then
                applyLoopF n env (splice toks l (r + 1) [merged]) ⟨l, l, none⟩
              else some (.error (.guard "concat: right operand not beyond next_pos"))
          else some (.error (.panic "assert left_token_pos + 1 < right_token_pos"))
        | _, _ => some (.error (.panic "index out of bounds: tokens[left/right]"))
      | .ok (.user mi p) =>
        match env[mi]? with
        | none => some (.error (.panic "index out of bounds: macro_defs[macro_index]"))
        | some e =>
          match readArgs e.m (toks.drop (p + 1)) with
          | .error er => some (.error er)
          | .ok (rest, args) =>
            match mapOE (fun a =>
                if a.length < toks.length - sp.next then applyLoopF n env a SearchPos.start
                else some (.error (.guard "argument not shorter than the unscanned suffix"))) args with
            | none => none
            | some (.error er) => some (.error er)
            | some (.ok args') =>
              match substitute e.m.body args' with
              | .error er => some (.error er)
              | .ok output =>
                if e.disabled = false then
                  match applyLoopF n (disable env mi) output SearchPos.start with
                  | none => none
                  | some (.error er) => some (.error er)
                  | some (.ok output') =>
                    if p < toks.length - rest.length then
                      if sp.next < toks.length - rest.length then
                        applyLoopF n env (splice toks p (toks.length - rest.length) output')
                          ⟨p + output'.length, p, if e.m.isFunction then some mi else none⟩
                      else some (.error (.guard "invocation does not reach beyond next_pos"))
                    else some (.error (.panic "assert end > pos"))
                else some (.error (.panic "assert !macro_disabled[macro_index]"))
    else some (.ok toks)

theorem mapOE_sound (f : List PTok → Option (Except Err (List PTok))) (g : List PTok → Except Err (List PTok))
    (l : List (List PTok)) (R : Except Err (List (List PTok)))
    (hfg : ∀ a ∈ l, ∀ r, f a = some r → g a = r) (h : mapOE f l = some R) : mapE g l = R := by
  induction l generalizing R with
  | nil => simp only [mapOE, Option.some.injEq] at h; subst h; rfl
  | cons a r ih =>
    unfold mapOE at h
    unfold mapE
    cases hfa : f a with
    | none => simp [hfa] at h
    | some ra =>
      have hga := hfg a (by simp) ra hfa
      cases ra with
      | error e =>
        simp only [hfa, Option.some.injEq] at h
        subst h
        simp [hga]
      | ok b =>
        simp only [hfa] at h
        simp only [hga]
        cases hm : mapOE f r with
        | none => simp [hm] at h
        | some rr =>
          have := ih rr (fun x hx => hfg x (by simp [hx])) hm
          cases rr with
          | error e =>
            simp only [hm, Option.some.injEq] at h
            subst h
            simp [this]
          | ok bs =>
            simp only [hm, Option.some.injEq] at h
            subst h
            simp [this]

theorem applyLoopF_sound (n : Nat) : ∀ (env : List Entry) (toks : List PTok) (sp : SearchPos)
    (r : Except Err (List PTok)), applyLoopF n env toks sp = some r → applyLoop env toks sp = r := by
  induction n with
  | zero => intro env toks sp r h; simp [applyLoopF] at h
  | succ n ih =>
    intro env toks sp r h
    rw [applyLoop]
    unfold applyLoopF at h
    by_cases hlt : sp.next < toks.length
    · simp only [hlt, if_true, dite_true] at h ⊢
      cases hf : findSingle toks sp env with
      | error e => simp only [hf, Option.some.injEq] at h; subst h; rfl
      | ok fd =>
        cases fd with
        | none => simp only [hf, Option.some.injEq] at h; subst h; rfl
        | concat l rr =>
          simp only [hf] at h ⊢
          cases hl : toks[l]? with
          | none => simp only [hl, Option.some.injEq] at h; subst h; rfl
          | some lt =>
            cases hr : toks[rr]? with
            | none => simp only [hl, hr, Option.some.injEq] at h; subst h; rfl
            | some rt =>
              simp only [hl, hr] at h ⊢
              by_cases hlr : l + 1 < rr
              · simp only [hlr, if_true] at h ⊢
                cases hp : pasteTokens lt rt with
                | error e => simp only [hp, Option.some.injEq] at h; subst h; rfl
                | ok merged =>
                  simp only [hp] at h ⊢
                  by_cases hg : sp.next < rr ∧ rr < toks.length
                  · simp only [hg, and_self, if_true, dite_true] at h ⊢
                    exact ih _ _ _ _ h
                  · simp only [hg, if_false, dite_false, Option.some.injEq] at h ⊢
                    subst h; rfl
              · simp only [hlr, if_false, Option.some.injEq] at h ⊢
                subst h; rfl
        | user mi p =>
          simp only [hf] at h ⊢
          cases hmi : env[mi]? with
          | none =>
            simp only [hmi, Option.some.injEq] at h
            subst h
            split
            · rfl
            · rename_i e heq; cases heq
          | some e =>
            simp only [hmi] at h
            split
            · rename_i heq; cases heq
            · rename_i e' heq
              cases heq
              cases hra : readArgs e.m (toks.drop (p + 1)) with
              | error er => simp only [hra, Option.some.injEq] at h; subst h; rfl
              | ok ra =>
                obtain ⟨rest, args⟩ := ra
                simp only [hra] at h ⊢
                cases hm : mapOE (fun a =>
                    if a.length < toks.length - sp.next then applyLoopF n env a SearchPos.start
                    else some (.error (.guard "argument not shorter than the unscanned suffix"))) args with
                | none => simp [hm] at h
                | some R =>
                  have hmE := mapOE_sound _ (fun a =>
                      if _ha : a.length < toks.length - sp.next then applyLoop env a SearchPos.start
                      else .error (.guard "argument not shorter than the unscanned suffix")) args R
                    (by
                      intro a _ ra hfa
                      by_cases hlen : a.length < toks.length - sp.next
                      · simp only [hlen, if_true, dite_true] at hfa ⊢
                        exact ih _ _ _ _ hfa
                      · simp only [hlen, if_false, dite_false, Option.some.injEq] at hfa ⊢
                        exact hfa) hm
                  rw [hmE]
                  cases R with
                  | error er => simp only [hm, Option.some.injEq] at h; subst h; rfl
                  | ok args' =>
                    simp only [hm] at h ⊢
                    cases hsub : substitute e.m.body args' with
                    | error er => simp only [hsub, Option.some.injEq] at h; subst h; rfl
                    | ok output =>
                      simp only [hsub] at h ⊢
                      by_cases hd : e.disabled = false
                      · simp only [hd, if_true, dite_true] at h ⊢
                        cases hb : applyLoopF n (disable env mi) output SearchPos.start with
                        | none => simp [hb] at h
                        | some rb =>
                          have hbE := ih _ _ _ _ hb
                          rw [hbE]
                          cases rb with
                          | error er => simp only [hb, Option.some.injEq] at h; subst h; rfl
                          | ok output' =>
                            simp only [hb] at h ⊢
                            by_cases hp : p < toks.length - rest.length
                            · simp only [hp, if_true, dite_true] at h ⊢
                              by_cases hg : sp.next < toks.length - rest.length
                              · simp only [hg, if_true, dite_true] at h ⊢
                                exact ih _ _ _ _ h
                              · simp only [hg, if_false, dite_false, Option.some.injEq] at h ⊢
                                subst h; rfl
                            · simp only [hp, if_false, dite_false, Option.some.injEq] at h ⊢
                              subst h; rfl
                      · have hd' : e.disabled = true := by simpa using hd
                        simp only [hd', Bool.true_eq_false, if_false, dite_false, Option.some.injEq] at h ⊢
                        subst h; rfl
    · simp only [hlt, if_false, dite_false, Option.some.injEq] at h ⊢
      subst h; rfl

end RsslVerif.Lemmas.MacroEval

import RsslVerif.Lemmas.GenMslArgs
import RsslVerif.Lemmas.GenMslRem
/-! Metal exporter, expressions: the main induction. -/
namespace RsslVerif.Lemmas.GenMsl
open RsslVerif.Gen.HlslGenTables RsslVerif.Gen.MslGenTables RsslVerif.Model RsslVerif.Model.GenMsl RsslVerif.Spec.Sem
open RsslVerif.Model.Ir (Ty Var Const Dir)
open RsslVerif.Model.GenHlsl (GenErr)
set_option linter.unusedSimpArgs false

/-- what the induction proves about the user arguments of a call, followed by an already evaluated tail -/
def SimArgsM (W : World) (M : Msl.MWorld) (env : Ast.Env) (es : Ir.Exprs) (as : HlslAst.Exprs) (ps : List (Dir × Ty))
    (tailA : HlslAst.Exprs) (tailP : List (Msl.PK × Ty)) (tailM : List Msl.MArg) : Prop :=
  ∀ σ, Msl.evalArgs M env (appendArgs as tailA) (mParams ps ++ tailP) σ =
    match Ir.evalArgs W es ps σ with
    | none => none
    | some (l, σ1) => some (l.map toMArg ++ tailM, σ1)

theorem fmod_name_eq {n : String} (h : metalLib n = Msl.fmodName) : (metalLib n == Msl.fmodName) = true := by simp [h]

theorem scalarIn_float {t : Ty} (ha : Ir.arithTy (some t) = true) :
    scalarIn ["Float16", "Float32", "Float64", "FloatLiteral"] t = decide (t = .float) := by
  cases t <;> simp [Ir.arithTy] at ha <;> decide

mutual
theorem sim_exprM {W : World} {M : Msl.MWorld} {env : Ast.Env} {cx : Ctx} {vis : Var → Bool} {rsv : Nat → List Var}
    (hag : AgreeM cx vis env) (hw : Worlds cx rsv W M) :
    ∀ (e : Ir.Expr) (a : HlslAst.Expr) (t : Ty),
      genExpr cx e = .ok a → Ir.typeOf W.sig cx.vty e = some t → Ir.okM (side cx W vis rsv) e = true → SimM W M env e a t
  | .lit c, a, t, hg, ht, hok => by
    simp [Ir.typeOf] at ht; subst ht
    exact sim_litM W M env _ c a hok (by simpa [genExpr] using hg)
  | .var id, a, t, hg, ht, hok => by
    simp [Ir.typeOf] at ht; subst ht
    simp [genExpr] at hg; subst hg
    have hr := hag.res (.loc id) (by simpa [Ir.okM, side] using hok)
    simp only [Ctx.name] at hr
    constructor
    · simp [Msl.typeOf, hr, hag.vty, mTy, Ir.isMin]
    · intro σ; simp [Msl.eval, hr, Ir.eval, mVal, Ir.isMin]
  | .global id, a, t, hg, ht, hok => by
    simp [Ir.typeOf] at ht; subst ht
    simp [genExpr] at hg; subst hg
    have hr := hag.res (.glob id) (by simpa [Ir.okM, side] using hok)
    simp only [Ctx.name] at hr
    constructor
    · simp [Msl.typeOf, hr, hag.vty, mTy, Ir.isMin]
    · intro σ; simp [Msl.eval, hr, Ir.eval, mVal, Ir.isMin]
  | .cast ty x, a, t, hg, ht, hok => by
    cases hgx : genExpr cx x with
    | error e => simp [genExpr, hgx] at hg
    | ok x' =>
      cases htx : Ir.typeOf W.sig cx.vty x with
      | none => simp [Ir.typeOf, htx] at ht
      | some tx =>
        have hokx : Ir.okM (side cx W vis rsv) x = true := by
          simp only [Ir.okM, Bool.and_eq_true] at hok; exact hok.1.1
        have hx := sim_exprM hag hw x x' tx hgx htx hokx
        exact sim_castM hw.prim rfl rfl hgx hg hx htx ht hok
  | .tern c f g, a, t, hg, ht, hok => by
    simp only [Ir.okM, Bool.and_eq_true, Bool.not_eq_true'] at hok
    obtain ⟨⟨⟨⟨oc, of⟩, og⟩, mf⟩, mg⟩ := hok
    cases hgc : genExpr cx c with
    | error e => simp [genExpr, hgc] at hg
    | ok c' =>
      cases hgf : genExpr cx f with
      | error e => simp [genExpr, hgc, hgf] at hg
      | ok f' =>
        cases hgg : genExpr cx g with
        | error e => simp [genExpr, hgc, hgf, hgg] at hg
        | ok g' =>
          simp [genExpr, hgc, hgf, hgg] at hg; subst hg
          cases htc : Ir.typeOf W.sig cx.vty c with
          | none => simp [Ir.typeOf, htc] at ht
          | some tc =>
            cases htf : Ir.typeOf W.sig cx.vty f with
            | none => simp [Ir.typeOf, htc, htf] at ht
            | some tf =>
              cases htg : Ir.typeOf W.sig cx.vty g with
              | none => simp [Ir.typeOf, htc, htf, htg] at ht
              | some tg =>
                exact sim_ternM (sim_exprM hag hw c c' tc hgc htc oc) htc (sim_exprM hag hw f f' tf hgf htf of) htf
                  (sim_exprM hag hw g g' tg hgg htg og) htg ht mf mg
  | .seq es, a, t, hg, ht, hok => by
    have hs : genSeq cx es = .ok a := by
      cases es with
      | nil => simp [genExpr] at hg
      | cons e r => cases r with
        | nil => simp [genExpr] at hg
        | cons e2 r2 => simpa [genExpr] using hg
    have := sim_seqM hag hw es a t hs (by simpa [Ir.typeOf] using ht) (by simpa [Ir.okM] using hok)
    constructor
    · simpa [mTy, Ir.isMin] using this.1
    · intro σ
      rw [this.2 σ]
      simp only [Ir.eval]
      cases Ir.evalSeq W es σ <;> simp [mVal, Ir.isMin]
  | .call f args, a, t, hg, ht, hok => by
    cases hga : genArgs cx args with
    | error e => simp [genExpr, hga] at hg
    | ok as =>
      simp only [Ir.typeOf] at ht
      cases hsig : W.sig f with
      | none => simp [hsig] at ht
      | some s =>
        obtain ⟨rt, ps⟩ := s
        simp [hsig] at ht
        obtain ⟨hargsok, rfl⟩ := ht
        simp only [Ir.okM, side, hsig, Bool.and_eq_true] at hok
        cases hreq : cx.req f with
        | none => simp [hreq] at hok
        | some gs =>
          simp only [hreq, Bool.and_eq_true] at hok
          obtain ⟨⟨hokargs, hcalled⟩, href, hvis⟩ := hok
          simp [genExpr, hga, hreq] at hg; subst hg
          have htail := globalArgs_eval (M := M) hag gs hvis
          have hargs := sim_argsM hag hw args as ps (globalArgs cx gs) (globParams cx gs) (globMArgs gs) hga hargsok hokargs htail
          have hnotfmod : (cx.funcName f == Msl.fmodName) = false := by simpa using (hag.notLib f).1
          have hsigM := hw.sig f rt ps gs hsig hreq hcalled
          have htag : Msl.hasTagArg (appendArgs as (globalArgs cx gs)) = false := by
            rw [hasTag_append, hasTag_globalArgs, Bool.or_false]
            exact genArgs_not_tag (fun f => (hag.notLib f).2) args as ps hga hargsok
          constructor
          · simp [Msl.typeOf, hnotfmod, hag.fres, htag, hsigM, mTy, Ir.isMin]
          · intro σ
            simp only [Msl.eval, hnotfmod, Bool.false_eq_true, if_false, hag.fres, htag, hsigM, Ir.eval, hsig, hargs σ]
            cases hev : Ir.evalArgs W args ps σ with
            | none => simp
            | some r =>
              obtain ⟨l, σ1⟩ := r
              obtain ⟨hfit, hfacts⟩ := evalArgs_facts W cx.vty (rsv f) args ps σ l σ1 hev href hargsok
              have hvals : l.map (valAt σ1) = l.map (·.1) := by
                apply List.map_congr_left
                intro p hp
                obtain ⟨v, o⟩ := p
                cases o with
                | none => rfl
                | some x => exact (hfacts (v, some x) hp x rfl).2
              have hcall := hw.call f rt ps gs l σ1 hsig hreq hcalled hfit (fun p hp x hx => (hfacts p hp x hx).1)
              simp only [hcall, hvals]
              cases W.phi f (List.map (fun x => x.fst) l) σ1 <;> simp [mVal, Ir.isMin]
  | .intr i T ret args, a, t, hg, ht, hok => by simp [genExpr] at hg
  | .op o .nil, a, t, hg, ht, _ => by simp [Ir.typeOf] at ht
  | .op o (.cons x .nil), a, t, hg, ht, hok => by
    have hokx : Ir.okM (side cx W vis rsv) x = true := by
      simp only [Ir.okM, Bool.and_eq_true] at hok; exact hok.1.1
    cases htx : Ir.typeOf W.sig cx.vty x with
    | none => simp only [Ir.typeOf, htx] at ht; split at ht <;> simp_all
    | some tx =>
      cases hf : mslOpForm o with
      | special => simp [genExpr, hf] at hg
      | meshMethod => simp [genExpr, hf] at hg
      | meshHelper => simp [genExpr, hf] at hg
      | binary b => simp [genExpr, hf, genBinary] at hg
      | floatCall n s b =>
        -- `%` has two operands
        have := (op_floatCallM hf).1
        simp [Ir.typeOf, this] at ht
      | floatAssign s err outer inner b =>
        -- `%=` has two operands
        have := (op_floatAssignM hf).1
        simp [Ir.typeOf, this] at ht
      | unary u =>
        cases hgx : genExpr cx x with
        | error e => simp [genExpr, hf, hgx] at hg
        | ok x' =>
          simp [genExpr, hf, hgx] at hg; subst hg
          exact sim_unM hag hw.prim rfl rfl rfl hf hgx (sim_exprM hag hw x x' tx hgx htx hokx) htx ht hok
  | .op o (.cons x (.cons y .nil)), a, t, hg, ht, hok => by
    have hokxy : Ir.okM (side cx W vis rsv) x = true ∧ Ir.okM (side cx W vis rsv) y = true := by
      simp only [Ir.okM, Bool.and_eq_true] at hok; exact ⟨hok.1.1.1.1, hok.1.1.1.2⟩
    cases htx : Ir.typeOf W.sig cx.vty x with
    | none => simp only [Ir.typeOf, htx] at ht; split at ht <;> simp_all
    | some tx =>
      cases hty : Ir.typeOf W.sig cx.vty y with
      | none => simp only [Ir.typeOf, htx, hty] at ht; split at ht <;> simp_all
      | some ty =>
        cases hf : mslOpForm o with
        | special => simp [genExpr, hf] at hg
        | meshMethod => simp [genExpr, hf] at hg
        | meshHelper => simp [genExpr, hf] at hg
        | unary u => simp [genExpr, hf] at hg
        | binary b =>
          cases hgx : genExpr cx x with
          | error e => simp [genExpr, hf, genBinary, hgx] at hg
          | ok x' =>
            cases hgy : genExpr cx y with
            | error e => simp [genExpr, hf, genBinary, hgx, hgy] at hg
            | ok y' =>
              simp [genExpr, hf, genBinary, hgx, hgy] at hg; subst hg
              exact sim_binM hag hw.prim rfl rfl rfl (op_binaryM hf) hgx (sim_exprM hag hw x x' tx hgx htx hokxy.1) htx
                (sim_exprM hag hw y y' ty hgy hty hokxy.2) hty ht hok
                (fun h => by cases o <;> simp [mslOpForm] at hf <;> simp [irOpSem] at h)
        | floatCall n s b =>
          obtain ⟨hsem, hbs, hname, rfl⟩ := op_floatCallM hf
          -- the operands have one arithmetic type
          have hok' := hok
          simp only [Ir.okM, Bool.and_eq_true, Bool.not_eq_true', Bool.or_eq_true, decide_eq_true_eq, side, htx, hsem] at hok'
          obtain ⟨⟨⟨⟨_, _⟩, hminx⟩, hminy⟩, harith⟩ := hok'
          have harith' : Ir.arithTy (some tx) = true := by simpa [Ir.isShiftM] using harith
          have hminy' : Ir.isMin y = false := by simpa using hminy
          have hty' := exprTy_ok (W := W) (cx := cx) hw.ret x tx htx
          have hin := scalarIn_float harith'
          cases hgx : genExpr cx x with
          | error e => simp [genExpr, hf, hty', hin, genBinary, genArgs, hgx] at hg
          | ok x' =>
            cases hgy : genExpr cx y with
            | error e => simp [genExpr, hf, hty', hin, genBinary, genArgs, hgx, hgy] at hg
            | ok y' =>
              have hxs := sim_exprM hag hw x x' tx hgx htx hokxy.1
              have hys := sim_exprM hag hw y y' ty hgy hty hokxy.2
              by_cases hfl : tx = .float
              · -- floating-point `%`: `metal::fmod(x, y)`
                subst hfl
                simp [genExpr, hf, hty', hin, genArgs, hgx, hgy] at hg; subst hg
                have ht' := ht
                simp only [Ir.typeOf, htx, hty, hsem] at ht'
                simp [MBin.isCmp] at ht'
                obtain ⟨rfl, rfl⟩ := ht'
                obtain ⟨tyx, evx⟩ := hxs.plain hminx
                obtain ⟨tyy, evy⟩ := hys.plain hminy'
                constructor
                · simp [Msl.typeOf, fmod_name_eq hname, Msl.argTypes, tyx, tyy, mTy, Ir.isMin]
                · intro σ
                  simp only [Msl.eval, fmod_name_eq hname, if_true, Msl.evalFmod, tyx, tyy, Ir.eval, hsem, evx]
                  cases h1 : Ir.eval W x σ with
                  | none => simp [Msl.convR]
                  | some r =>
                    obtain ⟨va, σ1⟩ := r
                    simp only [Msl.convR, Msl.convert, if_pos rfl, evy]
                    cases h2 : Ir.eval W y σ1 with
                    | none => simp [h2]
                    | some r2 =>
                      obtain ⟨vb, σ2⟩ := r2
                      simp only [hw.prim]
                      cases h3 : binop W.P .mod va vb <;> simp [h2, h3, mVal, Ir.isMin]
              · simp [genExpr, hf, hty', hin, hfl, genBinary, hgx, hgy] at hg; subst hg
                exact sim_binM hag hw.prim rfl rfl rfl (hbs.trans hsem.symm) hgx hxs htx hys hty ht hok (fun _ => hfl)
        | floatAssign s err outer inner b =>
          obtain ⟨hsem, hbs, rfl, rfl, rfl, rfl⟩ := op_floatAssignM hf
          have hok' := hok
          simp only [Ir.okM, Bool.and_eq_true, Bool.not_eq_true', Bool.or_eq_true, decide_eq_true_eq, side, htx, hsem] at hok'
          obtain ⟨⟨⟨⟨_, _⟩, hminx⟩, hminy⟩, harith⟩ := hok'
          have harith' : Ir.arithTy (some tx) = true := by simpa [Ir.isShiftM] using harith
          have hty' := exprTy_ok (W := W) (cx := cx) hw.ret x tx htx
          have hin := scalarIn_float3 harith'
          have hfm : mslOpForm .Modulus = .floatCall "fmod" ["Float16", "Float32", "Float64", "FloatLiteral"] .Modulus := rfl
          have has : mslOpForm .Assignment = .binary .Assignment := rfl
          by_cases hfl : tx = .float
          · -- floating-point `%=`: `x = metal::fmod(x, y)`, the target a plain place, the right operand free of writes
            subst hfl
            have hin4 : scalarIn ["Float16", "Float32", "Float64", "FloatLiteral"] Ty.float = true := by decide
            cases hpo : (plainPlace x && freeOfWrites y) with
            | false => simp [genExpr, hf, exprTyHead, hty', hin, remOperandsOK, hpo] at hg
            | true =>
              rw [Bool.and_eq_true] at hpo
              cases hgx : genExpr cx x with
              | error e => simp [genExpr, hf, exprTyHead, hty', hin, remOperandsOK, hpo, has, genHead, hgx] at hg
              | ok x' =>
                cases hgy : genExpr cx y with
                | error e => simp [genExpr, hf, exprTyHead, hty', hin, remOperandsOK, hpo, has, genHead, hgx, hfm, hin4, genArgs, hgy] at hg
                | ok y' =>
                  simp [genExpr, hf, exprTyHead, hty', hin, remOperandsOK, hpo, has, genHead, hgx, hfm, hin4, genArgs, hgy] at hg
                  subst hg
                  have hys := sim_exprM hag hw y y' ty hgy hty hokxy.2
                  exact sim_remAssignM hag hw.prim rfl rfl rfl hsem (by decide) hgx htx hys hty
                    (fun σ v σ' h => pure_eval W y σ v σ' (freeOfWrites_pure y hpo.2) h) ht hok
          · -- integers: the binary form `x %= y`
            simp only [genExpr, hf, exprTyHead, hty', hin, hfl, decide_false, Bool.false_eq_true, if_false] at hg
            cases hgx : genExpr cx x with
            | error e => simp [genBinary, hgx] at hg
            | ok x' =>
              cases hgy : genExpr cx y with
              | error e => simp [genBinary, hgx, hgy] at hg
              | ok y' =>
                simp [genBinary, hgx, hgy] at hg; subst hg
                exact sim_binM hag hw.prim rfl rfl rfl (hbs.trans hsem.symm) hgx (sim_exprM hag hw x x' tx hgx htx hokxy.1) htx
                  (sim_exprM hag hw y y' ty hgy hty hokxy.2) hty ht hok (fun _ => hfl)
  | .op o (.cons x (.cons y (.cons z r))), a, t, hg, ht, _ => by simp [Ir.typeOf] at ht
theorem sim_seqM {W : World} {M : Msl.MWorld} {env : Ast.Env} {cx : Ctx} {vis : Var → Bool} {rsv : Nat → List Var}
    (hag : AgreeM cx vis env) (hw : Worlds cx rsv W M) :
    ∀ (es : Ir.Exprs) (a : HlslAst.Expr) (t : Ty),
      genSeq cx es = .ok a → Ir.typeOfSeq W.sig cx.vty es = some t → Ir.okMSeq (side cx W vis rsv) es = true →
      SimSeqM W M env es a t
  | .nil, a, t, hg, ht, _ => by simp [Ir.typeOfSeq] at ht
  | .cons e .nil, a, t, hg, ht, hok => by
    simp only [Ir.okMSeq, Bool.and_eq_true, Bool.not_eq_true'] at hok
    cases hte : Ir.typeOf W.sig cx.vty e with
    | none => simp [Ir.typeOfSeq, hte] at ht
    | some te =>
      simp [Ir.typeOfSeq, hte] at ht; subst ht
      have := (sim_exprM hag hw e a te (by simpa [genSeq] using hg) hte hok.1).plain hok.2
      exact ⟨this.1, fun σ => by simp [Ir.evalSeq, this.2 σ]⟩
  | .cons e (.cons e2 r), a, t, hg, ht, hok => by
    rw [okMSeq_cons2] at hok
    simp only [Bool.and_eq_true] at hok
    rw [RsslVerif.Lemmas.GenSem.typeOfSeq_cons2] at ht
    rw [genSeq_cons2] at hg
    cases hte : Ir.typeOf W.sig cx.vty e with
    | none => simp [hte] at ht
    | some te =>
      simp only [hte] at ht
      cases hgt : genSeq cx (.cons e2 r) with
      | error err => simp [hgt] at hg
      | ok tail =>
        cases hge : genExpr cx e with
        | error err => simp [hgt, hge] at hg
        | ok a1 =>
          simp [hgt, hge] at hg; subst hg
          have h1 := sim_exprM hag hw e a1 te hge hte hok.1
          have h2 := sim_seqM hag hw (.cons e2 r) tail t hgt ht hok.2
          constructor
          · simp [Msl.typeOf, astBinSem, h1.1, h2.1]
          · intro σ
            rw [RsslVerif.Lemmas.GenSem.evalSeq_cons2]
            simp only [Msl.eval, astBinSem, h1.1, h1.2 σ]
            cases Ir.eval W e σ with
            | none => simp
            | some r1 => simp [h2.2]
theorem sim_argsM {W : World} {M : Msl.MWorld} {env : Ast.Env} {cx : Ctx} {vis : Var → Bool} {rsv : Nat → List Var}
    (hag : AgreeM cx vis env) (hw : Worlds cx rsv W M) :
    ∀ (es : Ir.Exprs) (as : HlslAst.Exprs) (ps : List (Dir × Ty))
      (tailA : HlslAst.Exprs) (tailP : List (Msl.PK × Ty)) (tailM : List Msl.MArg),
      genArgs cx es = .ok as → Ir.argsOK W.sig cx.vty es ps = true → Ir.okMArgs (side cx W vis rsv) es = true →
      (∀ σ, Msl.evalArgs M env tailA tailP σ = some (tailM, σ)) → SimArgsM W M env es as ps tailA tailP tailM
  | .nil, as, ps, tailA, tailP, tailM, hg, hok, _, htail => by
    simp [genArgs] at hg; subst hg
    intro σ
    cases ps with
    | nil => simp [appendArgs, mParams, Ir.evalArgs, htail σ]
    | cons p ps' => simp [Ir.argsOK] at hok
  | .cons e r, as, ps, tailA, tailP, tailM, hg, hok, hokm, htail => by
    simp only [Ir.okMArgs, Bool.and_eq_true] at hokm
    cases hge : genExpr cx e with
    | error err => simp [genArgs, hge] at hg
    | ok a1 =>
      cases hgr : genArgs cx r with
      | error err => simp [genArgs, hge, hgr] at hg
      | ok ar =>
        simp [genArgs, hge, hgr] at hg; subst hg
        cases ps with
        | nil => simp [Ir.argsOK] at hok
        | cons p ps' =>
          obtain ⟨d, T⟩ := p
          cases hte : Ir.typeOf W.sig cx.vty e with
          | none => simp [Ir.argsOK, hte] at hok
          | some te =>
            simp only [Ir.argsOK, hte, Bool.and_eq_true, decide_eq_true_eq, Bool.or_eq_true] at hok
            obtain ⟨⟨rfl, hd⟩, hrest⟩ := hok
            have h1 := sim_exprM hag hw e a1 te hge hte hokm.1
            have h2 := sim_argsM hag hw r ar ps' tailA tailP tailM hgr hrest hokm.2 htail
            intro σ
            cases d with
            | in_ =>
              simp only [appendArgs, mParams, List.map_cons, List.cons_append, pkOf, Msl.evalArgs, Ir.evalArgs, h1.1, h1.conv hte]
              cases Ir.eval W e σ with
              | none => simp
              | some r1 =>
                have := h2 r1.2
                simp only [mParams, pkOf] at this
                simp only [this]
                cases Ir.evalArgs W r ps' r1.2 <;> simp [toMArg]
            | out =>
              simp at hd
              obtain ⟨xv, hxv⟩ := Option.isSome_iff_exists.mp hd
              have hlv := lval_genM hag (S := side cx W vis rsv) rfl hxv hge hokm.1
              have hvt := (lval_tyM hte hxv).1
              have := h2 σ
              simp only [mParams, pkOf] at this
              simp only [appendArgs, mParams, List.map_cons, List.cons_append, pkOf, Msl.evalArgs, Ir.evalArgs, hlv, hxv, hag.vty, hvt,
                if_true, this]
              cases Ir.evalArgs W r ps' σ <;> simp [toMArg]
            | inout =>
              simp at hd
              obtain ⟨xv, hxv⟩ := Option.isSome_iff_exists.mp hd
              have hlv := lval_genM hag (S := side cx W vis rsv) rfl hxv hge hokm.1
              have hvt := (lval_tyM hte hxv).1
              have := h2 σ
              simp only [mParams, pkOf] at this
              simp only [appendArgs, mParams, List.map_cons, List.cons_append, pkOf, Msl.evalArgs, Ir.evalArgs, hlv, hxv, hag.vty, hvt,
                if_true, this]
              cases Ir.evalArgs W r ps' σ <;> simp [toMArg]
end

end RsslVerif.Lemmas.GenMsl

"""C01 — HLSL export preserves the meaning of every accepted program."""
import re

T = "RsslVerif.Thm.C01."


def _fields(req):
    return req.split("\t")


def nontrivial(req, obs):
    # the function was inside the modelled subset, was exported, and at least one argument vector ran to completion
    return obs.startswith("ast ") and " r=" in obs


def finding_key(req, obs, detail):
    m = re.match(r"FAIL:panic ([^:]+):\d+: (.*)$", detail or "")
    if m:
        return "panic %s: %s" % (m.group(1), re.sub(r"\d+", "N", m.group(2)))
    f = _fields(req)
    # the specific input: source text, function and argument vectors (ctx / ir are derived from the source)
    return "input " + "\t".join(f[1:4])


def shrink(req):
    """drop one source line at a time (the harness recomputes ctx and ir from the source)"""
    f = _fields(req)
    lines = f[1].split("\\n")
    for i in range(len(lines)):
        if lines[i].strip() in ("", "{", "}"):
            continue
        yield "\t".join([f[0], "\\n".join(lines[:i] + lines[i + 1:]), f[2], f[3], "-", "-"])


def custom(ctx):
    ctx.standard_run()
    # how many of the explored programs satisfy the hypotheses of the theorems (Ir.wtFunc: typed + LitOK + no
    # cast-to-literal of a non-literal)?  A low share would mean the theorems talk about few real programs.
    reqs = [r for r in ctx.distinct if r.startswith("C01.fn\t") and r.split("\t")[2] != "-"]
    if reqs:
        ans = ctx.run_model(["C01.wt" + r[len("C01.fn"):] for r in reqs])
        ctx.extra["theorem_hypotheses"] = {"requests": len(reqs), "wt": ans.count("wt"), "not_wt": ans.count("not-wt"),
                                           "outside_model": ans.count("unsupported")}
        floor = 0.9
        if ans.count("wt") < floor * max(1, len(reqs) - ans.count("unsupported")):
            ctx.broken.append("coverage: fewer than 90% of the explored well-typed programs satisfy the theorems' hypotheses")


SPEC = {
    "id": "C01",
    "gens": ["HlslGenTables"],
    "lean_modules": ["RsslVerif.Thm.C01"],
    "theorems": [T + n for n in [
        "op_table_is_identity", "op_table_injective", "exporter_shape_as_modelled",
        "literal_value_preserved", "literal_int32_min_panics", "literal_total_except_min"]],
    "harness": "c01",
    "nontrivial": nontrivial,
    "finding_key": finding_key,
    "shrink": shrink,
    "custom": custom,
    "rule": "generated well-typed RSSL programs of the scalar subset (bool/int/uint/float; every statement form, all operators, "
            "implicit and explicit conversions, ternary, comma, user functions with in/out/inout, static globals) run through the "
            "real front end; one request per user function x 8 argument vectors (zeros, edge values, random bits); the model "
            "recomputes the exporter's syntax tree from the serialised IR and runs both semantics; the oracle evaluates the IR and "
            "the re-parsed emitted text of both HLSL flavours with independent Rust evaluators; non-trivial = function in the "
            "modelled subset, exported, and at least one vector ran to completion",
    "level_text": "Proof (scalar subset).",
    "trusted_base": [
        "Lean 4.33 kernel; axioms propext / Classical.choice / Quot.sound only (audited by #print axioms)",
        "tools/gens/c01.py (HlslGenTables: IntrinsicOp / UnaryOp / BinOp / Literal / Constant variants, generate_intrinsic_op's form "
        "table, generate_literal's arms and guards, the shape of the Sequence / Cast / ternary arms, generate_scalar_type) — re-run on "
        "/repo's working tree every time",
        "hand-written Model/GenHlsl.lean mirrors generate_expression / _literal / _statement / _for_init / _function for the scalar "
        "subset; tied to the code by the correspondence run (exporter tree via hook verif_generate_ast)",
        "Spec/Sem*.lean: our reading of RSSL's typed semantics and of HLSL's C-like semantics (literal int adapts to the other "
        "operand, usual arithmetic conversions, HLSL 2021 short-circuit, shift count masked to 5 bits)",
        "names: the emitted identifiers denote the IR's entities (property C15); printing/parsing of the tree (property C09)",
    ],
    "assumptions": [
        "float arithmetic, int<->float conversions and integer division are abstract primitives shared by both semantics",
        "no recursion (HLSL forbids it): call depth bounded by the fuel of Ir.phi / Ast.phi",
    ],
}

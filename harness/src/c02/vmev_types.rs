// part of vmev.rs: declarations, type names, conversions

fn ns_of(name: &str) -> String {
    match name.rfind("::") {
        Some(i) => name[..i + 2].to_string(),
        None => String::new(),
    }
}

fn scalar_vector_of_name(s: &str) -> Option<MTy> {
    if s == "void" {
        return Some(MTy::Void);
    }
    if s == "metal::true_type" {
        return Some(MTy::Tag);
    }
    if let Some(k) = MS::of_name(s) {
        return Some(MTy::S(k));
    }
    for base in ["bool", "int", "uint", "float", "long"] {
        if let Some(rest) = s.strip_prefix(base) {
            let k = MS::of_name(base)?;
            let r: Vec<char> = rest.chars().collect();
            if r.len() == 1 && ('2'..='4').contains(&r[0]) {
                return Some(MTy::V(k, r[0] as usize - '0' as usize));
            }
        }
    }
    if let Some(rest) = s.strip_prefix("metal::float") {
        let r: Vec<char> = rest.chars().collect();
        let dim = |c: char| if ('2'..='4').contains(&c) { Some(c as usize - '0' as usize) } else { None };
        if r.len() == 3 && r[1] == 'x' {
            return Some(MTy::M(dim(r[0])?, dim(r[2])?));
        }
    }
    None
}

impl<'a> MslV<'a> {
    pub fn new(module: &'a [Sx], hlsl_literals: bool, fmod_is_builtin: bool) -> Option<Self> {
        let mut me = MslV {
            funcs: Vec::new(),
            structs: HashMap::new(),
            enums: HashMap::new(),
            enum_consts: HashMap::new(),
            consts: Vec::new(),
            hlsl_literals,
            fmod_is_builtin,
            in_fmod: std::cell::Cell::new(false),
        };
        // declared type names first (a member may name another struct)
        for d in module {
            match d.head() {
                "struct" => {
                    me.structs.insert(d.args()[0].atom().to_string(), StructDef { members: Vec::new(), methods: Vec::new() });
                }
                "enum" => {
                    me.enums.insert(d.args()[0].atom().to_string(), (MS::Int, Vec::new()));
                }
                _ => {}
            }
        }
        for d in module {
            let x = d.args();
            match d.head() {
                "struct" => {
                    let name = x[0].atom().to_string();
                    let ns = ns_of(&name);
                    let mut members = Vec::new();
                    let mut methods = Vec::new();
                    for m in &x[1..] {
                        match m.head() {
                            "method" => methods.push(&m.args()[0]),
                            "m" => members.push((m.args()[0].atom().to_string(), me.ty_in(&m.args()[1], &ns)?)),
                            "proto" => {}
                            _ => return None,
                        }
                    }
                    me.structs.insert(name, StructDef { members, methods });
                }
                "enum" => {
                    // an unscoped C++ enumeration: enumerators are constants of the enclosing scope as well; the
                    // underlying type is int unless a value does not fit
                    let ename = x[0].atom().to_string();
                    let ns = ns_of(&ename);
                    let mut vals: Vec<(String, i128)> = Vec::new();
                    let mut next: i128 = 0;
                    for v in &x[1..] {
                        let n = v.args()[0].atom().to_string();
                        let val = match v.args().get(1) {
                            Some(e) => me.const_int(e, &ns)?,
                            None => next,
                        };
                        next = val + 1;
                        me.enum_consts.insert(format!("{}::{}", ename, n), (ename.clone(), V::L(val)));
                        me.enum_consts.insert(format!("{}{}", ns, n), (ename.clone(), V::L(val)));
                        vals.push((n, val));
                    }
                    let under = if vals.iter().all(|(_, v)| *v >= i32::MIN as i128 && *v <= i32::MAX as i128) { MS::Int } else { MS::Uint };
                    let mut out = Vec::new();
                    for (n, v) in vals {
                        let val = convert_scalar(MS::LitInt, under, V::L(v))?;
                        me.enum_consts.insert(format!("{}::{}", ename, n), (ename.clone(), val));
                        me.enum_consts.insert(format!("{}{}", ns, n), (ename.clone(), val));
                        out.push((n, val));
                    }
                    me.enums.insert(ename, (under, out));
                }
                "const" => {
                    let name = x[0].atom().to_string();
                    let t = me.ty_in(&x[1], &ns_of(&name))?;
                    me.consts.push((name, t, x.get(2)));
                }
                "fn" => me.funcs.push(d),
                _ => {}
            }
        }
        Some(me)
    }

    /// integer constant expression of an enumerator
    fn const_int(&self, e: &Sx, ns: &str) -> Option<i128> {
        let x = e.args();
        match e.head() {
            "lit" => match x[0].atom() {
                "int" | "uint" => x[1].atom().parse().ok(),
                "bool" => Some((x[1].atom() == "1") as i128),
                _ => None,
            },
            "un" if x[0].atom() == "Minus" => Some(-self.const_int(&x[1], ns)?),
            "un" if x[0].atom() == "Plus" => self.const_int(&x[1], ns),
            "id" => match self.lookup_enum_const(x[0].atom(), ns)?.1 {
                V::I(v) => Some(v as i32 as i128),
                V::U(v) => Some(v as i128),
                V::L(v) => Some(v),
                _ => None,
            },
            "cast" => self.const_int(&x[1], ns),
            _ => None,
        }
    }

    fn lookup_enum_const(&self, name: &str, ns: &str) -> Option<(String, V)> {
        if !ns.is_empty() {
            if let Some(c) = self.enum_consts.get(&format!("{}{}", ns, name)) {
                return Some(c.clone());
            }
        }
        self.enum_consts.get(name).cloned()
    }

    /// a type as written inside namespace `ns`
    pub fn ty_in(&self, sx: &Sx, ns: &str) -> Option<MTy> {
        match sx {
            Sx::A(s) => {
                if let Some(t) = scalar_vector_of_name(s) {
                    return Some(t);
                }
                for cand in [format!("{}{}", ns, s), s.clone()] {
                    if self.structs.contains_key(&cand) {
                        return Some(MTy::Struct(cand));
                    }
                    if self.enums.contains_key(&cand) {
                        return Some(MTy::Enum(cand));
                    }
                }
                other(format!("unknown type name {}", s))
            }
            Sx::L(_) if sx.head() == "arr" => Some(MTy::Arr(Box::new(self.ty_in(&sx.args()[0], ns)?), sx.args()[1].atom().parse().ok()?)),
            _ => None,
        }
    }

    fn ty(&self, sx: &Sx, fr: &Frame) -> Option<MTy> {
        self.ty_in(sx, &fr.ns)
    }

    /// the value of an uninitialised object (every scalar slot `Void`)
    pub fn undef(&self, t: &MTy) -> Option<VV> {
        Some(match t {
            MTy::Void | MTy::Tag => return None,
            MTy::S(_) | MTy::Enum(_) => VV::S(V::Void),
            MTy::V(_, n) => VV::V(vec![V::Void; *n]),
            MTy::M(c, r) => VV::M(*r, *c, vec![V::Void; r * c]),
            MTy::Struct(k) => VV::St(self.structs.get(k)?.members.iter().map(|(_, mt)| self.undef(mt)).collect::<Option<Vec<_>>>()?),
            MTy::Arr(e, n) => VV::Ar((0..*n).map(|_| self.undef(e)).collect::<Option<Vec<_>>>()?),
        })
    }

    /// the value of a value-initialised object (`T{}`, members of an aggregate left without an initialiser): zero
    pub fn zero(&self, t: &MTy) -> Option<VV> {
        let z = |k: MS| match k {
            MS::Bool => Some(V::B(false)),
            MS::Int => Some(V::I(0)),
            MS::Uint => Some(V::U(0)),
            MS::Float => Some(V::F(0)),
            MS::Long | MS::LitInt => Some(V::L(0)),
        };
        Some(match t {
            MTy::Void | MTy::Tag => return None,
            MTy::S(k) => VV::S(z(*k)?),
            MTy::Enum(k) => VV::S(z(self.enums.get(k)?.0)?),
            MTy::V(k, n) => VV::V(vec![z(*k)?; *n]),
            MTy::M(c, r) => VV::M(*r, *c, vec![V::F(0); r * c]),
            MTy::Struct(k) => VV::St(self.structs.get(k)?.members.iter().map(|(_, mt)| self.zero(mt)).collect::<Option<Vec<_>>>()?),
            MTy::Arr(e, n) => VV::Ar((0..*n).map(|_| self.zero(e)).collect::<Option<Vec<_>>>()?),
        })
    }

    /// numeric view: an unscoped enumeration acts as its underlying integer in arithmetic
    fn arith(&self, t: &MTy) -> Option<MTy> {
        match t {
            MTy::Enum(k) => Some(MTy::S(self.enums.get(k)?.0)),
            t if t.is_numeric() => Some(t.clone()),
            _ => other(format!("{} is not an arithmetic type", t.show())),
        }
    }

    fn conv_comps(from: MS, to: MS, xs: Vec<V>) -> Option<Vec<V>> {
        xs.into_iter().map(|c| convert_scalar(from, to, c)).collect()
    }

    /// implicit conversion (initialisation, assignment, argument passing, return)
    pub fn implicit(&self, from: &MTy, to: &MTy, v: VV) -> Option<VV> {
        if from == to {
            return Some(v);
        }
        match (from, to) {
            (MTy::Enum(_), MTy::S(_)) | (MTy::S(_), MTy::S(_)) | (MTy::Enum(_), MTy::V(..)) | (MTy::S(_), MTy::V(..)) => {
                let f = self.arith(from)?.scalar()?;
                let ts = to.scalar()?;
                let x = convert_scalar(f, ts, v.scalar()?)?;
                Some(match to {
                    MTy::V(_, n) => VV::V(vec![x; *n]),
                    _ => VV::S(x),
                })
            }
            _ => stuck(Stuck::Class(C_IMPLICIT), format!("no implicit conversion from {} to {} in Metal", from.show(), to.show())),
        }
    }

    /// explicit conversion `(T)e` / `T(e)` with one argument
    pub fn explicit(&self, from: &MTy, to: &MTy, v: VV) -> Option<VV> {
        if from == to {
            return Some(v);
        }
        match (from, to) {
            (MTy::V(f, n), MTy::V(t, m)) if n == m => Some(VV::V(Self::conv_comps(*f, *t, v.comps()?)?)),
            (MTy::S(f), MTy::Enum(k)) | (MTy::V(f, 1), MTy::Enum(k)) => {
                let under = self.enums.get(k)?.0;
                Some(VV::S(convert_scalar(*f, under, v.scalar()?)?))
            }
            (MTy::Enum(k), MTy::Enum(k2)) => {
                let (f, t) = (self.enums.get(k)?.0, self.enums.get(k2)?.0);
                Some(VV::S(convert_scalar(f, t, v.scalar()?)?))
            }
            (MTy::S(_), MTy::M(c, r)) | (MTy::Enum(_), MTy::M(c, r)) => {
                // `floatCxR(s)`: s on the diagonal, zero elsewhere
                let f = self.arith(from)?.scalar()?;
                let x = convert_scalar(f, MS::Float, v.scalar()?)?;
                if self.hlsl_literals {
                    return Some(VV::M(*r, *c, vec![x; r * c]));
                }
                let zero = V::F(0);
                let mut xs = vec![zero; r * c];
                for i in 0..(*r).min(*c) {
                    xs[i * c + i] = x;
                }
                Some(VV::M(*r, *c, xs))
            }
            (MTy::S(_), MTy::S(_)) | (MTy::Enum(_), MTy::S(_)) | (MTy::S(_), MTy::V(..)) | (MTy::Enum(_), MTy::V(..)) => self.implicit(from, to, v),
            _ => stuck(Stuck::Class(C_CAST), format!("no conversion from {} to {} in Metal", from.show(), to.show())),
        }
    }

    fn member(&self, obj: &MTy, name: &str) -> Option<(MTy, Acc)> {
        match obj {
            MTy::Struct(k) => {
                let members = &self.structs.get(k)?.members;
                match members.iter().position(|m| m.0 == name) {
                    Some(i) => Some((members[i].1.clone(), Acc::Field(i))),
                    None => other(format!("{} has no member {}", k, name)),
                }
            }
            MTy::V(t, n) => {
                let sl = match swizzle_slots(name) {
                    Some(sl) if !sl.is_empty() && sl.len() <= 4 && sl.iter().all(|i| i < n) => sl,
                    _ => return other(format!("{} has no member {}", obj.show(), name)),
                };
                Some((if sl.len() == 1 { MTy::S(*t) } else { MTy::V(*t, sl.len()) }, Acc::Swz(sl)))
            }
            // Metal has no members on scalars and no `_mRC` members on matrices
            _ => other(format!("{} has no member {} in Metal", obj.show(), name)),
        }
    }

    fn element(&self, obj: &MTy) -> Option<MTy> {
        match obj {
            MTy::Arr(e, _) => Some((**e).clone()),
            MTy::V(t, _) => Some(MTy::S(*t)),
            // a column
            MTy::M(_, r) => Some(MTy::V(MS::Float, *r)),
            _ => other(format!("{} cannot be subscripted", obj.show())),
        }
    }
}

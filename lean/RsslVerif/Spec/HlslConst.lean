import RsslVerif.Model.ConstEval
/-!
# What C13 means: the value HLSL defines for a constant expression

Reference semantics over the same expression trees as the model (only the *types* `Constant`, `Expr`,
`Ty` and the float primitives are shared with `Model.ConstEval`; nothing here looks at `Gen.EvalTable`
except for the operator names):

* untyped integer literals: **exact** integer arithmetic; a result that does not fit the compiler's
  128-bit literal representation has no value (`none`);
* `int` / `uint`: 32-bit two's complement — stated with `BitVec 32` operations (`+ - *` modular,
  `sdiv`/`srem` resp. `udiv`/`umod`, shifts with the count masked to its low five bits, arithmetic
  right shift for `int`);
* division and modulus by zero have no value;
* comparisons and logic as in C (`<` on the mathematical values, IEEE for floats, unordered NaN);
* conversions: integer → `int`/`uint` keeps the low 32 bits (so `int`↔`uint` reinterprets), anything →
  `bool` is `≠ 0`, `bool` → number is 0/1, float → integer **truncates toward zero, saturates and maps
  NaN to 0** (the rule taken as HLSL's: D3D `ftoi`/`ftou`; it is also what Rust's `as` does), integer →
  float and float → float round to nearest even; an enum converts through its underlying integer;
* an enum operand takes part in an operator through its underlying integer, and the result of an
  arithmetic operator on enums is again of the enum type (comparisons give `bool`).

`none` means "HLSL defines no value / not a constant expression".  The evaluator is allowed to report
"not constant" where this semantics has a value (it supports fewer operators), never the converse.
-/
namespace RsslVerif.Spec.HlslConst
open RsslVerif.Gen.EvalTable (Op Scalar)
open RsslVerif.Model.ConstEval (Constant Expr Args Ty SizeTy)
namespace F
export RsslVerif.Model.ConstEvalFloat (Fmt f32 f64 FVal decode neg cmp lt le feq neZero toIntSat round ofInt convert one)
end F

/-- the compiler's representation of untyped literals: 128-bit signed -/
def fitsLit (z : Int) : Bool := decide (-(2 ^ 127 : Int) ≤ z) && decide (z < 2 ^ 127)

def lit? (z : Int) : Option Constant := if fitsLit z then some (.intLit z) else none

def bv (z : Int) : BitVec 32 := BitVec.ofInt 32 z
def sInt (b : BitVec 32) : Constant := .int32 b.toInt
def uInt (b : BitVec 32) : Constant := .uint32 (b.toNat : Int)

/-- exact integer arithmetic (`none`: no value) -/
def litArith (o : Op) (x y : Int) : Option Int :=
  match o with
  | .Add => some (x + y)
  | .Subtract => some (x - y)
  | .Multiply => some (x * y)
  | .Divide => if y = 0 then none else some (x.tdiv y)      -- truncated toward zero
  | .Modulus => if y = 0 then none else some (x.tmod y)     -- sign of the dividend
  | .LeftShift => if 0 ≤ y then some (x * 2 ^ y.toNat) else none
  | .RightShift => if 0 ≤ y then some (x / 2 ^ y.toNat) else none   -- floor
  | _ => none

/-- bit operations on two's complement words -/
def bitArith {w : Nat} (o : Op) (a b : BitVec w) : Option (BitVec w) :=
  match o with
  | .BitwiseAnd => some (a &&& b)
  | .BitwiseOr => some (a ||| b)
  | .BitwiseXor => some (a ^^^ b)
  | _ => none

/-- `int` arithmetic -/
def sArith (o : Op) (a b : BitVec 32) : Option (BitVec 32) :=
  match o with
  | .Add => some (a + b)
  | .Subtract => some (a - b)
  | .Multiply => some (a * b)
  | .Divide => if b = 0 then none else some (a.sdiv b)
  | .Modulus => if b = 0 then none else some (a.srem b)
  | .LeftShift => some (a <<< (b.toNat % 32))
  | .RightShift => some (a.sshiftRight (b.toNat % 32))
  | o => bitArith o a b

/-- `uint` arithmetic -/
def uArith (o : Op) (a b : BitVec 32) : Option (BitVec 32) :=
  match o with
  | .Add => some (a + b)
  | .Subtract => some (a - b)
  | .Multiply => some (a * b)
  | .Divide => if b = 0 then none else some (a / b)
  | .Modulus => if b = 0 then none else some (a % b)
  | .LeftShift => some (a <<< (b.toNat % 32))
  | .RightShift => some (a >>> (b.toNat % 32))
  | o => bitArith o a b

/-- the C relational operators as predicates on an ordering (`none` = unordered) -/
def relOf (o : Op) : Option (Option Ordering → Bool) :=
  match o with
  | .LessThan => some fun r => r == some .lt
  | .LessEqual => some fun r => r == some .lt || r == some .eq
  | .GreaterThan => some fun r => r == some .gt
  | .GreaterEqual => some fun r => r == some .gt || r == some .eq
  | _ => none

/-- ordering of two values of one type -/
def valueOrd : Constant → Constant → Option Ordering
  | .bool a, .bool b => some (compare a.toNat b.toNat)
  | .intLit a, .intLit b | .int32 a, .int32 b | .uint32 a, .uint32 b
  | .int64 a, .int64 b | .uint64 a, .uint64 b => some (compare a b)
  | .floatLit a, .floatLit b | .float64 a, .float64 b => F.cmp (F.decode F.f64 a) (F.decode F.f64 b)
  | .float16 a, .float16 b | .float32 a, .float32 b => F.cmp (F.decode F.f32 a) (F.decode F.f32 b)
  | _, _ => none

def sameType : Constant → Constant → Bool
  | .bool _, .bool _ | .intLit _, .intLit _ | .int32 _, .int32 _ | .uint32 _, .uint32 _
  | .int64 _, .int64 _ | .uint64 _, .uint64 _ | .floatLit _, .floatLit _ | .float16 _, .float16 _
  | .float32 _, .float32 _ | .float64 _, .float64 _ => true
  | _, _ => false

/-- equality of constants: equal type and equal value (IEEE equality for floats) -/
def valueEq : Constant → Constant → Bool
  | .string, .string => true
  | .enum i a, .enum j b => i == j && valueEq a b
  | a, b => sameType a b && valueOrd a b == some .eq

def unop (o : Op) (a : Constant) : Option Constant :=
  match o, a with
  | .Plus, .enum _ _ => none
  | .Plus, a => some a
  | .Minus, .intLit x => lit? (-x)
  | .Minus, .int32 x => some (sInt (-(bv x)))
  | .Minus, .floatLit b => some (.floatLit (F.neg F.f64 b))
  | .Minus, .float64 b => some (.float64 (F.neg F.f64 b))
  | .Minus, .float16 b => some (.float16 (F.neg F.f32 b))
  | .Minus, .float32 b => some (.float32 (F.neg F.f32 b))
  | .LogicalNot, .bool b => some (.bool (!b))
  | .BitwiseNot, .intLit x => some (.intLit (-x - 1))
  | .BitwiseNot, .int32 x => some (sInt (~~~(bv x)))
  | .BitwiseNot, .uint32 x => some (uInt (~~~(bv x)))
  | .PrefixIncrement, .int32 x | .PostfixIncrement, .int32 x => some (sInt (bv x + 1))
  | .PrefixIncrement, .uint32 x | .PostfixIncrement, .uint32 x => some (uInt (bv x + 1))
  | .PrefixDecrement, .int32 x | .PostfixDecrement, .int32 x => some (sInt (bv x - 1))
  | .PrefixDecrement, .uint32 x | .PostfixDecrement, .uint32 x => some (uInt (bv x - 1))
  | _, _ => none

def binop (o : Op) (a b : Constant) : Option Constant :=
  match o with
  | .Equality => some (.bool (valueEq a b))
  | .Inequality => some (.bool (!valueEq a b))
  | .BooleanAnd => (match a, b with | .bool x, .bool y => some (.bool (x && y)) | _, _ => none)
  | .BooleanOr => (match a, b with | .bool x, .bool y => some (.bool (x || y)) | _, _ => none)
  | o =>
    match relOf o with
    | some rel => if sameType a b then some (.bool (rel (valueOrd a b))) else none
    | none =>
      match a, b with
      | .intLit x, .intLit y =>
        (match litArith o x y with
         | some z => lit? z
         | none => (bitArith o (BitVec.ofInt 128 x) (BitVec.ofInt 128 y)).map fun r => .intLit r.toInt)
      | .int32 x, .int32 y => (sArith o (bv x) (bv y)).map sInt
      | .uint32 x, .uint32 y => (uArith o (bv x) (bv y)).map uInt
      | _, _ => none

/-- operands as the operator sees them: enums through their underlying value -/
def strip : Constant → Constant
  | .enum _ u => u
  | c => c

def enumId? : Constant → Option Nat
  | .enum id _ => some id
  | _ => none

def isComparison (o : Op) : Bool :=
  match o with
  | .LessThan | .LessEqual | .GreaterThan | .GreaterEqual | .Equality | .Inequality => true
  | _ => false

/-- an operator applied to operand values that are not enums -/
def opValue (o : Op) (vals : List Constant) : Option Constant :=
  match vals with
  | [a] => unop o a
  | [a, b] => binop o a b
  | _ => none

/-- an operator applied to evaluated operands.  (Operand lists mixing different enum types do not occur in
    typed programs; the enum of the last enum operand is used.) -/
def applyOp (o : Op) (vals : List Constant) : Option Constant :=
  match opValue o (vals.map strip), (vals.filterMap enumId?).getLast? with
  | some r, some id => if isComparison o then some r else some (.enum id r)
  | r, _ => r

/-- conversion to a scalar type of a value that is not an enum -/
def castScalar (s : Scalar) (v : Constant) : Option Constant :=
  match s, v with
  | .Bool, .bool b => some (.bool b)
  | .Bool, .intLit z | .Bool, .int32 z | .Bool, .uint32 z => some (.bool (z != 0))
  | .Bool, .floatLit b | .Bool, .float64 b => some (.bool (F.neZero (F.decode F.f64 b)))
  | .Bool, .float16 b | .Bool, .float32 b => some (.bool (F.neZero (F.decode F.f32 b)))
  | .Int32, .bool b => some (sInt (if b then 1 else 0))
  | .Int32, .intLit z | .Int32, .int32 z | .Int32, .uint32 z => some (sInt (bv z))
  | .Int32, .floatLit b | .Int32, .float64 b =>
    some (.int32 (F.toIntSat (-(2 ^ 31)) (2 ^ 31 - 1) (F.decode F.f64 b)))
  | .Int32, .float16 b | .Int32, .float32 b =>
    some (.int32 (F.toIntSat (-(2 ^ 31)) (2 ^ 31 - 1) (F.decode F.f32 b)))
  | .UInt32, .bool b => some (uInt (if b then 1 else 0))
  | .UInt32, .intLit z | .UInt32, .int32 z | .UInt32, .uint32 z => some (uInt (bv z))
  | .UInt32, .floatLit b | .UInt32, .float64 b => some (.uint32 (F.toIntSat 0 (2 ^ 32 - 1) (F.decode F.f64 b)))
  | .UInt32, .float16 b | .UInt32, .float32 b => some (.uint32 (F.toIntSat 0 (2 ^ 32 - 1) (F.decode F.f32 b)))
  -- to floating point (the compiler keeps `half` constants at float precision)
  | .Float16, .bool b => some (.float16 (if b then F.one F.f32 else 0))
  | .Float16, .intLit z | .Float16, .int32 z | .Float16, .uint32 z => some (.float16 (F.ofInt F.f32 z))
  | .Float16, .floatLit b | .Float16, .float64 b => some (.float16 (F.convert F.f64 F.f32 b))
  | .Float16, .float16 b | .Float16, .float32 b => some (.float16 b)
  | .Float32, .bool b => some (.float32 (if b then F.one F.f32 else 0))
  | .Float32, .intLit z | .Float32, .int32 z | .Float32, .uint32 z => some (.float32 (F.ofInt F.f32 z))
  | .Float32, .floatLit b | .Float32, .float64 b => some (.float32 (F.convert F.f64 F.f32 b))
  | .Float32, .float16 b | .Float32, .float32 b => some (.float32 b)
  | .Float64, .bool b => some (.float64 (if b then F.one F.f64 else 0))
  | .Float64, .intLit z | .Float64, .int32 z | .Float64, .uint32 z => some (.float64 (F.ofInt F.f64 z))
  | .Float64, .floatLit b | .Float64, .float64 b => some (.float64 b)
  | .Float64, .float16 b | .Float64, .float32 b => some (.float64 (F.convert F.f32 F.f64 b))
  | _, _ => none

def cast (t : Ty) (v : Constant) : Option Constant :=
  match t with
  | .scalar s => castScalar s (strip v)
  | .enum id u => (castScalar u (strip v)).map (.enum id)
  | .other => none

/-- `sizeof`: 4 bytes for `bool`, `int`, `uint`, `float`, 2 for `half`, 8 for `double` -/
def sizeOfScalar : Scalar → Option Constant
  | .Bool | .Int32 | .UInt32 | .Float32 => some (.uint32 4)
  | .Float16 => some (.uint32 2)
  | .Float64 => some (.uint32 8)
  | _ => none

def sizeOfTy : SizeTy → Option Constant
  | .scalar s => sizeOfScalar s
  | .enum u => sizeOfScalar u      -- an enum has the size of its underlying type
  | .other => none

mutual
def eval : Expr → Option Constant
  | .lit c => some c
  | .var v | .global v => v
  | .enumValue id v => some (.enum id v)
  | .cast t e => (match eval e with | some v => cast t v | none => none)
  | .sizeOf t => sizeOfTy t
  | .op o args => (match evalArgs args with | some vs => applyOp o vs | none => none)
  | .other => none
def evalArgs : Args → Option (List Constant)
  | .nil => some []
  | .cons e rest =>
    (match eval e, evalArgs rest with
     | some v, some vs => some (v :: vs)
     | _, _ => none)
end

end RsslVerif.Spec.HlslConst

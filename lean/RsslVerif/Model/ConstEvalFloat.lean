/-!
# IEEE-754 binary32 / binary64 values as bit patterns (used by the C13 constant evaluator model)

Floating point constants never appear as Lean `Float`s: a constant is its bit pattern (a `Nat`), and the
few primitive operations the evaluator applies to floats (`-x`, `<`, `==`, `!= 0.0`, `as i32`, `as u32`,
`as f32`, `as f64`) are defined here on the exact value `± m · 2^e`.  These definitions are the meaning
of the corresponding Rust primitives (round to nearest even, saturating float→int with NaN ↦ 0); they are
*given*, not verified, and are exercised against the real code by the correspondence run.
-/
namespace RsslVerif.Model.ConstEvalFloat

/-- an IEEE binary interchange format: number of stored mantissa bits and of exponent bits -/
structure Fmt where
  mant : Nat
  exp : Nat
  deriving DecidableEq, Repr

def f32 : Fmt := ⟨23, 8⟩
def f64 : Fmt := ⟨52, 11⟩

/-- exponent of the unit in the last place of the subnormals: value = frac · 2^emin -/
def Fmt.emin (f : Fmt) : Int := 2 - (2 ^ (f.exp - 1) : Nat) - f.mant

def Fmt.expMax (f : Fmt) : Nat := 2 ^ f.exp - 1

def Fmt.signBit (f : Fmt) : Nat := 2 ^ (f.mant + f.exp)

/-- a decoded value -/
inductive FVal where
  | nan (neg : Bool) (payload : Nat)
  | inf (neg : Bool)
  | fin (neg : Bool) (m : Nat) (e : Int)      -- ± m · 2^e
  deriving DecidableEq, Repr

def decode (f : Fmt) (bits : Nat) : FVal :=
  let neg := bits / f.signBit % 2 == 1
  let ex := bits / 2 ^ f.mant % 2 ^ f.exp
  let frac := bits % 2 ^ f.mant
  if ex == f.expMax then
    if frac == 0 then .inf neg else .nan neg frac
  else if ex == 0 then .fin neg frac f.emin
  else .fin neg (2 ^ f.mant + frac) (f.emin + (ex - 1 : Nat))

/-- `-x`: flips the sign bit (also of NaNs and zeros) -/
def neg (f : Fmt) (bits : Nat) : Nat :=
  if bits / f.signBit % 2 == 1 then bits - f.signBit else bits + f.signBit

/-- signed integer `± m · 2^(e - e0)` for `e0 ≤ e` -/
def scaled (neg : Bool) (m : Nat) (e e0 : Int) : Int :=
  let v : Int := (m * 2 ^ (e - e0).toNat : Nat)
  if neg then -v else v

/-- IEEE comparison: `none` = unordered (a NaN is involved) -/
def cmp : FVal → FVal → Option Ordering
  | .nan _ _, _ => none
  | _, .nan _ _ => none
  | .inf a, .inf b => some (if a == b then .eq else if a then .lt else .gt)
  | .inf a, .fin _ _ _ => some (if a then .lt else .gt)
  | .fin _ _ _, .inf b => some (if b then .gt else .lt)
  | .fin na ma ea, .fin nb mb eb =>
    let e0 := if ea ≤ eb then ea else eb
    some (compare (scaled na ma ea e0) (scaled nb mb eb e0))

def lt (a b : FVal) : Bool := cmp a b == some .lt
def le (a b : FVal) : Bool := cmp a b == some .lt || cmp a b == some .eq
def feq (a b : FVal) : Bool := cmp a b == some .eq

/-- `v != 0.0` (true for NaN) -/
def neZero : FVal → Bool
  | .fin _ 0 _ => false
  | _ => true

/-- Rust `v as i32` / `v as u32`: truncate toward zero, saturate to `[lo, hi]`, NaN ↦ 0 -/
def toIntSat (lo hi : Int) : FVal → Int
  | .nan _ _ => 0
  | .inf n => if n then lo else hi
  | .fin n m e =>
    let mag : Nat := if 0 ≤ e then m * 2 ^ e.toNat else m / 2 ^ (-e).toNat
    let v : Int := if n then -(mag : Int) else mag
    if v < lo then lo else if hi < v then hi else v

/-- bit length -/
def bitLen (m : Nat) : Nat := if m = 0 then 0 else Nat.log2 m + 1

/-- nearest value of format `f` to `± m · 2^e`, ties to even; overflow gives infinity -/
def round (f : Fmt) (neg : Bool) (m : Nat) (e : Int) : Nat :=
  let s := if neg then f.signBit else 0
  if m = 0 then s else
  let p := f.mant + 1
  -- exponent of the result's unit in the last place
  let q0 : Int := e + bitLen m - p
  let q : Int := if q0 < f.emin then f.emin else q0
  let mant : Nat :=
    if q ≤ e then m * 2 ^ (e - q).toNat
    else
      let sh := (q - e).toNat
      let t := m / 2 ^ sh
      let r := m % 2 ^ sh
      let half := 2 ^ (sh - 1)
      if r > half || (r == half && t % 2 == 1) then t + 1 else t
  -- `mant < 2^(mant bits)` : subnormal, exponent field 0; otherwise the hidden bit carries into the field
  let field : Nat := (q - f.emin).toNat
  let bits := if mant < 2 ^ f.mant then mant else (field + 1) * 2 ^ f.mant + (mant - 2 ^ f.mant)
  if bits ≥ f.expMax * 2 ^ f.mant then s + f.expMax * 2 ^ f.mant else s + bits

/-- Rust `z as f32` / `z as f64` for an integer -/
def ofInt (f : Fmt) (z : Int) : Nat := round f (z < 0) z.natAbs 0

/-- Rust `v as f64` / `v as f32` between formats (NaN: sign kept, quiet bit set, payload aligned at the top) -/
def convert (src dst : Fmt) (bits : Nat) : Nat :=
  match decode src bits with
  | .nan n p =>
    let s := if n then dst.signBit else 0
    let quiet := 2 ^ (dst.mant - 1)
    let p' := if src.mant ≤ dst.mant then p * 2 ^ (dst.mant - src.mant) else p / 2 ^ (src.mant - dst.mant)
    s + dst.expMax * 2 ^ dst.mant + (if p' / quiet % 2 == 1 then p' else p' + quiet)
  | .inf n => (if n then dst.signBit else 0) + dst.expMax * 2 ^ dst.mant
  | .fin n m e => round dst n m e

def one (f : Fmt) : Nat := round f false 1 0

end RsslVerif.Model.ConstEvalFloat

"""C11 — conditional compilation selects exactly the branches C semantics select."""
import itertools
import json
import os
import re
import subprocess
import sys
from concurrent.futures import ThreadPoolExecutor

sys.path.insert(0, os.path.join(os.path.dirname(os.path.dirname(os.path.abspath(__file__))), "tools"))
import vlib  # noqa: E402

T = "RsslVerif.Thm.C11."
ALPHABET = "01dneElftD"


def nontrivial(req, obs):
    f = req.split("\t")
    if f[0] == "C11.seq":
        s = f[1]
        return any(c in s for c in "01dn") and any(c in s for c in "eEl") and "t" in s
    if f[0] == "C11.run":
        ds = [d.split(":")[0] for d in f[1].split(";")]
        return any(d in ("i", "d", "n") for d in ds) and any(d in ("e", "l") for d in ds)
    if f[0] == "C11.cond":
        return len(f) > 2 and any(op in f[2].split(" ") for op in ("||", "&&", "==", "!=", "<", "<~", ">", ">~"))
    if f[0] == "C11.raw":
        # a conditional with a second group, and something that can be selected or skipped
        t = "\t".join(f[2:])
        return "if" in t and ("el" in t) and obs != "bad-request"
    if f[0] == "C11.frag":
        t = "\t".join(f[1:])
        return "if" in t and ("el" in t) and obs != "bad-request"
    return False


def finding_key(req, obs, detail):
    m = re.match(r"FAIL:(else-after-else|elif-after-else|unterminated-in-include|unmatched-in-include) accepted", detail or "")
    if m:
        return m.group(1) + " accepted"
    m = re.match(r"FAIL:(skipped-group [a-z-]+) rejected", detail or "")
    if m:
        return m.group(1) + " rejected"
    m = re.match(r"FAIL:panic ([^:]+):\d+: (.*)$", detail or "")
    if m:
        return "panic %s: %s" % (m.group(1), re.sub(r"\d+", "N", m.group(2)))
    return req


def shrink(req):
    f = req.split("\t")
    if f[0] == "C11.seq":
        s = f[1]
        for i in range(len(s)):
            yield "C11.seq\t" + s[:i] + s[i + 1:]
    elif f[0] == "C11.run":
        ds = f[1].split(";")
        for i in range(len(ds)):
            yield "C11.run\t" + ";".join(ds[:i] + ds[i + 1:])
    elif f[0] == "C11.raw" and len(f) > 2:
        # drop one included file, one API define, or one physical line of one file
        for k in range(3, len(f)):
            yield "\t".join(f[:k] + f[k + 1:])
        if f[1]:
            defs = f[1].split(",")
            for i in range(len(defs)):
                yield "\t".join([f[0], ",".join(defs[:i] + defs[i + 1:])] + f[2:])
        for k in range(2, len(f)):
            name, sep, body = ("", "", f[k]) if k == 2 else f[k].partition("=")
            lines = re.split(r"(?<=\\n)", body)
            lines = [x for x in lines if x]
            if len(lines) > 60:
                continue
            for i in range(len(lines)):
                yield "\t".join(f[:k] + [name + sep + "".join(lines[:i] + lines[i + 1:])] + f[k + 1:])
    elif f[0] == "C11.frag" and len(f) > 1:
        lines = [x for x in re.split(r"(?<=\\n)", f[1]) if x]
        if len(lines) <= 80:
            for i in range(len(lines)):
                yield "C11.frag\t" + "".join(lines[:i] + lines[i + 1:])
    elif f[0] == "C11.cond" and len(f) > 2:
        toks = f[2].split(" ")
        for i in range(len(toks)):
            yield "\t".join([f[0], f[1], " ".join(toks[:i] + toks[i + 1:])])
        if f[1]:
            defs = f[1].split(",")
            for i in range(len(defs)):
                yield "\t".join([f[0], ",".join(defs[:i] + defs[i + 1:]), f[2]])


def search(ctx):
    """small inputs to replay on the implementation once an obligation is broken: every directive sequence
    of length <= 4, every operator on a value grid, every pair of operators (precedence / associativity)"""
    out = []
    for n in range(1, 5):
        for t in itertools.product(ALPHABET, repeat=n):
            out.append("C11.seq\t" + "".join(t))
    vals = ["0", "1", "2", "4294967296", "18446744073709551615"]
    ops = ["||", "&&", "==", "!=", "<", "<~ =", ">", ">~ ="]
    for o in ops:
        for a in vals:
            for b in vals:
                out.append("C11.cond\t\t%s %s %s" % (a, o, b))
    for o1 in ops:
        for o2 in ops:
            for a, b, c in itertools.product(["0", "1", "2"], repeat=3):
                out.append("C11.cond\t\t%s %s %s %s %s" % (a, o1, b, o2, c))
    for a in vals:
        out.append("C11.cond\t\t! %s" % a)
        out.append("C11.cond\tA=%s\tA" % a)
        out.append("C11.cond\tA=%s\tdefined ( A ) && ! defined B" % a)
        out.append("C11.cond\t\tU == %s" % a)
    # raw text: defined in every spelling with every kind of operand, one-line headers acting on the includer's chain
    for d in ("", "#define X 1\\n", "#define X(a) a\\n", "#define X Y\\n"):
        for f in ("defined X", "defined(X)", "defined ( X )", "!defined X", "defined X && X", "X"):
            out.append("C11.raw\t\t%s#if %s\\nT\\n#else\\nF\\n#endif\\n" % (d, f))
    for h in ("#endif\\n", "#else\\n", "#elif 1\\n", "#if 1\\n", "#if 0\\n", "#ifdef A\\n", "t\\n"):
        for m in ("#if 1\\na\\n#include \"h.h\"\\nb\\n#endif\\nc\\n", "#if 0\\na\\n#include \"h.h\"\\nb\\n#endif\\nc\\n",
                  "#include \"h.h\"\\nb\\n#endif\\nc\\n", "a\\n#include \"h.h\"\\nb\\n"):
            out.append("C11.raw\t\t%s\th.h=%s" % (m, h))
    # one header visited twice (and three times), the macro its block tests defined in between, by the header itself,
    # by the includer, or from the start; every shape of guard block
    for hdr in ("#ifndef G\\n#define G\\nfirst\\n#else\\nsecond\\n#endif\\n", "#ifndef G\\nfirst\\n#else\\nsecond\\n#endif\\n",
                "#ifndef G\\n#define G\\nfirst\\n#elif 1\\nsecond\\n#endif\\n", "#ifndef G\\n#define G\\nfirst\\n#endif\\n",
                "#ifndef G\\n#define G\\nfirst\\n#else\\n#define B 2\\n#endif\\n", "#ifdef G\\nsecond\\n#else\\n#define G\\nfirst\\n#endif\\n",
                "#if !defined(G)\\n#define G\\nfirst\\n#else\\nsecond\\n#endif\\n", "#pragma once\\n#ifndef G\\n#define G\\nfirst\\n#else\\nsecond\\n#endif\\n",
                "pre\\n#ifndef G\\n#define G\\nfirst\\n#else\\nsecond\\n#endif\\n", "#ifndef G\\n#define G\\nfirst\\n#else\\nsecond\\n#endif\\npost\\n"):
        for between in ("", "#define G\\n", "#undef G\\n", "#define G 1\\n#undef G\\n"):
            out.append("C11.raw\t\t#include \"h.h\"\\n%s#include \"h.h\"\\nprobe G B\\n\th.h=%s" % (between, hdr))
        out.append("C11.raw\tG=1\t#include \"h.h\"\\n#include \"h.h\"\\n#include \"h.h\"\\nprobe G B\\n\th.h=%s" % hdr)
        out.append("C11.raw\t\t#include \"w.h\"\\n#include \"h.h\"\\n#include \"w.h\"\\nprobe G B\\n\th.h=%s\tw.h=#include \"h.h\"\\n" % hdr)
    # the second entry point: the define it supplies, seen by every kind of test; the fragment including itself
    for t in ("#if __HLSL_VERSION >= 2021\\nT\\n#else\\nF\\n#endif\\n", "#if __HLSL_VERSION == 2021\\nT\\n#else\\nF\\n#endif\\n",
              "#ifdef __HLSL_VERSION\\nT\\n#else\\nF\\n#endif\\n", "#ifndef __HLSL_VERSION\\nT\\n#else\\nF\\n#endif\\n",
              "#if defined(__HLSL_VERSION)\\nT\\n#else\\nF\\n#endif\\n", "#if __HLSL_VERSION\\nT\\n#else\\nF\\n#endif\\n",
              "v __HLSL_VERSION\\n", "#if 0\\na\\n#else\\nb\\n#endif\\n", "#if 1\\na /* c */ b\\n#endif\\n", "a\\n#endif\\n", "#if 1\\na\\n",
              "#ifndef G\\n#define G\\nfirst\\n#include \"main.rssl\"\\n#else\\nsecond\\n#endif\\n"):
        out.append("C11.frag\t" + t)
    # nothing selected at all: the parser must be handed Eof only
    for t in ("", "\\n", " \\n", "/* c */", "// c\\n", "#if 0\\nx\\n#endif\\n", "#if 1\\n#else\\nx\\n#endif\\n", "#define A 1\\n", "#pragma once\\n"):
        out.append("C11.raw\t\t" + t)
        out.append("C11.frag\t" + t)
    out.append("C11.raw\t\t#include \"e.h\"\\n\te.h=")
    for hostile in ("$", "#3", "#while", "#else junk", "#include <a", "#pragma bogus", "#define", "#include \"missing.h\""):
        out.append("C11.raw\t\t#if 0\\n%s\\n#endif\\nx\\n" % hostile)
        out.append("C11.raw\t\t#if 0\\n#if 1\\n%s\\n#endif\\n#endif\\nx\\n" % hostile)
    return out


class CountedSet(set):
    """a set that also accounts for members known to be distinct without storing them (the exhaustive
    enumeration produces 10^7 distinct requests in the thorough tier)"""
    extra = 0

    def __len__(self):
        return set.__len__(self) + self.extra


def _shard(ctx, idx, n, argv_base):
    """one shard: harness -> file, requests -> rsslmodel -> file, streamed comparison; constant memory"""
    tmp = os.path.join(vlib.BUILD, "tmp")
    os.makedirs(tmp, exist_ok=True)
    tag = "c11-%d-%d" % (os.getpid(), idx)
    hpath, rpath, mpath = (os.path.join(tmp, tag + ext) for ext in (".harness", ".req", ".model"))
    res = {"cases": 0, "seq": 0, "seq_nontrivial": 0, "other": [], "other_nontrivial": [], "skipped": 0,
           "unsupported": 0, "disagreements": [], "n_disagreements": 0, "failures": {}, "n_failures": 0,
           "stats": [], "samples": [], "error": None}
    try:
        with open(hpath, "w") as hf:
            rc = subprocess.run([vlib.HARNESS_EXE] + argv_base + ["--shard", "%d/%d" % (idx, n)], cwd=vlib.ROOT,
                                stdout=hf, stderr=subprocess.DEVNULL, env=vlib.ENV, timeout=3000).returncode
        if rc != 0:
            res["error"] = "harness shard %d exited with %d" % (idx, rc)
        with open(hpath, errors="replace") as hf, open(rpath, "w") as rf:
            for line in hf:
                if line.startswith("CASE\t"):
                    k = line.find("\t=>\t")
                    if k > 0:
                        rf.write(line[5:k] + "\n")
        with open(rpath) as rf, open(mpath, "w") as mf:
            rc = subprocess.run([vlib.MODEL_EXE], stdin=rf, stdout=mf, stderr=subprocess.DEVNULL, timeout=3000).returncode
        if rc != 0:
            res["error"] = "rsslmodel exited with %d on shard %d" % (rc, idx)
        with open(hpath, errors="replace") as hf, open(mpath, errors="replace") as mf:
            for line in hf:
                if line.startswith("STAT\t"):
                    try:
                        res["stats"].append(json.loads(line[5:]))
                    except ValueError:
                        pass
                    continue
                if not line.startswith("CASE\t"):
                    continue
                k = line.find("\t=>\t")
                if k < 0:
                    continue
                req = line[5:k]
                tail = line[k + 4:].rstrip("\n").split("\t")
                obs = tail[0]
                orc = tail[1] if len(tail) > 1 else "ok"
                mobs = mf.readline().rstrip("\n")
                res["cases"] += 1
                nt = nontrivial(req, obs)
                if req.startswith("C11.seq"):
                    res["seq"] += 1
                    res["seq_nontrivial"] += 1 if nt else 0
                else:
                    res["other"].append(req)
                    if nt:
                        res["other_nontrivial"].append(req)
                if len(res["samples"]) < 2 and res["cases"] % 99991 == 7:
                    res["samples"].append({"request": req, "implementation": obs, "model": mobs, "oracle": orc})
                if orc.startswith("SKIP"):
                    res["skipped"] += 1
                elif orc.startswith("FAIL"):
                    res["n_failures"] += 1
                    key = finding_key(req, obs, orc)
                    lst = res["failures"].setdefault(key, [])
                    if len(lst) < 3 and len(res["failures"]) < 200:
                        lst.append((req, obs, orc))
                if mobs.startswith("unsupported"):
                    res["unsupported"] += 1
                elif mobs != obs:
                    res["n_disagreements"] += 1
                    if len(res["disagreements"]) < 100:
                        res["disagreements"].append((req, obs, mobs))
    except Exception as e:  # noqa: BLE001
        res["error"] = "shard %d: %s" % (idx, e)
    finally:
        for pth in (hpath, rpath, mpath):
            try:
                os.unlink(pth)
            except OSError:
                pass
    return res


def _merge_hist(total, part):
    for k, v in part.items():
        if isinstance(v, dict):
            _merge_hist(total.setdefault(k, {}), v)
        elif isinstance(v, (int, float)) and not isinstance(v, bool) and k != "exhaustive_max_len":
            total[k] = total.get(k, 0) + v
        else:
            total[k] = v


def custom(ctx):
    """corpus through the standard path; generated cases in parallel shards with streamed comparison"""
    if not ctx.harness_build():
        return
    corpus = os.path.join(vlib.ROOT, "corpus", "C11.txt")
    if os.path.exists(corpus) and os.path.getsize(corpus) > 0:
        cases, _ = ctx.run_harness(["c11", "--requests", corpus])
        ctx.extra["corpus_cases"] = len(cases)
        ctx.correspond(cases)
    n = 12 if ctx.tier == "thorough" else 4
    base = ["c11", "--tier", ctx.tier, "--seed", str(ctx.seed)]
    distinct = CountedSet(ctx.distinct)
    nontriv = CountedSet(ctx.nontrivial)
    with ThreadPoolExecutor(max_workers=n) as ex:
        results = list(ex.map(lambda i: _shard(ctx, i, n, base), range(n)))
    merged = {}
    total_fail = 0
    for r in results:
        if r["error"]:
            ctx.broken.append(r["error"])
        ctx.cases += r["cases"]
        distinct.extra += r["seq"]
        nontriv.extra += r["seq_nontrivial"]
        distinct.update(r["other"])
        nontriv.update(r["other_nontrivial"])
        ctx.skipped += r["skipped"]
        ctx.unsupported += r["unsupported"]
        ctx.disagreements.extend(r["disagreements"])
        total_fail += r["n_failures"]
        for lst in r["failures"].values():
            ctx.oracle_failures.extend(lst)
        for st in r["stats"]:
            _merge_hist(merged, st)
        for smp in r["samples"]:
            if len(ctx.samples) < 5:
                ctx.samples.append(smp)
    ctx.distinct, ctx.nontrivial = distinct, nontriv
    ctx.stats.append(merged)
    ctx.extra["oracle_failures_total"] = total_fail
    ctx.extra["model_disagreements_total"] = sum(r["n_disagreements"] for r in results)
    ctx.extra["shards"] = n


SPEC = {
    "id": "C11",
    "gens": ["CondTables", "MacroTables"],
    "lean_modules": ["RsslVerif.Thm.C11"],
    "theorems": [T + n for n in [
        "chain_tables_agree", "automaton_refines_tree", "automaton_refines_tree_any_stack",
        "inactive_has_no_effect", "inactive_if_not_evaluated", "unmatched_rejected", "strict_grammar_enforced",
        "well_nested_accepted", "tree_lines_are_grammatical", "else_after_else_rejected", "elif_after_else_rejected",
        "dead_elif_is_evaluated", "cond_tables_agree", "cond_parser_total", "cond_parse_eval",
        "cond_parse_eval_closed", "cond_parse_tokens", "cond_parse_unambiguous", "cond_rejects_illformed",
        "total_of_no_operands", "total_under_literal_macros",
        "literalMacros_define", "literalMacros_undef", "literalMacros_nil",
        "included_file_is_balanced", "includers_blocks_untouched", "include_cannot_touch_includers_chain",
        "if_closed_by_includers_endif_rejected", "else_of_other_file_rejected",
        "nonname_directive_ignored_when_skipped",
        "include_arm_shape_agree", "include_is_processed_each_time", "guard_else_group_delivered_on_reinclude",
        "defined_is_protected", "cond_eval_composed", "composed_shape_agree",
        "entry_shape_agree", "fragment_is_a_file", "fragment_define_selects", "selected_text_reaches_parser"]],
    "harness": "c11",
    "nontrivial": nontrivial,
    "finding_key": finding_key,
    "shrink": shrink,
    "search": search,
    "custom": custom,
    "level_text": "Proof: (1) the model of ConditionChain + the gating of preprocess_command (transition table, gating table, "
                  "error variants re-extracted from the source each run) is proved, for every nesting of "
                  "#if/#ifdef/#ifndef/#elif/#else/#endif groups of any depth and length, to keep exactly the text and macro "
                  "definitions the tree-shaped C selection rule keeps, to ignore every line of an unselected group (also a "
                  "directive that does not start with a name), and to accept exactly the line sequences of the C grammar "
                  "of if-sections: unterminated / unmatched sequences, a second #else and an #elif after #else are "
                  "rejected with the right error variant; (2) the model of "
                  "condition_parser.rs (operator tables, BinOp::apply, leaf arms re-extracted each run) is proved on the token "
                  "level: it accepts exactly the C grammar of conditions over || && == != < <= > >= ! parentheses literals "
                  "identifiers (ill-formed sequences rejected), its parse is the unique syntax tree of the sequence modulo "
                  "redundant parentheses, and the value is the reference u64 evaluation of that tree; (3) on the composed "
                  "token-level model of preprocess.rs (C11 tables + the C12 macro engine + the per-file token loop + "
                  "#include) `defined X`/`defined(X)` is proved to be replaced by 1/0 by name existence without expanding X, "
                  "object-like macros with identifier-free bodies to be expanded before evaluation, and printed condition "
                  "trees to evaluate to their reference value; (4) every file's conditionals are proved to balance on their "
                  "own: for every handler, file and includer state a successfully included file hands the condition "
                  "chain back unchanged, the includer's blocks are never touched meanwhile, and #endif / #else / an "
                  "unclosed #ifdef in an included file are rejected with EndIfNotMatched / ElseNotMatched / "
                  "ConditionChainNotFinished (the former negation witnesses, now rejected end to end); (5) an #include is "
                  "proved to be processed every time it is met: the output produced so far is write-only, so what an "
                  "include contributes depends only on the files' texts and (chain, base, macros, pragma-once set, depth) "
                  "at that point (include_is_processed_each_time, by induction over token stream and include depth), "
                  "and a guard block with an #else group delivers that group on a visit with the guard macro defined, "
                  "for every includer state (guard_else_group_delivered_on_reinclude); the include arm of "
                  "preprocess_command and FileLoader are pinned token for token (no exit other than skipped group / "
                  "malformed operand / depth limit, no file memory other than pragma_once_files); (6) both public ways "
                  "in and the way out are covered: preprocess_fragment is pinned as preprocess(name, [(name, input)], "
                  "[__HLSL_VERSION=2021]) and proved to be one run of the per-file loop from the empty state "
                  "(fragment_is_a_file: so every theorem stated for all handlers / states / token streams holds for "
                  "fragments; it also shows that a successful run of the entry file always ends with the empty chain, i.e. "
                  "the final test of preprocess_initial_file is dead code), and prepare_tokens - pinned token for token - is "
                  "proved to hand the parser exactly the non-blank tokens of the output, in order, independent of context, "
                  "closed by a single Eof (selected_text_reaches_parser).",
    "rule": "requests through the real rssl_preprocess::preprocess: exhaustive directive sequences over the property's "
            "10-symbol alphabet up to length 6 (quick) / 7 (thorough); random sequences of length <= 25 over an extended "
            "alphabet; random #if conditions to depth 5 over literals {0,1,2,5,7,2^32-1,2^32,2^63,2^64-1}, macros and "
            "defined(); and raw multi-file source text (C11.raw: random directive spelling with blanks / comments / "
            "splices / CRLF, function-like and operator macros, 7 spellings of defined, hex/octal/u literals, unsupported "
            "operators and literal forms, 54 hostile lines inside skipped groups, 12 kinds of included files incl. chains "
            "that cross the include boundary, API defines, nesting to depth 420; and a re-include stream: 1-3 headers out "
            "of 18 guard shapes - pure guard, guard with #else / #elif, text outside, #pragma once, nested guards, guard "
            "defined by the includer or the API, header that undefines its guard, inverted guard, wrappers - each "
            "included 2-6 times directly and through other headers with #define/#undef of the tested macros in "
            "between; and a fragment stream C11.frag through the second entry point preprocess_fragment: single-file "
            "programs of the same generators with 12 ways of looking at the define the function supplies, incl. a "
            "fragment that includes itself by its own name). In every stream the accepted output is also handed to the "
            "real prepare_tokens, whose result must be the non-blank tokens of the output plus Eof. "
            "Observed = surviving token texts per "
            "line or the error variant; oracle = independent reference C preprocessors written in Rust (one on the "
            "symbolic requests, one on the raw text: translation phases 2-4, Prosser macro expansion, full C "
            "constant-expression grammar, per-file if-section balance); non-trivial = the request has an #if-like line, "
            "an #elif/#else and text (sequences, raw) or a binary operator (conditions)",
    "trusted_base": [
        "Lean 4.33 kernel; axioms propext / Classical.choice / Quot.sound only (audited by #print axioms)",
        "tools/translate.py + tools/gens/c11.py (CondTables: ConditionState, ConditionBlock, "
        "ConditionChain::new/push/switch/pop/is_active incl. the seen_else test and the file base, the name split and "
        "the skip gating of every preprocess_command arm, BinOp::apply, every parse_pN::parse_op, parse_p2, parse_leaf, "
        "MAX_INCLUDE_DEPTH, the per-file block count of preprocess_included_file (enter / check / restore), the "
        "line-break test on API defines, the exact statement sequence of the #include arm, the field list of struct "
        "FileLoader and the tail of FileLoader::load, that `defined` is tested before the macro loop and only in #if/#elif, "
        "the whole body of preprocess_fragment with its define list, the whole body of prepare_tokens) and tools/gens/c12.py (MacroTables, used by the imported C12 macro model) — "
        "re-run on /repo's working tree every time",
        "hand-written recursion scheme of Model/CondExpr.lean, line processing of Model/CondChain.lean, and the "
        "composed token-level Model/CondFile.lean (built on C12's Model/Macro.lean + Model/Include.lean); tied to the "
        "code by the correspondence run only",
        "Spec/CPre.lean: our reading of ISO C 6.10.1 (if-sections as a tree, first true group, nothing in a skipped group "
        "is looked at), of the C grammar of conditions (Gram) and of the operator semantics on u64",
        "the lexer (text -> tokens) is outside this property's model (C10): for C11.raw the harness hands the model the "
        "token streams the real lexer produces (and replicates the switching of the header-name lexing mode); the "
        "oracle works from the text with its own tokenizer",
    ],
    "assumptions": [
        "theorems about selection (automaton_refines_tree) are stated for object-like macros with identifier-free bodies "
        "and included files that hold ordinary text; function-like macros, rescanning and directives inside included "
        "files are covered by the composed model Model/CondFile.lean, for which cond_eval_composed / "
        "defined_is_protected / included_file_is_balanced are proved and everything else is checked by correspondence",
        "cond_eval_composed covers #if lines made of non-macro tokens, `defined` operators (any operand) and object-like "
        "macros with identifier-free bodies; invocations of function-like macros and identifier-bearing bodies inside "
        "conditions are checked by correspondence only (expansion itself is C12's property)",
        "the theorems about selection assume well-formed #elif conditions: the code evaluates #elif conditions even in "
        "groups C never looks at (theorem dead_elif_is_evaluated), which the property excludes",
        "include handlers that report a real name different from the include name (two names reaching one file; "
        "FileLoader::real_name_remap) are outside the C11 model and harness, which key files and #pragma once by "
        "include name: that dimension is C12's (covered there by its correspondence run and oracle only as far as "
        "C11's conditionals are concerned)",
        "the oracle for C11.frag takes the define of preprocess_fragment from its documentation (__HLSL_VERSION = 2021, "
        "constant FRAGMENT_DEFINES in harness/src/c11.rs); the model takes it from the source (Gen.fragmentDefines) and "
        "theorem entry_shape_agree pins the two to each other; only defines of the form `name decimal` are modelled "
        "(anything else is answered `unsupported` and flagged by entry_shape_agree)",
        "termination guards of Model.CondFile.topLoop are run-time tests (reported as `unsupported` if they ever fire; "
        "they never did); C12 proves the analogous guards of applyLoop unreachable",
    ],
}

//! C05 request codec and renderer: a self-contained description of a shader file.
//!
//! request : C05.meta \t <dx|vk|vkba|msl> \t <all|name=P|nopipeline> \t <globals> \t <resources> \t <helpers> \t <entries> \t <pipes>
//!   globals  : nstatics[;L1][;I<uses>:<calls>:<prev>:<statics>]*
//!                L1 = every Pipeline block directly follows the last of its entry points (progen layout 1)
//!                I.. = `static int s_init<k> = 0 + ..;` declared after the helpers: value expressions of resources,
//!                      calls of int-returning helpers, earlier s_init globals, s_value statics
//!   resource : name:kind:group:arr:ss:bl:st[:opts]
//!                kind = ObjectType name | cbuffer | struct (a global of a struct type that holds resources)
//!                group = - | n; arr = - | n | u (unsized) | nxm (two dimensions); ss (static sampler), bl (bindless) = 0 | 1;
//!                st = e (extern) | s (static);  opts ('+' separated):
//!                E (cbuffer without members), gr | gv | go (the group is written as register space / second argument
//!                of vk::binding / register space g+1 overridden by [[rssl::bind_group(g)]]; default: the attribute),
//!                ri<k> (explicit register index), vi<k> (explicit [[vk::binding(k)]] index), sp<k> (static sampler
//!                property set k), ns (declared inside `namespace NS<i>`),
//!                T<spelling> (how the type is spelled): [N] step* [k] [x] [p] with steps a (`typedef <cur> X;`),
//!                c (`typedef const <cur> X;`), d<n> (`typedef <cur> X[n];`), e<n> (`typedef const <cur> X[n];`) applied
//!                from the object type outwards, the global is declared with the last name; N = the typedefs live in
//!                `namespace TN<i>`; k = `const` written on the global; x = `extern` written; p = the template argument
//!                of the object type goes through a typedef.  The declarator dimensions of `arr` wrap the named type.
//!                j (joined: a further declarator of the previous resource's declaration, `T a.., b..;` — type, storage,
//!                attributes are shared, dimensions / register annotation / static sampler are per declarator)
//!   helper   : name:uses:calls:statics[:opts]   comma separated indices; a use may carry a shape letter (`3w` = inside a
//!                while condition, see `SHAPES`); opts: r (returns int), d<uses> (parameters whose default value reads
//!                these resources), fd (declared before all definitions; also for entries; with d..: the default values are
//!                written on the forward declaration AND on the definition), po (needs fd and d..: the default values are
//!                written on the forward declaration -- the prototype -- ONLY), hm (the helper is a member function of a
//!                struct `HS<i>`, called through a local object), ht (the helper is a function template `template<typename T>`
//!                with an extra parameter `T tv`, called once with an int and once with a float argument)
//!   entry    : name:stage:uses:calls:statics:x.y.z|-[:opts]   opts: i<list> (s_init globals touched), nt<k> (spelling of
//!                the numthreads arguments: 1 = named constant, 2 = arithmetic, 3 = a second, different attribute first
//!                -- on the definition and on the forward declaration; 4 = the second attribute on the forward declaration
//!                only (needs fd): the front end never parses the attributes of a declaration, the file is accepted),
//!                lo (late overload: `void <name>(int p0) { }` is defined at the very end of the file, after every
//!                Pipeline block: the entry point lookup of a block sees the registry of its moment)
//!   pipe     : name:dflt|-:entry indices[:opts]   opts: gs<k> | gb<k> (graphics state property set k; gb = the set holds
//!                blend state blocks only, which a compute pipeline accepts), de (DefaultBindGroup written as an expression),
//!                b (the block is written *before* the entry point definitions it would follow: before all of them in the
//!                plain layout, before the ones it is the first to mention in layout 1 -- the functions are unknown or
//!                only declared when the block is met), q (the entry point of the first stage property is written with a
//!                qualified name `::<name>`: the front end accepts a plain identifier only)
//!   The request is self-contained: the shader file is rendered from it (no seed), so shrinking and the witness search
//!   can edit requests.
use crate::progen;
use std::collections::BTreeSet;

#[derive(Clone, Copy, PartialEq, Debug)]
pub enum ArrLen {
    No,
    Sized(u32),
    Unsized,
    Nested(u32, u32),
}

/// how the bind group of a resource is spelled in the source
#[derive(Clone, Copy, PartialEq, Debug)]
pub enum GSpell {
    Attr,
    Reg,
    Vk,
    Over,
}

/// one `typedef [const] <cur> X[dim]?;`
#[derive(Clone, Copy, PartialEq, Debug)]
pub struct TdStep {
    pub is_const: bool,
    pub dim: Option<u32>,
}

/// how the type of a resource global is spelled in the source
#[derive(Clone, PartialEq, Debug, Default)]
pub struct Spelling {
    pub ns: bool,
    pub steps: Vec<TdStep>,
    pub const_kw: bool,
    pub extern_kw: bool,
    pub param_td: bool,
}

impl Spelling {
    pub fn is_plain(&self) -> bool {
        *self == Spelling::default()
    }

    pub fn has_typedef(&self) -> bool {
        !self.steps.is_empty() || self.param_td
    }

    /// array dimensions the typedef chain contributes, outermost (= last typedef) first
    pub fn typedef_dims(&self) -> Vec<u32> {
        self.steps.iter().rev().filter_map(|s| s.dim).collect()
    }

    pub fn encode(&self) -> String {
        let mut s = String::from("T");
        if self.ns {
            s.push('N');
        }
        for st in &self.steps {
            match (st.is_const, st.dim) {
                (false, None) => s.push('a'),
                (true, None) => s.push('c'),
                (false, Some(n)) => s.push_str(&format!("d{}", n)),
                (true, Some(n)) => s.push_str(&format!("e{}", n)),
            }
        }
        if self.const_kw {
            s.push('k');
        }
        if self.extern_kw {
            s.push('x');
        }
        if self.param_td {
            s.push('p');
        }
        s
    }

    /// the text after the leading `T`
    pub fn decode(text: &str) -> Option<Spelling> {
        let mut sp = Spelling::default();
        let cs: Vec<char> = text.chars().collect();
        let mut i = 0;
        if cs.first() == Some(&'N') {
            sp.ns = true;
            i = 1;
        }
        while i < cs.len() && matches!(cs[i], 'a' | 'c' | 'd' | 'e') {
            let c = cs[i];
            i += 1;
            let mut dim = None;
            if c == 'd' || c == 'e' {
                let st = i;
                while i < cs.len() && cs[i].is_ascii_digit() {
                    i += 1;
                }
                let n: u32 = cs[st..i].iter().collect::<String>().parse().ok()?;
                if n == 0 {
                    return None;
                }
                dim = Some(n);
            }
            sp.steps.push(TdStep { is_const: c == 'c' || c == 'e', dim });
        }
        for (flag, c) in [(&mut sp.const_kw, 'k'), (&mut sp.extern_kw, 'x'), (&mut sp.param_td, 'p')] {
            if i < cs.len() && cs[i] == c {
                *flag = true;
                i += 1;
            }
        }
        if i != cs.len() || sp.is_plain() || (sp.ns && !sp.has_typedef()) {
            return None;
        }
        Some(sp)
    }

    /// (typedef lines in front of the declaration, the type name the global is declared with)
    pub fn render(&self, i: usize, base: &str) -> (String, String) {
        let q = if self.ns { format!("TN{}::", i) } else { String::new() };
        let mut lines: Vec<String> = Vec::new();
        let mut cur_in = base.to_string();
        let mut cur_out = base.to_string();
        if self.param_td {
            if let (Some(o), true) = (base.find('<'), base.ends_with('>')) {
                lines.push(format!("typedef {} Tp{};", &base[o + 1..base.len() - 1], i));
                cur_in = format!("{}<Tp{}>", &base[..o], i);
                cur_out = format!("{}<{}Tp{}>", &base[..o], q, i);
            }
        }
        for (j, st) in self.steps.iter().enumerate() {
            let name = format!("Ty{}_{}", i, j);
            let dim = st.dim.map(|n| format!("[{}]", n)).unwrap_or_default();
            lines.push(format!("typedef {}{} {}{};", if st.is_const { "const " } else { "" }, cur_in, name, dim));
            cur_in = name.clone();
            cur_out = format!("{}{}", q, name);
        }
        let text = if lines.is_empty() {
            String::new()
        } else if self.ns {
            format!("namespace TN{} {{ {} }}\n", i, lines.join(" "))
        } else {
            format!("{}\n", lines.join("\n"))
        };
        (text, cur_out)
    }
}

#[derive(Clone, Debug)]
pub struct XRes {
    pub name: String,
    pub kind: String,
    pub group: Option<u32>,
    pub arr: ArrLen,
    pub ss: bool,
    pub bl: bool,
    pub stat: bool,
    pub empty: bool,
    pub gspell: GSpell,
    pub reg_index: Option<u32>,
    pub vk_index: Option<u32>,
    pub sprops: u32,
    pub ns: bool,
    pub spell: Spelling,
    pub joined: bool,
}

impl XRes {
    /// what the attributes in front of a declaration say about the bind group (shared by all its declarators)
    pub fn attr_group(&self) -> Option<(GSpell, u32)> {
        match (self.gspell, self.group) {
            (GSpell::Reg, _) | (_, None) => None,
            (s, Some(g)) => Some((s, g)),
        }
    }

    /// may `self` be a further declarator of the declaration `head` starts
    pub fn joins(&self, head: &XRes) -> bool {
        self.kind == head.kind
            && self.kind != "cbuffer"
            && self.stat == head.stat
            && self.spell == head.spell
            && self.bl == head.bl
            && !self.ns
            && !head.ns
            && self.vk_index == head.vk_index
            && self.attr_group() == head.attr_group()
    }

    /// all array dimensions of the global's type, outermost first: the declarator's, then the typedefs'
    pub fn dims_all(&self) -> Vec<Option<u32>> {
        let mut d: Vec<Option<u32>> = match self.arr {
            ArrLen::No => vec![],
            ArrLen::Sized(n) => vec![Some(n)],
            ArrLen::Unsized => vec![None],
            ArrLen::Nested(a, b) => vec![Some(a), Some(b)],
        };
        d.extend(self.spell.typedef_dims().into_iter().map(Some));
        d
    }

    /// the array shape of the declared type, whatever spelling produced it
    pub fn eff_arr(&self) -> ArrLen {
        let d = self.dims_all();
        match d.as_slice() {
            [] => ArrLen::No,
            [Some(n)] => ArrLen::Sized(*n),
            [None] => ArrLen::Unsized,
            [a, b, ..] => ArrLen::Nested(a.unwrap_or(0), b.unwrap_or(0)),
        }
    }

    pub fn plain(name: &str, kind: &str) -> XRes {
        XRes {
            name: name.into(),
            kind: kind.into(),
            group: None,
            arr: ArrLen::No,
            ss: false,
            bl: false,
            stat: false,
            empty: false,
            gspell: GSpell::Attr,
            reg_index: None,
            vk_index: None,
            sprops: 0,
            ns: false,
            spell: Spelling::default(),
            joined: false,
        }
    }
}

#[derive(Clone, Debug, Default)]
pub struct XFn {
    pub name: String,
    pub stage: Option<String>,
    /// (resource index, shape letter or ' ')
    pub uses: Vec<(usize, char)>,
    pub calls: Vec<usize>,
    pub statics: Vec<usize>,
    pub threads: Option<(u32, u32, u32)>,
    /// helpers: returns int
    pub ret: bool,
    /// helpers: resources read by default parameter values
    pub dflt: Vec<usize>,
    /// entries: s_init globals touched
    pub inits: Vec<usize>,
    /// entries: spelling of numthreads
    pub nt: u32,
    /// a forward declaration precedes all function definitions
    pub fd: bool,
    /// helpers: the default values stand on the forward declaration only
    pub po: bool,
    /// helpers: member function of a struct / function template
    pub hm: bool,
    pub ht: bool,
    /// entries: the entry point is a function template (no stage property can name it)
    pub tp: bool,
    /// entries: an overload of the same name is defined at the end of the file
    pub lo: bool,
}

#[derive(Clone, Debug, Default)]
pub struct XInit {
    pub uses: Vec<usize>,
    pub calls: Vec<usize>,
    pub prev: Vec<usize>,
    pub statics: Vec<usize>,
}

/// an entry point definition or a `Pipeline` block (by index)
#[derive(Clone, Copy, PartialEq, Debug)]
pub enum Root {
    Entry(usize),
    Pipe(usize),
}

/// the function a stage property denotes
#[derive(Clone, Copy, PartialEq, Debug)]
pub enum StageFn {
    Entry(usize),
    Helper(usize),
}

#[derive(Clone, Debug)]
pub struct XPipe {
    pub name: String,
    pub dflt: Option<u32>,
    pub stages: Vec<usize>,
    pub gstate: u32,
    pub dexpr: bool,
    /// the block precedes the entry point definitions it would otherwise follow
    pub before: bool,
    /// the first stage property names its entry point `::<name>`
    pub qual: bool,
}

#[derive(Clone, Debug)]
pub struct Case {
    pub nstatics: usize,
    pub layout: u8,
    pub inits: Vec<XInit>,
    pub res: Vec<XRes>,
    pub helpers: Vec<XFn>,
    pub entries: Vec<XFn>,
    pub pipes: Vec<XPipe>,
}

pub const EXTRA_KINDS: &[(&str, &str)] = &[
    ("RWTexture2DArray", "RWTexture2DArray<float4>"),
    ("TextureCubeArray", "TextureCubeArray<float4>"),
    ("RaytracingAccelerationStructure", "RaytracingAccelerationStructure"),
    ("struct", "ResS"),
    // an object type that is no resource: never bound (since fix 774c0b4 the allocator leaves it alone instead of
    // panicking on DirectX); both exporters refuse the module with UnsupportedObjectType
    ("RayDesc", "RayDesc"),
];

/// statement shapes a resource mention can be wrapped in (each exercises another arm of the usage analysis)
pub const SHAPES: &[char] = &['i', 'e', 'f', 'g', 'w', 'd', 's', 't', 'c', 'b', 'v', 'a', 'm', 'z', 'k', 'q'];

pub fn type_of_kind(kind: &str) -> Option<&'static str> {
    progen::RES_KINDS.iter().chain(EXTRA_KINDS.iter()).find(|(k, _)| *k == kind).map(|(_, t)| *t)
}

/// register letter HLSL wants for a declaration of this kind (written independently of the compiler's table)
pub fn register_letter(kind: &str) -> char {
    match kind {
        "cbuffer" | "ConstantBuffer" => 'b',
        "SamplerState" | "SamplerComparisonState" => 's',
        k if k.starts_with("RW") => 'u',
        _ => 't',
    }
}

pub fn from_program(p: &progen::Program) -> Case {
    let f = |f: &progen::Func, stage: Option<&str>, threads| XFn {
        name: f.name.clone(),
        stage: stage.map(|s| s.to_string()),
        uses: f.uses.iter().map(|u| (*u, ' ')).collect(),
        calls: f.calls.clone(),
        statics: f.statics.clone(),
        threads,
        ..Default::default()
    };
    Case {
        nstatics: p.nstatics,
        layout: p.layout,
        inits: Vec::new(),
        res: p
            .resources
            .iter()
            .map(|r| XRes {
                group: r.group,
                arr: match r.len {
                    Some(n) => ArrLen::Sized(n),
                    None => ArrLen::No,
                },
                ss: r.static_sampler,
                bl: r.bindless,
                empty: r.empty,
                ..XRes::plain(&r.name, &r.kind)
            })
            .collect(),
        helpers: p.helpers.iter().map(|h| f(h, None, None)).collect(),
        entries: p.entries.iter().map(|e| f(&e.func, Some(e.stage), e.threads)).collect(),
        pipes: p
            .pipes
            .iter()
            .map(|pp| XPipe { name: pp.name.clone(), dflt: pp.default_group, stages: pp.stages.clone(), gstate: 0, dexpr: false, before: false, qual: false })
            .collect(),
    }
}

pub fn join_idx(v: &[usize]) -> String {
    v.iter().map(|x| x.to_string()).collect::<Vec<_>>().join(",")
}

fn join_uses(v: &[(usize, char)]) -> String {
    v.iter().map(|(x, s)| if *s == ' ' { x.to_string() } else { format!("{}{}", x, s) }).collect::<Vec<_>>().join(",")
}

pub fn opt_u32(v: Option<u32>) -> String {
    v.map(|x| x.to_string()).unwrap_or_else(|| "-".into())
}

pub fn threads_str(t: Option<(u32, u32, u32)>) -> String {
    match t {
        Some((x, y, z)) => format!("{}.{}.{}", x, y, z),
        None => "-".into(),
    }
}

fn with_opts(base: String, opts: Vec<String>) -> String {
    if opts.is_empty() { base } else { format!("{}:{}", base, opts.join("+")) }
}

impl Case {
    pub fn encode(&self) -> String {
        let mut g = self.nstatics.to_string();
        if self.layout == 1 {
            g.push_str(";L1");
        }
        for i in &self.inits {
            g.push_str(&format!(";I{}:{}:{}:{}", join_idx(&i.uses), join_idx(&i.calls), join_idx(&i.prev), join_idx(&i.statics)));
        }
        let rs: Vec<String> = self
            .res
            .iter()
            .map(|r| {
                let base = format!(
                    "{}:{}:{}:{}:{}:{}:{}",
                    r.name,
                    r.kind,
                    opt_u32(r.group),
                    match r.arr {
                        ArrLen::No => "-".to_string(),
                        ArrLen::Sized(n) => n.to_string(),
                        ArrLen::Unsized => "u".to_string(),
                        ArrLen::Nested(a, b) => format!("{}x{}", a, b),
                    },
                    r.ss as u8,
                    r.bl as u8,
                    if r.stat { "s" } else { "e" }
                );
                let mut o = Vec::new();
                if r.empty {
                    o.push("E".to_string());
                }
                match r.gspell {
                    GSpell::Attr => {}
                    GSpell::Reg => o.push("gr".into()),
                    GSpell::Vk => o.push("gv".into()),
                    GSpell::Over => o.push("go".into()),
                }
                if let Some(k) = r.reg_index {
                    o.push(format!("ri{}", k));
                }
                if let Some(k) = r.vk_index {
                    o.push(format!("vi{}", k));
                }
                if r.sprops != 0 {
                    o.push(format!("sp{}", r.sprops));
                }
                if r.ns {
                    o.push("ns".into());
                }
                if !r.spell.is_plain() {
                    o.push(r.spell.encode());
                }
                if r.joined {
                    o.push("j".into());
                }
                with_opts(base, o)
            })
            .collect();
        let hs: Vec<String> = self
            .helpers
            .iter()
            .map(|h| {
                let base = format!("{}:{}:{}:{}", h.name, join_uses(&h.uses), join_idx(&h.calls), join_idx(&h.statics));
                let mut o = Vec::new();
                if h.ret {
                    o.push("r".to_string());
                }
                if !h.dflt.is_empty() {
                    o.push(format!("d{}", join_idx(&h.dflt)));
                }
                if h.fd {
                    o.push("fd".to_string());
                }
                if h.po {
                    o.push("po".to_string());
                }
                if h.hm {
                    o.push("hm".to_string());
                }
                if h.ht {
                    o.push("ht".to_string());
                }
                with_opts(base, o)
            })
            .collect();
        let es: Vec<String> = self
            .entries
            .iter()
            .map(|e| {
                let base = format!(
                    "{}:{}:{}:{}:{}:{}",
                    e.name,
                    e.stage.clone().unwrap_or_default(),
                    join_uses(&e.uses),
                    join_idx(&e.calls),
                    join_idx(&e.statics),
                    threads_str(e.threads)
                );
                let mut o = Vec::new();
                if !e.inits.is_empty() {
                    o.push(format!("i{}", join_idx(&e.inits)));
                }
                if e.nt != 0 {
                    o.push(format!("nt{}", e.nt));
                }
                if e.fd {
                    o.push("fd".to_string());
                }
                if e.lo {
                    o.push("lo".to_string());
                }
                if e.tp {
                    o.push("tp".to_string());
                }
                with_opts(base, o)
            })
            .collect();
        let ps: Vec<String> = self
            .pipes
            .iter()
            .map(|p| {
                let base = format!("{}:{}:{}", p.name, opt_u32(p.dflt), join_idx(&p.stages));
                let mut o = Vec::new();
                if p.gstate != 0 {
                    // gs: the set holds a property only a graphics pipeline may carry; gb: blend state blocks only
                    o.push(format!("{}{}", if super::state::graphics_props_strict(p.gstate) { "gs" } else { "gb" }, p.gstate));
                }
                if p.dexpr {
                    o.push("de".to_string());
                }
                if p.before {
                    o.push("b".to_string());
                }
                if p.qual {
                    o.push("q".to_string());
                }
                with_opts(base, o)
            })
            .collect();
        format!("{}\t{}\t{}\t{}\t{}", g, rs.join(";"), hs.join(";"), es.join(";"), ps.join(";"))
    }

    pub fn decode(f: &[&str]) -> Option<Case> {
        fn idx(s: &str) -> Option<Vec<usize>> {
            if s.is_empty() {
                return Some(Vec::new());
            }
            s.split(',').map(|x| x.parse().ok()).collect()
        }
        fn uses(s: &str) -> Option<Vec<(usize, char)>> {
            if s.is_empty() {
                return Some(Vec::new());
            }
            s.split(',')
                .map(|x| {
                    let last = x.chars().last()?;
                    if last.is_ascii_digit() {
                        Some((x.parse().ok()?, ' '))
                    } else if SHAPES.contains(&last) {
                        Some((x[..x.len() - 1].parse().ok()?, last))
                    } else {
                        None
                    }
                })
                .collect()
        }
        fn items(s: &str) -> Vec<&str> {
            if s.is_empty() { Vec::new() } else { s.split(';').collect() }
        }
        fn optn(s: &str) -> Option<Option<u32>> {
            if s == "-" { Some(None) } else { s.parse().ok().map(Some) }
        }
        fn opts(p: &[&str], n: usize) -> Option<Vec<String>> {
            if p.len() == n {
                Some(Vec::new())
            } else if p.len() == n + 1 && !p[n].is_empty() {
                Some(p[n].split('+').map(|s| s.to_string()).collect())
            } else {
                None
            }
        }
        if f.len() != 5 {
            return None;
        }
        let gparts: Vec<&str> = f[0].split(';').collect();
        let nstatics: usize = gparts[0].parse().ok()?;
        let mut layout = 0;
        let mut inits = Vec::new();
        for gp in &gparts[1..] {
            if *gp == "L1" {
                layout = 1;
            } else if let Some(rest) = gp.strip_prefix('I') {
                let q: Vec<&str> = rest.split(':').collect();
                if q.len() != 4 {
                    return None;
                }
                inits.push(XInit { uses: idx(q[0])?, calls: idx(q[1])?, prev: idx(q[2])?, statics: idx(q[3])? });
            } else {
                return None;
            }
        }
        let mut res = Vec::new();
        for it in items(f[1]) {
            let p: Vec<&str> = it.split(':').collect();
            if p.len() < 7 {
                return None;
            }
            type_of_kind(p[1])?;
            let mut r = XRes::plain(p[0], p[1]);
            r.group = optn(p[2])?;
            r.arr = match p[3] {
                "-" => ArrLen::No,
                "u" => ArrLen::Unsized,
                n if n.contains('x') => {
                    let d: Vec<&str> = n.split('x').collect();
                    if d.len() != 2 {
                        return None;
                    }
                    ArrLen::Nested(d[0].parse().ok()?, d[1].parse().ok()?)
                }
                n => ArrLen::Sized(n.parse().ok()?),
            };
            r.ss = p[4] == "1";
            r.bl = p[5] == "1";
            r.stat = p[6] == "s";
            for o in opts(&p, 7)? {
                match o.as_str() {
                    "E" => r.empty = true,
                    "gr" => r.gspell = GSpell::Reg,
                    "gv" => r.gspell = GSpell::Vk,
                    "go" => r.gspell = GSpell::Over,
                    "ns" => r.ns = true,
                    "j" => r.joined = true,
                    s if s.starts_with("ri") => r.reg_index = Some(s[2..].parse().ok()?),
                    s if s.starts_with("vi") => r.vk_index = Some(s[2..].parse().ok()?),
                    s if s.starts_with("sp") => r.sprops = s[2..].parse().ok()?,
                    s if s.starts_with('T') => r.spell = Spelling::decode(&s[1..])?,
                    _ => return None,
                }
            }
            if r.empty && r.kind != "cbuffer" {
                return None;
            }
            if !r.spell.is_plain() {
                let has_reg = r.reg_index.is_some() || (r.group.is_some() && matches!(r.gspell, GSpell::Reg | GSpell::Over));
                // a cbuffer block has no type; `static extern` is a modifier conflict; a template argument needs a template;
                // `register(..)` is refused on a typedef'd array (the typer looks for the object under one modifier of the
                // *named* type: seen, not C05's); a static sampler is one sampler
                if r.kind == "cbuffer"
                    || (r.spell.extern_kw && r.stat)
                    || (r.spell.param_td && !type_of_kind(&r.kind)?.ends_with('>'))
                    || (!r.spell.typedef_dims().is_empty() && (has_reg || r.ss))
                {
                    return None;
                }
            }
            // a struct or a multi-dimensional array accepts no register annotation
            if (r.kind == "struct" || matches!(r.arr, ArrLen::Nested(..))) && (r.reg_index.is_some() || matches!(r.gspell, GSpell::Reg | GSpell::Over)) {
                return None;
            }
            if r.joined && !res.last().is_some_and(|h: &XRes| r.joins(h)) {
                return None;
            }
            res.push(r);
        }
        let mut helpers = Vec::new();
        for it in items(f[2]) {
            let p: Vec<&str> = it.split(':').collect();
            if p.len() < 4 {
                return None;
            }
            let mut h = XFn { name: p[0].to_string(), uses: uses(p[1])?, calls: idx(p[2])?, statics: idx(p[3])?, ..Default::default() };
            for o in opts(&p, 4)? {
                match o.as_str() {
                    "r" => h.ret = true,
                    "fd" => h.fd = true,
                    "po" => h.po = true,
                    "hm" => h.hm = true,
                    "ht" => h.ht = true,
                    s if s.starts_with('d') => h.dflt = idx(&s[1..])?,
                    _ => return None,
                }
            }
            // default values written on a forward declaration ONLY are lost by the compiler (recorded finding): `po`
            if h.po && !(h.fd && !h.dflt.is_empty()) {
                return None;
            }
            // a member function / a template is written in one piece, without overloads
            if h.hm || h.ht {
                return None; // reserved: member functions / function templates as helpers are not rendered yet
            }
            helpers.push(h);
        }
        let mut entries = Vec::new();
        for it in items(f[3]) {
            let p: Vec<&str> = it.split(':').collect();
            if p.len() < 6 {
                return None;
            }
            let threads = if p[5] == "-" {
                None
            } else {
                let t: Vec<u32> = p[5].split('.').filter_map(|x| x.parse().ok()).collect();
                if t.len() != 3 {
                    return None;
                }
                Some((t[0], t[1], t[2]))
            };
            if !["Compute", "Vertex", "Pixel", "Mesh", "Task"].contains(&p[1]) {
                return None;
            }
            let mut e = XFn {
                name: p[0].to_string(),
                stage: Some(p[1].to_string()),
                uses: uses(p[2])?,
                calls: idx(p[3])?,
                statics: idx(p[4])?,
                threads,
                ..Default::default()
            };
            for o in opts(&p, 6)? {
                match o.as_str() {
                    "fd" => e.fd = true,
                    "lo" => e.lo = true,
                    "tp" => e.tp = true,
                    s if s.starts_with("nt") => e.nt = s[2..].parse().ok()?,
                    s if s.starts_with('i') => e.inits = idx(&s[1..])?,
                    _ => return None,
                }
            }
            if e.nt > 4 || (e.nt != 0 && e.threads.is_none()) || (e.nt == 4 && !e.fd) || (e.tp && (e.fd || e.lo)) {
                return None;
            }
            entries.push(e);
        }
        let mut pipes = Vec::new();
        for it in items(f[4]) {
            let p: Vec<&str> = it.split(':').collect();
            if p.len() < 3 {
                return None;
            }
            let mut pp = XPipe { name: p[0].to_string(), dflt: optn(p[1])?, stages: idx(p[2])?, gstate: 0, dexpr: false, before: false, qual: false };
            for o in opts(&p, 3)? {
                match o.as_str() {
                    "de" => pp.dexpr = true,
                    "b" => pp.before = true,
                    "q" => pp.qual = true,
                    s if s.starts_with("gs") || s.starts_with("gb") => {
                        pp.gstate = s[2..].parse().ok()?;
                        if pp.gstate == 0 || super::state::graphics_props_strict(pp.gstate) != s.starts_with("gs") {
                            return None;
                        }
                    }
                    _ => return None,
                }
            }
            if (pp.dexpr && pp.dflt.is_none()) || (pp.qual && pp.stages.is_empty()) {
                return None;
            }
            pipes.push(pp);
        }
        let c = Case { nstatics, layout, inits, res, helpers, entries, pipes };
        // indices must be in range (requests may come from the shrinker / the search)
        let nr = c.res.len();
        let value_ok = |u: &usize| *u < nr && c.value_expr(*u).is_some();
        for (i, h) in c.helpers.iter().enumerate() {
            if h.uses.iter().any(|u| u.0 >= nr)
                || h.calls.iter().any(|k| *k >= i)
                || h.statics.iter().any(|k| *k >= nstatics)
                || !h.dflt.iter().all(value_ok)
            {
                return None;
            }
        }
        for (k, i) in c.inits.iter().enumerate() {
            if !i.uses.iter().all(value_ok)
                || i.calls.iter().any(|h| *h >= c.helpers.len() || !c.helpers[*h].ret)
                || i.prev.iter().any(|j| *j >= k)
                || i.statics.iter().any(|j| *j >= nstatics)
            {
                return None;
            }
        }
        for e in &c.entries {
            if e.uses.iter().any(|u| u.0 >= nr)
                || e.calls.iter().any(|k| *k >= c.helpers.len())
                || e.statics.iter().any(|k| *k >= nstatics)
                || e.inits.iter().any(|k| *k >= c.inits.len())
            {
                return None;
            }
        }
        for p in &c.pipes {
            if p.stages.iter().any(|k| *k >= c.entries.len()) {
                return None;
            }
        }
        // a function template as entry point: only in files that name it in a stage property (always refused)
        for (k, e) in c.entries.iter().enumerate() {
            if e.tp && !c.pipes.iter().any(|p| p.stages.contains(&k)) {
                return None;
            }
        }
        Some(c)
    }

    /// helpers that share a name are overloads told apart by their number of int parameters
    fn overload_arity(&self, h: usize) -> usize {
        self.helpers[..h].iter().filter(|x| x.name == self.helpers[h].name).count()
    }

    /// the expression that names resource `r` (None: the declaration offers nothing to mention)
    pub fn mention(&self, r: usize) -> Option<String> {
        let res = &self.res[r];
        let q = if res.ns { format!("NS{}::", r) } else { String::new() };
        if res.kind == "cbuffer" {
            return if res.empty { None } else { Some(format!("{}{}_v", q, res.name)) };
        }
        let mut s = format!("{}{}", q, res.name);
        for _ in res.dims_all() {
            s.push_str("[0u]");
        }
        if res.kind == "struct" {
            s.push_str(".t");
        }
        Some(s)
    }

    /// an int-valued expression that reads resource `r`, for default arguments and global initialisers
    pub fn value_expr(&self, r: usize) -> Option<String> {
        let res = &self.res[r];
        if res.stat || res.ss || matches!(res.eff_arr(), ArrLen::Unsized | ArrLen::Nested(..)) {
            return None;
        }
        let m = self.mention(r)?;
        match res.kind.as_str() {
            "cbuffer" => Some(format!("(int){}.x", m)),
            "ConstantBuffer" => Some(format!("(int){}.v.x", m)),
            "ByteAddressBuffer" | "RWByteAddressBuffer" => Some(format!("(int){}.Load(0)", m)),
            "Texture2D" => Some(format!("(int){}.Load(int3(0, 0, 0)).x", m)),
            "StructuredBuffer" | "RWStructuredBuffer" => Some(format!("(int){}.Load(0).x", m)),
            _ => None,
        }
    }

    fn use_stmt(&self, r: usize, shape: char, n: usize) -> String {
        let Some(x) = self.mention(r) else { return String::new() };
        let res = &self.res[r];
        match shape {
            'i' => format!("    if (({}, true)) {{ }}\n", x),
            'e' => format!("    if (({}, false)) {{ }} else {{ {}; }}\n", x, x),
            'f' => format!("    for (int lv{} = ({}, 0); lv{} < 1; ++lv{}) {{ }}\n", n, x, n, n),
            'g' => format!("    for (({}, 0); false; ({}, 0)) {{ }}\n", x, x),
            'w' => format!("    while (({}, false)) {{ }}\n", x),
            'd' => format!("    do {{ }} while (({}, false));\n", x),
            's' => format!("    switch (({}, 1)) {{ case 1: break; default: break; }}\n", x),
            't' => format!("    true ? ({}, 1) : 2;\n", x),
            'c' => format!("    (int)({}, 1);\n", x),
            'b' => format!("    {{ {}; }}\n", x),
            'v' => format!("    int lv{} = ({}, 1);\n", n, x),
            'a' => format!("    int lv{}[2] = {{ ({}, 1), 2 }};\n", n, x),
            'm' if res.kind == "Texture2D" && !res.stat => format!("    {}.Load(int3(0, 0, 0));\n", x),
            // (`.mips[..][..]` = Expression::ObjectMember and matrix swizzles are refused by the Metal exporter --
            // ComplexResourceSubscript / UnimplementedMatrixSwizzle -- and HLSL reports every binding used: no shape)
            // statements without sub-expressions (empty for-init, continue, break) before the mention
            'k' => format!("    for (;;) {{ if (false) {{ continue; }} {}; break; }}\n", x),
            // sizeof next to the mention
            'q' => format!("    int lv{} = (sizeof(int), ({}, 1));\n", n, x),
            'z' if res.kind == "cbuffer" => format!("    {}.x;\n", x),
            'z' if res.kind == "ConstantBuffer" => format!("    {}.v.x;\n", x),
            _ => format!("    {};\n", x),
        }
    }

    fn body(&self, f: &XFn) -> String {
        let mut s = String::new();
        for (n, (r, shape)) in f.uses.iter().enumerate() {
            s.push_str(&self.use_stmt(*r, *shape, n));
        }
        for h in &f.calls {
            let zeros: Vec<&str> = (0..self.overload_arity(*h)).map(|_| "0").collect();
            s.push_str(&format!("    {}({});\n", self.helpers[*h].name, zeros.join(", ")));
        }
        for k in &f.statics {
            s.push_str(&format!("    s_value{} = s_value{} + 1;\n", k, k));
        }
        for k in &f.inits {
            s.push_str(&format!("    s_init{} = s_init{} + 1;\n", k, k));
        }
        s
    }

    /// the numthreads attributes of entry `k`, as written on its forward declaration (`decl`) or on its definition
    fn numthreads_attr(&self, k: usize, e: &XFn, decl: bool) -> String {
        let Some(t) = e.threads else { return String::new() };
        match e.nt {
            1 => format!("[numthreads(c_nt{}, {}, {})]\n", k, t.1, t.2),
            2 => format!("[numthreads(c_nt{} * 1, ({} + 1) - 1, {})]\n", k, t.1, t.2),
            3 => format!("[numthreads({}, {}, {})]\n[numthreads({}, {}, {})]\n", t.0 + 1, t.1, t.2, t.0, t.1, t.2),
            4 if decl => format!("[numthreads({}, {}, {})]\n[numthreads({}, {}, {})]\n", t.0 + 1, t.1, t.2, t.0, t.1, t.2),
            _ => format!("[numthreads({}, {}, {})]\n", t.0, t.1, t.2),
        }
    }

    /// one declaration: resource `i` and the resources joined to it as further declarators
    fn render_resource(&self, i: usize, r: &XRes, s: &mut String) {
        let (typedefs, type_name) = match type_of_kind(&r.kind) {
            Some(t) if r.kind != "cbuffer" => r.spell.render(i, t),
            _ => (String::new(), String::new()),
        };
        s.push_str(&typedefs);
        if r.ns {
            s.push_str(&format!("namespace NS{} {{ ", i));
        }
        if r.bl {
            s.push_str("[[rssl::bindless]] ");
        }
        let reg = |x: &XRes, index: Option<u32>, space: Option<u32>| -> String {
            let letter = register_letter(&x.kind);
            let mut parts = Vec::new();
            if let Some(k) = index {
                parts.push(format!("{}{}", letter, k));
            }
            if let Some(g) = space {
                parts.push(format!("space{}", g));
            }
            if parts.is_empty() { String::new() } else { format!(" : register({})", parts.join(", ")) }
        };
        // the register annotation of one declarator
        let suffix_of = |x: &XRes| -> String {
            match (x.gspell, x.group) {
                (GSpell::Reg, Some(g)) => reg(x, x.reg_index, Some(g)),
                (GSpell::Over, Some(g)) => reg(x, x.reg_index, Some(g + 1)),
                _ => reg(x, x.reg_index, None),
            }
        };
        match (r.gspell, r.group) {
            (GSpell::Attr, Some(g)) | (GSpell::Over, Some(g)) => s.push_str(&format!("[[rssl::bind_group({})]] ", g)),
            (GSpell::Vk, Some(g)) => s.push_str(&format!("[[vk::binding({}, {})]] ", r.vk_index.unwrap_or(0), g)),
            _ => {}
        }
        if let (Some(k), false) = (r.vk_index, r.gspell == GSpell::Vk && r.group.is_some()) {
            s.push_str(&format!("[[vk::binding({})]] ", k));
        }
        if r.kind == "cbuffer" {
            let suffix = suffix_of(r);
            if r.empty {
                s.push_str(&format!("cbuffer {}{} {{}}", r.name, suffix));
            } else {
                s.push_str(&format!("cbuffer {}{} {{ float4 {}_v; }}", r.name, suffix, r.name));
            }
        } else {
            if r.stat {
                s.push_str("static ");
            }
            if r.spell.extern_kw {
                s.push_str("extern ");
            }
            if r.spell.const_kw {
                s.push_str("const ");
            }
            s.push_str(&format!("{} ", type_name));
            let mut k = i;
            loop {
                let x = &self.res[k];
                s.push_str(&x.name);
                match x.arr {
                    ArrLen::No => {}
                    ArrLen::Sized(n) => s.push_str(&format!("[{}]", n)),
                    ArrLen::Unsized => s.push_str("[]"),
                    ArrLen::Nested(a, b) => s.push_str(&format!("[{}][{}]", a, b)),
                }
                s.push_str(&suffix_of(x));
                if x.ss {
                    s.push_str(&format!(" = StaticSampler {{ {} }}", super::state::sampler_props(x.sprops).0));
                }
                k += 1;
                if k < self.res.len() && self.res[k].joined {
                    s.push_str(", ");
                } else {
                    break;
                }
            }
            s.push(';');
        }
        if r.ns {
            s.push_str(" }");
        }
        s.push('\n');
    }

    /// same layout as progen::render (struct CbS; statics; two structs + groupshared payload; resources; helpers;
    /// entry points; pipelines), plus: struct ResS, numthreads constants, s_init globals after the helpers
    pub fn render(&self) -> String {
        let mut s = String::new();
        s.push_str("struct CbS { float4 v; };\nstruct ResS { Texture2D<float4> t; SamplerState s; };\n");
        for k in 0..self.nstatics {
            s.push_str(&format!("static int s_value{} = 0;\n", k));
        }
        for (k, e) in self.entries.iter().enumerate() {
            if let (Some(t), 1 | 2) = (e.threads, e.nt) {
                s.push_str(&format!("static const uint c_nt{} = {};\n", k, t.0));
            }
        }
        s.push_str("struct MeshVertex { float4 position : SV_Position; };\nstruct TaskPayload { uint start_location; };\ngroupshared TaskPayload lds_payload;\n");
        for (i, r) in self.res.iter().enumerate() {
            if !r.joined {
                self.render_resource(i, r, &mut s);
            }
        }
        let helper_sig = |i: usize, h: &XFn, with_defaults: bool| -> String {
            let mut params: Vec<String> = (0..self.overload_arity(i)).map(|k| format!("int p{}", k)).collect();
            for (j, r) in h.dflt.iter().enumerate() {
                if with_defaults {
                    params.push(format!("int d{} = {}", j, self.value_expr(*r).unwrap_or_else(|| "0".into())));
                } else {
                    params.push(format!("int d{}", j));
                }
            }
            format!("{} {}({})", if h.ret { "int" } else { "void" }, h.name, params.join(", "))
        };
        // a mesh entry takes a payload when some pipeline pairs it with a task shader
        let with_payload: BTreeSet<usize> = self
            .pipes
            .iter()
            .filter(|p| p.stages.iter().any(|k| self.entries[*k].stage.as_deref() == Some("Task")))
            .flat_map(|p| p.stages.iter().copied())
            .collect();
        // (attributes, signature, statements after the generated body)
        let entry_sig = |k: usize, decl: bool| -> (String, String, &'static str) {
            let e = &self.entries[k];
            let n = &e.name;
            let nt = self.numthreads_attr(k, e, decl);
            match e.stage.as_deref().unwrap_or("") {
                "Compute" => (nt, format!("void {}(uint3 dtid : SV_DispatchThreadID)", n), ""),
                "Vertex" => (nt, format!("void {}(uint vid : SV_VertexID, out float4 o_pos : SV_Position)", n), "    o_pos = float4(0, 0, 0, 1);\n"),
                "Pixel" => (nt, format!("float4 {}(float4 i_pos : SV_Position) : SV_Target0", n), "    return float4(0, 0, 0, 0);\n"),
                "Task" => (nt, format!("void {}(uint3 dtid : SV_DispatchThreadID)", n), "    lds_payload.start_location = dtid.x;\n    DispatchMesh(4u, 1u, 1u, lds_payload);\n"),
                _ => {
                    let payload = if with_payload.contains(&k) { "    in payload TaskPayload data,\n" } else { "" };
                    (
                        format!("{}[outputtopology(\"triangle\")]\n", nt),
                        format!("void {}(\n    uint3 dtid : SV_DispatchThreadID,\n{}    out vertices MeshVertex o_vertices[64],\n    out indices uint3 o_triangles[64]\n)", n, payload),
                        "    SetMeshOutputCounts(64, 64);\n    MeshVertex vertex;\n    vertex.position = float4(0, 0, 0, 1);\n    o_vertices[dtid.x] = vertex;\n    o_triangles[dtid.x] = uint3(0, 1, 2);\n",
                    )
                }
            }
        };
        // forward declarations
        for (i, h) in self.helpers.iter().enumerate() {
            if h.fd {
                s.push_str(&format!("{};\n", helper_sig(i, h, true)));
            }
        }
        for k in 0..self.entries.len() {
            if self.entries[k].fd {
                let (attrs, sig, _) = entry_sig(k, true);
                s.push_str(&format!("{}{};\n", attrs, sig));
            }
        }
        for (i, h) in self.helpers.iter().enumerate() {
            s.push_str(&format!(
                "{} {{\n{}{}}}\n",
                helper_sig(i, h, !h.po),
                self.body(h),
                if h.ret { "    return 0;\n" } else { "" }
            ));
        }
        for (k, i) in self.inits.iter().enumerate() {
            let mut terms = vec!["0".to_string()];
            for r in &i.uses {
                terms.push(self.value_expr(*r).unwrap_or_else(|| "0".into()));
            }
            for h in &i.calls {
                let zeros: Vec<&str> = (0..self.overload_arity(*h)).map(|_| "0").collect();
                terms.push(format!("{}({})", self.helpers[*h].name, zeros.join(", ")));
            }
            for j in &i.prev {
                terms.push(format!("s_init{}", j));
            }
            for j in &i.statics {
                terms.push(format!("s_value{}", j));
            }
            s.push_str(&format!("static int s_init{} = {};\n", k, terms.join(" + ")));
        }
        let emit_entry = |s: &mut String, k: usize| {
            let (attrs, sig, tail) = entry_sig(k, false);
            if self.entries[k].tp {
                s.push_str("template<typename T>\n");
            }
            s.push_str(&format!("{}{} {{\n{}{}}}\n", attrs, sig, self.body(&self.entries[k]), tail));
        };
        let emit_pipe = |s: &mut String, pipe: &XPipe| {
            s.push_str(&format!("Pipeline {}\n{{\n", pipe.name));
            for (n, k) in pipe.stages.iter().enumerate() {
                let e = &self.entries[*k];
                let q = if pipe.qual && n == 0 { "::" } else { "" };
                s.push_str(&format!("    {}Shader = {}{};\n", e.stage.as_deref().unwrap_or(""), q, e.name));
            }
            if let Some(g) = pipe.dflt {
                if pipe.dexpr {
                    s.push_str(&format!("    DefaultBindGroup = ({} + 2) - 2;\n", g));
                } else {
                    s.push_str(&format!("    DefaultBindGroup = {};\n", g));
                }
            }
            if pipe.gstate != 0 {
                s.push_str(&super::state::graphics_props(pipe.gstate).0);
            }
            s.push_str("}\n");
        };
        for root in self.file_order() {
            match root {
                Root::Entry(k) => emit_entry(&mut s, k),
                Root::Pipe(i) => emit_pipe(&mut s, &self.pipes[i]),
            }
        }
        // late overloads of entry points: registered after every Pipeline block
        for e in self.entries.iter().filter(|e| e.lo) {
            s.push_str(&format!("void {}(int p0) {{\n}}\n", e.name));
        }
        s
    }

    /// the entry point definitions and `Pipeline` blocks in the order the file has them (after the forward
    /// declarations, the helpers and the s_init globals; before the late overloads)
    pub fn file_order(&self) -> Vec<Root> {
        let mut out = Vec::new();
        if self.layout == 1 {
            let mut done = vec![false; self.entries.len()];
            for (i, pipe) in self.pipes.iter().enumerate() {
                if pipe.before {
                    out.push(Root::Pipe(i));
                }
                for k in &pipe.stages {
                    if !done[*k] {
                        done[*k] = true;
                        out.push(Root::Entry(*k));
                    }
                }
                if !pipe.before {
                    out.push(Root::Pipe(i));
                }
            }
            for k in 0..self.entries.len() {
                if !done[k] {
                    out.push(Root::Entry(k));
                }
            }
        } else {
            out.extend((0..self.pipes.len()).filter(|i| self.pipes[*i].before).map(Root::Pipe));
            out.extend((0..self.entries.len()).map(Root::Entry));
            out.extend((0..self.pipes.len()).filter(|i| !self.pipes[*i].before).map(Root::Pipe));
        }
        out
    }

    /// the function a stage property `<Stage>Shader = <name of entry k>` of pipeline `pi` denotes.  A name is resolved
    /// where it is written: among the functions the file has declared so far -- every helper, and the entry points
    /// defined (or forward declared) before the block.  When that is exactly one function with a body, it is the stage's
    /// function (normally entry `k` itself; a helper of that name when the block stands before the entry point's
    /// definition); in every other case the file is refused and the answer does not matter (entry `k`).
    pub fn stage_fn(&self, pi: usize, k: usize) -> StageFn {
        let name = &self.entries[k].name;
        let order = self.file_order();
        let Some(at) = order.iter().position(|r| *r == Root::Pipe(pi)) else { return StageFn::Entry(k) };
        let mut cands: Vec<StageFn> = (0..self.helpers.len()).filter(|h| &self.helpers[*h].name == name).map(StageFn::Helper).collect();
        for (e, x) in self.entries.iter().enumerate() {
            let defined_before = order[..at].contains(&Root::Entry(e));
            if &x.name == name && (defined_before || x.fd) {
                if !defined_before {
                    return StageFn::Entry(k); // declared only: refused
                }
                cands.push(StageFn::Entry(e));
            }
        }
        if cands.len() == 1 { cands[0] } else { StageFn::Entry(k) }
    }

    /// the function behind a stage
    pub fn stage_xfn(&self, f: StageFn) -> &XFn {
        match f {
            StageFn::Entry(k) => &self.entries[k],
            StageFn::Helper(h) => &self.helpers[h],
        }
    }

    /// the functions the stages of pipeline `pi` denote, in property order
    pub fn stage_fns(&self, pi: usize) -> Vec<StageFn> {
        self.pipes[pi].stages.iter().map(|k| self.stage_fn(pi, *k)).collect()
    }

    /// resources some stage entry point of the pipeline can reach (the request's own use graph: bodies, default
    /// parameter values, calls, and the initialisers of the globals on the way)
    pub fn reachable(&self, pipe: Option<&XPipe>) -> BTreeSet<usize> {
        self.reachable_opt(pipe, true)
    }

    /// `proto_defaults` = false: without the default values that stand on a forward declaration only (what the compiler
    /// keeps of them: nothing -- recorded finding)
    pub fn reachable_opt(&self, pipe: Option<&XPipe>, proto_defaults: bool) -> BTreeSet<usize> {
        let mut seen_h = BTreeSet::new();
        let mut seen_i = BTreeSet::new();
        let mut out = BTreeSet::new();
        let mut hstack: Vec<usize> = Vec::new();
        let mut istack: Vec<usize> = Vec::new();
        if let Some(p) = pipe {
            let pi = self.pipes.iter().position(|q| std::ptr::eq(q, p));
            for k in &p.stages {
                // the function the property denotes where the block stands (a helper, when the block precedes the
                // definition of the entry point and a helper has its name)
                match pi.map(|pi| self.stage_fn(pi, *k)).unwrap_or(StageFn::Entry(*k)) {
                    StageFn::Entry(e) => {
                        let e = &self.entries[e];
                        out.extend(e.uses.iter().map(|u| u.0));
                        hstack.extend(e.calls.iter().copied());
                        istack.extend(e.inits.iter().copied());
                    }
                    StageFn::Helper(h) => hstack.push(h),
                }
            }
        }
        loop {
            if let Some(h) = hstack.pop() {
                if seen_h.insert(h) {
                    let f = &self.helpers[h];
                    out.extend(f.uses.iter().map(|u| u.0));
                    if proto_defaults || !f.po {
                        out.extend(f.dflt.iter().copied());
                    }
                    hstack.extend(f.calls.iter().copied());
                }
            } else if let Some(i) = istack.pop() {
                if seen_i.insert(i) {
                    let g = &self.inits[i];
                    out.extend(g.uses.iter().copied());
                    hstack.extend(g.calls.iter().copied());
                    istack.extend(g.prev.iter().copied());
                }
            } else {
                break;
            }
        }
        // a cbuffer without members can not be mentioned at all
        out.retain(|r| self.mention(*r).is_some());
        out
    }
}

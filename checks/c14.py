"""C14 — layout trivia never changes results and diagnostics track source positions."""
import re

T = "RsslVerif.Thm.C14."


def nontrivial(req, obs):
    f = req.split("\t")
    if f[0] == "C14.meta":
        # something was inserted
        return f[5] != "-" and any(len(e.split(":")[1]) > 0 for e in f[5].split(";"))
    if f[0] == "C14.disk":
        return f[4] != "-"
    if f[0] == "C14.lex":
        # something was inserted into a text of at least two tokens
        return f[2] != "-" and obs.count(";") >= 1
    if f[0] in ("C14.locate", "C14.render"):
        # a position inside a file that is not the first line of the first file
        return not obs.startswith("none") and f[1] != "-" and "," in f[1]
    return True


def finding_key(req, obs, detail):
    """[what was inserted where] + failure code; panics by site."""
    m = re.match(r"FAIL:panic ([^:]+):\d+: (.*)$", detail or "")
    if m:
        return "panic %s: %s" % (m.group(1), re.sub(r"\d+", "N", m.group(2)))
    m = re.match(r"FAIL:\[([^\]]*)\] *(.*)$", detail or "")
    if not m:
        return req
    ctx, rest = m.group(1), m.group(2)
    if ctx == "diagnostic names a file that was never loaded":
        nm = re.match(r"'([^']*)'", rest)
        return "diagnostic names a file that was never loaded: " + (nm.group(1) if nm else "?")
    code = rest.split(":")[0] if ":" in rest else rest[:40]
    # insertion context: `<class> at <prev>><next> [dir:x] [macro-call-gap|macro-args]`
    first = ctx.split(";")[0]
    cm = re.match(r"(\S+) at (\S+)(.*)$", first)
    if cm:
        cls, toks, flags = cm.group(1), cm.group(2), cm.group(3).strip()
        # a line break in these two places is one defect each, however it shows (verdict, message, position)
        if "macro-call-gap" in flags and cls == "line-break":
            return "line-break between a function-like macro name and ( of its invocation"
        if "macro-args-empty" in flags and cls == "line-break":
            return "line-break inside the empty argument list of a macro invocation"
        if "swizzled-literal" in flags:
            return "trivia after the . of a swizzled numeric literal"
        return "%s at %s %s: %s" % (cls, toks, flags, code)
    return "%s: %s" % (ctx, code)


def shrink(req):
    f = req.split("\t")
    if f[0] != "C14.meta" or f[5] == "-":
        return
    edits = f[5].split(";")
    if len(edits) > 1:
        for i in range(len(edits)):
            yield "\t".join(f[:5] + [";".join(edits[:i] + edits[i + 1:])] + f[6:])


def search(ctx):
    """small position requests: every offset of a few tiny multi-file managers, rendered and located"""
    out = []
    texts = ["", "a", "\n", "a\nb", "a\n\nb\n", "ab\ncd", "\n\n"]
    hx = lambda s: s.encode().hex()
    for a in texts:
        for b in texts[:5]:
            files = "%s:%s,%s:%s" % (hx("m.rssl"), hx(a), hx("i.rssl"), hx(b))
            for raw in range(len(a) + len(b) + 4):
                out.append("C14.locate\t%s\t%d" % (files, raw))
                out.append("C14.render\t%s\t%d\terror\t%s" % (files, raw, hx("msg")))
    return out


SPEC = {
    "id": "C14",
    "gens": ["SourceMapTables", "LexTables", "MacroTables"],
    "lean_modules": ["RsslVerif.Thm.C14", "RsslVerif.Thm.C12Boundary"],
    "theorems": [T + n for n in [
        "tables_as_modelled", "insert_shift", "line_shift", "line_shift_before", "inline_trivia_shift",
        "lineCol_injective", "lineCol_bounds", "applyEdits_tracks", "include_location", "include_independent_of_includer",
        "sourceLocation_eq", "location_in_range", "line_shift_located", "later_files_unaffected",
        "earlier_files_unaffected", "sourceLine_eq_lineAround", "writeMessage_located", "writeMessage_unlocated",
        "message_render_shift", "boundary_preserved", "trivia_insensitive", "trivia_insensitive_rejected", "toy_lexesAs", "toy_adjacent",
        "toy_distant", "angle_bracket_not_closed", "macro_call_gap_inline_insensitive",
        "macro_call_gap_linebreak_witness", "macro_call_gap_insensitive_if_fixed", "empty_argument_linebreak_witness",
        "trivia_insensitive_if", "trivia_insensitive_rejected_if", "trivia_lexers_as_modelled",
        "trivia_insensitive_lexer", "trivia_insensitive_lexer_rejected", "lexer_failure_moves",
        "lexer_side_conditions_needed", "preprocess_trivia_insensitive_partial",
        "commandline_defines_as_modelled", "commandline_defines_location",
        "macro_resume_as_modelled", "skipAllWs_ws", "scanFrom_skip", "resume_at_region_start_finds_trailing_name",
        "resume_at_region_end_linebreak_witness"]] + [
        # C12's theorem on higher-order invocations (what C14 takes from it: Thm/C14.lean, Part 3b)
        "RsslVerif.Thm.C12.agrees_on_higher_order_invocation",
        # the lemma the lexer theorem rests on (Lemmas/LexStableTok.lean) and the three facts about the concrete lexer
        "RsslVerif.Lemmas.LexStable.tokenIntermediate_stable", "RsslVerif.Lemmas.TriviaLexer.triviaText_lexesAs",
        "RsslVerif.Lemmas.TriviaLexer.adjacent", "RsslVerif.Lemmas.TriviaLexer.distant"],
    "harness": "c14",
    "nontrivial": nontrivial,
    "finding_key": finding_key,
    "shrink": shrink,
    "search": search,
    "rule": "(1) generated shader files (resources, helper call graphs, entry points, pipelines; spread over main.rssl / inc.rssl / "
            "inc2.rssl with #pragma once, object-like, function-like and ## macros, #if/#ifdef/#elif blocks, multi-line macro "
            "calls, <, >, <<, >> and template arguments) and hand-written snippets, accepted and rejected (one injected error "
            "of 16 kinds, in the entry file or an included file); (2) the diagnostics stream: the 104 families of rejected "
            "programs of C07 (every TyperError / ParseError / PreprocessError / LexerError variant reachable), 31 own families "
            "(errors inside macro expansions, notes across files, file shapes: no final newline, #include on the last line, "
            "empty files, CRLF, tabs and UTF-8, splices, bytes that are not white space, trivia next to #, ##, <, >; every "
            "spelling of the defined operator; directives that do nothing or sit in skipped blocks, invalid parameter lists, "
            "header names that wrap; uncalled / mutually recursive / nested function-like macros; higher-order macro "
            "programs (lt_higher_order: a function-like macro name passed as first / last argument and invoked by the text "
            "behind the outer invocation, SELECT(INC)(b), through two levels, nested, through an object-like alias, by the "
            "replacement list, some already written over several lines) with the invocation sweep: EVERY boundary inside a "
            "macro invocation (between name and (, after (, around each comma, before )) and the four boundaries behind it, "
            "each with space / tab / block comment / line comment + line break / bare LF / CRLF / line splice / multi-line "
            "comment on its own (also for lt_macro_shapes); programs compiled with "
            "command-line defines (CompileArgs::defines: used in the entry file and in includes, broken bodies, invalid "
            "defines, redefined / undefined in the source), also 1 in 6 of the generated programs), 105 "
            "single-error programs and the repository's own rejected test inputs; x 4 targets x edits: k in 0..50 whole lines "
            "(blank, comment, whitespace) at a line start, or 1..n trivia insertions (spaces, tabs, block comments with fixed "
            "and random bodies, multi-line block comments, line comment + newline also spliced over lines, blank lines, CRLF, "
            "backslash-newline splices) at token boundaries taken from the real TokenStream (header-name mode after #include), "
            "never directly after < or >, never between a macro name and ( in a #define, not directly after a line comment "
            "(the text would join the comment), a comment after a / token gets a leading space, no logical line break on a "
            "directive line or in front of a stray # ; for rejected programs 9 edits are aimed at the construct each located "
            "message points to (lines before / directly before / after / between two locations / in another file, inline "
            "trivia earlier on the line, trivia directly before, inside, all around); (3) the lexer alone (C14.lex): token "
            "soups and windows of generated files with trivia and near-trivia inserted at real token ends; (4) the repository's "
            "own multi-file inputs; (5) SourceManager / MessagePrinter requests on random multi-file texts. Oracle: accepted "
            "programs give byte-identical source, stages and metadata; rejected programs give the original diagnostic with "
            "every position of every message replaced by the position of the same byte of the edited text (k lines: line + k, "
            "same column, message, file); every message names a loaded file and shows that file's line; the first message of "
            "an injected error and the notes of the nt_* families point into the expected file at the expected construct; for "
            "C14.lex the non-trivia tokens (kind, payload, span) and the lexer's verdict are unchanged whenever the side "
            "conditions of trivia_insensitive_lexer hold. non-trivial = something was inserted / a position beyond the first file",
    "level_text": "Proof: (a) the SourceManager model (files own size+1 consecutive slots; line/column by counting newline bytes) is "
                  "proved, for all texts, insertion points and file lists, to move every later position down by exactly k lines "
                  "with unchanged column and file when k newline-terminated lines are inserted at a line start, to leave earlier "
                  "positions and other files untouched, to decode a position inside an included file to that file's own name "
                  "and line whatever the including files contain (the <define> files that command-line defines are loaded as "
                  "included: commandline_defines_location), and to print distinct positions differently. (b) For the "
                  "byte-level model of preprocess/src/lexer.rs (token_intermediate with every sub-lexer, TokenStream::read_to_end, "
                  "prepare_tokens) it is proved for all texts that inserting any trivia text (spaces, tabs, LF/CRLF, spliced line "
                  "ends, block comments closed at their first */, line comments with their line end) at offset 0 or after any "
                  "token leaves the sequence of non-trivia tokens (kind, payload, spelling) unchanged with spans moved by the "
                  "inserted length, and leaves a rejection a rejection at the moved offset with the same reason - under four side "
                  "conditions stated exactly and each shown necessary on concrete bytes: not after < or >, not after a line "
                  "comment, no / directly before a new /, no swizzled numeric literal (1.xxx) before the insertion. (c) The "
                  "directive state machine of preprocess_included_file is proved to split a token stream into commands and normal "
                  "tokens independently of Whitespace / Comment / PhysicalEndline tokens (partial: what the commands, macro "
                  "expansion, parser and typer then do is tested only). (d) For the scan find_single_macro resumes after an "
                  "expansion it is proved for all token lists that a replaced region ending in a function-like macro name "
                  "followed by any white space, line breaks included, has that name found and invoked by a ( behind the "
                  "region, whatever white space separates them - because the scan starts at the first token of the region "
                  "(early_function_pos = pos, re-read each run; resumed at the last token the line-break case is lost: "
                  "witness); C12's agrees_on_higher_order_invocation is audited here for the invoked-by-the-replacement-list "
                  "half. Constants, format pieces, token tables, the loop shapes "
                  "of block_comment / line_comment, the directive arms and the way command-line defines are loaded (file name, "
                  "contents, offset 0, before the entry file) are re-extracted from the source each run; the models "
                  "are compared with the real SourceManager, MessagePrinter and TokenStream, and with where the real compile() "
                  "puts every message of the diagnostic of an edited program. That every later compiler stage carries token "
                  "spans through is tested (metamorphic run on the real compile over 350+ distinct diagnostics), not proved.",
    "trusted_base": [
        "Lean 4.33 kernel; axioms propext / Classical.choice / Quot.sound only",
        "tools/gens/c14.py: regex extraction of constants, format strings, comment-lexer loop shapes, directive arms and the "
        "command-line define loader, and the resume position of the macro scan (early_function_pos of the User arm, the "
        "start index of find_single_macro, trim_whitespace_end) from text/src/location.rs, errors.rs, tokens.rs, preprocess.rs and lexer.rs; tools/gens/c10.py: keyword / operator / "
        "suffix tables of lexer.rs (Gen.LexTables); tools/gens/c12.py: Gen.MacroTables (searchPositions, read by "
        "macro_resume_as_modelled; the C12 theorem cited rests on the rest of it)",
        "hand-written Model/SourceMap.lean (get_file_location / get_file_offset_from_source_location / write_source_for_error / "
        "write_message) and Model/Lexer.lean (C10's byte-level lexer, used unchanged) behind Model/TriviaLexer.lean; tied to "
        "the code by the correspondence run (C14.locate / srcloc / render / lex) on every check",
        "token boundaries come from the real TokenStream driven the way preprocess_included_file drives it; the insertion rules "
        "beyond the two designed exceptions (not after a line comment, a space between / and a comment, no logical line break "
        "on a directive line or before a stray #) are our reading of 'token boundary' and 'significant by design'",
    ],
    "assumptions": [
        "u32 location arithmetic is modelled by Nat: the sum of all file sizes + file count stays below 2^32 - 1",
        "file contents are valid UTF-8 and diagnostics point at character boundaries (otherwise write_source_for_error panics; "
        "the model reports that panic explicitly)",
        "the lexer theorems are about read_to_end (token_intermediate in normal mode); the header-name mode used for the rest of "
        "an #include line is covered by the metamorphic run only",
        "covered by the correspondence run and its oracle only (inside functions no Lean model transcribes: find_single_macro / "
        "apply_single_macro / preprocess_command / Macro::parse): the defined operator with and without parentheses, "
        "#undef of an unknown name, #pragma warning, directives that are not names inside skipped blocks, invalid macro "
        "parameter lists, macro errors in the text in front of a directive or inside macro arguments, function-like macro "
        "names that are not called, mutually recursive macros, higher-order invocations (only the resumed scan of "
        "find_single_macro is modelled: RTok / scanFrom / resumedScan in Model/Trivia.lean, an abstraction over token kinds "
        "in which 'fnName' stands for the name of an enabled function-like macro other than the one just expanded; argument "
        "splitting and substitution are C12's model); for command-line defines only the position arithmetic is "
        "in the model (their text is lexed by the modelled lexer, Macro::parse and expansion are not modelled)",
        "the text of a command-line define is not edited (it is not a file of the program); a request carries it as a "
        "leading pseudo-file `<define>` = `NAME VALUE` and mode `+defs<n>`",
    ],
}

import RsslVerif.Thm.C05
import RsslVerif.Lemmas.MetaLayers
/-!
# C05, type spellings: descriptor type and count are read off the global's layer chain

Continuation of `Thm/C05.lean` (same namespace).  A global's type is a chain of layers
`[array n]* modifier ([array n]+ modifier?)* object` — the declarator's array layers, the implicit `const` of an extern
global, then whatever the typedef chain it is declared through contributed.  The theorems are about the peel sequences
re-extracted from the source (`Gen.MetaTables.{hlslPeel, mslPeel, allocPeel, bufferAddressTestPeel}`): when a peel is
re-ordered the proofs below stop checking.
-/
namespace RsslVerif.Thm.C05
open RsslVerif.Gen.SlotTables RsslVerif.Gen.MetaTables RsslVerif.Gen.CompileTables
open RsslVerif.Model.Slots RsslVerif.Model.Meta RsslVerif.Spec.Meta RsslVerif.Lemmas.Meta RsslVerif.Lemmas.MetaLayers
open RsslVerif.Lemmas.Slots (ParamsOk paramsFor_ok)

/-- the facts next to the peel sequences: the count is the length of the array layer taken (`Some(1)` without one), the
    allocator's `array_len` likewise (`unwrap_or(1)`), the allocator asks `is_buffer_address` about the declared type;
    the type registry refuses a modifier around a modifier; an extern global is made const; a typedef names the type id
    its declarator built; a declarator wraps its array layers around the base type -/
theorem peel_facts_as_modelled : peelFacts = ⟨true, true, true, true, true, true, true, true⟩ := by decide

/-- **Both `analyse_bindings` read every well-formed layer chain the way the property means it** (`Spec/MetaLayers`):
    the kind is the innermost object when at most one array layer is around it, the array layer is the outermost one —
    wherever modifier layers sit: `Texture2D g[3]` (array of const object), `typedef Texture2D T[3]; T g;` (const array of
    object), `typedef const Texture2D C; typedef C T[3]; T g;` (const array of const object) are the same binding. -/
theorem peels_read_layers : ReadsLayers hlslPeel ∧ ReadsLayers mslPeel :=
  ⟨reads_layers_of_mod_array_mod, reads_layers_of_mod_array_mod⟩

/-- **descriptor_kind_count_from_layers.**  For a global whose type is any well-formed layer chain `t`, the entry either
    exporter registers carries the descriptor type of `specKind t` (the innermost object under at most one array layer;
    `PushConstants` when there is none) and the count `specCount t` (length of the outermost array layer, 1 without);
    and what `process_definition` gives binding slots to is the same object kind over the same array length (nothing for
    an unsized array — the recorded finding). -/
theorem descriptor_kind_count_from_layers {n : String} {s : Option Nat} {ss bl : Bool} {t : Ty} {st : Storage}
    (hwf : Ty.wf t = true) :
    (∀ {b : Binding} {g : Nat} {e : Entry},
      hlslEvent ((TDecl.global n s ss t bl st).toMeta hlslPeel) (some b) = .ok (some (g, e)) →
        descOf hlslDescType hlslNonObjectDescType (specKind t) = .ok e.descType ∧ e.count = specCount t) ∧
    (∀ {u : Bool} {b : Binding} {g : Nat} {e : Entry},
      mslEvent u ((TDecl.global n s ss t bl st).toMeta mslPeel) (some b) = .ok (some (g, e)) →
        descOf mslDescType mslNonObjectDescType (specKind t) = .ok e.descType ∧ e.count = specCount t) ∧
    (TDecl.global n s ss t bl .extern).toSlot allocPeel = .global s ss (specAllocKind t) (specAllocLen t) := by
  obtain ⟨hk, ha⟩ := peels_read_layers.1 t hwf
  obtain ⟨mk, ma⟩ := peels_read_layers.2 t hwf
  refine ⟨?_, ?_, ?_⟩
  · intro b g e h
    simp only [TDecl.toMeta, hk, ha, hlslEvent] at h
    cases hd : descOf hlslDescType hlslNonObjectDescType (specKind t) with
    | error err => simp [hd] at h
    | ok dt =>
      simp only [hd, Except.ok.injEq, Option.some.injEq, Prod.mk.injEq] at h
      obtain ⟨_, rfl⟩ := h
      exact ⟨rfl, countOf_specArr t⟩
  · intro u b g e h
    simp only [TDecl.toMeta, mk, ma, mslEvent] at h
    cases hd : descOf mslDescType mslNonObjectDescType (specKind t) with
    | error err => simp [hd] at h
    | ok dt =>
      simp only [hd] at h
      split at h
      · cases h
      · simp only [Except.ok.injEq, Option.some.injEq, Prod.mk.injEq] at h
        obtain ⟨_, rfl⟩ := h
        exact ⟨rfl, countOf_specArr t⟩
  · have h := toSlot_agree hlslPeel rfl (TDecl.global n s ss t bl .extern)
    have h' : (TDecl.global n s ss t bl .extern).toSlot allocPeel =
        ((TDecl.global n s ss t bl .extern).toMeta hlslPeel).toSlot := h.symm
    rw [h']
    simp only [TDecl.toMeta, hk, ha, MDecl.toSlot, specArr, specAllocKind, specAllocLen]
    cases hdm : Ty.dims t with
    | nil => simp
    | cons d r => cases d <;> simp

/-- **reflection_peel_agrees_with_allocator_peel.**  For every declaration and every layer chain (well-formed or not):
    what `process_definition` sees through *its* peel is what `MDecl.toSlot` computes from what `analyse_bindings` sees
    through its own — same object kind, same array length, except that the allocator does not take an unsized array
    layer; and the two exporters' peels see the same thing.  (The existing module-level theorems are stated over
    `MDecl.toSlot`: this is what makes them theorems about the allocator's real input.) -/
theorem reflection_peel_agrees_with_allocator_peel (d : TDecl) :
    (d.toMeta hlslPeel).toSlot = d.toSlot allocPeel ∧ (d.toMeta mslPeel).toSlot = d.toSlot allocPeel ∧
    d.toMeta mslPeel = d.toMeta hlslPeel :=
  ⟨toSlot_agree hlslPeel rfl d, toSlot_agree mslPeel rfl d, rfl⟩

/-- `TypeRegistry::is_buffer_address(decl.type_id)` — its own one-step peel — holds exactly when the allocator's full
    peel ends at a buffer address kind without having taken an array: the test `isBufferAddress k && len.isNone` of
    C06's `Model.Slots.step` is the real one, for every layer chain -/
theorem buffer_address_test_agrees_with_allocator_peel (t : Ty) :
    isBufferAddressTy t =
      (match (runPeel allocPeel t).kind with
       | some k => isBufferAddress k && !(runPeel allocPeel t).took
       | none => false) :=
  buffer_address_test t

/-- **What the typer builds.**  A global declared as `[const] X g<dims>` where `X` is reached from an object type `k`
    through any chain of `typedef [const] .. X[n]?` has a well-formed chain whose innermost layer is `k` and whose array
    layers are the declarator's followed by the typedefs' (last typedef outermost).  So by
    `descriptor_kind_count_from_layers` its binding is `k` when all spellings together contribute at most one array
    dimension, and its count is the first of them. -/
theorem spelling_kind_count (k : ObjKind) (steps : List TypedefStep) (constKw : Bool) (st : Storage)
    (ds : List (Option Nat)) :
    Ty.wf (globalTy (.object k) steps constKw st ds) = true ∧
    specKind (globalTy (.object k) steps constKw st ds) =
      (if (ds ++ (steps.reverse.filterMap (·.dim)).map some).length ≤ 1 then some k else none) ∧
    specCount (globalTy (.object k) steps constKw st ds) =
      (match ds ++ (steps.reverse.filterMap (·.dim)).map some with | [] => some 1 | d :: _ => d) := by
  obtain ⟨hw, hb, hd⟩ := globalTy_shape k steps constKw st ds
  refine ⟨hw, ?_, ?_⟩
  · unfold specKind; rw [hd, hb]
  · unfold specCount; rw [hd]
    generalize ds ++ (steps.reverse.filterMap (·.dim)).map some = l
    cases l <;> rfl

/-- the typed builders (which peel with the three extracted sequences) are the builders of `Model/Meta` on the peeled
    declarations: every module-level theorem of this file applies to typed modules -/
theorem typed_metadata_is_peeled_metadata (p : Params) (dflt : Nat) (usedAt : Nat → Bool) (hasPipeline : Bool)
    (ds : List TDecl) :
    hlslMetaT p dflt ds = hlslMeta p dflt (ds.map (TDecl.toMeta hlslPeel)) ∧
    mslMetaT p dflt usedAt ds = mslMeta p dflt usedAt (ds.map (TDecl.toMeta mslPeel)) ∧
    mslExportT p dflt usedAt hasPipeline ds = mslExport p dflt usedAt hasPipeline (ds.map (TDecl.toMeta mslPeel)) := by
  have h1 := map_toSlot_agree hlslPeel rfl ds
  have h2 := map_toSlot_agree mslPeel rfl ds
  have ha : allocPeel = [.removeModifier, .takeArray true, .removeModifierAfterArray] := rfl
  refine ⟨?_, ?_, ?_⟩
  · unfold hlslMetaT hlslMeta; rw [h1]; rfl
  · unfold mslMetaT mslMeta; rw [h2]; rfl
  · unfold mslExportT mslExport mslMetaT mslMeta; rw [h2]; rfl

/-- HLSL, typed module: per bind group the entry names are the externally bound declarations (as the allocator's own
    peel decides them), in order -/
theorem meta_bijective_hlsl_typed {p : Params} (hp : ParamsOk p) {dflt : Nat} {ds : List TDecl} {groups : List Group}
    (h : hlslMetaT p dflt ds = .ok groups) (g : Nat) :
    (bindingsAt groups g).map (·.name) = boundNames p dflt g (ds.map (TDecl.toMeta hlslPeel)) := by
  rw [(typed_metadata_is_peeled_metadata p dflt (fun _ => false) false ds).1] at h
  exact meta_bijective_hlsl hp h g

/-- every typed module, both exporters: a description or one of the clean refusals -/
theorem typed_export_total_or_refused {p : Params} (hp : ParamsOk p) (hsba : p.supportBufferAddress = false) (dflt : Nat)
    (usedAt : Nat → Bool) (hasPipeline : Bool) (ds : List TDecl) :
    ((∃ groups, hlslMetaT p dflt ds = .ok groups) ∨ hlslMetaT p dflt ds = .error "UnsupportedObjectType") ∧
    ((∃ groups, mslExportT p dflt usedAt hasPipeline ds = .ok groups) ∨
      mslExportT p dflt usedAt hasPipeline ds = .error "UnsupportedObjectType" ∨
      mslExportT p dflt usedAt hasPipeline ds = .error "UnsupportedBindGroupIndex" ∨
      mslExportT p dflt usedAt hasPipeline ds = .error "UnboundGlobal") := by
  obtain ⟨h1, _, h3⟩ := typed_metadata_is_peeled_metadata p dflt usedAt hasPipeline ds
  rw [h1, h3]
  exact ⟨hlsl_metadata_total_or_refused hp dflt _, msl_export_total_or_refused hsba dflt usedAt hasPipeline _⟩

/-! Non-vacuity and sensitivity. -/

/-- the seeded shape `typedef Texture2D<float4> TextureTable[3]; TextureTable g_table;` = const array of object -/
def typedefTable : Ty := globalTy (.object .Texture2D) [⟨false, some 3⟩] false .extern []

example : typedefTable = .modifier (.array (.object .Texture2D) (some 3)) := by decide
example : Ty.wf typedefTable = true ∧ specKind typedefTable = some .Texture2D ∧ specCount typedefTable = some 3 := by decide
example : hlslEvent ((TDecl.global "g_table" none false typedefTable false .extern).toMeta hlslPeel) (some ⟨0, .index 0, some .T⟩) =
    .ok (some (0, ⟨"g_table", .index 0, .Texture2d, some 3, false, true, false⟩)) := by rfl

/-- `typedef const Texture2D<float4> C; typedef C A[2]; A g[4];` — array of const array of const object: two array layers,
    no binding (the recorded 2-D finding), count of the outer layer -/
example : globalTy (.object .Texture2D) [⟨true, none⟩, ⟨false, some 2⟩] false .extern [some 4] =
      .array (.modifier (.array (.modifier (.object .Texture2D)) (some 2))) (some 4) ∧
    specKind (globalTy (.object .Texture2D) [⟨true, none⟩, ⟨false, some 2⟩] false .extern [some 4]) = none := by decide

/-- **Sensitivity witness: the order matters.**  A peel that takes the array layer first and removes one modifier
    afterwards (seeded mutant C05-3) reads the typedef'd table as a non-object with count 1, while it agrees with the real
    order on `Texture2D g[3]` and on `typedef Texture2D T; T g;` -/
theorem array_first_peel_misreads_typedef_arrays_witness :
    let bad : List PeelOp := [.takeArray false, .removeModifier]
    ((runPeel bad typedefTable).kind, (runPeel bad typedefTable).arr) = (none, Arr.no) ∧
    ((runPeel hlslPeel typedefTable).kind, (runPeel hlslPeel typedefTable).arr) = (some .Texture2D, Arr.sized 3) ∧
    runPeel bad (globalTy (.object .Texture2D) [] false .extern [some 3]) =
      runPeel hlslPeel (globalTy (.object .Texture2D) [] false .extern [some 3]) ∧
    runPeel bad (globalTy (.object .Texture2D) [⟨false, none⟩] false .extern []) =
      runPeel hlslPeel (globalTy (.object .Texture2D) [⟨false, none⟩] false .extern []) := by decide

/-- without the registry's invariant the peels do not read a chain: a modifier around a modifier hides the object -/
example : Ty.wf (.modifier (.modifier (.object .Texture2D))) = false ∧
    (runPeel hlslPeel (.modifier (.modifier (.object .Texture2D)))).kind = none := by decide

/-- buffer addresses: `typedef BufferAddress BA; BA g;` is an inline constant candidate, `typedef BufferAddress A[2]; A g;`
    and `BA g[2];` are not -/
example : isBufferAddressTy (globalTy (.object .BufferAddress) [⟨false, none⟩] false .extern []) = true ∧
    isBufferAddressTy (globalTy (.object .BufferAddress) [⟨false, some 2⟩] false .extern []) = false ∧
    isBufferAddressTy (globalTy (.object .BufferAddress) [⟨false, none⟩] false .extern [some 2]) = false := by decide

/-- a typed module through both typed builders -/
def exampleTyped : List TDecl :=
  [ .cbuffer "g_cb" none, .global "g_table" none false typedefTable false .extern,
    .global "g_c" none false (globalTy (.object .StructuredBuffer) [⟨true, none⟩] false .extern [some 2]) false .extern,
    .global "g_s" none false (globalTy (.object .Texture2D) [] false .static []) false .static ]

example : ((hlslMetaT (paramsFor .HlslForDirectX false) 0 exampleTyped).toOption.map
      (·.map fun g => g.bindings.map fun e => (e.name, e.loc, e.descType, e.count))) =
    some [[("g_cb", .index 0, .ConstantBuffer, some 1), ("g_table", .index 1, .Texture2d, some 3),
           ("g_c", .index 4, .StructuredBuffer, some 2)]] := by rfl

example : ((mslExportT (paramsFor .Msl false) 0 (fun _ => true) true exampleTyped).toOption.map
      (·.map fun g => g.bindings.map fun e => (e.name, e.loc, e.count))) =
    some [[("g_cb", .index 0, some 1), ("g_table", .index 1, some 3), ("g_c", .index 4, some 2)]] := by decide

end RsslVerif.Thm.C05

import RsslVerif.Model.ConstEvalFloat
import RsslVerif.Lemmas.Dec2BinNearest
/-!
# The float primitives of the constant-evaluator model are IEEE-754 correct (C13, proof deepening 1)

`Model.ConstEvalFloat.round f neg m e` — the bit pattern the model uses for Rust's `z as f32`, `z as f64`
(integer → float) and `v as f32` (binary64 → binary32) — is proved equal to the sign bit plus
`Spec.Dec2Bin.nearestRat`, the reference rounding of property C10, applied to the exact rational `m · 2^e`.
`nearestRat` is proved (Lemmas/Dec2BinNearest) to return exactly what IEEE 754 prescribes for
round-to-nearest-ties-to-even (`IsNearestEven`: nearest representable value, ties to the even significand,
gradual underflow, overflow to infinity), so the same holds for the model's `round`.

`toIntSat` (Rust `v as i32` / `v as u32`) is characterised as: truncation toward zero of the exact value,
clamped to the target range, NaN ↦ 0.
-/
namespace RsslVerif.Lemmas.ConstEvalFloat
open RsslVerif.Model.ConstEvalFloat
open RsslVerif.Spec.Dec2Bin (nearestRat chooseExp scale roundQuot encode quotAt IsNearestEven units overflowUnits absDiff
  chooseExp_ge chooseExp_norm scale_eq scale_pos two_pow_pos quotAt_lt pow_bound_lower' roundQuot_exact
  roundQuot_cases nearestRat_isNearestEven)

/-- the format as the rounding reference sees it: precision with the hidden bit, exponent of the last place of
the subnormals, width of the exponent field -/
def toSpec (f : Fmt) : RsslVerif.Spec.Dec2Bin.Fmt := ⟨f.mant + 1, f.emin, f.exp⟩

theorem toSpec_f32 : toSpec f32 = RsslVerif.Spec.Dec2Bin.binary32 := by decide
theorem toSpec_f64 : toSpec f64 = RsslVerif.Spec.Dec2Bin.binary64 := by decide

/-- numerator and denominator of the exact value `m · 2^e` -/
def num (m : Nat) (e : Int) : Nat := m * 2 ^ e.toNat
def den (e : Int) : Nat := 2 ^ (-e).toNat

theorem bitLen_pos {m : Nat} (hm : 0 < m) : bitLen m = Nat.log2 m + 1 := by
  unfold bitLen; rw [if_neg (by omega)]

/-- `roundQuot` does not depend on a common factor of numerator and denominator -/
theorem roundQuot_cancel (a b K : Nat) (hK : 0 < K) (hb : 0 < b) : roundQuot (a * K) (b * K) = roundQuot a b := by
  unfold roundQuot
  dsimp only
  have hd : a * K / (b * K) = a / b := Nat.mul_div_mul_right a b hK
  have hm : a * K % (b * K) = a % b * K := Nat.mul_mod_mul_right K a b ▸ rfl
  rw [hd, hm]
  have h1 : (b * K < 2 * (a % b * K)) ↔ (b < 2 * (a % b)) := by
    constructor
    · intro h
      have : b * K < (2 * (a % b)) * K := by rw [Nat.mul_assoc]; exact h
      exact Nat.lt_of_mul_lt_mul_right this
    · intro h
      have : b * K < (2 * (a % b)) * K := Nat.mul_lt_mul_of_pos_right h hK
      rw [Nat.mul_assoc] at this; exact this
  have h2 : (2 * (a % b * K) = b * K) ↔ (2 * (a % b) = b) := by
    constructor
    · intro h
      have : (2 * (a % b)) * K = b * K := by rw [Nat.mul_assoc]; exact h
      exact Nat.eq_of_mul_eq_mul_right hK this
    · intro h
      rw [← Nat.mul_assoc, h]
  simp only [h1, h2]

/-- rounding `m / 2^sh` (`sh ≥ 1`) to nearest-even, in the shape the model computes it -/
theorem roundQuot_pow (m sh : Nat) (hsh : 1 ≤ sh) :
    roundQuot m (2 ^ sh) =
      (if m % 2 ^ sh > 2 ^ (sh - 1) || (m % 2 ^ sh == 2 ^ (sh - 1) && m / 2 ^ sh % 2 == 1)
       then m / 2 ^ sh + 1 else m / 2 ^ sh) := by
  unfold roundQuot
  dsimp only
  have hp : 2 ^ sh = 2 * 2 ^ (sh - 1) := by
    have : sh = (sh - 1) + 1 := by omega
    conv => lhs; rw [this, Nat.pow_succ, Nat.mul_comm]
  generalize m % 2 ^ sh = r
  generalize m / 2 ^ sh = t
  rw [hp]
  generalize 2 ^ (sh - 1) = h
  by_cases c1 : r > h
  · have : 2 * h < 2 * r ∨ (2 * r = 2 * h ∧ t % 2 = 1) := .inl (by omega)
    simp [this, c1]
  · by_cases c2 : r = h
    · subst c2
      by_cases c3 : t % 2 = 1
      · simp [c3]
      · simp [c3]
    · have hn : ¬ (2 * h < 2 * r ∨ (2 * r = 2 * h ∧ t % 2 = 1)) := by omega
      simp [hn, c1, c2]
      omega

/-- the exponent of the last place the model picks (`e + bitLen m - p`, clamped to `emin`) -/
def lastPlace (f : Fmt) (m : Nat) (e : Int) : Int :=
  if e + bitLen m - ((f.mant + 1 : Nat) : Int) < f.emin then f.emin else e + bitLen m - ((f.mant + 1 : Nat) : Int)

theorem num_pos {m : Nat} (e : Int) (hm : 0 < m) : 0 < num m e := Nat.mul_pos hm (two_pow_pos _)
theorem den_pos (e : Int) : 0 < den e := two_pow_pos _

/-- **the model and the reference choose the same exponent**: the unique `q ≥ emin` at which `⌊x / 2^q⌋` has
`p` bits (or `q = emin`) -/
theorem chooseExp_eq (f : Fmt) (hp : 1 ≤ f.mant) (m : Nat) (e : Int) (hm : 0 < m) :
    chooseExp (toSpec f) (num m e) (den e) = lastPlace f m e := by
  have hN := num_pos e hm
  have hM := den_pos e
  have hge := chooseExp_ge (toSpec f) (num m e) (den e)
  obtain ⟨h1, h2⟩ := chooseExp_norm (toSpec f) (by show 2 ≤ f.mant + 1; omega) _ _ hN hM
  generalize chooseExp (toSpec f) (num m e) (den e) = qs at hge h1 h2
  have hpe : (toSpec f).p = f.mant + 1 := rfl
  have hee : (toSpec f).emin = f.emin := rfl
  rw [hpe] at h1 h2
  rw [hee] at hge h2
  have hL1 := Nat.log2_self_le (Nat.pos_iff_ne_zero.mp hm)
  have hL2 := @Nat.lt_log2_self m
  have hbl := bitLen_pos hm
  have hNlo : 2 ^ (m.log2 + e.toNat) ≤ num m e := by
    unfold num; rw [Nat.pow_add]; exact Nat.mul_le_mul hL1 (Nat.le_refl _)
  have hNhi : num m e < 2 ^ (m.log2 + e.toNat + 1) := by
    unfold num
    have : m.log2 + e.toNat + 1 = (m.log2 + 1) + e.toNat := by omega
    rw [this, Nat.pow_add]
    exact Nat.mul_lt_mul_of_lt_of_le hL2 (Nat.le_refl _) (two_pow_pos _)
  have hMd : den e = 2 ^ (-e).toNat := rfl
  unfold lastPlace
  apply Int.le_antisymm
  · apply Int.not_lt.mp
    intro hgt
    have hlow := h2 (by split at hgt <;> omega)
    have : quotAt (num m e) (den e) qs < 2 ^ (f.mant + 1 - 1) :=
      quotAt_lt hM hNhi (by rw [hMd]; exact Nat.le_refl _) (by split at hgt <;> omega)
    omega
  · apply Int.not_lt.mp
    intro hgt
    have : 2 ^ (f.mant + 1) ≤ quotAt (num m e) (den e) qs := by
      unfold quotAt
      rw [Nat.le_div_iff_mul_le (scale_pos _ _ qs hM), scale_eq]
      apply pow_bound_lower' hNlo (by rw [hMd]; exact Nat.le_refl _)
      split at hgt <;> omega
    omega

/-- the significand the model computes at last place `q`: exact when `q ≤ e`, else `m / 2^(q-e)` rounded on the
remainder (more than half, or half and odd → up) -/
def mantAt (m : Nat) (e q : Int) : Nat :=
  if q ≤ e then m * 2 ^ (e - q).toNat
  else
    let sh := (q - e).toNat
    let t := m / 2 ^ sh
    let r := m % 2 ^ sh
    let half := 2 ^ (sh - 1)
    if r > half || (r == half && t % 2 == 1) then t + 1 else t

/-- exponent field and significand put together, carry into the field, saturation to infinity -/
def pack (f : Fmt) (s mant : Nat) (q : Int) : Nat :=
  let field : Nat := (q - f.emin).toNat
  let bits := if mant < 2 ^ f.mant then mant else (field + 1) * 2 ^ f.mant + (mant - 2 ^ f.mant)
  if bits ≥ f.expMax * 2 ^ f.mant then s + f.expMax * 2 ^ f.mant else s + bits

theorem round_unfold (f : Fmt) (neg : Bool) (m : Nat) (e : Int) :
    round f neg m e =
      (if m = 0 then (if neg then f.signBit else 0)
       else pack f (if neg then f.signBit else 0) (mantAt m e (lastPlace f m e)) (lastPlace f m e)) := by
  rfl

theorem pow_mul_pow (a b : Nat) : 2 ^ a * 2 ^ b = 2 ^ (a + b) := (Nat.pow_add 2 a b).symm

/-- **same significand**: dividing exactly by `2^q` and rounding the quotient to nearest-even is what the model does -/
theorem roundQuot_scale (m : Nat) (e q : Int) :
    roundQuot (scale (num m e) (den e) q).1 (scale (num m e) (den e) q).2 = mantAt m e q := by
  rw [scale_eq]
  dsimp only
  unfold num den mantAt
  by_cases hq : q ≤ e
  · rw [if_pos hq]
    have hexp : e.toNat + (-q).toNat = (e - q).toNat + ((-e).toNat + q.toNat) := by omega
    have : m * 2 ^ e.toNat * 2 ^ (-q).toNat = m * 2 ^ (e - q).toNat * (2 ^ (-e).toNat * 2 ^ q.toNat) := by
      rw [Nat.mul_assoc, pow_mul_pow, pow_mul_pow, Nat.mul_assoc, pow_mul_pow, hexp]
    rw [this]
    exact roundQuot_exact _ _ (Nat.mul_pos (two_pow_pos _) (two_pow_pos _))
  · rw [if_neg hq]
    have hsh : 1 ≤ (q - e).toNat := by omega
    have hexp : (-e).toNat + q.toNat = (q - e).toNat + (e.toNat + (-q).toNat) := by omega
    have hA : m * 2 ^ e.toNat * 2 ^ (-q).toNat = m * 2 ^ (e.toNat + (-q).toNat) := by
      rw [Nat.mul_assoc, pow_mul_pow]
    have hB : 2 ^ (-e).toNat * 2 ^ q.toNat = 2 ^ (q - e).toNat * 2 ^ (e.toNat + (-q).toNat) := by
      rw [pow_mul_pow, pow_mul_pow, hexp]
    rw [hA, hB, roundQuot_cancel _ _ _ (two_pow_pos _) (two_pow_pos _), roundQuot_pow _ _ hsh]

theorem roundQuot_ge (A B : Nat) : A / B ≤ roundQuot A B := by
  rcases roundQuot_cases A B with h | h <;> omega

/-- **`round` is the reference rounding**: the model's bit pattern for `± m · 2^e` is the sign bit plus
`nearestRat` of the exact rational, for every format with at least one stored significand bit. -/
theorem round_eq_nearestRat (f : Fmt) (hp : 1 ≤ f.mant) (neg : Bool) (m : Nat) (e : Int) :
    round f neg m e = (if neg then f.signBit else 0) + nearestRat (toSpec f) (num m e) (den e) := by
  rw [round_unfold]
  by_cases hm : m = 0
  · subst hm
    simp [nearestRat, num]
  · rw [if_neg hm]
    have hm' : 0 < m := Nat.pos_of_ne_zero hm
    have hN := num_pos e hm'
    have hM := den_pos e
    obtain ⟨_, hnorm⟩ := chooseExp_norm (toSpec f) (by show 2 ≤ f.mant + 1; omega) _ _ hN hM
    have hge := chooseExp_ge (toSpec f) (num m e) (den e)
    unfold nearestRat
    rw [if_neg (Nat.pos_iff_ne_zero.mp hN)]
    dsimp only
    rw [chooseExp_eq f hp m e hm'] at hnorm hge ⊢
    rw [roundQuot_scale]
    unfold quotAt at hnorm
    have hmant := roundQuot_ge (scale (num m e) (den e) (lastPlace f m e)).1 (scale (num m e) (den e) (lastPlace f m e)).2
    rw [roundQuot_scale] at hmant
    generalize mantAt m e (lastPlace f m e) = mant at hmant ⊢
    generalize lastPlace f m e = q at hnorm hge hmant ⊢
    generalize (scale (num m e) (den e) q).1 / (scale (num m e) (den e) q).2 = qt at hnorm hmant
    have hpe : (toSpec f).p = f.mant + 1 := rfl
    have hee : (toSpec f).emin = f.emin := rfl
    rw [hpe, hee] at hnorm
    rw [hee] at hge
    unfold pack encode RsslVerif.Spec.Dec2Bin.Fmt.infBits Fmt.expMax
    dsimp only
    rw [hpe, hee]
    have hb : (toSpec f).ebits = f.exp := rfl
    rw [hb]
    simp only [Nat.add_sub_cancel] at hnorm ⊢
    generalize 2 ^ f.mant = P at hnorm ⊢
    generalize (if neg = true then f.signBit else 0) = s
    generalize hE : (2 ^ f.exp - 1) * P = I
    -- the two encodings agree
    have henc : (if mant < P then mant else ((q - f.emin).toNat + 1) * P + (mant - P)) = (q - f.emin).toNat * P + mant := by
      by_cases hlt : mant < P
      · rw [if_pos hlt]
        have hq : q = f.emin := by
          apply Int.le_antisymm _ hge
          apply Int.not_lt.mp
          intro hgt
          have := hnorm hgt
          omega
        subst hq
        simp
      · rw [if_neg hlt, Nat.add_mul, Nat.one_mul]
        omega
    rw [henc]
    generalize (q - f.emin).toNat * P + mant = enc
    by_cases hc : enc ≥ I
    · rw [if_pos hc]; show s + I = s + min enc I; omega
    · rw [if_neg hc]; show s + enc = s + min enc I; omega

/-- **round to nearest, ties to even**: for a positive magnitude the model's bit pattern (sign bit aside) is what
IEEE 754 prescribes — nearest representable value, even significand on a tie, gradual underflow, overflow to ∞ -/
theorem round_isNearestEven (f : Fmt) (hp : 1 ≤ f.mant) (he : 2 ≤ f.exp) (m : Nat) (e : Int) (hm : 0 < m) :
    IsNearestEven (toSpec f) (num m e) (den e) (round f false m e) := by
  rw [round_eq_nearestRat f hp]
  simp only [Bool.false_eq_true, if_false, Nat.zero_add]
  exact nearestRat_isNearestEven (toSpec f) (by show 2 ≤ f.mant + 1; omega) he _ _ (num_pos e hm) (den_pos e)

/-- a negative value is rounded like its magnitude; only the sign bit differs -/
theorem round_neg (f : Fmt) (hp : 1 ≤ f.mant) (m : Nat) (e : Int) :
    round f true m e = f.signBit + round f false m e := by
  rw [round_eq_nearestRat f hp, round_eq_nearestRat f hp]; simp

/-- Rust `z as f32` / `z as f64` for an integer `z`: the correctly rounded value of `|z|` with the sign of `z` -/
theorem ofInt_eq (f : Fmt) (hp : 1 ≤ f.mant) (z : Int) :
    ofInt f z = (if z < 0 then f.signBit else 0) + nearestRat (toSpec f) z.natAbs 1 := by
  unfold ofInt
  rw [round_eq_nearestRat f hp]
  have h1 : num z.natAbs 0 = z.natAbs := by simp [num]
  have h2 : den 0 = 1 := by simp [den]
  rw [h1, h2]
  by_cases hz : z < 0 <;> simp [hz]

theorem ofInt_isNearestEven (f : Fmt) (hp : 1 ≤ f.mant) (he : 2 ≤ f.exp) (z : Int) (hz : 0 < z) :
    IsNearestEven (toSpec f) z.natAbs 1 (ofInt f z) := by
  rw [ofInt_eq f hp]
  have : ¬ z < 0 := by omega
  simp only [this, if_false, Nat.zero_add]
  exact nearestRat_isNearestEven (toSpec f) (by show 2 ≤ f.mant + 1; omega) he _ _ (by omega) (by omega)

/-- Rust `v as f32` (binary64 → binary32) and `v as f64` on a finite value `± m · 2^e`: correctly rounded -/
theorem convert_fin (src dst : Fmt) (hp : 1 ≤ dst.mant) (bits : Nat) (n : Bool) (m : Nat) (e : Int)
    (hd : decode src bits = .fin n m e) :
    convert src dst bits = (if n then dst.signBit else 0) + nearestRat (toSpec dst) (num m e) (den e) := by
  unfold convert
  rw [hd]
  exact round_eq_nearestRat dst hp n m e

/-- infinities stay infinities of the same sign -/
theorem convert_inf (src dst : Fmt) (bits : Nat) (n : Bool) (hd : decode src bits = .inf n) :
    convert src dst bits = (if n then dst.signBit else 0) + dst.expMax * 2 ^ dst.mant := by
  unfold convert; rw [hd]

/-! ## exactness on representable values (widening binary32 → binary64 loses nothing) -/

/-- a correctly rounded result is exact when the value is representable: if `x = m' · 2^q'` with a `p`-bit `m'` and
`q' ≥ emin`, the significand/exponent pair behind the result has exactly the value `x` -/
theorem isNearestEven_exact (F : RsslVerif.Spec.Dec2Bin.Fmt) (N M r : Nat) (h : IsNearestEven F N M r)
    (m' : Nat) (q' : Int) (hq' : F.emin ≤ q') (hm' : m' < 2 ^ F.p)
    (hx : (scale N M F.emin).1 = units F m' q' * (scale N M F.emin).2) :
    ∃ (m : Nat) (q : Int), F.emin ≤ q ∧ m ≤ 2 ^ F.p ∧
      (scale N M F.emin).1 = units F m q * (scale N M F.emin).2 ∧
      r = if units F m q < overflowUnits F then encode F m q else F.infBits := by
  obtain ⟨m, q, hq, _, _, hm, _, hnear, _, _, hr⟩ := h
  refine ⟨m, q, hq, hm, ?_, hr⟩
  have := hnear m' q' hq' hm'
  rw [hx] at this
  have h0 : absDiff (units F m' q' * (scale N M F.emin).2) (units F m' q' * (scale N M F.emin).2) = 0 := by
    unfold absDiff; omega
  rw [h0] at this
  rw [hx]
  unfold absDiff at this
  omega

/-- `m · 2^e` in units of `2^emin`, cross-multiplied with the scaled denominator -/
theorem scale_units (F : RsslVerif.Spec.Dec2Bin.Fmt) (m : Nat) (e : Int) (he : F.emin ≤ e) :
    (scale (num m e) (den e) F.emin).1 = units F m e * (scale (num m e) (den e) F.emin).2 := by
  rw [scale_eq]
  dsimp only
  unfold num den units
  have hexp : e.toNat + (-F.emin).toNat = (e - F.emin).toNat + ((-e).toNat + F.emin.toNat) := by omega
  rw [Nat.mul_assoc, pow_mul_pow, pow_mul_pow, Nat.mul_assoc, pow_mul_pow, hexp]

/-- the two shapes of a finite pattern: subnormal (exponent field 0) and normal -/
theorem decode_fin (f : Fmt) (bits : Nat) (n : Bool) (m : Nat) (e : Int) (hd : decode f bits = .fin n m e) :
    (m = bits % 2 ^ f.mant ∧ e = f.emin) ∨
    (m = 2 ^ f.mant + bits % 2 ^ f.mant ∧ bits / 2 ^ f.mant % 2 ^ f.exp ≠ f.expMax ∧
      e = f.emin + ((bits / 2 ^ f.mant % 2 ^ f.exp - 1 : Nat) : Int)) := by
  unfold decode at hd
  dsimp only at hd
  split at hd
  · split at hd <;> cases hd
  · rename_i hne
    split at hd
    · cases hd; exact .inl ⟨rfl, rfl⟩
    · cases hd; exact .inr ⟨rfl, by simpa using hne, rfl⟩

/-- significand and exponent of a finite binary32 pattern -/
theorem decode_f32_bounds (bits : Nat) (n : Bool) (m : Nat) (e : Int) (hd : decode f32 bits = .fin n m e) :
    m < 2 ^ 24 ∧ -149 ≤ e ∧ e ≤ 104 := by
  have h1 : bits / 2 ^ 23 % 2 ^ 8 < 2 ^ 8 := Nat.mod_lt _ (by decide)
  have h2 : bits % 2 ^ 23 < 2 ^ 23 := Nat.mod_lt _ (by decide)
  have hm : f32.mant = 23 := rfl
  have hx : f32.exp = 8 := rfl
  have hmax : f32.expMax = 255 := by decide
  have hemin : f32.emin = -149 := by decide
  rcases decode_fin f32 bits n m e hd with ⟨rfl, rfl⟩ | ⟨rfl, hne, rfl⟩
  · rw [hm, hemin]; omega
  · rw [hm, hx, hmax] at hne
    rw [hm, hx, hemin]
    omega

/-- **binary32 → binary64 is exact**: the binary64 pattern produced for a finite binary32 value `± m · 2^e` is the
encoding of a pair `(m', q')` with `m' · 2^q' = m · 2^e` (both counted in units of `2^-1074`) -/
theorem widen_exact (bits : Nat) (n : Bool) (m : Nat) (e : Int) (hd : decode f32 bits = .fin n m e) :
    ∃ (m' : Nat) (q' : Int), -1074 ≤ q' ∧ m' ≤ 2 ^ 53 ∧
      m' * 2 ^ (q' + 1074).toNat = m * 2 ^ (e + 1074).toNat ∧
      convert f32 f64 bits = (if n then f64.signBit else 0) + encode RsslVerif.Spec.Dec2Bin.binary64 m' q' := by
  obtain ⟨hm, he1, he2⟩ := decode_f32_bounds bits n m e hd
  rw [convert_fin f32 f64 (by decide) bits n m e hd, toSpec_f64]
  by_cases hm0 : m = 0
  · subst hm0
    refine ⟨0, -1074, by omega, by omega, by simp, ?_⟩
    simp [nearestRat, num, encode, RsslVerif.Spec.Dec2Bin.binary64]
  · have hpos : 0 < m := Nat.pos_of_ne_zero hm0
    have hne := nearestRat_isNearestEven RsslVerif.Spec.Dec2Bin.binary64 (by decide) (by decide) _ _ (num_pos e hpos) (den_pos e)
    have hx := scale_units RsslVerif.Spec.Dec2Bin.binary64 m e (by show (-1074 : Int) ≤ e; omega)
    obtain ⟨m', q', hq', hm', hval, hr⟩ :=
      isNearestEven_exact _ _ _ _ hne m e (by show (-1074 : Int) ≤ e; omega)
        (by show m < 2 ^ 53; omega) hx
    have hB := scale_pos (num m e) (den e) RsslVerif.Spec.Dec2Bin.binary64.emin (den_pos e)
    rw [hx] at hval
    have hu : units RsslVerif.Spec.Dec2Bin.binary64 m' q' = units RsslVerif.Spec.Dec2Bin.binary64 m e :=
      (Nat.eq_of_mul_eq_mul_right hB hval).symm
    have hue : units RsslVerif.Spec.Dec2Bin.binary64 m e = m * 2 ^ (e + 1074).toNat := by
      unfold units; show m * 2 ^ (e - (-1074)).toNat = _; congr 2
    have hue' : units RsslVerif.Spec.Dec2Bin.binary64 m' q' = m' * 2 ^ (q' + 1074).toNat := by
      unfold units; show m' * 2 ^ (q' - (-1074)).toNat = _; congr 2
    refine ⟨m', q', hq', hm', by rw [← hue', ← hue, hu], ?_⟩
    rw [hr]
    have hlt : units RsslVerif.Spec.Dec2Bin.binary64 m' q' < overflowUnits RsslVerif.Spec.Dec2Bin.binary64 := by
      rw [hu, hue]
      have h1 : m * 2 ^ (e + 1074).toNat < 2 ^ 24 * 2 ^ (e + 1074).toNat :=
        Nat.mul_lt_mul_of_pos_right hm (two_pow_pos _)
      have h2 : 2 ^ 24 * 2 ^ (e + 1074).toNat = 2 ^ (24 + (e + 1074).toNat) := pow_mul_pow _ _
      have h3 : 2 ^ (24 + (e + 1074).toNat) ≤ 2 ^ (53 + 2 ^ 11 - 3) :=
        Nat.pow_le_pow_right (by decide) (by omega)
      show _ < 2 ^ (53 + 2 ^ 11 - 3)
      omega
    rw [if_pos hlt]

/-! ## the link to property C10: narrowing a non-negative finite double is C10's `narrow32` -/

/-- `Spec.Dec2Bin.decode` and the model's `decode` read a non-negative finite binary64 pattern the same way -/
theorem decode_f64_spec (bits : Nat) (h : bits < RsslVerif.Spec.Dec2Bin.binary64.infBits) :
    decode f64 bits = .fin false (RsslVerif.Spec.Dec2Bin.decode RsslVerif.Spec.Dec2Bin.binary64 bits).1
      (RsslVerif.Spec.Dec2Bin.decode RsslVerif.Spec.Dec2Bin.binary64 bits).2 := by
  have hinf : RsslVerif.Spec.Dec2Bin.binary64.infBits = 2047 * 2 ^ 52 := by decide
  rw [hinf] at h
  have hsign : bits / f64.signBit % 2 = 0 := by
    have : f64.signBit = 2 ^ 63 := by decide
    rw [this]
    have : bits / 2 ^ 63 = 0 := Nat.div_eq_of_lt (by omega)
    omega
  have hex : bits / 2 ^ 52 < 2047 := by
    apply Nat.div_lt_of_lt_mul; omega
  have hexm : bits / 2 ^ 52 % 2 ^ 11 = bits / 2 ^ 52 := Nat.mod_eq_of_lt (by omega)
  unfold decode RsslVerif.Spec.Dec2Bin.decode
  have hm : f64.mant = 52 := rfl
  have hx : f64.exp = 11 := rfl
  have hmax : f64.expMax = 2047 := by decide
  have hemin : f64.emin = -1074 := by decide
  have hp : RsslVerif.Spec.Dec2Bin.binary64.p - 1 = 52 := by decide
  have hse : RsslVerif.Spec.Dec2Bin.binary64.emin = -1074 := by decide
  simp only [hm, hx, hmax, hemin, hp, hse, hsign, hexm]
  have hne : ¬ (bits / 2 ^ 52 = 2047) := by omega
  by_cases h0 : bits / 2 ^ 52 = 0
  · simp [h0]
  · simp [hne, h0]
    omega

/-- **the model's `(float)d` is C10's `narrow32`** on every non-negative finite double (the pattern C10 proves to be
the correctly rounded single of the exact double value) -/
theorem convert_f64_f32_eq_narrow32 (bits : Nat) (h : bits < RsslVerif.Spec.Dec2Bin.binary64.infBits) :
    convert f64 f32 bits = RsslVerif.Spec.Dec2Bin.narrow32 bits := by
  have hd := decode_f64_spec bits h
  rw [convert_fin f64 f32 (by decide) bits false _ _ hd, toSpec_f32]
  unfold RsslVerif.Spec.Dec2Bin.narrow32
  have hn : ¬ (RsslVerif.Spec.Dec2Bin.binary64.infBits ≤ bits) := Nat.not_le.mpr h
  rw [if_neg hn]
  simp only [Bool.false_eq_true, if_false, Nat.zero_add]
  generalize (RsslVerif.Spec.Dec2Bin.decode RsslVerif.Spec.Dec2Bin.binary64 bits).1 = m
  generalize (RsslVerif.Spec.Dec2Bin.decode RsslVerif.Spec.Dec2Bin.binary64 bits).2 = q
  by_cases hq : 0 ≤ q
  · rw [if_pos hq]
    have : (-q).toNat = 0 := by omega
    simp [num, den, this]
  · rw [if_neg hq]
    have : q.toNat = 0 := by omega
    simp [num, den, this]

/-! ## float → integer -/

/-- saturation to `[lo, hi]` -/
def clamp (lo hi v : Int) : Int := if v < lo then lo else if hi < v then hi else v

/-- Rust `v as i32` / `v as u32` on a finite `± m · 2^e`: there is a magnitude `mag = ⌊m · 2^e⌋` (the exact value
truncated toward zero: `mag ≤ m·2^e < mag + 1`, cross-multiplied) and the result is `± mag` clamped to the range -/
theorem toIntSat_fin (lo hi : Int) (n : Bool) (m : Nat) (e : Int) :
    ∃ mag : Nat, mag * den e ≤ num m e ∧ num m e < (mag + 1) * den e ∧
      toIntSat lo hi (.fin n m e) = clamp lo hi (if n then -(mag : Int) else mag) := by
  by_cases he : 0 ≤ e
  · refine ⟨m * 2 ^ e.toNat, ?_, ?_, ?_⟩
    · have : (-e).toNat = 0 := by omega
      simp [num, den, this]
    · have : (-e).toNat = 0 := by omega
      simp [num, den, this]
    · simp only [toIntSat, he, if_true, clamp]
  · refine ⟨m / 2 ^ (-e).toNat, ?_, ?_, ?_⟩
    · have : e.toNat = 0 := by omega
      simp only [num, den, this, Nat.pow_zero, Nat.mul_one]
      exact Nat.div_mul_le_self m _
    · have : e.toNat = 0 := by omega
      simp only [num, den, this, Nat.pow_zero, Nat.mul_one]
      have h2 := Nat.lt_div_mul_add (a := m) (b := 2 ^ (-e).toNat) (two_pow_pos _)
      rw [Nat.add_mul, Nat.one_mul]; omega
    · simp only [toIntSat, he, if_false, clamp]

theorem toIntSat_nan (lo hi : Int) (n : Bool) (p : Nat) : toIntSat lo hi (.nan n p) = 0 := rfl
theorem toIntSat_inf (lo hi : Int) (n : Bool) : toIntSat lo hi (.inf n) = (if n then lo else hi) := rfl

/-- the result always lies in the target range -/
theorem toIntSat_range (lo hi : Int) (h0 : lo ≤ 0) (h1 : 0 ≤ hi) (v : FVal) :
    lo ≤ toIntSat lo hi v ∧ toIntSat lo hi v ≤ hi := by
  cases v with
  | nan n p => simp [toIntSat]; omega
  | inf n => cases n <;> simp [toIntSat] <;> omega
  | fin n m e =>
    simp only [toIntSat]
    split <;> (try split) <;> omega

end RsslVerif.Lemmas.ConstEvalFloat

import RsslVerif.Model.Usage
import RsslVerif.Driver.Util
import RsslVerif.Driver.C02Sem
/-! Line-protocol front end of the C02 model (usage closure + implicit parameter threading on Metal).

request : `C02.thread \t <globals> \t <functions> \t <entry index | ->`
  global   `name:<E|S|G>[c][x][o]@<read class>[:<init global indexes, comma separated>]`   (`;` separated)
  function `name:<modes i|o|b|d … or ->:<items or ->`                                        (`;` separated)
  item     `<position code>.g<k>`  |  `<position code>.c<j>[/<_|g<k>>]…`                     (`,` separated)
answer  : `defs:<definition> …|close:<f>={…};…|entry:…`
-/
namespace RsslVerif.Driver.C02
open RsslVerif.Gen.UsageTables RsslVerif.Model.Usage RsslVerif.Driver

def parseGlobal (s : String) : Option Global :=
  match s.splitOn ":" with
  | name :: flags :: rest =>
    match flags.splitOn "@" with
    | [fl, cls] =>
      let cs := fl.toList
      let storage : Option Storage := match cs.head? with
        | some 'E' => some .Extern | some 'S' => some .Static | some 'G' => some .GroupShared | _ => none
      match storage, readPaths.lookup cls with
      | some st, some rp =>
        let inits : Option (List Nat) := match rest with
          | [] => some []
          | [l] => if l.isEmpty then some [] else sequenceOpt ((l.splitOn ",").map String.toNat?)
          | _ => none
        inits.map fun is =>
          { name := name, storage := st, isConst := cs.contains 'c', staticSampler := cs.contains 'x',
            isObject := cs.contains 'o', readPath := rp,
            -- `static int NAME = 0 + a + b;`: below Initializer::Expression and the `+` operators
            initUses := is.map fun g => ([I "Expression" 0, E "IntrinsicOp" 1], g) }
      | _, _ => none
    | _ => none
  | _ => none

def parseMode (c : Char) : Option ParamMode :=
  if c == 'i' then some .in_ else if c == 'o' then some .out else if c == 'b' then some .inout
  else if c == 'd' then some .inDefault else none

def parseIndexed (pre : Char) (s : String) : Option Nat :=
  match s.toList with
  | c :: r => if c == pre then (String.ofList r).toNat? else none
  | [] => none

def parseArg (s : String) : Option SrcArg :=
  if s == "_" then some none else (parseIndexed 'g' s).map some

def parseItem (s : String) : Option Item :=
  match s.splitOn "." with
  | [code, what] =>
    match placeOfCode code with
    | none => none
    | some pl =>
      match what.splitOn "/" with
      | [] => none
      | h :: args =>
        if h.startsWith "g" then
          if args.isEmpty then (parseIndexed 'g' h).map (Item.use pl) else none
        else
          match parseIndexed 'c' h, sequenceOpt (args.map parseArg) with
          | some f, some as => some (.call pl f as)
          | _, _ => none
  | _ => none

def parseFunc (s : String) : Option Func :=
  match s.splitOn ":" with
  | [name, modes, items] =>
    let ms := if modes == "-" then some [] else sequenceOpt (modes.toList.map parseMode)
    let its := if items == "-" then some [] else sequenceOpt ((items.splitOn ",").map parseItem)
    match ms, its with
    | some ms, some its => some { name := name, params := ms, items := its }
    | _, _ => none
  | _ => none

def parseList {α : Type} (f : String → Option α) (s : String) : Option (List α) :=
  if s.isEmpty || s == "-" then some [] else sequenceOpt ((s.splitOn ";").map f)

def sortStrings (l : List String) : List String := l.mergeSort fun a b => !(b < a)

def showErr : GenErr → String
  | .usage (.missingKey _) => "panic:ir/src/usage_analysis.rs: called `Option::unwrap()` on a `None` value"
  | .outOfFuel => "error:out-of-fuel"
  | .badGlobal g => "error:bad-global-" ++ toString g
  | .badFunction f => "error:bad-function-" ++ toString f

def requiredAll (p : Program) (cl : Table) : Nat → Except GenErr (List (List Implicit))
  | 0 => .ok []
  | n + 1 =>
    match requiredAll p cl n, requiredOf p cl n with
    | .ok l, .ok r => .ok (l ++ [r])
    | .error e, _ => .error e
    | _, .error e => .error e

def entryText (c : Ctx) (e : Nat) : String :=
  match c.prog.funcs[e]? with
  | none => "?"
  | some fd =>
    let req := c.req e
    let isLocal (i : Implicit) : Bool := i.variant == globalVariant &&
      match c.prog.globals[i.payload]? with
      | some g => g.storage != .Extern
      | none => false
    let argOf (i : Implicit) : String :=
      if i.variant == globalVariant && !isLocal i then "set." ++ implicitArgName c.prog i
      else implicitArgName c.prog i
    "locals=" ++ ",".intercalate ((req.filter isLocal).map (implicitArgName c.prog)) ++
    ";call=" ++ fd.name ++ "(" ++ ",".intercalate (fd.params.map (fun _ => "_") ++ req.map argOf) ++ ")"

def answer (p : Program) (entry : Option Nat) : String :=
  let keys := keysOf (calculateLocal p)
  match closeProgram p keys with
  | .error e => showErr e
  | .ok cl =>
    match requiredAll p cl p.funcs.length with
    | .error e => showErr e
    | .ok req =>
      let c : Ctx := { prog := p, required := req }
      let called := calledFunctions p cl
      let defs := (List.range p.funcs.length).flatMap fun i =>
        match p.funcs[i]? with | some fd => defsText c called i fd | none => []
      let close := (List.range p.funcs.length).map fun i =>
        symName p (.fn i) ++ "={" ++ ",".intercalate (sortStrings ((val cl (.fn i)).map (symName p))) ++ "}"
      if defs.any (fun d => (d.splitOn "!nested").length > 1) then "unsupported: default argument that itself omits arguments" else
      "defs:" ++ " ".intercalate defs ++ "|close:" ++ ";".intercalate close ++ "|entry:" ++
        (match entry with | some e => entryText c e | none => "-")

def handle (op : String) (args : List String) : String :=
  match op, args with
  | "C02.thread", [gs, fs, e] =>
    match parseList parseGlobal gs, parseList parseFunc fs with
    | some gs, some fs =>
      let entry : Option (Option Nat) := if e == "-" then some none else e.toNat?.map some
      match entry with
      | some en => answer { globals := gs, funcs := fs } en
      | none => "bad-request"
    | _, _ => "bad-request"
  | "C02.src", _ => "unsupported: free-form source (oracle only)"
  | "C02.gen", _ => C02Sem.handle op args
  | "C02.wt", _ => C02Sem.handle op args
  | _, _ => "unsupported-op"

end RsslVerif.Driver.C02

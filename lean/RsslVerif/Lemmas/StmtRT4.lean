import RsslVerif.Lemmas.StmtRT3
/-! Round trip of statements: `for`, well-formed statements, first tokens, the induction. -/
set_option linter.unusedSimpArgs false
set_option linter.unusedVariables false
namespace RsslVerif.Lemmas.StmtRT
open RsslVerif.Gen.FmtTables RsslVerif.Gen.ParseTables RsslVerif.Gen.SyntaxTables RsslVerif.Model.Format
open RsslVerif.Model.FormatFull RsslVerif.Model.ParseFull RsslVerif.Model.FormatStmt RsslVerif.Model.ParseStmt
open RsslVerif.Lemmas.FmtParseTables RsslVerif.Lemmas.RoundtripFull

variable (W : List String)

def WFOpt : Option XExpr → Prop
  | none => True
  | some e => WF W e

def WFForInit : ForInit → Prop
  | .empty => True
  | .expr e => WF W e ∧ declDeadB (toks (fmtExprX e) ++ [.p .Semicolon]) = true
  | .decl v => WFVarDef W v ∧ varExprDeadB (toks (fmtVarDef v)) = true

theorem badHead_semi : BadHead (.p .Semicolon) :=
  ⟨(by intro n h; cases h), (by intro l h; cases h), (by decide), rfl, (by decide)⟩
theorem badHead_rparen : BadHead (.p .RightParen) :=
  ⟨(by intro n h; cases h), (by intro l h; cases h), (by decide), rfl, (by decide)⟩

/-- an optional expression in front of `;` or `)` -/
theorem optExpr_reads (o : Option XExpr) (hw : WFOpt W o) (c : Tok) (hc : c = .p .Semicolon ∨ c = .p .RightParen)
    (rest : List Tok) (hsafe : hasLtOpt o = true → TmplFree (toks (fmtOptExpr o) ++ c :: rest) = true) :
    ∃ N, ∀ f, N ≤ f → parseOptExpr W f (toks (fmtOptExpr o) ++ c :: rest) = some (o, c :: rest) := by
  cases o with
  | none =>
    refine ⟨0, fun f _ => ?_⟩
    simp only [fmtOptExpr, toks_nil, List.nil_append]
    unfold parseOptExpr
    rcases hc with rfl | rfl
    · rw [xparseLvl_badhead W _ _ badHead_semi]
    · rw [xparseLvl_badhead W _ _ badHead_rparen]
  | some e =>
    have htoks : toks (fmtOptExpr (some e)) = toks (fmtExprX e) := by simp [fmtOptExpr]
    rw [htoks] at hsafe ⊢
    obtain ⟨N, h⟩ := expr_reads W e hw c (by rcases hc with h | h; exact Or.inr (Or.inr (Or.inr h)); exact Or.inl h) rest
      (fun hl => hsafe (by simpa [hasLtOpt] using hl))
    refine ⟨N, fun f hf => ?_⟩
    unfold parseOptExpr
    rw [h f hf]

theorem varDef_toks_len (v : VarDef) (hw : WFVarDef W v) : 2 ≤ (toks (fmtVarDef v)).length := by
  obtain ⟨_, _, hne, hwD⟩ := hw
  obtain ⟨t0, r0, ht0, _⟩ := ids_head W v.defs hne hwD
  have : toks (fmtVarDef v) = v.mods.map modTok ++ (.id v.name ::
      (toks (fmtTArgs v.targs (startsTok (fmtInitDecls v.defs) false)) ++ idsToks v.defs)) := by
    simp [fmtVarDef, toks_fmtTy, toks_fmtInitDecls]
  rw [this, ht0]
  simp only [List.length_append, List.length_cons, List.length_map]
  omega

/-- the init part of a `for` in front of `;` -/
theorem forInit_reads (i : ForInit) (hw : WFForInit W i) (rest : List Tok)
    (hsafe : hasLtForInit i = true → TmplFree (toks (fmtForInit i) ++ .p .Semicolon :: rest) = true) :
    ∃ N, ∀ f, N ≤ f → parseForInit W f (toks (fmtForInit i) ++ .p .Semicolon :: rest) = some (i, .p .Semicolon :: rest) := by
  cases i with
  | empty =>
    refine ⟨0, fun f _ => ?_⟩
    simp only [fmtForInit, toks_nil, List.nil_append]
    unfold parseForInit
    rw [xparseLvl_badhead W _ _ badHead_semi]
    have : parseVarDef W f (.p .Semicolon :: rest) = none := by
      unfold parseVarDef
      rw [parseTy_badhead W f _ _ rfl (by intro n h; cases h)]
    rw [this]
  | expr e =>
    obtain ⟨hwe, hdead⟩ := hw
    simp only [fmtForInit] at hsafe ⊢
    obtain ⟨N, h⟩ := expr_reads W e hwe _ (Or.inr (Or.inr (Or.inr rfl))) rest (fun hl => hsafe (by simpa [hasLtForInit] using hl))
    have hvd : ∀ f, parseVarDef W f (toks (fmtExprX e) ++ .p .Semicolon :: rest) = none := by
      intro f
      have := varDef_dead W (toks (fmtExprX e) ++ [.p .Semicolon]) rest hdead f
      simpa using this
    refine ⟨N, fun f hf => ?_⟩
    unfold parseForInit
    rw [h f hf, hvd f]
  | decl v =>
    obtain ⟨hwv, hdead⟩ := hw
    simp only [fmtForInit] at hsafe ⊢
    obtain ⟨N, h⟩ := varDef_reads W v hwv (.p .Semicolon :: rest) ⟨rest, rfl⟩ (fun hl => hsafe (by simpa [hasLtForInit] using hl))
    refine ⟨N, fun f hf => ?_⟩
    have hx := (expr_dead_var W (toks (fmtVarDef v)) hdead (.p .Semicolon :: rest) f).2
    unfold parseForInit
    rw [h f hf]
    have hlen := varDef_toks_len W v hwv
    split
    · rename_i heq1 heq2
      simp only [Option.some.injEq, Prod.mk.injEq] at heq2
      obtain ⟨rfl, rfl⟩ := heq2
      have := hx _ _ heq1
      simp only [List.length_append, List.length_cons] at this
      have hlt : (Tok.p Punct.Semicolon :: rest).length < (by assumption : List Tok).length := by
        simp only [List.length_cons]; omega
      simp only [List.length_cons] at hlt
      simp [hlt]
    · rename_i heq1 heq2; cases heq2
    · rename_i heq1 heq2
      simp only [Option.some.injEq, Prod.mk.injEq] at heq2
      obtain ⟨rfl, rfl⟩ := heq2
      rfl
    · rename_i heq1 heq2; cases heq2

theorem rk_for (i : ForInit) (c n : Option XExpr) (body : Stmt) (hwi : WFForInit W i) (hwc : WFOpt W c) (hwn : WFOpt W n)
    (ihb : RS W body) : RK W (.forS i c n body) := by
  intro rest hne hopen hsafe
  have htoks : toks (fmtKind (.forS i c n body)) ++ rest = .p .For :: .p .LeftParen :: (toks (fmtForInit i) ++
      (.p .Semicolon :: (toks (fmtOptExpr c) ++ (.p .Semicolon :: (toks (fmtOptExpr n) ++
        (.p .RightParen :: (toks (fmtStmt body) ++ rest))))))) := by
    simp [fmtKind, pp, kw, semi]
  rw [htoks] at hsafe ⊢
  obtain ⟨N1, h1⟩ := forInit_reads W i hwi _
    (fun hl => tmplFree_suffix ((List.suffix_cons _ _).trans (List.suffix_cons _ _)) (hsafe (by simp [hasLtK, hl])))
  obtain ⟨N2, h2⟩ := optExpr_reads W c hwc _ (Or.inl rfl) _
    (fun hl => tmplFree_suffix ((List.suffix_cons _ _).trans ((List.suffix_append _ _).trans
      ((List.suffix_cons _ _).trans (List.suffix_cons _ _)))) (hsafe (by simp [hasLtK, hl])))
  obtain ⟨N3, h3⟩ := optExpr_reads W n hwn _ (Or.inr rfl) _
    (fun hl => tmplFree_suffix ((List.suffix_cons _ _).trans ((List.suffix_append _ _).trans ((List.suffix_cons _ _).trans
      ((List.suffix_append _ _).trans ((List.suffix_cons _ _).trans (List.suffix_cons _ _)))))) (hsafe (by simp [hasLtK, hl])))
  obtain ⟨N4, h4⟩ := ihb rest hne (fun ho => hopen (by simpa [openIfK] using ho))
    (fun hl => tmplFree_suffix ((List.suffix_cons _ _).trans ((List.suffix_append _ _).trans ((List.suffix_cons _ _).trans
      ((List.suffix_append _ _).trans ((List.suffix_cons _ _).trans ((List.suffix_append _ _).trans
        ((List.suffix_cons _ _).trans (List.suffix_cons _ _)))))))) (hsafe (by simp [hasLtK, hl])))
  refine ⟨max (max N1 N2) (max N3 N4) + 1, fun f hf => ?_⟩
  obtain ⟨f', rfl, hf'⟩ := succ_of_pos hf
  simp [parseKind, h1 f' (by omega), h2 f' (by omega), h3 f' (by omega), h4 f' (by omega)]

/-! ## Well-formed statements -/

mutual
def WFS : Stmt → Prop
  | .mk attrs k => WFAttrs W attrs ∧ WFK k
def WFK : Kind → Prop
  | .empty => True
  | .expr e => WF W e ∧ declDeadB (toks (fmtExprX e) ++ [.p .Semicolon]) = true
  | .var v => WFVarDef W v ∧ varExprDeadB (toks (fmtVarDef v)) = true
  | .block b => WFSs b
  | .ifS c t => WF W c ∧ WFS t
  | .ifElse c t e => WF W c ∧ WFS t ∧ openIf t = false ∧ WFS e
  | .forS i c n b => WFForInit W i ∧ WFOpt W c ∧ WFOpt W n ∧ WFS b
  | .whileS c b => WF W c ∧ WFS b
  | .doWhile b c => WFS b ∧ WF W c
  | .switchS c b => WF W c ∧ WFS b
  | .breakS => True
  | .continueS => True
  | .discardS => True
  | .ret e => WFOpt W e
  | .caseS v n => WF W v ∧ WFS n
  | .defaultS n => WFS n
def WFSs : Stmts → Prop
  | .nil => True
  | .cons s r => WFS s ∧ WFSs r
end

/-- first token of a printed statement kind: not `[`, `else`, `}` -/
theorem kind_head (k : Kind) (hw : WFK W k) :
    ∃ t ts, toks (fmtKind k) = t :: ts ∧ t ≠ .p .LeftSquareBracket ∧ t ≠ .p .Else ∧ t ≠ .p .RightBrace := by
  cases k with
  | empty => exact ⟨.p .Semicolon, [], by simp [fmtKind, semi, pp], by decide, by decide, by decide⟩
  | expr e =>
    obtain ⟨t, ts', h1, h2⟩ := exprHead_fmt W e hw.1 topPrec topSide
    have h1' : toks (fmtExprX e) = t :: ts' := h1
    have := exprHead_ne t h2
    exact ⟨t, ts' ++ [.p .Semicolon], by simp [fmtKind, h1', semi, pp], this.2.2.2.2.2, this.2.2.2.2.1, this.2.1⟩
  | var v =>
    have : toks (fmtVarDef v) = v.mods.map modTok ++ (.id v.name ::
        (toks (fmtTArgs v.targs (startsTok (fmtInitDecls v.defs) false)) ++ idsToks v.defs)) := by
      simp [fmtVarDef, toks_fmtTy, toks_fmtInitDecls]
    cases hm : v.mods with
    | nil =>
      rw [hm] at this
      exact ⟨.id v.name, _, by simp only [fmtKind, toks_append, this, List.map_nil, List.nil_append, List.cons_append] <;> rfl, (by intro h; cases h), (by intro h; cases h), (by intro h; cases h)⟩
    | cons m ms =>
      rw [hm] at this
      refine ⟨modTok m, _, by simp only [fmtKind, toks_append, this, List.map_cons, List.cons_append] <;> rfl, ?_, ?_, ?_⟩ <;> (cases m <;> decide)
  | block b => exact ⟨.p .LeftBrace, _, by simp only [fmtKind, pp, toks_cons_t] <;> rfl, by decide, by decide, by decide⟩
  | ifS c t => exact ⟨.p .If, _, by simp only [fmtKind, kw, toks_cons_t] <;> rfl, by decide, by decide, by decide⟩
  | ifElse c t e => exact ⟨.p .If, _, by simp only [fmtKind, kw, toks_cons_t] <;> rfl, by decide, by decide, by decide⟩
  | forS i c n b => exact ⟨.p .For, _, by simp only [fmtKind, kw, toks_cons_t] <;> rfl, by decide, by decide, by decide⟩
  | whileS c b => exact ⟨.p .While, _, by simp only [fmtKind, kw, toks_cons_t] <;> rfl, by decide, by decide, by decide⟩
  | doWhile b c => exact ⟨.p .Do, _, by simp only [fmtKind, kw, toks_cons_t] <;> rfl, by decide, by decide, by decide⟩
  | switchS c b => exact ⟨.p .Switch, _, by simp only [fmtKind, kw, toks_cons_t] <;> rfl, by decide, by decide, by decide⟩
  | breakS => exact ⟨.p .Break, _, by simp only [fmtKind, kw, toks_cons_t] <;> rfl, by decide, by decide, by decide⟩
  | continueS => exact ⟨.p .Continue, _, by simp only [fmtKind, kw, toks_cons_t] <;> rfl, by decide, by decide, by decide⟩
  | discardS => exact ⟨.p .Discard, _, by simp only [fmtKind, kw, toks_cons_t] <;> rfl, by decide, by decide, by decide⟩
  | ret e => exact ⟨.p .Return, _, by simp only [fmtKind, kw, toks_cons_t] <;> rfl, by decide, by decide, by decide⟩
  | caseS v n => exact ⟨.p .Case, _, by simp only [fmtKind, kw, toks_cons_t] <;> rfl, by decide, by decide, by decide⟩
  | defaultS n => exact ⟨.p .Default, _, by simp only [fmtKind, kw, toks_cons_t] <;> rfl, by decide, by decide, by decide⟩

/-- first token of a printed statement: not `else`, not `}` -/
theorem stmt_head (attrs : List Attr) (k : Kind) (hw : WFK W k) :
    ∃ t ts, toks (fmtStmt (.mk attrs k)) = t :: ts ∧ t ≠ .p .Else ∧ t ≠ .p .RightBrace := by
  rw [toks_fmtStmt]
  cases attrs with
  | nil =>
    obtain ⟨t, ts, h, _, h2, h3⟩ := kind_head W k hw
    exact ⟨t, ts, by simp [fmtAttrs, h], h2, h3⟩
  | cons a as =>
    exact ⟨.p .LeftSquareBracket, _, by simp only [fmtAttrs, toks_append, toks_fmtAttr a, List.cons_append] <;> rfl, by decide, by decide⟩

/-- a statement from its kind -/
theorem rs_of_rk (attrs : List Attr) (k : Kind) (hwa : WFAttrs W attrs) (hwk : WFK W k) (ihk : RK W k) :
    RS W (.mk attrs k) := by
  intro rest hne hopen hsafe
  rw [toks_fmtStmt] at hsafe ⊢
  simp only [List.append_assoc] at hsafe ⊢
  obtain ⟨t, ts, ht, hb, _, _⟩ := kind_head W k hwk
  obtain ⟨N1, h1⟩ := attrs_read W attrs hwa (toks (fmtKind k) ++ rest)
    (by intro r h; rw [ht] at h; simp only [List.cons_append, List.cons.injEq] at h; exact hb h.1)
    (fun hl => hsafe (by simp [hasLtS, hl]))
  obtain ⟨N2, h2⟩ := ihk rest hne (fun ho => hopen (by simpa [openIf] using ho))
    (fun hl => tmplFree_suffix (List.suffix_append _ _) (hsafe (by simp [hasLtS, hl])))
  refine ⟨max N1 N2 + 1, fun f hf => ?_⟩
  obtain ⟨f', rfl, hf'⟩ := succ_of_pos hf
  unfold parseStmt
  simp [h1 f' (by omega), h2 f' (by omega)]

theorem rss_cons (s : Stmt) (r : Stmts) (hws : WFS W s) (hwr : WFSs W r) (ihs : RS W s) (ihr : RSs W r) :
    RSs W (.cons s r) := by
  intro rest hsafe
  have htoks : toks (fmtStmts (.cons s r)) ++ .p .RightBrace :: rest =
      toks (fmtStmt s) ++ (toks (fmtStmts r) ++ .p .RightBrace :: rest) := by
    simp [fmtStmts]
  rw [htoks] at hsafe ⊢
  obtain ⟨attrs, k⟩ := s
  obtain ⟨t, ts, ht, _, hrb⟩ := stmt_head W attrs k hws.2
  -- what follows the statement is `}` or the next statement: never `else`
  have hnoelse : ∀ r', toks (fmtStmts r) ++ .p .RightBrace :: rest ≠ .p .Else :: r' := by
    intro r' h
    cases r with
    | nil => simp [fmtStmts] at h
    | cons s' r'' =>
      obtain ⟨attrs', k'⟩ := s'
      obtain ⟨t', ts', ht', hne', _⟩ := stmt_head W attrs' k' hwr.1.2
      simp only [fmtStmts, toks_append, ht', List.cons_append, List.append_assoc, List.cons.injEq] at h
      exact hne' h.1
  obtain ⟨N1, h1⟩ := ihs (toks (fmtStmts r) ++ .p .RightBrace :: rest) (by simp) (fun _ => hnoelse)
    (fun hl => hsafe (by simp [hasLtSs, hl]))
  obtain ⟨N2, h2⟩ := ihr rest (fun hl => tmplFree_suffix (List.suffix_append _ _) (hsafe (by simp [hasLtSs, hl])))
  refine ⟨max N1 N2 + 1, fun f hf => ?_⟩
  obtain ⟨f', rfl, hf'⟩ := succ_of_pos hf
  have g1 := h1 f' (by omega)
  rw [ht] at g1 ⊢
  simp only [List.cons_append] at g1 ⊢
  unfold parseStmts
  split
  · rename_i heq; simp only [List.cons.injEq] at heq; exact absurd heq.1 hrb
  · rw [g1]
    simp [h2 f' (by omega)]

/-! ## The induction -/

mutual
theorem rs : (s : Stmt) → WFS W s → RS W s
  | .mk attrs k, h => rs_of_rk W attrs k h.1 h.2 (rk k h.2)
theorem rk : (k : Kind) → WFK W k → RK W k
  | .empty, _ => rk_empty W
  | .expr e, h => rk_expr W e h.1 h.2
  | .var v, h => rk_var W v h.1 h.2
  | .block b, h => rk_block W b (rss b h)
  | .ifS c t, h => rk_if W c t h.1 (rs t h.2)
  | .ifElse c t e, h => rk_ifElse W c t e h.1 h.2.2.1 (rs t h.2.1) (rs e h.2.2.2)
  | .forS i c n b, h => rk_for W i c n b h.1 h.2.1 h.2.2.1 (rs b h.2.2.2)
  | .whileS c b, h => rk_while W c b h.1 (rs b h.2)
  | .doWhile b c, h => rk_doWhile W b c h.2 (rs b h.1)
  | .switchS c b, h => rk_switch W c b h.1 (rs b h.2)
  | .breakS, _ => rk_break W
  | .continueS, _ => rk_continue W
  | .discardS, _ => rk_discard W
  | .ret none, _ => rk_ret_none W
  | .ret (some e), h => rk_ret_some W e h
  | .caseS v n, h => rk_case W v n h.1 (rs n h.2)
  | .defaultS n, h => rk_default W n (rs n h)
theorem rss : (b : Stmts) → WFSs W b → RSs W b
  | .nil, _ => rss_nil W
  | .cons s r, h => rss_cons W s r h.1 h.2 (rs s h.1) (rss r h.2)
end

end RsslVerif.Lemmas.StmtRT

//! C04.fix `tpl:<seed>` — function templates with VALUE parameters (and type parameters deduced from literal arguments).
//!
//! Why (seeded mutant C04-4): the first compilation fixes the *kind* of a template value argument (`IntLiteral`, `Int32`,
//! `UInt32`, `Bool`) and substitutes a constant of that kind for every use of the parameter inside the instance.  The printed
//! text carries the kind only through the spelling of the constant (`3`, `3u`, `true`): an `IntLiteral` and an `Int32` are
//! both printed `3`.  The fixpoint therefore depends on the kind recorded for an argument being the kind its printed spelling
//! is read back with.  The programs below combine the parameter with untyped literals in int / uint / float contexts
//! (operands, initialisers, compound assignments, returns, loop bounds, array sizes, case labels, `?:`, arguments of
//! overloaded functions and intrinsics), so a different kind shows as a different conversion in the second generation.
//!
//! Program shape (all choices from the seed):
//!   constants      `static const int KI = 4; static const uint KU = 3u; static const bool KB = true;`
//!   overload sets  `int pick(int a) / int pick(float a)`, `int pq(uint a) / int pq(float a)` (a literal int selects the first)
//!   2..4 templates `template<int N>` / `template<uint N>` / `template<bool N>` / `template<typename T, T N>` /
//!                  `template<int N, int M>` / `template<typename T>` with a body of 2..6 statements from the pool
//!   `int user()`   calls: every call passes its ordinal (`1000 + k`) as last argument, so the emitted text says which
//!                  instance serves which call
//! Template arguments: unsuffixed literals and literal expressions (`3`, `2 + 1`, `2 * 3`, `0x10`, `1 << 2`, `7 / 2`, `-1`),
//! `u`-suffixed (`3u`, `2u + 1u`), `true` / `false`, and — in 1 program of 4 — *typed* arguments (`KI`, `KI + 1`, `(int)3`,
//! `(int)KU`, `KU`, `KB`).
//!
//! The generator keeps its own record of the kind of every argument it writes (`Kind`), independent of the compiler and of
//! the Lean model.  When the oracle fails, `classify` finds the instance that contains the first differing line and the calls
//! it serves: if every one of them was written with an `Int32`-kinded argument the failure is tagged
//! `[tpl: int32-template-argument-printed-bare]` (a confirmed defect of the unchanged compiler: the call site prints the
//! `Int32` argument as `4`, which is read back as an `IntLiteral`; see notes/C04.md).  Any other failure keeps the request as
//! its key and is a violation.

use crate::util::*;

#[derive(Clone, Copy, PartialEq, Eq, Debug)]
pub enum Kind {
    Lit,
    Int,
    UInt,
    Bool,
}

#[derive(Clone, Copy, PartialEq, Eq, Debug)]
enum PKind {
    Int,
    UInt,
    Bool,
    /// `template<typename T, T N>`
    Dep,
    /// `template<int N, int M>`
    Int2,
    /// `template<typename T>` — argument type deduced from the call
    Ty,
}

pub struct Call {
    pub ordinal: u32,
    pub kinds: Vec<Kind>,
}

pub struct Program {
    pub source: String,
    pub calls: Vec<Call>,
}

const CTX: [&str; 3] = ["int", "uint", "float"];

/// an argument for a value parameter: text, the generator's own kind, whether it is > 0 (usable as an array size)
fn value_arg(rng: &mut Rng, typed: bool, allow_nonpositive: bool, hist: &mut Hist) -> (String, Kind) {
    let untyped = ["3", "1", "2", "7", "2 + 1", "2 * 3", "0x10", "1 << 2", "7 / 2", "9 - 4", "(5)", "+6"];
    let unsigned = ["3u", "1u", "2u + 1u", "4u * 2u", "0x8u", "5U"];
    let typed_int = ["KI", "KI + 1", "(int)3", "(int)KU", "KI * 2", "(int)2 + 1"];
    let typed_uint = ["KU", "KU + 1u", "(uint)2"];
    let r = rng.below(if typed { 14 } else { 10 });
    let (s, k) = match r {
        0..=5 => (rng.pick(&untyped).to_string(), Kind::Lit),
        6 if allow_nonpositive => (rng.pick(&["-1", "0", "-2 + 1", "-(3)"]).to_string(), Kind::Lit),
        6 => ("4".to_string(), Kind::Lit),
        7..=9 => (rng.pick(&unsigned).to_string(), Kind::UInt),
        10..=12 => (rng.pick(&typed_int).to_string(), Kind::Int),
        _ => (rng.pick(&typed_uint).to_string(), Kind::UInt),
    };
    hist.add(&format!("arg-{:?}", k));
    (s, k)
}

fn bool_arg(rng: &mut Rng, typed: bool, hist: &mut Hist) -> (String, Kind) {
    let r = rng.below(if typed { 5 } else { 3 });
    let (s, k) = match r {
        0 => ("true".to_string(), Kind::Bool),
        1 => ("false".to_string(), Kind::Bool),
        2 => (rng.pick(&["1", "0", "2"]).to_string(), Kind::Lit),
        3 => ("KB".to_string(), Kind::Bool),
        _ => ("!KB".to_string(), Kind::Bool),
    };
    hist.add(&format!("arg-{:?}", k));
    (s, k)
}

/// one statement of a template body; `n` is the spelling of the value parameter, `c` the context type of `acc`
fn body_stmt(rng: &mut Rng, n: &str, c: &str, i: usize, arrays: bool, hist: &mut Hist) -> String {
    let lit = *rng.pick(&["1", "2", "3", "10"]);
    let flit = *rng.pick(&["1.5", "0.5", "2.0"]);
    let op = *rng.pick(&["+", "*", "-", "|", "&", "^"]);
    let aop = *rng.pick(&["+", "*", "-"]);
    let c2 = *rng.pick(&CTX);
    let r = rng.below(if arrays { 20 } else { 18 });
    let (tag, s) = match r {
        0 => ("init-sum", format!("{} a{} = {} + {};", c2, i, n, lit)),
        1 => ("init-sum-rev", format!("{} a{} = {} {} {};", c2, i, lit, aop, n)),
        2 => ("init-plain", format!("{} a{} = {};", c2, i, n)),
        3 => ("init-float-mix", format!("float a{} = {} * {};", i, n, flit)),
        4 => ("compound", format!("acc {}= {};", aop, n)),
        5 => ("compound-sum", format!("acc += {} {} {};", n, if c == "float" { aop } else { op }, lit)),
        6 => ("operand", format!("acc = acc * {} + ({} << 1);", n, n)),
        7 => ("operand-paren", format!("acc = ({} + {}) * acc - {};", n, lit, n)),
        8 => ("loop-bound", format!("for (int i{} = 0; i{} < {} + {}; ++i{}) {{ acc += {} * 2; }}", i, i, n, lit, i, n)),
        9 => ("loop-bound-uint", format!("for (uint i{} = 0; i{} < {}; i{}++) {{ acc += {}; }}", i, i, n, i, lit)),
        10 => ("ternary", format!("acc += {} > {} ? {} : {};", n, lit, n, lit)),
        11 => ("ternary-float", format!("float a{} = tag > 0 ? {} : {};", i, n, flit)),
        12 => ("case-label", format!("switch (tag) {{ case {}: acc += 1; break; case {} + 100: acc += 2; break; default: break; }}", n, n)),
        13 => ("overload-arg", format!("acc += {}({});", rng.pick(&["pick", "pq"]), n)),
        14 => ("overload-arg-sum", format!("acc += {}({} + {});", rng.pick(&["pick", "pq"]), n, lit)),
        15 => ("intrinsic-arg", format!("acc += ({})(min({}, {}) + max(acc, {}));", c, n, lit, n)),
        16 => ("unary", format!("int a{} = -{} + ~{};", i, n, n)),
        17 => ("divide", format!("{} a{} = {} / 2 * 3 % 5 + {};", c2, i, n, n)),
        18 => ("array-size", format!("float a{}[{} + {}];", i, n, lit)),
        _ => ("array-size-plain", format!("int a{}[{}]; a{}[0] = {};", i, n, i, n)),
    };
    hist.add(&format!("stmt-{}", tag));
    s
}

fn bool_stmt(rng: &mut Rng, n: &str, i: usize, hist: &mut Hist) -> String {
    let r = rng.below(6);
    let (tag, s) = match r {
        0 => ("bool-ternary", format!("acc += {} ? 1 : 2;", n)),
        1 => ("bool-if", format!("if ({}) {{ acc += 1; }} else {{ acc -= 1; }}", n)),
        2 => ("bool-sum", format!("acc += {} + 1;", n)),
        3 => ("bool-init", format!("int a{} = {};", i, n)),
        4 => ("bool-and", format!("bool a{} = {} && tag > 0;", i, n)),
        _ => ("bool-float", format!("float a{} = {} ? 1 : 2.5;", i, n)),
    };
    hist.add(&format!("stmt-{}", tag));
    s
}

fn ty_stmt(rng: &mut Rng, i: usize, hist: &mut Hist) -> String {
    let r = rng.below(6);
    let (tag, s) = match r {
        0 => ("ty-init", format!("T a{} = 1;", i)),
        1 => ("ty-sum", "acc = acc + x + 1;".to_string()),
        2 => ("ty-float", "acc = acc * 2.5;".to_string()),
        3 => ("ty-compound", "acc += 2;".to_string()),
        4 => ("ty-cmp", "acc = x > 1 ? acc : 3;".to_string()),
        _ => ("ty-overload", "acc += (T)pick(x + 1);".to_string()),
    };
    hist.add(&format!("stmt-{}", tag));
    s
}

/// sibling places where the first compilation fixes the type of a literal that the printed text does not carry: enum
/// values (folded to their value), constants folded into array sizes, `static const` initialisers used in expressions,
/// default parameter values, case labels from constants, literal arguments of overloaded functions and intrinsics
fn sibling_block(rng: &mut Rng, s: &mut String, hist: &mut Hist) {
    let lit = |rng: &mut Rng| rng.pick(&["1", "2", "3", "2 + 1", "1 << 2", "0x4", "3u", "2u * 2u"]).to_string();
    let n = rng.below(7);
    hist.add(&format!("siblings-{}", n));
    if n == 0 {
        return;
    }
    s.push_str(&format!("enum SE {{ SA = {}, SB = SA + {}, SC = {}, SD }};\n", lit(rng), rng.pick(&["1", "2", "1u"]), lit(rng)));
    s.push_str(&format!("static const int SK2 = KI + {};\nstatic const float SKF = KI * {};\nstatic const uint SKU = KU + {};\n",
        lit(rng), rng.pick(&["2", "1.5", "2u"]), rng.pick(&["1", "1u", "2"])));
    s.push_str(&format!("static float sarr0[KI + {}];\nstatic int sarr1[KU];\nstatic int sarr2[SB];\nstatic int sarr3[{}];\n", lit(rng), lit(rng)));
    s.push_str(&format!("int sdef(int a = {}, uint b = {}, float c = {}, int e = KI + {}) {{ return a + (int)b + (int)c + e; }}\n",
        lit(rng), lit(rng), rng.pick(&["1", "2.5", "1u", "KI"]), lit(rng)));
    s.push_str("int sib(int v, uint w, float z) {\n    int r = 0;\n");
    let pool: [&dyn Fn(&mut Rng) -> String; 12] = [
        &|r| format!("    float la[KI * {}];\n    int lb[{}];\n", r.pick(&["2", "1", "2u"]), r.pick(&["2 + 2", "SK2", "SC", "(int)KU + 1"])),
        &|r| format!("    r += sdef() + sdef({}) + sdef(1, {}) + sdef(v, w, {});\n", r.pick(&["1", "2u", "KI"]), r.pick(&["2", "2u", "KU"]), r.pick(&["3", "1.5", "z"])),
        &|r| format!("    r += pick({}) + pick({}) + pq({});\n", r.pick(&["KI + 1", "SK2", "1 + 1", "(int)SB + 1"]), r.pick(&["SKF", "1.5", "KI * 1.5", "2"]), r.pick(&["2", "KU + 1", "3u", "1.5"])),
        &|r| format!("    r += min(KI, {}) + max(1, {}) + (int)min(KU, {}) + (int)clamp(v, 0, {});\n", r.pick(&["2", "SK2"]), r.pick(&["2", "v", "KI"]), r.pick(&["2", "2u", "w"]), r.pick(&["10", "KI", "SK2"])),
        &|r| format!("    r += (int)pow(2, {}) + abs({}) + (int)lerp(0, {}, 0.5) + (int)saturate({});\n", r.pick(&["3", "z", "KI"]), r.pick(&["-3", "v", "-KI"]), r.pick(&["1", "z", "KI"]), r.pick(&["2", "z", "1.5"])),
        &|r| format!("    switch (v) {{ case KI: r += 1; break; case KI + {}: r += 2; break; case {}: r += 3; break; default: break; }}\n", r.pick(&["10", "20"]), r.pick(&["100", "50 + 50", "0x70"])),
        &|r| format!("    int e0 = (int)SA + {}; uint e1 = (uint)SB + {}; float e2 = (int)SC * {}; SE e3 = (SE){};\n    r += e0 + (int)e1 + (int)e2 + (int)e3;\n", r.pick(&["1", "KI"]), r.pick(&["1u", "1", "KU"]), r.pick(&["1.5", "2", "KI"]), r.pick(&["1", "0"])),
        &|r| format!("    r += v == SK2 ? {} : {};\n", r.pick(&["1", "KI", "2u"]), r.pick(&["2", "KI + 1", "3"])),
        &|r| format!("    float f0 = KI + {}; float f1 = SKF * {}; uint u0 = SKU + {}; uint u1 = KI;\n    r += (int)f0 + (int)f1 + (int)u0 + (int)u1;\n", r.pick(&["1", "1.5"]), r.pick(&["2", "KI"]), r.pick(&["1", "1u", "KI"])),
        &|r| format!("    for (int i = 0; i < KI + {}; ++i) {{ r += SK2 * {}; }}\n", r.pick(&["1", "SK2"]), r.pick(&["2", "KI"])),
        &|r| format!("    r += (v << {}) + (KI << 1) + (int)(w >> {}) + (SK2 & {});\n", r.pick(&["1", "KI", "1u"]), r.pick(&["1", "KU", "1u"]), r.pick(&["3", "0xf", "KI"])),
        &|r| format!("    bool b0 = KB && v > {}; r += b0 ? {} : 0; r += KB ? KI : {};\n", r.pick(&["1", "KI"]), r.pick(&["1", "SK2"]), r.pick(&["2", "0"])),
    ];
    for _ in 0..n {
        let k = rng.below(pool.len() as u64) as usize;
        hist.add(&format!("sibling-stmt-{}", k));
        // a block of its own: the same shape may be drawn twice
        s.push_str("    {\n");
        s.push_str(&pool[k](rng));
        s.push_str("    }\n");
    }
    s.push_str("    return r;\n}\n");
}

pub fn generate(rng: &mut Rng, hist: &mut Hist) -> Program {
    let typed = rng.chance(1, 4);
    hist.add(if typed { "program-with-typed-arguments" } else { "program-literal-arguments-only" });
    let mut s = String::new();
    s.push_str(&format!("static const int KI = {};\n", rng.range(1, 9)));
    s.push_str(&format!("static const uint KU = {}u;\n", rng.range(1, 9)));
    s.push_str("static const bool KB = true;\n");
    s.push_str("int pick(int a) { return 1; }\nint pick(float a) { return 3; }\nint pq(uint a) { return 2; }\nint pq(float a) { return 4; }\n");
    let ntpl = 2 + rng.below(3) as usize;
    let mut tpls: Vec<(String, PKind, bool, String)> = Vec::new();
    for t in 0..ntpl {
        let pk = *rng.pick(&[PKind::Int, PKind::Int, PKind::Int, PKind::UInt, PKind::Bool, PKind::Dep, PKind::Int2, PKind::Ty]);
        hist.add(&format!("template-{:?}", pk));
        let name = format!("t{}", t);
        let c = *rng.pick(&CTX);
        let arrays = rng.chance(1, 3);
        let nst = 2 + rng.below(5) as usize;
        let mut body = String::new();
        let (header, ret, xty) = match pk {
            PKind::Int => ("template<int N>".to_string(), c.to_string(), c.to_string()),
            PKind::UInt => ("template<uint N>".to_string(), c.to_string(), c.to_string()),
            PKind::Bool => ("template<bool N>".to_string(), "int".to_string(), "int".to_string()),
            PKind::Dep => ("template<typename T, T N>".to_string(), "T".to_string(), "T".to_string()),
            PKind::Int2 => ("template<int N, int M>".to_string(), c.to_string(), c.to_string()),
            PKind::Ty => ("template<typename T>".to_string(), "T".to_string(), "T".to_string()),
        };
        body.push_str(&format!("    {} acc = x;\n", ret));
        for i in 0..nst {
            let st = match pk {
                PKind::Bool => bool_stmt(rng, "N", i, hist),
                PKind::Ty => ty_stmt(rng, i, hist),
                PKind::Int2 => {
                    let n = *rng.pick(&["N", "M", "(N + M)", "N * M"]);
                    body_stmt(rng, n, c, i, false, hist)
                }
                PKind::Dep => body_stmt(rng, "N", "T", i, false, hist),
                _ => body_stmt(rng, "N", c, i, arrays, hist),
            };
            body.push_str("    ");
            body.push_str(&st);
            body.push('\n');
        }
        let tail = match pk {
            PKind::Ty => "    return acc;\n".to_string(),
            PKind::Bool => "    return acc + (N ? 1 : 0);\n".to_string(),
            _ => format!("    return acc + N + {};\n", rng.pick(&["1", "2"])),
        };
        body.push_str(&tail);
        s.push_str(&format!("{}\n{} {}({} x, int tag) {{\n{}}}\n", header, ret, name, xty, body));
        tpls.push((name, pk, arrays, c.to_string()));
    }
    sibling_block(rng, &mut s, hist);
    // calls
    let mut calls = Vec::new();
    s.push_str("int user(int v, uint w, float z) {\n    int r = 0;\n");
    let ncalls = 3 + rng.below(6) as usize;
    for k in 0..ncalls {
        let ordinal = 1000 + k as u32;
        let (name, pk, arrays, c) = rng.pick(&tpls).clone();
        let mut kinds = Vec::new();
        let xarg = |rng: &mut Rng, c: &str| -> String {
            match c {
                "int" => rng.pick(&["v", "1", "2", "(int)w"]).to_string(),
                "uint" => rng.pick(&["w", "1u", "2", "(uint)v"]).to_string(),
                _ => rng.pick(&["z", "1.5", "2", "(float)v", "0.5f"]).to_string(),
            }
        };
        let call = match pk {
            PKind::Int | PKind::UInt => {
                let (a, kd) = value_arg(rng, typed, !arrays, hist);
                kinds.push(kd);
                format!("{}<{}>({}, {})", name, a, xarg(rng, &c), ordinal)
            }
            PKind::Bool => {
                let (a, kd) = bool_arg(rng, typed, hist);
                kinds.push(kd);
                format!("{}<{}>({}, {})", name, a, xarg(rng, "int"), ordinal)
            }
            PKind::Int2 => {
                let (a, ka) = value_arg(rng, typed, true, hist);
                let (b, kb) = value_arg(rng, typed, true, hist);
                kinds.push(ka);
                kinds.push(kb);
                format!("{}<{}, {}>({}, {})", name, a, b, xarg(rng, &c), ordinal)
            }
            PKind::Dep => {
                let t = *rng.pick(&CTX);
                let (a, kd) = value_arg(rng, typed, true, hist);
                kinds.push(kd);
                format!("{}<{}, {}>({}, {})", name, t, a, xarg(rng, t), ordinal)
            }
            PKind::Ty => {
                // deduction from the argument (literals included) or explicit
                let arg = rng.pick(&["1", "2u", "1.5", "2.5f", "v", "w", "z", "v + 1", "w * 2", "z + 1", "true"]).to_string();
                if rng.chance(1, 3) {
                    let t = *rng.pick(&CTX);
                    format!("{}<{}>({}, {})", name, t, arg, ordinal)
                } else {
                    format!("{}({}, {})", name, arg, ordinal)
                }
            }
        };
        s.push_str(&format!("    r += (int){};\n", call));
        calls.push(Call { ordinal, kinds });
    }
    s.push_str("    return r;\n}\n");
    Program { source: s, calls }
}

pub fn source(seed: u64) -> String {
    generate(&mut Rng::new(seed), &mut Hist::default()).source
}

/// Called when the second text differs: `line` (1-based) is the first differing line of `text1`.  Returns the tag of the
/// known class when the line lies in a template instance all of whose calls were written with an `Int32` argument.
pub fn classify(prog: &Program, text1: &str, line: usize) -> Option<&'static str> {
    let lines: Vec<&str> = text1.lines().collect();
    if line == 0 || line > lines.len() {
        return None;
    }
    // the function that contains the line: the closest line above that starts a definition `<type> <name>(`
    let mut fname = None;
    for l in lines[..line].iter().rev() {
        if !l.starts_with(' ') && !l.starts_with('{') && !l.starts_with('}') && l.contains('(') && l.ends_with('{') {
            let head = &l[..l.find('(').unwrap()];
            fname = head.split_whitespace().last().map(|x| x.to_string());
            break;
        }
    }
    let fname = fname?;
    // the calls it serves: `<fname><args>(.., <ordinal>)` in the emitted `user`
    let mut served = Vec::new();
    let pat = format!("{}<", fname);
    for l in &lines {
        let mut rest: &str = l;
        while let Some(p) = rest.find(&pat) {
            // not a suffix of a longer name
            let before_ok = p == 0 || !rest[..p].chars().last().map(|c| c.is_alphanumeric() || c == '_').unwrap_or(false);
            rest = &rest[p + pat.len()..];
            if !before_ok {
                continue;
            }
            // the ordinal: last argument of the call = the digits before the first `)` that closes it; calls are not nested
            if let Some(close) = rest.find(");") {
                let inside = &rest[..close];
                let digits: String = inside.chars().rev().take_while(|c| c.is_ascii_digit()).collect::<Vec<_>>().into_iter().rev().collect();
                if let Ok(o) = digits.parse::<u32>() {
                    served.push(o);
                }
            }
        }
    }
    if served.is_empty() {
        return None;
    }
    for o in &served {
        let c = prog.calls.iter().find(|c| c.ordinal == *o)?;
        if !c.kinds.iter().any(|k| *k == Kind::Int) {
            return None;
        }
    }
    Some("[tpl: int32-template-argument-printed-bare]")
}

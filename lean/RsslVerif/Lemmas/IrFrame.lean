import RsslVerif.Lemmas.GenMslTramp
/-! The typed semantics changes only variables the program mentions (frame property), and a `void` function whose body
has no `return e;` returns no value.  (About `Spec.Sem`'s `Ir.eval/exec/callFunc/phi` only.) -/
namespace RsslVerif.Lemmas.GenMsl
open RsslVerif.Gen.HlslGenTables RsslVerif.Model RsslVerif.Spec.Sem
open RsslVerif.Model.Ir (Ty Var Const Dir)
set_option linter.unusedSimpArgs false

namespace Ir
open RsslVerif.Model.Ir

mutual
/-- the variable `x` does not occur in the expression -/
def freeE (x : Var) : Expr → Bool
  | .lit _ => true
  | .var id => decide (Var.loc id ≠ x)
  | .global id => decide (Var.glob id ≠ x)
  | .cast _ e => freeE x e
  | .tern c t f => freeE x c && freeE x t && freeE x f
  | .seq es => freeEs x es
  | .call _ args => freeEs x args
  | .intr _ _ _ args => freeEs x args
  | .op _ args => freeEs x args
def freeEs (x : Var) : Exprs → Bool
  | .nil => true
  | .cons e r => freeE x e && freeEs x r
end

def freeOpt (x : Var) : Option Expr → Bool
  | none => true
  | some e => freeE x e

def freeDefs (x : Var) : List (Nat × Option Expr) → Bool
  | [] => true
  | d :: r => decide (Var.loc d.1 ≠ x) && freeOpt x d.2 && freeDefs x r

def freeForInit (x : Var) : ForInit → Bool
  | .empty => true
  | .expr e => freeE x e
  | .defs ds => freeDefs x ds

mutual
def freeS (x : Var) : Stmt → Bool
  | .expr e => freeE x e
  | .var id i => decide (Var.loc id ≠ x) && freeOpt x i
  | .block b => freeSs x b
  | .ifThen c b => freeE x c && freeSs x b
  | .ifElse c t f => freeE x c && freeSs x t && freeSs x f
  | .for i c n b => freeForInit x i && freeOpt x c && freeOpt x n && freeSs x b
  | .while c b => freeE x c && freeSs x b
  | .doWhile b c => freeSs x b && freeE x c
  | .break => true
  | .continue => true
  | .ret e => freeOpt x e
  | .switch _ c b => freeE x c && freeSs x b
  | .caseLabel _ => true
  | .defaultLabel => true
def freeSs (x : Var) : Stmts → Bool
  | .nil => true
  | .cons s r => freeS x s && freeSs x r
end

/-- `x` is neither a parameter of the function nor mentioned in its body -/
def freeF (x : Var) (fn : Func) : Bool := fn.params.all (fun p => decide (Var.loc p.1 ≠ x)) && freeSs x fn.body

end Ir

/-- the callable functions leave `x` alone -/
def PhiFrame (W : World) (x : Var) : Prop := ∀ f vals σ r, W.phi f vals σ = some r → r.2.2 x = σ x

theorem set_ne (σ : Store) {x y : Var} (v : Val) (h : y ≠ x) : σ.set y v x = σ x := by
  simp [Store.set, h.symm]

theorem lval_free {x : Var} {e : Ir.Expr} {y : Var} (hf : Ir.freeE x e = true) (hl : Spec.Sem.Ir.lvalOf e = some y) : y ≠ x := by
  cases e <;> simp [Spec.Sem.Ir.lvalOf] at hl <;> subst hl <;> simpa [Ir.freeE] using hf

mutual
theorem eval_frame {W : World} {x : Var} (hW : PhiFrame W x) :
    ∀ (e : Ir.Expr) (σ : Store) (v : Val) (σ' : Store), Ir.freeE x e = true → Spec.Sem.Ir.eval W e σ = some (v, σ') → σ' x = σ x
  | .lit c, σ, v, σ', _, h => by simp [Spec.Sem.Ir.eval] at h; rw [← h.2]
  | .var id, σ, v, σ', _, h => by simp [Spec.Sem.Ir.eval] at h; rw [← h.2]
  | .global id, σ, v, σ', _, h => by simp [Spec.Sem.Ir.eval] at h; rw [← h.2]
  | .cast ty e, σ, v, σ', hf, h => by
    simp only [Ir.freeE] at hf
    simp only [Spec.Sem.Ir.eval, Spec.Sem.castR] at h
    cases he : Spec.Sem.Ir.eval W e σ with
    | none => simp [he] at h
    | some r =>
      obtain ⟨ve, σe⟩ := r
      simp only [he] at h
      cases hc : castVal W.P ty ve <;> simp [hc] at h
      rw [← h.2]; exact eval_frame hW e σ ve σe hf he
  | .tern c t f, σ, v, σ', hf, h => by
    simp only [Ir.freeE, Bool.and_eq_true] at hf
    simp only [Spec.Sem.Ir.eval] at h
    cases hc : Spec.Sem.Ir.eval W c σ with
    | none => simp [hc] at h
    | some r =>
      obtain ⟨vc, σc⟩ := r
      have e1 := eval_frame hW c σ vc σc hf.1.1 hc
      simp only [hc] at h
      cases vc with
      | b bv =>
        cases bv
        · rw [eval_frame hW f σc v σ' hf.2 h, e1]
        · rw [eval_frame hW t σc v σ' hf.1.2 h, e1]
      | _ => simp at h
  | .seq es, σ, v, σ', hf, h => by
    simp only [Ir.freeE] at hf
    simp only [Spec.Sem.Ir.eval] at h
    exact evalSeq_frame hW es σ v σ' hf h
  | .call f args, σ, v, σ', hf, h => by
    simp only [Ir.freeE] at hf
    simp only [Spec.Sem.Ir.eval] at h
    cases hs : W.sig f with
    | none => simp [hs] at h
    | some s =>
      obtain ⟨rt, ps⟩ := s
      simp only [hs] at h
      cases ha : Spec.Sem.Ir.evalArgs W args ps σ with
      | none => simp [ha] at h
      | some r =>
        obtain ⟨l, σ1⟩ := r
        obtain ⟨e1, e2⟩ := evalArgs_frame hW args ps σ l σ1 hf ha
        simp only [ha] at h
        cases hp : W.phi f (l.map (·.1)) σ1 with
        | none => simp [hp] at h
        | some r2 =>
          obtain ⟨ret, fin, σ2⟩ := r2
          simp [hp] at h
          have hw2 : σ2 x = σ1 x := hW f _ σ1 _ hp
          rw [← h.2, writeBack_off _ _ _ _ (fun y hy => e2 y hy), hw2, e1]
  | .intr i T ret args, σ, v, σ', hf, h => by
    simp only [Ir.freeE] at hf
    simp only [Spec.Sem.Ir.eval] at h
    cases ha : Spec.Sem.Ir.evalAll W args σ with
    | none => simp [ha] at h
    | some r =>
      obtain ⟨vals, σ1⟩ := r
      simp only [ha] at h
      cases hi : W.P.intr i T vals <;> simp [hi] at h
      rw [← h.2]; exact evalAll_frame hW args σ vals σ1 hf ha
  | .op o .nil, σ, v, σ', _, h => by simp [Spec.Sem.Ir.eval] at h
  | .op o (.cons a .nil), σ, v, σ', hf, h => by
    simp only [Ir.freeE, Ir.freeEs, Bool.and_true] at hf
    simp only [Spec.Sem.Ir.eval] at h
    cases hsem : irOpSem o with
    | un m =>
      simp only [hsem] at h
      cases ha : Spec.Sem.Ir.eval W a σ with
      | none => simp [ha] at h
      | some r =>
        obtain ⟨va, σa⟩ := r
        simp only [ha] at h
        cases hu : unop W.P m va <;> simp [hu] at h
        rw [← h.2]; exact eval_frame hW a σ va σa hf ha
    | incdec pre inc =>
      simp only [hsem] at h
      cases hl : Spec.Sem.Ir.lvalOf a with
      | none => simp [hl] at h
      | some y =>
        simp only [hl] at h
        cases hs : step W.P inc (σ y) <;> simp [hs] at h
        rw [← h.2]; exact set_ne σ _ (lval_free hf hl)
    | _ => simp [hsem] at h
  | .op o (.cons a (.cons b .nil)), σ, v, σ', hf, h => by
    simp only [Ir.freeE, Ir.freeEs, Bool.and_true, Bool.and_eq_true] at hf
    simp only [Spec.Sem.Ir.eval] at h
    cases hsem : irOpSem o with
    | bin m =>
      simp only [hsem] at h
      cases ha : Spec.Sem.Ir.eval W a σ with
      | none => simp [ha] at h
      | some r =>
        obtain ⟨va, σa⟩ := r
        simp only [ha] at h
        cases hb : Spec.Sem.Ir.eval W b σa with
        | none => simp [hb] at h
        | some r2 =>
          obtain ⟨vb, σb⟩ := r2
          simp only [hb] at h
          cases hu : binop W.P m va vb <;> simp [hu] at h
          rw [← h.2, eval_frame hW b σa vb σb hf.2 hb, eval_frame hW a σ va σa hf.1 ha]
    | land =>
      simp only [hsem] at h
      cases ha : Spec.Sem.Ir.eval W a σ with
      | none => simp [ha] at h
      | some r =>
        obtain ⟨va, σa⟩ := r
        have e1 := eval_frame hW a σ va σa hf.1 ha
        simp only [ha] at h
        cases va with
        | b bv =>
          cases bv
          · simp at h; rw [← h.2, e1]
          · simp only [] at h
            cases hb : Spec.Sem.Ir.eval W b σa with
            | none => simp [hb] at h
            | some r2 =>
              obtain ⟨vb, σb⟩ := r2
              simp only [hb] at h
              cases vb <;> simp at h
              rw [← h.2, eval_frame hW b σa _ σb hf.2 hb, e1]
        | _ => simp at h
    | lor =>
      simp only [hsem] at h
      cases ha : Spec.Sem.Ir.eval W a σ with
      | none => simp [ha] at h
      | some r =>
        obtain ⟨va, σa⟩ := r
        have e1 := eval_frame hW a σ va σa hf.1 ha
        simp only [ha] at h
        cases va with
        | b bv =>
          cases bv
          · simp only [] at h
            cases hb : Spec.Sem.Ir.eval W b σa with
            | none => simp [hb] at h
            | some r2 =>
              obtain ⟨vb, σb⟩ := r2
              simp only [hb] at h
              cases vb <;> simp at h
              rw [← h.2, eval_frame hW b σa _ σb hf.2 hb, e1]
          · simp at h; rw [← h.2, e1]
        | _ => simp at h
    | assign =>
      simp only [hsem] at h
      cases hl : Spec.Sem.Ir.lvalOf a with
      | none => simp [hl] at h
      | some y =>
        simp only [hl] at h
        cases hb : Spec.Sem.Ir.eval W b σ with
        | none => simp [hb] at h
        | some r2 =>
          obtain ⟨vb, σb⟩ := r2
          simp [hb] at h
          rw [← h.2, set_ne σb _ (lval_free hf.1 hl), eval_frame hW b σ vb σb hf.2 hb]
    | compound m =>
      simp only [hsem] at h
      cases hl : Spec.Sem.Ir.lvalOf a with
      | none => simp [hl] at h
      | some y =>
        simp only [hl] at h
        cases hb : Spec.Sem.Ir.eval W b σ with
        | none => simp [hb] at h
        | some r2 =>
          obtain ⟨vb, σb⟩ := r2
          simp only [hb] at h
          cases hu : binop W.P m (σb y) vb <;> simp [hu] at h
          rw [← h.2, set_ne σb _ (lval_free hf.1 hl), eval_frame hW b σ vb σb hf.2 hb]
    | _ => simp [hsem] at h
  | .op o (.cons a (.cons b (.cons c r))), σ, v, σ', _, h => by simp [Spec.Sem.Ir.eval] at h
theorem evalArgs_frame {W : World} {x : Var} (hW : PhiFrame W x) :
    ∀ (es : Ir.Exprs) (ps : List (Dir × Ty)) (σ : Store) l σ', Ir.freeEs x es = true →
      Spec.Sem.Ir.evalArgs W es ps σ = some (l, σ') → σ' x = σ x ∧ ∀ y, some y ∈ l.map (·.2) → y ≠ x
  | .nil, [], σ, l, σ', _, h => by simp [Spec.Sem.Ir.evalArgs] at h; obtain ⟨rfl, rfl⟩ := h; simp
  | .nil, _ :: _, σ, l, σ', _, h => by simp [Spec.Sem.Ir.evalArgs] at h
  | .cons _ _, [], σ, l, σ', _, h => by simp [Spec.Sem.Ir.evalArgs] at h
  | .cons e r, (d, T) :: ps, σ, l, σ', hf, h => by
    simp only [Ir.freeEs, Bool.and_eq_true] at hf
    cases d with
    | in_ =>
      simp only [Spec.Sem.Ir.evalArgs] at h
      cases he : Spec.Sem.Ir.eval W e σ with
      | none => simp [he] at h
      | some r1 =>
        obtain ⟨v1, σa⟩ := r1
        simp only [he] at h
        cases hr : Spec.Sem.Ir.evalArgs W r ps σa with
        | none => simp [hr] at h
        | some r2 =>
          obtain ⟨l2, σ2⟩ := r2
          simp [hr] at h
          obtain ⟨rfl, rfl⟩ := h
          obtain ⟨e1, e2⟩ := evalArgs_frame hW r ps σa l2 σ2 hf.2 hr
          refine ⟨by rw [e1, eval_frame hW e σ v1 σa hf.1 he], ?_⟩
          intro y hy
          simp only [List.map_cons, List.mem_cons] at hy
          cases hy with
          | inl h0 => simp at h0
          | inr h0 => exact e2 y h0
    | out =>
      simp only [Spec.Sem.Ir.evalArgs] at h
      cases hl : Spec.Sem.Ir.lvalOf e with
      | none => simp [hl] at h
      | some y0 =>
        simp only [hl] at h
        cases hr : Spec.Sem.Ir.evalArgs W r ps σ with
        | none => simp [hr] at h
        | some r2 =>
          obtain ⟨l2, σ2⟩ := r2
          simp [hr] at h
          obtain ⟨rfl, rfl⟩ := h
          obtain ⟨e1, e2⟩ := evalArgs_frame hW r ps σ l2 σ2 hf.2 hr
          refine ⟨e1, ?_⟩
          intro y hy
          simp only [List.map_cons, List.mem_cons] at hy
          cases hy with
          | inl h0 => simp at h0; subst h0; exact lval_free hf.1 hl
          | inr h0 => exact e2 y h0
    | inout =>
      simp only [Spec.Sem.Ir.evalArgs] at h
      cases hl : Spec.Sem.Ir.lvalOf e with
      | none => simp [hl] at h
      | some y0 =>
        simp only [hl] at h
        cases hr : Spec.Sem.Ir.evalArgs W r ps σ with
        | none => simp [hr] at h
        | some r2 =>
          obtain ⟨l2, σ2⟩ := r2
          simp [hr] at h
          obtain ⟨rfl, rfl⟩ := h
          obtain ⟨e1, e2⟩ := evalArgs_frame hW r ps σ l2 σ2 hf.2 hr
          refine ⟨e1, ?_⟩
          intro y hy
          simp only [List.map_cons, List.mem_cons] at hy
          cases hy with
          | inl h0 => simp at h0; subst h0; exact lval_free hf.1 hl
          | inr h0 => exact e2 y h0
theorem evalAll_frame {W : World} {x : Var} (hW : PhiFrame W x) :
    ∀ (es : Ir.Exprs) (σ : Store) (l : List Val) (σ' : Store), Ir.freeEs x es = true →
      Spec.Sem.Ir.evalAll W es σ = some (l, σ') → σ' x = σ x
  | .nil, σ, l, σ', _, h => by simp [Spec.Sem.Ir.evalAll] at h; rw [← h.2]
  | .cons e r, σ, l, σ', hf, h => by
    simp only [Ir.freeEs, Bool.and_eq_true] at hf
    simp only [Spec.Sem.Ir.evalAll] at h
    cases he : Spec.Sem.Ir.eval W e σ with
    | none => simp [he] at h
    | some r1 =>
      obtain ⟨v1, σ1⟩ := r1
      simp only [he] at h
      cases hr : Spec.Sem.Ir.evalAll W r σ1 with
      | none => simp [hr] at h
      | some r2 =>
        obtain ⟨l2, σ2⟩ := r2
        simp [hr] at h
        rw [← h.2, evalAll_frame hW r σ1 l2 σ2 hf.2 hr, eval_frame hW e σ v1 σ1 hf.1 he]
theorem evalSeq_frame {W : World} {x : Var} (hW : PhiFrame W x) :
    ∀ (es : Ir.Exprs) (σ : Store) (v : Val) (σ' : Store), Ir.freeEs x es = true →
      Spec.Sem.Ir.evalSeq W es σ = some (v, σ') → σ' x = σ x
  | .nil, σ, v, σ', _, h => by simp [Spec.Sem.Ir.evalSeq] at h
  | .cons e .nil, σ, v, σ', hf, h => by
    simp only [Ir.freeEs, Bool.and_eq_true] at hf
    simp only [Spec.Sem.Ir.evalSeq] at h
    exact eval_frame hW e σ v σ' hf.1 h
  | .cons e (.cons e2 r), σ, v, σ', hf, h => by
    rw [Ir.freeEs] at hf
    simp only [Bool.and_eq_true] at hf
    rw [RsslVerif.Lemmas.GenSem.evalSeq_cons2] at h
    cases he : Spec.Sem.Ir.eval W e σ with
    | none => simp [he] at h
    | some r1 =>
      obtain ⟨v1, σ1⟩ := r1
      simp only [he] at h
      rw [evalSeq_frame hW (.cons e2 r) σ1 v σ' hf.2 h, eval_frame hW e σ v1 σ1 hf.1 he]
end

/-! ### statements -/

theorem loopW_frame (x : Var) (cond : Store → Option (Bool × Store)) (body : Store → SR) (inc : Store → Option Store)
    (hc : ∀ σ b σ', cond σ = some (b, σ') → σ' x = σ x) (hb : ∀ σ fl σ', body σ = some (fl, σ') → σ' x = σ x)
    (hi : ∀ σ σ', inc σ = some σ' → σ' x = σ x) :
    ∀ (n : Nat) (σ : Store) (fl : Flow) (σ' : Store), loopW n cond body inc σ = some (fl, σ') → σ' x = σ x
  | 0, σ, fl, σ', h => by simp [loopW] at h
  | n + 1, σ, fl, σ', h => by
    simp only [loopW] at h
    cases h1 : cond σ with
    | none => simp [h1] at h
    | some p =>
      obtain ⟨bv, σ1⟩ := p
      have e1 := hc σ bv σ1 h1
      simp only [h1] at h
      cases bv
      · simp at h; rw [← h.2, e1]
      · simp only [] at h
        cases h2 : body σ1 with
        | none => simp [h2] at h
        | some q =>
          obtain ⟨fl2, σ2⟩ := q
          have e2 := hb σ1 fl2 σ2 h2
          simp only [h2] at h
          have cont : ∀ (hh : (match inc σ2 with | none => none | some σ3 => loopW n cond body inc σ3) = some (fl, σ')), σ' x = σ x := by
            intro hh
            cases h3 : inc σ2 with
            | none => simp [h3] at hh
            | some σ3 =>
              simp only [h3] at hh
              rw [loopW_frame x cond body inc hc hb hi n σ3 fl σ' hh, hi σ2 σ3 h3, e2, e1]
          cases fl2 with
          | brk => simp at h; rw [← h.2, e2, e1]
          | ret v => simp at h; rw [← h.2, e2, e1]
          | normal => exact cont h
          | cont => exact cont h
          | seeking => exact cont h

theorem loopD_frame (x : Var) (body : Store → SR) (cond : Store → Option (Bool × Store))
    (hb : ∀ σ fl σ', body σ = some (fl, σ') → σ' x = σ x) (hc : ∀ σ b σ', cond σ = some (b, σ') → σ' x = σ x) :
    ∀ (n : Nat) (σ : Store) (fl : Flow) (σ' : Store), loopD n body cond σ = some (fl, σ') → σ' x = σ x
  | 0, σ, fl, σ', h => by simp [loopD] at h
  | n + 1, σ, fl, σ', h => by
    simp only [loopD] at h
    cases h2 : body σ with
    | none => simp [h2] at h
    | some q =>
      obtain ⟨fl2, σ2⟩ := q
      have e2 := hb σ fl2 σ2 h2
      simp only [h2] at h
      have cont : ∀ (hh : (match cond σ2 with
          | none => none
          | some (false, σ3) => some (Flow.normal, σ3)
          | some (true, σ3) => loopD n body cond σ3) = some (fl, σ')), σ' x = σ x := by
        intro hh
        cases h3 : cond σ2 with
        | none => simp [h3] at hh
        | some p =>
          obtain ⟨bv, σ3⟩ := p
          have e3 := hc σ2 bv σ3 h3
          simp only [h3] at hh
          cases bv
          · simp at hh; rw [← hh.2, e3, e2]
          · rw [loopD_frame x body cond hb hc n σ3 fl σ' hh, e3, e2]
      cases fl2 with
      | brk => simp at h; rw [← h.2, e2]
      | ret v => simp at h; rw [← h.2, e2]
      | normal => exact cont h
      | cont => exact cont h
      | seeking => exact cont h

theorem switchOut_frame (x : Var) (σ : Store) (r1 : SR) (p2 : Store → SR)
    (h1 : ∀ fl σ', r1 = some (fl, σ') → σ' x = σ x) (h2 : ∀ σ0 fl σ', p2 σ0 = some (fl, σ') → σ' x = σ0 x) :
    ∀ fl σ', switchOut r1 p2 = some (fl, σ') → σ' x = σ x := by
  intro fl σ' h
  unfold switchOut at h
  cases r1 with
  | none => simp at h
  | some p =>
    obtain ⟨fl1, σ2⟩ := p
    have e1 := h1 fl1 σ2 rfl
    cases fl1 with
    | seeking =>
      simp only [] at h
      cases hp : p2 σ2 with
      | none => simp [hp] at h
      | some q =>
        obtain ⟨fl2, σ3⟩ := q
        have e2 := h2 σ2 fl2 σ3 hp
        simp only [hp] at h
        cases fl2 <;> simp at h <;> rw [← h.2, e2, e1]
    | brk => simp at h; rw [← h.2, e1]
    | normal => simp at h; rw [← h.2, e1]
    | cont => simp at h; rw [← h.2, e1]
    | ret v => simp at h; rw [← h.2, e1]

theorem condOfB_frame {W : World} {x : Var} (hW : PhiFrame W x) (e : Ir.Expr) (hf : Ir.freeE x e = true) :
    ∀ σ b σ', condOfB W.P (Spec.Sem.Ir.eval W e σ) = some (b, σ') → σ' x = σ x := by
  intro σ b σ' h
  cases he : Spec.Sem.Ir.eval W e σ with
  | none => simp [he, condOfB] at h
  | some r =>
    obtain ⟨v, σ1⟩ := r
    simp only [he, condOfB] at h
    cases hc : castVal W.P .bool v with
    | none => simp [hc] at h
    | some w =>
      cases w <;> simp [hc] at h
      rw [← h.2]; exact eval_frame hW e σ v σ1 hf he

theorem condFn_frame {W : World} {x : Var} (hW : PhiFrame W x) (c : Option Ir.Expr) (hf : Ir.freeOpt x c = true) :
    ∀ σ b σ', Spec.Sem.Ir.condFn W c σ = some (b, σ') → σ' x = σ x := by
  cases c with
  | none => intro σ b σ' h; simp [Spec.Sem.Ir.condFn, alwaysTrue] at h; rw [← h.2]
  | some e => exact condOfB_frame hW e hf

theorem incFn_frame {W : World} {x : Var} (hW : PhiFrame W x) (c : Option Ir.Expr) (hf : Ir.freeOpt x c = true) :
    ∀ σ σ', Spec.Sem.Ir.incFn W c σ = some σ' → σ' x = σ x := by
  cases c with
  | none => intro σ σ' h; simp [Spec.Sem.Ir.incFn] at h; rw [← h]
  | some e =>
    intro σ σ' h
    simp only [Spec.Sem.Ir.incFn, dropVal] at h
    cases he : Spec.Sem.Ir.eval W e σ with
    | none => simp [he] at h
    | some r => obtain ⟨v, σ1⟩ := r; simp [he] at h; rw [← h]; exact eval_frame hW e σ v σ1 hf he

theorem varDef_frame {W : World} {x : Var} (hW : PhiFrame W x) (id : Nat) (i : Option Ir.Expr)
    (hid : Var.loc id ≠ x) (hf : Ir.freeOpt x i = true) :
    ∀ σ σ', Spec.Sem.Ir.execVarDef W id i σ = some σ' → σ' x = σ x := by
  intro σ σ' h
  cases i with
  | none => simp [Spec.Sem.Ir.execVarDef] at h; rw [← h]
  | some e =>
    simp only [Spec.Sem.Ir.execVarDef, setOf] at h
    cases he : Spec.Sem.Ir.eval W e σ with
    | none => simp [he] at h
    | some r =>
      obtain ⟨v, σ1⟩ := r
      simp [he] at h
      rw [← h, set_ne σ1 v hid]; exact eval_frame hW e σ v σ1 hf he

theorem forDefs_frame {W : World} {x : Var} (hW : PhiFrame W x) :
    ∀ (ds : List (Nat × Option Ir.Expr)), Ir.freeDefs x ds = true →
      ∀ σ σ', Spec.Sem.Ir.execForDefs W ds σ = some σ' → σ' x = σ x
  | [], _, σ, σ', h => by simp [Spec.Sem.Ir.execForDefs] at h; rw [← h]
  | (id, i) :: r, hf, σ, σ', h => by
    simp only [Ir.freeDefs, Bool.and_eq_true, decide_eq_true_eq] at hf
    simp only [Spec.Sem.Ir.execForDefs] at h
    cases h1 : Spec.Sem.Ir.execVarDef W id i σ with
    | none => simp [h1] at h
    | some σ1 =>
      simp only [h1] at h
      rw [forDefs_frame hW r hf.2 σ1 σ' h, varDef_frame hW id i hf.1.1 hf.1.2 σ σ1 h1]

mutual
theorem exec_frame {W : World} {x : Var} (hW : PhiFrame W x) (fuel : Nat) :
    ∀ (s : Ir.Stmt) (m : Mode) (σ : Store) (fl : Flow) (σ' : Store), Ir.freeS x s = true →
      Spec.Sem.Ir.exec W fuel m s σ = some (fl, σ') → σ' x = σ x
  | .expr e, m, σ, fl, σ', hf, h => by
    cases m <;> simp only [Spec.Sem.Ir.exec, skip] at h
    · cases he : Spec.Sem.Ir.eval W e σ with
      | none => simp [he, dropVal, normalOf] at h
      | some r =>
        obtain ⟨v, σ1⟩ := r
        simp [he, dropVal, normalOf] at h
        rw [← h.2]; exact eval_frame hW e σ v σ1 (by simpa [Ir.freeS] using hf) he
    all_goals (simp at h; rw [← h.2])
  | .var id i, m, σ, fl, σ', hf, h => by
    simp only [Ir.freeS, Bool.and_eq_true, decide_eq_true_eq] at hf
    cases m <;> simp only [Spec.Sem.Ir.exec, skip] at h
    · cases hv : Spec.Sem.Ir.execVarDef W id i σ with
      | none => simp [hv, normalOf] at h
      | some σ1 => simp [hv, normalOf] at h; rw [← h.2]; exact varDef_frame hW id i hf.1 hf.2 σ σ1 hv
    all_goals (simp at h; rw [← h.2])
  | .block b, m, σ, fl, σ', hf, h => by
    cases m <;> simp only [Spec.Sem.Ir.exec, skip] at h
    · exact execs_frame hW fuel b .run σ fl σ' (by simpa [Ir.freeS] using hf) h
    all_goals (simp at h; rw [← h.2])
  | .ifThen c b, m, σ, fl, σ', hf, h => by
    simp only [Ir.freeS, Bool.and_eq_true] at hf
    cases m <;> simp only [Spec.Sem.Ir.exec, skip] at h
    · cases hc : condOfB W.P (Spec.Sem.Ir.eval W c σ) with
      | none => simp [hc] at h
      | some p =>
        obtain ⟨bv, σ1⟩ := p
        have e1 := condOfB_frame hW c hf.1 σ bv σ1 hc
        simp only [hc] at h
        cases bv
        · simp at h; rw [← h.2, e1]
        · rw [execs_frame hW fuel b .run σ1 fl σ' hf.2 h, e1]
    all_goals (simp at h; rw [← h.2])
  | .ifElse c t f, m, σ, fl, σ', hf, h => by
    simp only [Ir.freeS, Bool.and_eq_true] at hf
    cases m <;> simp only [Spec.Sem.Ir.exec, skip] at h
    · cases hc : condOfB W.P (Spec.Sem.Ir.eval W c σ) with
      | none => simp [hc] at h
      | some p =>
        obtain ⟨bv, σ1⟩ := p
        have e1 := condOfB_frame hW c hf.1.1 σ bv σ1 hc
        simp only [hc] at h
        cases bv
        · rw [execs_frame hW fuel f .run σ1 fl σ' hf.2 h, e1]
        · rw [execs_frame hW fuel t .run σ1 fl σ' hf.1.2 h, e1]
    all_goals (simp at h; rw [← h.2])
  | .for i c n b, m, σ, fl, σ', hf, h => by
    simp only [Ir.freeS, Bool.and_eq_true] at hf
    obtain ⟨⟨⟨fi, fc⟩, fn⟩, fb⟩ := hf
    cases m <;> simp only [Spec.Sem.Ir.exec, skip] at h
    · cases hi : Spec.Sem.Ir.execForInit W i σ with
      | none => simp [hi] at h
      | some σ0 =>
        simp only [hi] at h
        have e0 : σ0 x = σ x := by
          cases i with
          | empty => simp [Spec.Sem.Ir.execForInit] at hi; rw [← hi]
          | expr e =>
            simp only [Spec.Sem.Ir.execForInit, dropVal] at hi
            cases he : Spec.Sem.Ir.eval W e σ with
            | none => simp [he] at hi
            | some r => obtain ⟨v, σ1⟩ := r; simp [he] at hi; rw [← hi]; exact eval_frame hW e σ v σ1 (by simpa [Ir.freeForInit] using fi) he
          | defs ds => exact forDefs_frame hW ds (by simpa [Ir.freeForInit] using fi) σ σ0 (by simpa [Spec.Sem.Ir.execForInit] using hi)
        rw [loopW_frame x _ _ _ (condFn_frame hW c fc) (fun s fl2 s' hh => execs_frame hW fuel b .run s fl2 s' fb hh)
          (incFn_frame hW n fn) fuel σ0 fl σ' h, e0]
    all_goals (simp at h; rw [← h.2])
  | .while c b, m, σ, fl, σ', hf, h => by
    simp only [Ir.freeS, Bool.and_eq_true] at hf
    cases m <;> simp only [Spec.Sem.Ir.exec, skip] at h
    · exact loopW_frame x _ _ _ (condFn_frame hW (some c) hf.1) (fun s fl2 s' hh => execs_frame hW fuel b .run s fl2 s' hf.2 hh)
        (fun s s' hh => by simp at hh; rw [← hh]) fuel σ fl σ' h
    all_goals (simp at h; rw [← h.2])
  | .doWhile b c, m, σ, fl, σ', hf, h => by
    simp only [Ir.freeS, Bool.and_eq_true] at hf
    cases m <;> simp only [Spec.Sem.Ir.exec, skip] at h
    · exact loopD_frame x _ _ (fun s fl2 s' hh => execs_frame hW fuel b .run s fl2 s' hf.1 hh) (condFn_frame hW (some c) hf.2)
        fuel σ fl σ' h
    all_goals (simp at h; rw [← h.2])
  | .break, m, σ, fl, σ', _, h => by cases m <;> simp [Spec.Sem.Ir.exec, skip] at h <;> rw [← h.2]
  | .continue, m, σ, fl, σ', _, h => by cases m <;> simp [Spec.Sem.Ir.exec, skip] at h <;> rw [← h.2]
  | .ret none, m, σ, fl, σ', _, h => by cases m <;> simp [Spec.Sem.Ir.exec, skip] at h <;> rw [← h.2]
  | .ret (some e), m, σ, fl, σ', hf, h => by
    cases m <;> simp only [Spec.Sem.Ir.exec, skip] at h
    · cases he : Spec.Sem.Ir.eval W e σ with
      | none => simp [he, retOf] at h
      | some r =>
        obtain ⟨v, σ1⟩ := r
        simp [he, retOf] at h
        rw [← h.2]; exact eval_frame hW e σ v σ1 (by simpa [Ir.freeS, Ir.freeOpt] using hf) he
    all_goals (simp at h; rw [← h.2])
  | .switch T c b, m, σ, fl, σ', hf, h => by
    simp only [Ir.freeS, Bool.and_eq_true] at hf
    cases m <;> simp only [Spec.Sem.Ir.exec, skip] at h
    · cases he : Spec.Sem.Ir.eval W c σ with
      | none => simp [he] at h
      | some r =>
        obtain ⟨v, σ1⟩ := r
        have e1 := eval_frame hW c σ v σ1 hf.1 he
        simp only [he] at h
        rw [switchOut_frame x σ1 _ _ (fun fl2 s' hh => execs_frame hW fuel b _ σ1 fl2 s' hf.2 hh)
          (fun s0 fl2 s' hh => execs_frame hW fuel b _ s0 fl2 s' hf.2 hh) fl σ' h, e1]
    all_goals (simp at h; rw [← h.2])
  | .caseLabel c, m, σ, fl, σ', _, h => by
    cases m with
    | run => simp [Spec.Sem.Ir.exec] at h; rw [← h.2]
    | seekDefault => simp [Spec.Sem.Ir.exec] at h; rw [← h.2]
    | seekCase T v =>
      simp only [Spec.Sem.Ir.exec] at h
      cases hc : castVal W.P T (Spec.Sem.Ir.constVal c) with
      | none => simp [hc] at h
      | some w =>
        simp only [hc] at h
        split at h <;> (simp at h; rw [← h.2])
  | .defaultLabel, m, σ, fl, σ', _, h => by cases m <;> simp [Spec.Sem.Ir.exec] at h <;> rw [← h.2]
theorem execs_frame {W : World} {x : Var} (hW : PhiFrame W x) (fuel : Nat) :
    ∀ (b : Ir.Stmts) (m : Mode) (σ : Store) (fl : Flow) (σ' : Store), Ir.freeSs x b = true →
      Spec.Sem.Ir.execs W fuel m b σ = some (fl, σ') → σ' x = σ x
  | .nil, m, σ, fl, σ', _, h => by cases m <;> simp [Spec.Sem.Ir.execs, endOf] at h <;> rw [← h.2]
  | .cons s r, m, σ, fl, σ', hf, h => by
    simp only [Ir.freeSs, Bool.and_eq_true] at hf
    simp only [Spec.Sem.Ir.execs] at h
    cases h1 : Spec.Sem.Ir.exec W fuel m s σ with
    | none => simp [h1] at h
    | some q =>
      obtain ⟨fl1, σ1⟩ := q
      have e1 := exec_frame hW fuel s m σ fl1 σ1 hf.1 h1
      simp only [h1] at h
      cases fl1 with
      | normal => rw [execs_frame hW fuel r .run σ1 fl σ' hf.2 h, e1]
      | seeking => rw [execs_frame hW fuel r m σ1 fl σ' hf.2 h, e1]
      | brk => simp at h; rw [← h.2, e1]
      | cont => simp at h; rw [← h.2, e1]
      | ret v => simp at h; rw [← h.2, e1]
end

theorem bindParams_frame (x : Var) : ∀ (ps : Params) (vals : List Val) (σ : Store),
    (ps.all fun p => decide (Var.loc p.1 ≠ x)) = true → Spec.Sem.Ir.bindParams ps vals σ x = σ x
  | [], vals, σ, _ => by cases vals <;> simp [Spec.Sem.Ir.bindParams]
  | (pid, d, T) :: ps, [], σ, _ => by simp [Spec.Sem.Ir.bindParams]
  | (pid, d, T) :: ps, v :: vs, σ, h => by
    simp only [List.all_cons, Bool.and_eq_true, decide_eq_true_eq] at h
    simp only [Spec.Sem.Ir.bindParams]
    rw [bindParams_frame x ps vs _ h.2, set_ne σ v h.1]

/-- a function that does not mention `x` leaves it alone, if its callees do -/
theorem callFunc_frame {W : World} {x : Var} (hW : PhiFrame W x) (fuel : Nat) (fn : Ir.Func) (hf : Ir.freeF x fn = true) :
    ∀ vals σ r, Spec.Sem.Ir.callFunc W fuel fn vals σ = some r → r.2.2 x = σ x := by
  intro vals σ r h
  simp only [Ir.freeF, Bool.and_eq_true] at hf
  simp only [Spec.Sem.Ir.callFunc] at h
  split at h
  · simp at h
  · cases hx : Spec.Sem.Ir.execs W fuel .run fn.body (Spec.Sem.Ir.bindParams fn.params vals σ) with
    | none => simp [hx] at h
    | some q =>
      obtain ⟨fl, σ1⟩ := q
      simp [hx] at h
      rw [← h]
      simp only []
      rw [execs_frame hW fuel fn.body .run _ fl σ1 hf.2 hx, bindParams_frame x fn.params vals σ hf.1]

/-- **frame property of a program**: a variable no function mentions is left alone by every call, at every depth -/
theorem phi_frame (P : Prim) (prog : List Ir.Func) (fuel : Nat) (x : Var) (hfree : ∀ fn ∈ prog, Ir.freeF x fn = true) :
    ∀ d, PhiFrame { P := P, phi := Spec.Sem.Ir.phi P prog fuel d, sig := Spec.Sem.Ir.sigOf prog } x
  | 0 => by intro f vals σ r h; simp [Spec.Sem.Ir.phi] at h
  | d + 1 => by
    intro f vals σ r h
    simp only [Spec.Sem.Ir.phi] at h
    cases hfind : prog.find? (fun fn => fn.id == f) with
    | none => simp [hfind] at h
    | some fn =>
      simp only [hfind] at h
      exact callFunc_frame (phi_frame P prog fuel x hfree d) fuel fn (hfree fn (List.mem_of_find?_eq_some hfind)) vals σ r h

/-! ### a body without `return e;` returns no value -/

namespace Ir
open RsslVerif.Model.Ir
mutual
def noRetS : Stmt → Bool
  | .ret (some _) => false
  | .block b => noRetSs b
  | .ifThen _ b => noRetSs b
  | .ifElse _ t f => noRetSs t && noRetSs f
  | .for _ _ _ b => noRetSs b
  | .while _ b => noRetSs b
  | .doWhile b _ => noRetSs b
  | .switch _ _ b => noRetSs b
  | _ => true
def noRetSs : Stmts → Bool
  | .nil => true
  | .cons s r => noRetS s && noRetSs r
end
end Ir

/-- the flow is not "returned a value" -/
def NoVal (r : SR) : Prop := ∀ v σ', r ≠ some (.ret (some v), σ')

theorem loopW_noval (cond : Store → Option (Bool × Store)) (body : Store → SR) (inc : Store → Option Store)
    (hb : ∀ σ, NoVal (body σ)) : ∀ (n : Nat) (σ : Store), NoVal (loopW n cond body inc σ)
  | 0, σ => by intro v σ'; simp [loopW]
  | n + 1, σ => by
    intro v σ'
    simp only [loopW]
    cases cond σ with
    | none => simp
    | some p =>
      obtain ⟨bv, σ1⟩ := p
      cases bv
      · simp
      · simp only []
        cases h2 : body σ1 with
        | none => simp
        | some q =>
          obtain ⟨fl2, σ2⟩ := q
          have := hb σ1
          cases fl2 with
          | ret w =>
            cases w with
            | none => simp
            | some w => exact absurd h2 (this w σ2)
          | brk => simp
          | normal => simp only []; cases inc σ2 with | none => simp | some σ3 => exact loopW_noval cond body inc hb n σ3 v σ'
          | cont => simp only []; cases inc σ2 with | none => simp | some σ3 => exact loopW_noval cond body inc hb n σ3 v σ'
          | seeking => simp only []; cases inc σ2 with | none => simp | some σ3 => exact loopW_noval cond body inc hb n σ3 v σ'

theorem loopD_noval (body : Store → SR) (cond : Store → Option (Bool × Store))
    (hb : ∀ σ, NoVal (body σ)) : ∀ (n : Nat) (σ : Store), NoVal (loopD n body cond σ)
  | 0, σ => by intro v σ'; simp [loopD]
  | n + 1, σ => by
    intro v σ'
    simp only [loopD]
    cases h2 : body σ with
    | none => simp
    | some q =>
      obtain ⟨fl2, σ2⟩ := q
      have := hb σ
      have cont : (match cond σ2 with
          | none => none
          | some (false, σ3) => some (Flow.normal, σ3)
          | some (true, σ3) => loopD n body cond σ3) ≠ some (.ret (some v), σ') := by
        cases cond σ2 with
        | none => simp
        | some p =>
          obtain ⟨bv, σ3⟩ := p
          cases bv
          · simp
          · exact loopD_noval body cond hb n σ3 v σ'
      cases fl2 with
      | ret w =>
        cases w with
        | none => simp
        | some w => exact absurd h2 (this w σ2)
      | brk => simp
      | normal => exact cont
      | cont => exact cont
      | seeking => exact cont

theorem switchOut_noval (r1 : SR) (p2 : Store → SR) (h1 : NoVal r1) (h2 : ∀ σ, NoVal (p2 σ)) : NoVal (switchOut r1 p2) := by
  intro v σ'
  unfold switchOut
  cases r1 with
  | none => simp
  | some p =>
    obtain ⟨fl1, σ2⟩ := p
    cases fl1 with
    | seeking =>
      simp only []
      cases hp : p2 σ2 with
      | none => simp
      | some q =>
        obtain ⟨fl2, σ3⟩ := q
        cases fl2 with
        | ret w =>
          cases w with
          | none => simp
          | some w => exact absurd hp (h2 σ2 w σ3)
        | _ => simp
    | ret w =>
      cases w with
      | none => simp
      | some w => exact absurd rfl (h1 w σ2)
    | _ => simp

mutual
theorem exec_noval (W : World) (fuel : Nat) : ∀ (s : Ir.Stmt) (m : Mode) (σ : Store), Ir.noRetS s = true →
    NoVal (Spec.Sem.Ir.exec W fuel m s σ)
  | .expr e, m, σ, _ => by
    intro v σ'
    cases m <;> simp only [Spec.Sem.Ir.exec, skip] <;> (try simp)
    cases Spec.Sem.Ir.eval W e σ <;> simp [dropVal, normalOf]
  | .var id i, m, σ, _ => by
    intro v σ'
    cases m <;> simp only [Spec.Sem.Ir.exec, skip] <;> (try simp)
    cases Spec.Sem.Ir.execVarDef W id i σ <;> simp [normalOf]
  | .block b, m, σ, h => by
    intro v σ'
    cases m <;> simp only [Spec.Sem.Ir.exec, skip] <;> (try simp)
    exact execs_noval W fuel b .run σ (by simpa [Ir.noRetS] using h) v σ'
  | .ifThen c b, m, σ, h => by
    intro v σ'
    cases m <;> simp only [Spec.Sem.Ir.exec, skip] <;> (try simp)
    cases condOfB W.P (Spec.Sem.Ir.eval W c σ) with
    | none => simp
    | some p =>
      obtain ⟨bv, σ1⟩ := p
      cases bv
      · simp
      · exact execs_noval W fuel b .run σ1 (by simpa [Ir.noRetS] using h) v σ'
  | .ifElse c t f, m, σ, h => by
    intro v σ'
    simp only [Ir.noRetS, Bool.and_eq_true] at h
    cases m <;> simp only [Spec.Sem.Ir.exec, skip] <;> (try simp)
    cases condOfB W.P (Spec.Sem.Ir.eval W c σ) with
    | none => simp
    | some p =>
      obtain ⟨bv, σ1⟩ := p
      cases bv
      · exact execs_noval W fuel f .run σ1 h.2 v σ'
      · exact execs_noval W fuel t .run σ1 h.1 v σ'
  | .for i c n b, m, σ, h => by
    intro v σ'
    cases m <;> simp only [Spec.Sem.Ir.exec, skip] <;> (try simp)
    cases Spec.Sem.Ir.execForInit W i σ with
    | none => simp
    | some σ0 => exact loopW_noval _ _ _ (fun s => execs_noval W fuel b .run s (by simpa [Ir.noRetS] using h)) fuel σ0 v σ'
  | .while c b, m, σ, h => by
    intro v σ'
    cases m <;> simp only [Spec.Sem.Ir.exec, skip] <;> (try simp)
    exact loopW_noval _ _ _ (fun s => execs_noval W fuel b .run s (by simpa [Ir.noRetS] using h)) fuel σ v σ'
  | .doWhile b c, m, σ, h => by
    intro v σ'
    cases m <;> simp only [Spec.Sem.Ir.exec, skip] <;> (try simp)
    exact loopD_noval _ _ (fun s => execs_noval W fuel b .run s (by simpa [Ir.noRetS] using h)) fuel σ v σ'
  | .break, m, σ, _ => by intro v σ'; cases m <;> simp [Spec.Sem.Ir.exec, skip]
  | .continue, m, σ, _ => by intro v σ'; cases m <;> simp [Spec.Sem.Ir.exec, skip]
  | .ret none, m, σ, _ => by intro v σ'; cases m <;> simp [Spec.Sem.Ir.exec, skip]
  | .ret (some e), m, σ, h => by simp [Ir.noRetS] at h
  | .switch T c b, m, σ, h => by
    intro v σ'
    cases m <;> simp only [Spec.Sem.Ir.exec, skip] <;> (try simp)
    cases Spec.Sem.Ir.eval W c σ with
    | none => simp
    | some r =>
      obtain ⟨w, σ1⟩ := r
      exact switchOut_noval _ _ (execs_noval W fuel b _ σ1 (by simpa [Ir.noRetS] using h))
        (fun s => execs_noval W fuel b _ s (by simpa [Ir.noRetS] using h)) v σ'
  | .caseLabel c, m, σ, _ => by
    intro v σ'
    cases m with
    | run => simp [Spec.Sem.Ir.exec]
    | seekDefault => simp [Spec.Sem.Ir.exec]
    | seekCase T w =>
      simp only [Spec.Sem.Ir.exec]
      cases castVal W.P T (Spec.Sem.Ir.constVal c) with
      | none => simp
      | some x => simp only []; split <;> simp
  | .defaultLabel, m, σ, _ => by intro v σ'; cases m <;> simp [Spec.Sem.Ir.exec]
theorem execs_noval (W : World) (fuel : Nat) : ∀ (b : Ir.Stmts) (m : Mode) (σ : Store), Ir.noRetSs b = true →
    NoVal (Spec.Sem.Ir.execs W fuel m b σ)
  | .nil, m, σ, _ => by intro v σ'; cases m <;> simp [Spec.Sem.Ir.execs, endOf]
  | .cons s r, m, σ, h => by
    intro v σ'
    simp only [Ir.noRetSs, Bool.and_eq_true] at h
    simp only [Spec.Sem.Ir.execs]
    cases h1 : Spec.Sem.Ir.exec W fuel m s σ with
    | none => simp
    | some q =>
      obtain ⟨fl1, σ1⟩ := q
      cases fl1 with
      | normal => exact execs_noval W fuel r .run σ1 h.2 v σ'
      | seeking => exact execs_noval W fuel r m σ1 h.2 v σ'
      | brk => simp
      | cont => simp
      | ret w =>
        cases w with
        | none => simp
        | some w => exact absurd h1 (exec_noval W fuel s m σ h.1 w σ1)
end

/-- a function whose body contains no `return e;` returns no value -/
theorem callFunc_void (W : World) (fuel : Nat) (fn : Ir.Func) (h : Ir.noRetSs fn.body = true) :
    ∀ vals σ r, Spec.Sem.Ir.callFunc W fuel fn vals σ = some r → r.1 = .void := by
  intro vals σ r hc
  simp only [Spec.Sem.Ir.callFunc] at hc
  split at hc
  · simp at hc
  · cases hx : Spec.Sem.Ir.execs W fuel .run fn.body (Spec.Sem.Ir.bindParams fn.params vals σ) with
    | none => simp [hx] at hc
    | some q =>
      obtain ⟨fl, σ1⟩ := q
      simp [hx] at hc
      rw [← hc]
      simp only []
      cases fl with
      | ret w =>
        cases w with
        | none => rfl
        | some w => exact absurd hx (execs_noval W fuel fn.body .run _ h w σ1)
      | _ => rfl

end RsslVerif.Lemmas.GenMsl

import RsslVerif.Lemmas.Layout
import RsslVerif.Lemmas.LayoutCollect
import RsslVerif.Lemmas.LayoutFull
import RsslVerif.Lemmas.LayoutFields
import RsslVerif.Gen.LayoutSites
import RsslVerif.Gen.LayoutPurity
import RsslVerif.Lemmas.LayoutContext
import RsslVerif.Lemmas.LayoutIgnored
/-!
# C19 — layout-consistency validation is sound

Statements are about `Model.Layout.get` / `offsetsMatch` / `checkAll` (the model of `get_type_layout`,
`offsets_match` and the final loop of `check_layout`, driven by the op programs regenerated from `/repo`
into `Gen.LayoutTables`) and the independent reference calculators `Spec.Layout.hlslSB` /
`Spec.Layout.metal`.  Every theorem below is at full strength: the only hypotheses are that the element
type has a reference layout at all (`wf`: the property's grid — half/int/uint/float/double, vectors of
1–4, 32-bit enums, arrays of ≥ 1 element, structs (empty ones included), nested to any depth) and, for the
"no unknown size" / completeness statements, that the two reference sizes fit in `u32`.

Fix batch 2 (/repo 24ea36f, c062f2e, d99f90e + bdddd35, d25724e): sizes beyond 32 bits are "unknown size" instead
of a panic (`check_never_panics`), a typed load that still depends on a template parameter is skipped, arrays of
structured buffers are collected whatever modifiers sit between the array layers (the former witnesses
`buffer_arrays_not_validated` and, for the shape d99f90e alone still missed, `typedef_buffer_array_not_validated`
are now the positive `property_uses_collected_partial`), an empty struct has its Metal byte (the former witness
`empty_struct_unsound` is now covered by `check_sound_full`).

History: on the tree before /repo commit 0414772 the statements `check_sound` and `reported_sizes_true`
were false (`{struct{float2;float}; float}` accepted with 16 vs 24 bytes, `{half; half2; float}` accepted
with offsets 2 vs 4, `{struct{float2;float}; float; float3}` rejected reporting Metal 32 instead of 48);
the negation witnesses proved then are kept in notes/C19.md and as regression inputs in corpus/C19.txt.
-/
namespace RsslVerif.Thm.C19
open RsslVerif.Gen.LayoutTables RsslVerif.Model.Layout RsslVerif.Spec.Layout RsslVerif.Lemmas.Layout

/-! ## Tie to the source tables -/

/-- `ScalarType::get_size` gives the reference byte sizes on the property's scalar grid, `bool` has no
    layout, the arms of `get_type_layout` have the kinds the model assumes, and `check_layout` calls
    `offsets_match` and compares sizes and offsets. -/
theorem tables_pinned :
    (∀ s, sized s = true → scalarSize s = some (bytes s)) ∧ boolHasNoLayout = true ∧
    layerKind .Scalar = .scalar ∧ layerKind .Vector = .vector ∧ layerKind .Struct = .struct ∧
    layerKind .ArraySized = .array ∧ layerKind .Enum = .underlying ∧ layerKind .Modifier = .inner ∧
    layerKind .Matrix = .none ∧ layerKind .ArrayUnsized = .none ∧ layerKind .Object = .none ∧
    layerKind .Void = .none ∧ hasOffsetsMatch = true ∧ checkCompare = .sizeAndOffsets ∧
    offsetsModifierIsInner = true := by
  refine ⟨fun s => by cases s <;> decide, ?_⟩
  decide

/-- `check_layout` looks at exactly the uses the property names: (RW)StructuredBuffer element types and
    the template argument of typed raw-buffer / buffer-address loads and stores. -/
theorem checked_sites :
    checkedObjects = ["StructuredBuffer", "RWStructuredBuffer"] ∧
    checkedIntrinsics = ["ByteAddressBufferLoadT", "RWByteAddressBufferLoadT", "RWByteAddressBufferStore",
      "BufferAddressLoad", "RWBufferAddressLoad", "RWBufferAddressStore"] := by
  decide

/-! ## The property -/

/-- `get_type_layout` returns the reference size and alignment of every type of the grid, under both
    rule sets. -/
theorem get_matches_spec (m : Mode) (t : Ty) (l : Layout) (hw : wf t = true) (h : get m t = .ok l) :
    l = ⟨size m t, align m t⟩ := by
  obtain ⟨s, a⟩ := get_spec m t l hw h
  cases l; simp only [Layout.mk.injEq]; exact ⟨s, a⟩

/-- structural form of soundness: accepted ⇒ every listed element type has the same total size and the
    same relative offset of every member at every nesting level (and the same array strides) -/
theorem check_sound_agree (ts : List Ty) (h : checkAll ts = .ok) (t : Ty) (ht : t ∈ ts)
    (hw : wf t = true) : Agree t :=
  (checkOne_spec hw (checkFrom_ok ts 0 h t ht)).1 rfl

/-- **Soundness.**  If `check_layout` accepts the element types `ts`, then for every one of them the two
    reference calculators give the same total size and the same absolute byte offset for every field,
    recursively (every array element included). -/
theorem check_sound (ts : List Ty) (h : checkAll ts = .ok) (t : Ty) (ht : t ∈ ts) (hw : wf t = true) :
    ∃ rh rm, hlslSB t = some rh ∧ metal t = some rm ∧ rh.size = rm.size ∧ rh.fields = rm.fields := by
  have ha := check_sound_agree ts h t ht hw
  refine ⟨⟨size .hlsl t, align .hlsl t, fieldsAt .hlsl t 0⟩, ⟨size .metal t, align .metal t, fieldsAt .metal t 0⟩,
    by simp only [hlslSB, ref, hw, if_true], by simp only [metal, ref, hw, if_true], ha.1, ?_⟩
  exact agree_fields t ha.2 0

/-- **Reported sizes are the true sizes.**  If `check_layout` rejects, the type it blames is the `i`-th
    collected one and the sizes (and alignments) in the message are the reference ones. -/
theorem reported_sizes_true (ts : List Ty) (i : Nat) (lh lm : Layout)
    (h : checkAll ts = .mismatch i lh lm) :
    ∃ t, ts[i]? = some t ∧ (wf t = true →
      lh = ⟨size .hlsl t, align .hlsl t⟩ ∧ lm = ⟨size .metal t, align .metal t⟩ ∧
      hlslSB t = some ⟨lh.size, lh.align, fieldsAt .hlsl t 0⟩ ∧
      metal t = some ⟨lm.size, lm.align, fieldsAt .metal t 0⟩) := by
  obtain ⟨t, ht, _, hc⟩ := checkFrom_mismatch ts 0 i lh lm h
  refine ⟨t, by simpa using ht, fun hw => ?_⟩
  obtain ⟨e1, e2⟩ := (checkOne_spec hw hc).2 lh lm rfl
  subst e1; subst e2
  exact ⟨rfl, rfl, by simp only [hlslSB, ref, hw, if_true], by simp only [metal, ref, hw, if_true]⟩

/-- a rejection is never spurious: the blamed type really differs in total size or in some offset -/
theorem rejected_differs (t : Ty) (lh lm : Layout) (hw : wf t = true)
    (hh : size .hlsl t ≤ u32Max) (hm : size .metal t ≤ u32Max)
    (h : checkAll [t] = .mismatch 0 lh lm) : ¬ Agree t := by
  intro ha
  have hc := checkOne_complete t hw hh hm ha
  simp only [checkAll, checkFrom, hc] at h
  cases h

/-- **Completeness (no false rejection).**  Element types whose reference layouts agree (and whose
    sizes fit `u32`) are all accepted. -/
theorem check_complete (ts : List Ty)
    (h : ∀ t ∈ ts, wf t = true ∧ size .hlsl t ≤ u32Max ∧ size .metal t ≤ u32Max ∧ Agree t) :
    checkAll ts = .ok := by
  unfold checkAll
  generalize 0 = i
  induction ts generalizing i with
  | nil => rfl
  | cons t ts ih =>
    obtain ⟨hw, hh, hm, ha⟩ := h t (List.mem_cons_self ..)
    simp only [checkFrom, checkOne_complete t hw hh hm ha]
    exact ih (fun u hu => h u (List.mem_cons_of_mem _ hu)) (i + 1)

/-- **No panic, no "unknown size" on the grid.**  For every type that has a reference layout and whose
    two reference sizes fit in `u32`, the loop body reaches the comparison: none of the overflow /
    `unwrap` / `panic!` sites of `get_type_layout` and `offsets_match` fires, no call returns `None`. -/
theorem check_total (t : Ty) (hw : wf t = true) (hh : size .hlsl t ≤ u32Max)
    (hm : size .metal t ≤ u32Max) : ∃ r, checkOne t = .ok r :=
  checkOne_total t hw hh hm

/-- **No panic on the grid, whatever the sizes** (since /repo 24ea36f; before, `check_total` was all there was:
    sizes beyond `u32` hit `attempt to multiply with overflow` / `TryFromIntError`).  Every overflow site of
    `get_type_layout` and `offsets_match` now returns `None` ("unknown size"); the one unchecked
    `next_multiple_of` left, in `check_layout` itself, cannot overflow because a size is a multiple of its
    alignment. -/
theorem check_never_panics (ts : List Ty) (hw : ∀ t ∈ ts, wf t = true) (msg : String) :
    checkAll ts ≠ .panic msg :=
  checkFrom_noPanic ts 0 hw msg

/-- non-vacuity: the inputs of the former panics (`float a[4294967295]`, `float a[4294967296]`, a struct that ends
    beyond 4 GiB, an array of 2^32 empty structs) are in the grid and get "unknown size" -/
example :
    wf (.struct (Tys.ofList [.arr (.scalar .Float32) 4294967295])) = true ∧
    checkAll [.struct (Tys.ofList [.arr (.scalar .Float32) 4294967295])] = .unknown 0 ∧
    checkAll [.struct (Tys.ofList [.arr (.scalar .Float32) 4294967296])] = .unknown 0 ∧
    checkAll [.struct (Tys.ofList [.arr (.scalar .Float32) 1073741823, .scalar .Float64])] = .unknown 0 ∧
    checkAll [.struct (Tys.ofList [.arr (.struct .nil) 4294967296])] = .unknown 0 ∧
    checkAll [.struct (Tys.ofList [.arr (.scalar .Float32) 1073741823])] = .ok := by
  decide

/-- without vectors and empty structs (scalars, enums, arrays and non-empty structs of them, to any depth) the two
    rule sets give the same layout -/
theorem vector_free_agree (t : Ty) (hv : vectorFree t = true) : Agree t :=
  ⟨(vectorFree_same t hv).2.1, (vectorFree_same t hv).2.2⟩

/-! ## The same statements in the property's own words (flattened field offsets) -/

/-- `Agree` is exactly what the property demands: the same total size and the same absolute byte offset of every
    field, recursively (every array element listed). -/
theorem agree_iff_same_size_and_offsets (t : Ty) (hw : wf t = true) :
    Agree t ↔ (size .hlsl t = size .metal t ∧ fieldsAt .hlsl t 0 = fieldsAt .metal t 0) :=
  RsslVerif.Lemmas.LayoutFields.agree_iff_fields t hw

/-- a rejection is never spurious: the blamed type differs in total size or in the offset of some field -/
theorem rejected_really_differs (t : Ty) (lh lm : Layout) (hw : wf t = true)
    (hh : size .hlsl t ≤ u32Max) (hm : size .metal t ≤ u32Max)
    (h : checkAll [t] = .mismatch 0 lh lm) :
    ¬ (size .hlsl t = size .metal t ∧ fieldsAt .hlsl t 0 = fieldsAt .metal t 0) :=
  fun hf => rejected_differs t lh lm hw hh hm h ((agree_iff_same_size_and_offsets t hw).2 hf)

/-- no false rejection: types with the same total size and the same offset of every field are accepted -/
theorem check_complete_fields (ts : List Ty)
    (h : ∀ t ∈ ts, wf t = true ∧ size .hlsl t ≤ u32Max ∧ size .metal t ≤ u32Max ∧
      size .hlsl t = size .metal t ∧ fieldsAt .hlsl t 0 = fieldsAt .metal t 0) :
    checkAll ts = .ok :=
  check_complete ts fun t ht =>
    ⟨(h t ht).1, (h t ht).2.1, (h t ht).2.2.1, (agree_iff_same_size_and_offsets t (h t ht).1).2 (h t ht).2.2.2⟩

/-! ## Which uses of a type are validated (the collection loops of `check_layout`) -/
section collection
open RsslVerif.Gen.LayoutSites RsslVerif.Model.LayoutCollect RsslVerif.Lemmas.LayoutCollect

/-- "structured buffer", in the property's words -/
def propertyObjects : List String := ["StructuredBuffer", "RWStructuredBuffer"]
/-- "raw buffer / buffer address" -/
def rawBufferObjects : List String := ["ByteAddressBuffer", "RWByteAddressBuffer", "BufferAddress", "RWBufferAddress"]

/-- **Inventory of use sites.**  Taken from the type checker's own tables (`ObjectType`, `parse_object_type`,
    the method tables of `get_methods`), not from `layout_checker.rs`: every object type whose element may be a
    structure is a structured buffer (and then matched by `check_layout`) or one of the two kinds the property
    does not name; every object method templated on a type `T` is a load / store of a raw buffer or buffer
    address and its intrinsic is matched by `check_layout`; nothing else is matched; the global loop looks below
    a modifier, then below every array layer and a modifier after each (since /repo d99f90e + bdddd35); the function loop
    skips type arguments that depend on a template parameter (since /repo c062f2e); both de-duplicate by type id
    and take the single type argument. -/
theorem collection_sites_covered :
    (∀ o ∈ structElementObjects, o ∈ propertyObjects ∨ o ∈ ["ConstantBuffer", "TriangleStream"]) ∧
    (∀ o ∈ propertyObjects, o ∈ checkedObjects ∧ (o, true) ∈ objectTypes ∧ o ∈ structElementObjects) ∧
    (∀ t ∈ typedMethods, t.1 ∈ rawBufferObjects ∧ t.2.2.1 ∈ checkedIntrinsics) ∧
    (∀ o ∈ rawBufferObjects, (o, false) ∈ objectTypes ∧ ∃ t ∈ typedMethods, t.1 = o) ∧
    (∀ i ∈ checkedIntrinsics, ∃ t ∈ typedMethods, t.2.2.1 = i) ∧
    (∀ o ∈ checkedObjects, o ∈ propertyObjects) ∧
    globalLoopStripsModifier = true ∧ globalLoopStripsArray = true ∧
    globalPeelOps = [.removeModifier, .whileArrayRemoveModifier] ∧ fnLoopSkipsDependent = true ∧
    dedupByTypeId = true ∧ fnLoopOneTypeArgument = true := by
  decide

/-- **When validation runs and what it prints.**  `compile` calls `check_layout` exactly when
    `validate_layout_consistency` is set, between type checking and anything that depends on the target or on
    the pipeline mode; a mismatch prints the HLSL layout first and the Metal layout second, size before
    alignment (this is how the harness reads the message back). -/
theorem diagnostic_pinned :
    validationGuard = "args.validate_layout_consistency" ∧ validationBeforeTargetSelection = true ∧
    unknownMessage = "struct has unknown size" ∧
    mismatchMessage = "struct has size={} align={} on HLSL but size={} align={} on Metal" ∧
    mismatchArgs = ["lhs.size", "lhs.align", "rhs.size", "rhs.align"] ∧
    fnLocationIsStructDefinition = true := by
  decide

/-- the buffer object a global is made of, below `Modifier` and `Array` layers in any order: in the property's
    words every element of an array of structured buffers is a structured buffer -/
def bufferElem : GTy → Option (String × TyRef)
  | .object k (some r) => some (k, r)
  | .modifier t => bufferElem t
  | .array t => bufferElem t
  | _ => none

def isModifier : GTy → Bool
  | .modifier _ => true
  | _ => false

/-- no `Modifier` layer directly on a `Modifier` layer: an invariant of the type registry (`combine_modifier` asserts
    that the type it qualifies is not qualified already) -/
def unstacked : GTy → Bool
  | .modifier t => !isModifier t && unstacked t
  | .array t => unstacked t
  | _ => true

/-- the loop `while let Array(inner, _) = layer(ty) { ty = remove_modifier(inner); }` reaches the buffer object below
    any interleaving of `Array` and (unstacked) `Modifier` layers -/
theorem whileArray_bufferElem {k : String} {r : TyRef} : ∀ t : GTy, unstacked t = true → isModifier t = false →
    bufferElem t = some (k, r) → whileArray t = .object k (some r)
  | .object k' (some r'), _, _, h => by
    simp only [bufferElem, Option.some.injEq, Prod.mk.injEq] at h
    obtain ⟨rfl, rfl⟩ := h; rfl
  | .object _ none, _, _, h => by simp [bufferElem] at h
  | .other, _, _, h => by simp [bufferElem] at h
  | .modifier _, _, hm, _ => by simp [isModifier] at hm
  | .array (.modifier v), hu, _, h => by
    simp only [unstacked, Bool.and_eq_true, Bool.not_eq_true'] at hu
    simp only [bufferElem] at h
    simp only [whileArray]
    exact whileArray_bufferElem v hu.2 hu.1 h
  | .array (.object a b), _, _, h => by
    simp only [bufferElem] at h
    simp only [whileArray]
    exact whileArray_bufferElem (.object a b) rfl rfl h
  | .array (.array u), hu, _, h => by
    simp only [unstacked] at hu
    simp only [bufferElem] at h
    have : whileArray (.array (.array u)) = whileArray (.array u) := by simp only [whileArray]
    rw [this]
    exact whileArray_bufferElem (.array u) (by simpa only [unstacked] using hu) rfl (by simpa only [bufferElem] using h)
  | .array .other, _, _, h => by simp [bufferElem] at h

/-- the global loop's peeling statements reach the buffer object of every global that is a structured buffer or an
    array of structured buffers, however `Array` and `Modifier` layers interleave (since /repo bdddd35) -/
theorem peel_bufferElem {k : String} {r : TyRef} {t : GTy} (hu : unstacked t = true)
    (h : bufferElem t = some (k, r)) : peel globalPeelOps t = .object k (some r) := by
  show whileArray (removeModifier t) = _
  cases t with
  | modifier v =>
    simp only [unstacked, Bool.and_eq_true, Bool.not_eq_true'] at hu
    simp only [bufferElem] at h
    exact whileArray_bufferElem v hu.2 hu.1 h
  | object a b => exact whileArray_bufferElem (.object a b) hu rfl h
  | array u => exact whileArray_bufferElem (.array u) hu rfl h
  | other => simp [bufferElem] at h

/-- a use of the type `r` that the property names: the element type of a global (RW)StructuredBuffer or of a
    global array of them — any dimensions, typedef'd or not, `Modifier` layers anywhere between (`bufferElem`; the
    registry's invariant `unstacked`) — or the type argument of an instantiated typed load / store of a raw buffer or
    buffer address.  *Narrower than the property's words* in one way: a buffer that is a member of a global struct is
    not expressible (`GTy.other`; it is not collected: known finding `accepted/site-sbmem`). -/
inductive PropertyUse (m : Module) (r : TyRef) : Prop
  | buffer (g : Global) (hg : g ∈ m.globals) (k : String) (hk : k ∈ propertyObjects)
      (h : bufferElem g.ty = some (k, r)) (hs : unstacked g.ty = true)
  | access (f : Fn) (hf : f ∈ m.fns) (t : String × String × String × Nat) (ht : t ∈ typedMethods)
      (hi : f.intrinsic = some t.2.2.1) (ha : f.template = some [.type r])

/-- the type reference is matched by one of the two loops -/
def Matched (m : Module) (r : TyRef) : Prop :=
  (∃ g ∈ m.globals, GlobalHit g r) ∨ (∃ f ∈ m.fns, FnHit f r)

/-- a type id denotes one type (the type registry interns types) -/
def Consistent (m : Module) : Prop :=
  ∀ r r', Matched m r → Matched m r' → r.id = r'.id → r.ty = r'.ty

/-- a type of the grid does not depend on a template parameter -/
theorem wf_not_dependent : ∀ t : Ty, wf t = true → isDependent t = false
  | .scalar _, _ => rfl
  | .vec _ _, _ => rfl
  | .enum _, _ => rfl
  | .struct _, _ => rfl
  | .other _, h => by simp [wf] at h
  | .arr t n, h => by
    simp only [wf, Bool.and_eq_true] at h
    simp only [isDependent]
    exact wf_not_dependent t h.2

theorem propertyUse_matched (m : Module) (r : TyRef) (h : PropertyUse m r) (hd : isDependent r.ty = false) :
    Matched m r := by
  cases h with
  | buffer g hg k hk h hs =>
    refine Or.inl ⟨g, hg, k, peel_bufferElem hs h, ?_⟩
    have := (collection_sites_covered.2.1 k hk).1
    simpa using this
  | access f hf t ht hi ha =>
    refine Or.inr ⟨f, hf, t.2.2.1, hi, ?_, ha, by simp [hd]⟩
    have := (collection_sites_covered.2.2.1 t ht).2
    simpa using this

/-- **Every use the property names is collected** (partial: see `PropertyUse` for the one class of use that is
    missing): the type id of a concrete type (one that does not depend on a template parameter — a load inside a
    template is a use only once the template is instantiated) is among `types_to_check`.  Since /repo d99f90e +
    bdddd35 this includes the element type of every array of structured buffers. -/
theorem property_uses_collected_partial (m : Module) (l : List Entry) (h : collect m = .ok l) (r : TyRef)
    (hu : PropertyUse m r) (hd : isDependent r.ty = false) : ∃ e ∈ l, e.ref.id = r.id := by
  rcases propertyUse_matched m r hu hd with ⟨g, hg, hh⟩ | ⟨f, hf, hh⟩
  · exact collect_global m l h g hg r hh
  · exact collect_fn m l h f hf r hh

/-- **Soundness of `check_layout` as a whole** (partial only through `PropertyUse`).  If it accepts a module,
    every structure used as the element type of a structured buffer (or of an array of structured buffers) or of
    a typed raw-buffer / buffer-address load or store has the same total size and the same byte offset of every
    field, recursively, under both reference calculators. -/
theorem check_layout_sound_partial (m : Module) (hc : Consistent m) (h : checkLayout m = .ok) (r : TyRef)
    (hu : PropertyUse m r) (hw : wf r.ty = true) :
    ∃ rh rm, hlslSB r.ty = some rh ∧ metal r.ty = some rm ∧ rh.size = rm.size ∧ rh.fields = rm.fields := by
  unfold checkLayout at h
  split at h
  · rename_i l hl
    have hd := wf_not_dependent r.ty hw
    obtain ⟨e, he, hid⟩ := property_uses_collected_partial m l hl r hu hd
    have hm : Matched m e.ref := collect_origin m l hl e he
    have hty : e.ref.ty = r.ty := hc e.ref r hm (propertyUse_matched m r hu hd) hid
    exact check_sound _ h r.ty (by rw [← hty]; exact List.mem_map.2 ⟨e, he, rfl⟩) hw
  · cases h
  · cases h

/-- **Reported sizes, module level**: a rejection blames a collected type, i.e. one the loops matched, and
    the sizes and alignments in the message are the reference ones. -/
theorem check_layout_reports_true_sizes (m : Module) (i : Nat) (lh lm : Layout)
    (h : checkLayout m = .mismatch i lh lm) :
    ∃ r, Matched m r ∧ (wf r.ty = true →
      hlslSB r.ty = some ⟨lh.size, lh.align, fieldsAt .hlsl r.ty 0⟩ ∧
      metal r.ty = some ⟨lm.size, lm.align, fieldsAt .metal r.ty 0⟩) := by
  unfold checkLayout at h
  split at h
  · rename_i l hl
    obtain ⟨t, ht, hs⟩ := reported_sizes_true _ i lh lm h
    rw [List.getElem?_map] at ht
    cases hq : l[i]? with
    | none => rw [hq] at ht; cases ht
    | some e =>
      rw [hq] at ht
      simp only [Option.map_some, Option.some.injEq] at ht
      refine ⟨e.ref, collect_origin m l hl e (List.mem_of_getElem? hq), fun hw => ?_⟩
      rw [ht]
      have := hs (by rw [← ht]; exact hw)
      exact ⟨this.2.2.1, this.2.2.2⟩
  · cases h
  · cases h

private def sF : Ty := .struct (Tys.ofList [.scalar .Float32, .vec .Float32 2])
private def sG : Ty := .struct (Tys.ofList [.scalar .Float32, .scalar .Float32])

/-- the former witnesses turned positive.  `buffer_arrays_not_validated` (an array of structured buffers was not
    looked at; repaired by /repo d99f90e) and `typedef_buffer_array_not_validated` (what d99f90e left:
    `typedef StructuredBuffer<S> A[2]; A g[3];` = `Array(Modifier(const, Array(Object)))`; repaired by /repo bdddd35):
    arrays of structured buffers — as the model saw them then, and as the type checker really builds them
    (`Array(Modifier(const, Object))`) —, of one and two dimensions, typedef'd arrays with and without further
    dimensions and modifiers between all layers are rejected with the true sizes (12 vs 16 bytes) -/
example :
    checkLayout ⟨[⟨.array (.object "StructuredBuffer" (some ⟨0, sF⟩)), "g"⟩], []⟩ = .mismatch 0 ⟨12, 4⟩ ⟨16, 8⟩ ∧
    checkLayout ⟨[⟨.array (.modifier (.object "StructuredBuffer" (some ⟨0, sF⟩))), "g"⟩], []⟩ = .mismatch 0 ⟨12, 4⟩ ⟨16, 8⟩ ∧
    checkLayout ⟨[⟨.array (.array (.modifier (.object "RWStructuredBuffer" (some ⟨0, sF⟩)))), "g"⟩], []⟩
      = .mismatch 0 ⟨12, 4⟩ ⟨16, 8⟩ ∧
    checkLayout ⟨[⟨.modifier (.array (.object "StructuredBuffer" (some ⟨0, sF⟩))), "g"⟩], []⟩ = .mismatch 0 ⟨12, 4⟩ ⟨16, 8⟩ ∧
    checkLayout ⟨[⟨.array (.modifier (.array (.object "StructuredBuffer" (some ⟨0, sF⟩)))), "g"⟩], []⟩
      = .mismatch 0 ⟨12, 4⟩ ⟨16, 8⟩ ∧
    checkLayout ⟨[⟨.array (.modifier (.array (.modifier (.array (.object "StructuredBuffer" (some ⟨0, sF⟩)))))), "g"⟩], []⟩
      = .mismatch 0 ⟨12, 4⟩ ⟨16, 8⟩ ∧
    unstacked (.array (.modifier (.array (.modifier (.array (.object "StructuredBuffer" (some ⟨0, sF⟩))))))) = true ∧
    (bufferElem (.array (.modifier (.array (.object "StructuredBuffer" (some ⟨0, sF⟩)))))).map
      (fun p => (p.1, p.2.id)) = some ("StructuredBuffer", 0) ∧
    wf sF = true ∧ ¬ Agree sF := by
  decide

/-- a typed load whose type argument still depends on a template parameter (`T`, `T[2]`) is skipped, wherever it
    stands; the first concrete failure is still reported -/
example :
    checkLayout ⟨[], [⟨some "ByteAddressBufferLoadT", some [.type ⟨7, .other .TemplateParam⟩]⟩]⟩ = .ok ∧
    checkLayout ⟨[], [⟨some "BufferAddressLoad", some [.type ⟨7, .arr (.other .TemplateParam) 2⟩]⟩,
      ⟨some "RWBufferAddressStore", some [.type ⟨0, sF⟩]⟩]⟩ = .mismatch 0 ⟨12, 4⟩ ⟨16, 8⟩ := by
  decide

/-- non-vacuity: the same structure behind a plain structured buffer, behind modifiers, or as the argument of a
    typed store is rejected with the true sizes; an agreeing structure at every site is accepted; the first
    collected failure is the one reported (globals before functions), a type id is looked at once -/
example :
    checkLayout ⟨[⟨.object "StructuredBuffer" (some ⟨0, sF⟩), "g"⟩], []⟩ = .mismatch 0 ⟨12, 4⟩ ⟨16, 8⟩ ∧
    checkLayout ⟨[⟨.modifier (.object "RWStructuredBuffer" (some ⟨0, sF⟩)), "g"⟩], []⟩ = .mismatch 0 ⟨12, 4⟩ ⟨16, 8⟩ ∧
    checkLayout ⟨[], [⟨some "RWBufferAddressStore", some [.type ⟨0, sF⟩]⟩]⟩ = .mismatch 0 ⟨12, 4⟩ ⟨16, 8⟩ ∧
    checkLayout ⟨[⟨.object "StructuredBuffer" (some ⟨1, sG⟩), "g"⟩, ⟨.object "ConstantBuffer" (some ⟨0, sF⟩), "c"⟩],
      [⟨some "ByteAddressBufferLoadT", some [.type ⟨1, sG⟩]⟩, ⟨some "ByteAddressBufferLoad", none⟩]⟩ = .ok ∧
    checkLayout ⟨[⟨.object "StructuredBuffer" (some ⟨1, sG⟩), "g"⟩],
      [⟨some "ByteAddressBufferLoadT", some [.type ⟨1, sG⟩]⟩, ⟨some "BufferAddressLoad", some [.type ⟨0, sF⟩]⟩]⟩
        = .mismatch 1 ⟨12, 4⟩ ⟨16, 8⟩ := by
  decide

/-- non-vacuity of `check_layout_sound_partial`: an accepted module with consistent type ids and a use the property
    names (an array of structured buffers) -/
example :
    Consistent ⟨[⟨.array (.modifier (.object "StructuredBuffer" (some ⟨1, sG⟩))), "g"⟩],
      [⟨some "ByteAddressBufferLoadT", some [.type ⟨1, sG⟩]⟩]⟩ ∧
    checkLayout ⟨[⟨.array (.modifier (.object "StructuredBuffer" (some ⟨1, sG⟩))), "g"⟩],
      [⟨some "ByteAddressBufferLoadT", some [.type ⟨1, sG⟩]⟩]⟩ = .ok ∧
    PropertyUse ⟨[⟨.array (.modifier (.object "StructuredBuffer" (some ⟨1, sG⟩))), "g"⟩],
      [⟨some "ByteAddressBufferLoadT", some [.type ⟨1, sG⟩]⟩]⟩ ⟨1, sG⟩ ∧
    wf sG = true := by
  refine ⟨?_, by decide, ?_, by decide⟩
  · have key : ∀ x : TyRef, Matched ⟨[⟨.array (.modifier (.object "StructuredBuffer" (some ⟨1, sG⟩))), "g"⟩],
        [⟨some "ByteAddressBufferLoadT", some [.type ⟨1, sG⟩]⟩]⟩ x → x = ⟨1, sG⟩ := by
      intro x hx
      rcases hx with ⟨g, hg, k, hk, _⟩ | ⟨f, hf, i, _, _, ht, _⟩
      · simp only [List.mem_singleton] at hg
        subst hg
        have hp : peel globalPeelOps (.array (.modifier (.object "StructuredBuffer" (some ⟨1, sG⟩)))) =
            .object "StructuredBuffer" (some ⟨1, sG⟩) := rfl
        rw [hp] at hk
        simp only [GTy.object.injEq, Option.some.injEq] at hk
        exact hk.2.symm
      · simp only [List.mem_singleton] at hf
        subst hf
        simp only [Option.some.injEq, List.cons.injEq, TArg.type.injEq, and_true] at ht
        exact ht.symm
    intro r r' h h' _
    rw [key r h, key r' h']
  · exact .buffer _ (List.mem_singleton.2 rfl) "StructuredBuffer" (by decide) rfl rfl

end collection

/-! ## No state between two layout queries

A struct definition that several checked types share (the same `StructId` as a member of two buffer element types,
twice in one type, below an array, ...) is laid out again for every use.  The model has no place for a memory of
earlier queries: `get`, `offsetsMatch`, `checkOne` are functions of the type (and the mode) alone.  That this is also
true of the source is a fact about its text, re-read on every run (`Gen.LayoutPurity`); that the real compiler behaves
like it is tested by the correspondence run on programs whose type table shares definitions (`$k` in `C19.prog`). -/
section context
open RsslVerif.Gen.LayoutPurity RsslVerif.Model.LayoutCollect RsslVerif.Lemmas.LayoutCollect
  RsslVerif.Lemmas.LayoutContext

/-- what a function of `layout_checker.rs` may take: the module (shared reference), a type id, a packing mode -/
def pureParameterTypes : List String := ["&Module", "TypeId", "PackingMode"]

/-- accessors of the module that only read it -/
def readOnlyAccesses : List String :=
  ["enum_registry.get_underlying_type_id", "function_registry.get_function_count", "function_registry.get_intrinsic_data",
   "function_registry.get_template_instantiation_data", "get_type_location()", "global_registry", "struct_registry[]",
   "type_registry.get_type_layer", "type_registry.remove_modifier", "type_registry.get_non_array_id",
   "type_registry.extract_modifier"]

/-- **The layout functions take no mutable state** (tie of `layout_is_context_free` to the source text).
    `get_type_layout` is a function of (module, type id, packing mode), `offsets_match` and `is_dependent_type` of
    (module, type id), `check_layout` of the module; apart from the diagnostic printer (whose `w` is the message
    sink) no function of the file has a parameter of another type, none has a `&mut` parameter; the mutable locals of
    the three layout functions are the accumulators of one call (`layout`, the vector width `x`, the two running
    offsets) and `check_layout`'s are the two collection containers, the peeled global type and the two layouts under
    comparison; closures occur in the printer only; the file mentions no `static`, cell, lock, map or other container
    a cache could live in; it reads the module through read-only accessors only (the type registry keeps its layers
    in a `RefCell`: `get_type_layer` is a plain read of it). -/
theorem layout_functions_are_pure :
    (functions.find? (·.1 == "get_type_layout")).map (·.2.2) =
      some ([("module", "&Module"), ("ty", "TypeId"), ("mode", "PackingMode")], "Option<Layout>") ∧
    (functions.find? (·.1 == "offsets_match")).map (·.2.2) =
      some ([("module", "&Module"), ("ty", "TypeId")], "Option<bool>") ∧
    (functions.find? (·.1 == "is_dependent_type")).map (·.2.2) =
      some ([("module", "&Module"), ("ty", "TypeId")], "bool") ∧
    (functions.find? (·.1 == "check_layout")).map (·.2.2) =
      some ([("module", "&Module")], "Result<(),LayoutError>") ∧
    (functions.all fun f => f.1 == "print" || (f.2.1 == "" && f.2.2.1.all fun p => pureParameterTypes.contains p.2)) = true ∧
    (functions.filter (·.1 != "print")).length + 1 = functions.length ∧
    mutableParameters = [("print", "w")] ∧
    mutableLocals.lookup "get_type_layout" = some ["let mut layout", "pattern mut x"] ∧
    mutableLocals.lookup "offsets_match" = some ["let (mut offset_hlsl, mut offset_metal)"] ∧
    mutableLocals.lookup "is_dependent_type" = some [] ∧
    mutableLocals.lookup "check_layout" =
      some ["let mut layout_hlsl", "let mut layout_metal", "let mut ty", "let mut types_seen", "let mut types_to_check"] ∧
    (functionsWithClosures.all (· == "print")) = true ∧
    stateTokens = [] ∧
    (moduleAccesses.all readOnlyAccesses.contains) = true ∧
    (macros.all ["matches", "panic", "write", "assert", "unreachable"].contains) = true ∧
    typeLayerIsARead = true := by
  decide

/-- **The layout of a type does not depend on what was laid out before it.**
    (1) In the loop over `types_to_check` the type at any position gets the verdict of the loop body on that type
    alone (`verdictAt`: `mismatch` with the two layouts of *this* type, `unknown`, a panic, or "go on"), whatever
    types were checked (and accepted) before it; (2) a list is accepted iff every type of it passes on its own;
    (3) so neither the order of the checked types, nor checking one twice, nor leaving some out can turn a rejection
    into an acceptance; (4) inside a struct every member type is laid out by the same function of (mode, type) and
    the running layout, wherever the member occurs and whatever the members before it were (the equation of
    `getMembers`), and likewise in `offsets_match`. -/
theorem layout_is_context_free :
    (∀ (pre post : List Ty) (t : Ty), (∀ u ∈ pre, checkOne u = .ok none) →
      checkAll (pre ++ t :: post) = (verdictAt pre.length (checkOne t)).getD (checkFrom (pre.length + 1) post)) ∧
    (∀ ts : List Ty, checkAll ts = .ok ↔ ∀ t ∈ ts, checkOne t = .ok none) ∧
    (∀ ts ts' : List Ty, (∀ t ∈ ts', t ∈ ts) → checkAll ts = .ok → checkAll ts' = .ok) ∧
    (∀ (m : Mode) (t : Ty) (ts : Tys) (acc : Layout),
      getMembers m (.cons t ts) acc =
        match get m t with
        | .error e => .error e
        | .ok ml =>
          match runLay (structMemberOps m) ⟨acc, 0, ml, 0, 0⟩ with
          | .error e => .error e
          | .ok acc' => getMembers m ts acc') ∧
    (∀ (t : Ty) (ts : Tys) (ch cm : Nat),
      offsetsMembers (.cons t ts) ch cm =
        match runOff (get .hlsl t) (get .metal t) (offsetsMatch t) 0 offsetsMemberOps ⟨ch, cm, ⟨0, 0⟩, ⟨0, 0⟩⟩ with
        | .ok (.ret b) => .ok b
        | .ok (.next s) => offsetsMembers ts s.ch s.cm
        | .error e => .error e) := by
  refine ⟨?_, ?_, ?_, ?_, ?_⟩
  · intro pre post t h
    unfold checkAll
    rw [checkFrom_append pre (t :: post) 0 h, checkFrom_cons]
    simp
  · intro ts; exact checkFrom_ok_iff 0 ts
  · intro ts ts' hs h
    exact (checkFrom_ok_iff 0 ts').2 fun t ht => (checkFrom_ok_iff 0 ts).1 h t (hs t ht)
  · intro m t ts acc
    rw [getMembers]
    cases get m t with
    | error e => rfl
    | ok ml => cases runLay (structMemberOps m) ⟨acc, 0, ml, 0, 0⟩ <;> rfl
  · intro t ts ch cm
    rw [offsetsMembers]
    cases runOff (get .hlsl t) (get .metal t) (offsetsMatch t) 0 offsetsMemberOps ⟨ch, cm, ⟨0, 0⟩, ⟨0, 0⟩⟩ with
    | error e => rfl
    | ok fl => cases fl <;> rfl

/-- **Module level: acceptance does not depend on the order of the declarations.**  If `check_layout` accepts a
    module (with consistent type ids), it accepts every module made of (some of) the same globals and functions in
    any order and multiplicity: which use of a type comes first decides where a diagnostic points, never whether
    there is one. -/
theorem check_layout_order_free (m m' : Module) (hc : Consistent m)
    (hg : ∀ g ∈ m'.globals, g ∈ m.globals) (hf : ∀ f ∈ m'.fns, f ∈ m.fns) (h : checkLayout m = .ok) :
    checkLayout m' = .ok := by
  unfold checkLayout at h
  split at h
  · rename_i l hl
    have hbad := (collect_ok_iff m).1 ⟨l, hl⟩
    obtain ⟨l', hl'⟩ := (collect_ok_iff m').2 fun f hf' => hbad f (hf f hf')
    unfold checkLayout
    rw [hl']
    simp only
    refine (checkFrom_ok_iff 0 _).2 ?_
    intro t ht
    obtain ⟨e', he', rfl⟩ := List.mem_map.1 ht
    -- the entry stems from a global / function of m', i.e. of m, whose type id m collected as well
    have hm' : Matched m e'.ref := by
      rcases collect_origin m' l' hl' e' he' with ⟨g, hg', hh⟩ | ⟨f, hf', hh⟩
      · exact Or.inl ⟨g, hg g hg', hh⟩
      · exact Or.inr ⟨f, hf f hf', hh⟩
    obtain ⟨e, he, hid⟩ : ∃ e ∈ l, e.ref.id = e'.ref.id := by
      rcases hm' with ⟨g, hg', hh⟩ | ⟨f, hf', hh⟩
      · exact collect_global m l hl g hg' _ hh
      · exact collect_fn m l hl f hf' _ hh
    have hty : e.ref.ty = e'.ref.ty := hc e.ref e'.ref (collect_origin m l hl e he) hm' hid
    rw [← hty]
    exact (checkFrom_ok_iff 0 _).1 h _ (List.mem_map.2 ⟨e, he, rfl⟩)
  · cases h
  · cases h

/-- **Only the matched sites matter** (wave 11).  For every module: dropping every global that is not — below its
    `Modifier` / `Array` layers — an object of a matched kind with an element type, and every function that is not a
    matched typed load / store intrinsic with template instantiation data, changes neither `types_to_check` (entries,
    order, locations) nor the verdict nor whether the collection panics.  So resources of any other kind (`Buffer<T>`,
    textures, samplers, raw buffers, `ConstantBuffer<T>`), plain / static / groupshared variables, local variables,
    non-templated intrinsics, user functions and function template instances — in any number, anywhere between the
    matched ones — are never looked at and can neither hide nor cause a diagnostic. -/
theorem unmatched_sites_ignored (m : Module) :
    collect ⟨m.globals.filter Lemmas.LayoutIgnored.globalMatters, m.fns.filter Lemmas.LayoutIgnored.fnMatters⟩ = collect m ∧
    checkLayout ⟨m.globals.filter Lemmas.LayoutIgnored.globalMatters, m.fns.filter Lemmas.LayoutIgnored.fnMatters⟩
      = checkLayout m := by
  have h := Lemmas.LayoutIgnored.collect_filter m
  refine ⟨h, ?_⟩
  unfold checkLayout
  rw [h]

/-- non-vacuity: the `decoy` globals and functions of the correspondence run (a `Buffer`, a texture, a `ConstantBuffer`
    of the differing struct, a plain variable, an untyped raw-buffer load, a user function template instance) do not
    matter, a structured buffer (static: no modifier; extern: const) and a typed store do; with or without the decoys the
    module is rejected at the same entry with the same numbers -/
example :
    let decoysG : List Global := [⟨.modifier (.object "Buffer" none), "d0"⟩, ⟨.modifier (.object "Texture2D" none), "d1"⟩,
      ⟨.modifier (.object "ConstantBuffer" (some ⟨0, sF⟩)), "d2"⟩, ⟨.other, "d3"⟩, ⟨.array .other, "d4"⟩]
    let decoysF : List Fn := [⟨some "ByteAddressBufferLoad3", none⟩, ⟨none, some [.type ⟨0, sF⟩]⟩, ⟨none, none⟩,
      ⟨some "RWByteAddressBufferStore", none⟩]
    let sb : Global := ⟨.object "StructuredBuffer" (some ⟨1, sG⟩), "g"⟩
    let st : Fn := ⟨some "RWByteAddressBufferStore", some [.type ⟨0, sF⟩]⟩
    decoysG.all (fun g => !Lemmas.LayoutIgnored.globalMatters g) = true ∧
    decoysF.all (fun f => !Lemmas.LayoutIgnored.fnMatters f) = true ∧
    Lemmas.LayoutIgnored.globalMatters sb = true ∧ Lemmas.LayoutIgnored.fnMatters st = true ∧
    checkLayout ⟨decoysG ++ [sb] ++ decoysG, decoysF ++ [st] ++ decoysF⟩ = .mismatch 1 ⟨12, 4⟩ ⟨16, 8⟩ ∧
    checkLayout ⟨[sb], [st]⟩ = .mismatch 1 ⟨12, 4⟩ ⟨16, 8⟩ ∧
    checkLayout ⟨decoysG, decoysF⟩ = .ok := by
  decide

private def sE : Ty := .struct .nil
private def sA : Ty := .struct (Tys.ofList [.scalar .Float16, sE, .scalar .Float32])
private def sB : Ty := .struct (Tys.ofList [.scalar .UInt32, sE, .scalar .UInt32])

/-- non-vacuity (the shape of seeded mutant C19-3): `struct E {}; struct A { half h; E e; float f; };
    struct B { uint x; E e; uint y; };` — `A` is accepted (the Metal byte of `E` sits in padding both rule sets
    have), `B` is rejected with 8 vs 12 bytes after `A` just as on its own and as before `A`; both uses of `E` in
    one struct: 16 vs 20; the module with the two buffers in either order is rejected at `B`'s buffer. -/
example :
    checkAll [sA] = .ok ∧ checkAll [sB] = .mismatch 0 ⟨8, 4⟩ ⟨12, 4⟩ ∧
    checkAll [sA, sB] = .mismatch 1 ⟨8, 4⟩ ⟨12, 4⟩ ∧ checkAll [sB, sA] = .mismatch 0 ⟨8, 4⟩ ⟨12, 4⟩ ∧
    checkAll [.struct (Tys.ofList [.scalar .Float16, sE, .scalar .Float32, .scalar .UInt32, sE, .scalar .UInt32])]
      = .mismatch 0 ⟨16, 4⟩ ⟨20, 4⟩ ∧
    checkLayout ⟨[⟨.modifier (.object "StructuredBuffer" (some ⟨1, sA⟩)), "G0"⟩,
                  ⟨.modifier (.object "StructuredBuffer" (some ⟨2, sB⟩)), "G1"⟩], []⟩ = .mismatch 1 ⟨8, 4⟩ ⟨12, 4⟩ ∧
    checkLayout ⟨[⟨.modifier (.object "StructuredBuffer" (some ⟨2, sB⟩)), "G0"⟩,
                  ⟨.modifier (.object "StructuredBuffer" (some ⟨1, sA⟩)), "G1"⟩], []⟩ = .mismatch 0 ⟨8, 4⟩ ⟨12, 4⟩ ∧
    wf sA = true ∧ wf sB = true := by
  decide

/-- non-vacuity of `check_layout_order_free`: an accepted module with two uses, and the same uses in the other
    order -/
example :
    checkLayout ⟨[⟨.modifier (.object "StructuredBuffer" (some ⟨1, sA⟩)), "G0"⟩],
      [⟨some "ByteAddressBufferLoadT", some [.type ⟨3, sG⟩]⟩]⟩ = .ok ∧
    checkLayout ⟨[⟨.modifier (.object "StructuredBuffer" (some ⟨1, sA⟩)), "G0"⟩,
                  ⟨.modifier (.object "StructuredBuffer" (some ⟨1, sA⟩)), "G1"⟩],
      [⟨some "ByteAddressBufferLoadT", some [.type ⟨3, sG⟩]⟩, ⟨some "ByteAddressBufferLoadT", some [.type ⟨3, sG⟩]⟩]⟩ = .ok := by
  decide

end context

/-! ## The full type universe: `bool`, matrices (all scalars, 1–4 rows and columns, `row_major` /
    `column_major`), next to everything of the grid, nested to any depth -/
section full
open RsslVerif.Spec.LayoutFull RsslVerif.Lemmas.LayoutFull

/-- **Soundness over the full universe.**  If `check_layout` accepts, every listed type for which both rule
    sets define a layout (`xwf`: also `bool`, `boolN`, `half`/`float` matrices, empty structs) has the same total size and the
    same byte offset of every field, recursively, under the full reference calculators. -/
theorem check_sound_full (ts : List XTy) (h : checkAll (ts.map erase) = .ok) (t : XTy) (ht : t ∈ ts)
    (hw : xwf t = true) :
    ∃ rh rm, xhlslSB t = some rh ∧ xmetal t = some rm ∧ rh.size = rm.size ∧ rh.fields = rm.fields := by
  have hc := checkFrom_ok (ts.map erase) 0 h (erase t) (List.mem_map_of_mem ht)
  cases hp : plain t with
  | false => exact absurd hc (checkOne_opaque t hp _)
  | true =>
    obtain ⟨w, hs, hf, _⟩ := coincide t hp hw
    have ha : Agree (erase t) := (checkOne_spec w hc).1 rfl
    refine ⟨⟨xsize .hlsl t, xalign .hlsl t, xfieldsAt .hlsl t 0⟩, ⟨xsize .metal t, xalign .metal t, xfieldsAt .metal t 0⟩,
      by simp only [xhlslSB, xref, hw, if_true], by simp only [xmetal, xref, hw, if_true], ?_, ?_⟩
    · show xsize .hlsl t = xsize .metal t
      rw [(hs .hlsl).1, (hs .metal).1]; exact ha.1
    · show xfieldsAt .hlsl t 0 = xfieldsAt .metal t 0
      rw [hf .hlsl 0, hf .metal 0]; exact agree_fields _ ha.2 0

/-- **Reported sizes over the full universe.** -/
theorem reported_sizes_true_full (ts : List XTy) (i : Nat) (lh lm : Layout)
    (h : checkAll (ts.map erase) = .mismatch i lh lm) :
    ∃ t, ts[i]? = some t ∧ (xwf t = true →
      xhlslSB t = some ⟨lh.size, lh.align, xfieldsAt .hlsl t 0⟩ ∧
      xmetal t = some ⟨lm.size, lm.align, xfieldsAt .metal t 0⟩) := by
  obtain ⟨u, hu, _, hc⟩ := checkFrom_mismatch (ts.map erase) 0 i lh lm h
  have hu' : (ts.map erase)[i]? = some u := by simpa using hu
  rw [List.getElem?_map] at hu'
  cases hq : ts[i]? with
  | none => rw [hq] at hu'; cases hu'
  | some t =>
    rw [hq] at hu'
    simp only [Option.map_some, Option.some.injEq] at hu'
    subst hu'
    refine ⟨t, rfl, fun hw => ?_⟩
    cases hp : plain t with
    | false => exact absurd hc (checkOne_opaque t hp _)
    | true =>
      obtain ⟨w, hs, hf, _⟩ := coincide t hp hw
      obtain ⟨e1, e2⟩ := (checkOne_spec w hc).2 lh lm rfl
      subst e1; subst e2
      refine ⟨?_, ?_⟩
      · simp only [xhlslSB, xref, hw, if_true, (hs .hlsl).1, (hs .hlsl).2]
      · simp only [xmetal, xref, hw, if_true, (hs .metal).1, (hs .metal).2]

/-- **No panic over the full universe**: also with `bool`, matrices and empty structs inside. -/
theorem check_never_panics_full (ts : List XTy) (hw : ∀ t ∈ ts, xwf t = true) (msg : String) :
    checkAll (ts.map erase) ≠ .panic msg := by
  have key : ∀ (us : List XTy) (i : Nat), (∀ t ∈ us, xwf t = true) → checkFrom i (us.map erase) ≠ .panic msg := by
    intro us
    induction us with
    | nil => intro i _; simp [checkFrom]
    | cons u us ih =>
      intro i hu h
      simp only [List.map_cons] at h
      unfold checkFrom at h
      split at h
      · cases h
      · rename_i m' hc
        cases h
        exact checkOne_noPanic_full u (hu u (List.mem_cons_self ..)) _ hc
      · cases h
      · exact ih (i + 1) (fun t ht => hu t (List.mem_cons_of_mem _ ht)) h
  exact key ts 0 hw

/-- **What `get_type_layout` cannot handle is never silently accepted**: a type that mentions a `bool` or a
    matrix anywhere is neither accepted nor reported with sizes; when both rule sets have a layout for it the
    verdict is exactly "unknown size" (`no_layout_is_unknown`). -/
theorem no_layout_no_verdict (t : XTy) (hp : plain t = false) :
    checkAll [erase t] ≠ .ok ∧ ∀ i lh lm, checkAll [erase t] ≠ .mismatch i lh lm := by
  have hn := checkOne_opaque t hp
  constructor
  · intro h
    exact hn _ (checkFrom_ok [erase t] 0 h (erase t) (List.mem_singleton.2 rfl))
  · intro i lh lm h
    obtain ⟨u, hu, _, hc⟩ := checkFrom_mismatch [erase t] 0 i lh lm h
    have : u = erase t := by
      cases i with
      | zero => simpa using hu.symm
      | succ k => simp at hu
    subst this
    exact hn _ hc

/-- a type with a `bool` or a matrix in it for which both rule sets define a layout gets "unknown size" (since
    /repo 24ea36f no earlier member can panic first) -/
theorem no_layout_is_unknown (t : XTy) (hw : xwf t = true) (hp : plain t = false) :
    checkAll [erase t] = .unknown 0 := by
  simp only [checkAll, checkFrom, checkOne_opaque_unknown t hw hp]

/-- **Completeness, partial.**  Types without `bool` and matrices that have the same total size and the same
    byte offset of every field under both rule sets (sizes ≤ u32::MAX) are all accepted.
    *Missing for the full statement:* a type that mentions a `bool` or a matrix is rejected ("unknown size") even
    when its two layouts agree — `complete_fails_beyond_plain` gives `{float4x4}` and `{bool; int}`. -/
theorem check_complete_partial (ts : List XTy)
    (h : ∀ t ∈ ts, xwf t = true ∧ plain t = true ∧ xsize .hlsl t ≤ u32Max ∧ xsize .metal t ≤ u32Max ∧
      xsize .hlsl t = xsize .metal t ∧ xfieldsAt .hlsl t 0 = xfieldsAt .metal t 0) :
    checkAll (ts.map erase) = .ok := by
  apply check_complete_fields
  intro u hu
  obtain ⟨t, ht, rfl⟩ := List.mem_map.1 hu
  obtain ⟨hw, hp, hh, hm, hs, hf⟩ := h t ht
  obtain ⟨w, hsz, hfl, _⟩ := coincide t hp hw
  refine ⟨w, by rw [← (hsz .hlsl).1]; exact hh, by rw [← (hsz .metal).1]; exact hm, ?_, ?_⟩
  · rw [← (hsz .hlsl).1, ← (hsz .metal).1]; exact hs
  · rw [← hfl .hlsl 0, ← hfl .metal 0]; exact hf

private def xf : XTy := .scalar .Float32
private def XS (l : List XTy) : XTy := .struct (XTys.ofList l)

/-- the full completeness statement is false: these two have identical layouts under both rule sets and are
    rejected with "unknown size" -/
theorem complete_fails_beyond_plain :
    (xwf (XS [.mat .Float32 4 4 .none]) = true ∧
      xsize .hlsl (XS [.mat .Float32 4 4 .none]) = xsize .metal (XS [.mat .Float32 4 4 .none]) ∧
      xfieldsAt .hlsl (XS [.mat .Float32 4 4 .none]) 0 = xfieldsAt .metal (XS [.mat .Float32 4 4 .none]) 0 ∧
      checkAll [erase (XS [.mat .Float32 4 4 .none])] = .unknown 0) ∧
    (xwf (XS [.scalar .Bool, .scalar .Int32]) = true ∧
      xsize .hlsl (XS [.scalar .Bool, .scalar .Int32]) = xsize .metal (XS [.scalar .Bool, .scalar .Int32]) ∧
      xfieldsAt .hlsl (XS [.scalar .Bool, .scalar .Int32]) 0 = xfieldsAt .metal (XS [.scalar .Bool, .scalar .Int32]) 0 ∧
      checkAll [erase (XS [.scalar .Bool, .scalar .Int32])] = .unknown 0) := by
  decide

/-- the former negation witness `empty_struct_unsound` turned positive (since /repo d25724e an empty struct has its
    Metal byte): `struct E {}; struct S { E e; float a; }` — `a` at offset 0 (size 4) under HLSL packing, at offset 4
    (size 8) in Metal — is inside `xwf` and rejected with exactly these sizes; `{half; E; float}` has the same
    offsets [0, 2, 4] and size 8 under both rule sets and is accepted; an empty struct on its own is 0 vs 1 byte. -/
example :
    xwf (XS [XS [], xf]) = true ∧
    xsize .hlsl (XS [XS [], xf]) = 4 ∧ xsize .metal (XS [XS [], xf]) = 8 ∧
    xfieldsAt .hlsl (XS [XS [], xf]) 0 = [0, 0] ∧ xfieldsAt .metal (XS [XS [], xf]) 0 = [0, 4] ∧
    checkAll [erase (XS [XS [], xf])] = .mismatch 0 ⟨4, 4⟩ ⟨8, 4⟩ ∧
    xwf (XS [.scalar .Float16, XS [], xf]) = true ∧
    xfieldsAt .hlsl (XS [.scalar .Float16, XS [], xf]) 0 = [0, 2, 4] ∧
    xfieldsAt .metal (XS [.scalar .Float16, XS [], xf]) 0 = [0, 2, 4] ∧
    checkAll [erase (XS [.scalar .Float16, XS [], xf])] = .ok ∧
    checkAll [erase (XS [])] = .mismatch 0 ⟨0, 1⟩ ⟨1, 1⟩ ∧
    checkAll [erase (XS [.scalar .Float16, .arr (XS []) 2, xf])] = .mismatch 0 ⟨8, 4⟩ ⟨8, 4⟩ := by
  decide

/-- non-vacuity: types of the widened universe that satisfy `xwf`; a `bool`/matrix-free one among them is
    accepted, the others get "unknown size"; a depth-5 nest is handled -/
example :
    xwf (XS [.vec .Bool 3, .mat .Float16 3 2 .row, .arr (.arr (.arr xf 2) 3) 4, .enum .UInt32]) = true ∧
    checkAll [erase (XS [.vec .Bool 3, xf])] = .unknown 0 ∧
    checkAll [erase (XS [xf, .mat .Float64 2 2 .column])] = .unknown 0 ∧
    checkAll [erase (XS [.arr (.arr (.arr xf 2) 3) 4, .vec .Float32 2])] = .ok ∧
    checkAll [erase (XS [XS [XS [XS [XS [.vec .Float32 2, xf]], xf]], xf])] = .mismatch 0 ⟨20, 4⟩ ⟨32, 8⟩ := by
  decide

end full

/-! ### non-vacuity and regression examples -/
private def f : Ty := .scalar .Float32
private def h : Ty := .scalar .Float16
private def d : Ty := .scalar .Float64
private def f2 : Ty := .vec .Float32 2
private def f4 : Ty := .vec .Float32 4
private def S (l : List Ty) : Ty := .struct (Tys.ofList l)

/-- a depth-3 type with arrays, vectors, an enum and nested structs is accepted -/
private def deep : Ty :=
  S [f4, S [f2, f2, S [.vec .Float64 2, d, .enum .Int32, f, f2, d]], .arr f4 3, .arr (S [d, d]) 2, d, d]

example : wf deep = true ∧ checkAll [S [h, h], deep] = .ok := by decide

/-- accepted although the member sizes differ: `{half3; float; float}` (half3 is 6 vs 8 bytes) -/
example : checkAll [S [.vec .Float16 3, f, f]] = .ok := by decide

/-- the shapes the pre-0414772 checker accepted are now rejected, with the true sizes -/
example : checkAll [S [S [f2, f], f]] = .mismatch 0 ⟨16, 4⟩ ⟨24, 8⟩ := by decide
example : checkAll [S [h, .vec .Float16 2, f]] = .mismatch 0 ⟨12, 4⟩ ⟨12, 4⟩ := by decide
example : checkAll [S [.arr (S [f2, f]) 2]] = .mismatch 0 ⟨24, 4⟩ ⟨32, 8⟩ := by decide
example : checkAll [S [S [f2, f], f, .vec .Float32 3]] = .mismatch 0 ⟨28, 4⟩ ⟨48, 16⟩ := by decide
/-- and the one it rejected although the layouts agree is now accepted -/
example : checkAll [S [.arr (S [f2, .vec .Float16 3]) 4]] = .ok := by decide

end RsslVerif.Thm.C19

import RsslVerif.Model.Meta
/-!
# The type of a global as a chain of layers, and the peels that look at it

`GlobalVariable.type_id` names a chain of `ir::TypeLayer`s.  Three places of the compiler look through its outer
layers before they decide what a global *is*:

* `Module::assign_api_bindings` / `process_definition` (ir/src/ir_module.rs) — which register class, how many slots;
* hlsl `analyse_bindings` (hlsl/src/ast_generate.rs) and msl `analyse_bindings` (msl/src/generator/pipeline.rs) —
  which `DescriptorType`, which `descriptor_count`;
* `TypeRegistry::is_buffer_address` — inline constant or binding slot.

The order of the peel operations of each is re-extracted from the source on every run (`Gen.MetaTables.{hlslPeel, mslPeel,
allocPeel, bufferAddressTestPeel}`); this file only says what one operation does to a chain.  The typer decides which
chains exist: an extern global is implicitly `const` (a modifier layer around the *named* type — outside the array layers
a typedef brought along, inside the array layers of the declarator).
-/
namespace RsslVerif.Model.Meta
open RsslVerif.Gen.SlotTables RsslVerif.Gen.MetaTables RsslVerif.Model.Slots

/-- `ir::TypeLayer` chain, outermost layer first.  `other` = any layer that is neither object, modifier nor array
    (scalar, vector, struct, ..): the peels stop there and treat it as "not an object". -/
inductive Ty where
  | object (k : ObjKind)
  | other
  | modifier (inner : Ty)
  | array (inner : Ty) (len : Option Nat)
  deriving DecidableEq, Repr, Inhabited

/-- the same chain as a flat list of layers (how requests and notes write it) -/
inductive Layer where
  | mod
  | arr (len : Option Nat)
  | obj (k : ObjKind)
  | other
  deriving DecidableEq, Repr, Inhabited

def Ty.layers : Ty → List Layer
  | .object k => [.obj k]
  | .other => [.other]
  | .modifier t => .mod :: t.layers
  | .array t n => .arr n :: t.layers

/-- `TypeRegistry::make_const` as far as the chain goes: an existing modifier layer is extended, otherwise one is added
    (`register_type` refuses a modifier around a modifier) -/
def Ty.makeConst : Ty → Ty
  | .modifier t => .modifier t
  | t => .modifier t

/-- state of a peel: the type id in hand, the array layer taken so far -/
structure Peel where
  ty : Ty
  arr : Arr
  took : Bool
  deriving DecidableEq, Repr, Inhabited

/-- one peel operation (`Gen.MetaTables.PeelOp`) -/
def applyOp : PeelOp → Peel → Peel
  | .removeModifier, s =>
    match s.ty with
    | .modifier t => { s with ty := t }
    | _ => s
  | .takeArray sizedOnly, s =>
    match s.ty with
    | .array t (some n) => { ty := t, arr := .sized n, took := true }
    | .array t none => if sizedOnly then s else { ty := t, arr := .unsized, took := true }
    | _ => s
  | .removeModifierAfterArray, s =>
    if s.took then
      match s.ty with
      | .modifier t => { s with ty := t }
      | _ => s
    else s
  | .unknown, s => s

def runPeelFrom (ops : List PeelOp) (s : Peel) : Peel := ops.foldl (fun s o => applyOp o s) s

def runPeel (ops : List PeelOp) (t : Ty) : Peel := runPeelFrom ops { ty := t, arr := .no, took := false }

/-- `match type_layer { TypeLayer::Object(k) => .., _ => .. }` -/
def Peel.kind (s : Peel) : Option ObjKind :=
  match s.ty with
  | .object k => some k
  | _ => none

/-- `is_buffer_address(decl.type_id)` -/
def isBufferAddressTy (t : Ty) : Bool :=
  match (runPeel bufferAddressTestPeel t).kind with
  | some k => isBufferAddress k
  | none => false

/-- Root definitions with the global's type as a layer chain -/
inductive TDecl where
  | other
  | cbuffer (name : String) (set : Option Nat)
  | global (name : String) (set : Option Nat) (staticSampler : Bool) (ty : Ty) (bindless : Bool) (storage : Storage)
  deriving DecidableEq, Repr, Inhabited

/-- what an `analyse_bindings` with peel sequence `ops` sees -/
def TDecl.toMeta (ops : List PeelOp) : TDecl → MDecl
  | .other => .other
  | .cbuffer n s => .cbuffer n s
  | .global n s ss t bl st =>
    let p := runPeel ops t
    .global n s ss p.kind p.arr bl st

/-- what `process_definition` with peel sequence `ops` sees (`array_len` is `Some(len)` only for the array it took) -/
def TDecl.toSlot (ops : List PeelOp) : TDecl → Decl
  | .other => .other
  | .cbuffer _ s => .cbuffer s
  | .global _ s ss t _ st =>
    if st ≠ .extern then .global s ss none none else
    let p := runPeel ops t
    .global s ss p.kind (match p.arr with | .sized n => some n | _ => none)

/-- `PipelineDescription` of the HLSL exporter over typed declarations: the allocator peels with `allocPeel`,
    `analyse_bindings` with `hlslPeel` -/
def hlslMetaT (p : Params) (dflt : Nat) (ds : List TDecl) : Except String (List Group) :=
  match assign p dflt (ds.map (TDecl.toSlot allocPeel)) with
  | .error e => .error e
  | .ok res =>
    match events (fun _ => hlslEvent) 0 (ds.map (TDecl.toMeta hlslPeel)) res.bindings with
    | .error e => .error e
    | .ok evs => setInlines (registerAll evs []) res.inlineBufs

/-- the Metal binding analysis over typed declarations -/
def mslMetaT (p : Params) (dflt : Nat) (usedAt : Nat → Bool) (ds : List TDecl) : Except String (List Group) :=
  match assign p dflt (ds.map (TDecl.toSlot allocPeel)) with
  | .error e => .error e
  | .ok res =>
    match events (fun i => mslEvent (usedAt i)) 0 (ds.map (TDecl.toMeta mslPeel)) res.bindings with
    | .error e => .error e
    | .ok evs =>
      let gs := registerAll evs []
      if gs.length > argumentBufferNames.length then .error "index out of bounds: ARGUMENT_BUFFER_NAMES[i]"
      else sortGroups gs

/-- Metal `generate_pipeline` over typed declarations -/
def mslExportT (p : Params) (dflt : Nat) (usedAt : Nat → Bool) (hasPipeline : Bool) (ds : List TDecl) :
    Except String (List Group) :=
  match mslMetaT p dflt usedAt ds with
  | .error e => .error e
  | .ok gs =>
    match assign p dflt (ds.map (TDecl.toSlot allocPeel)) with
    | .error e => .error e
    | .ok res =>
      if hasPipeline && mslUnbound usedAt 0 (ds.map (TDecl.toMeta mslPeel)) res.bindings then .error "UnboundGlobal"
      else .ok gs

/-! ## Spellings: what the typer builds -/

/-- one `typedef` on the way from the object type to the name a global is declared with:
    `typedef [const] <cur> X;` / `typedef [const] <cur> X[n];` -/
structure TypedefStep where
  isConst : Bool
  dim : Option Nat
  deriving DecidableEq, Repr, Inhabited

/-- `parse_rootdefinition_typedef`: `parse_type` (modifiers of the source type merge into one layer), then the
    declarator's array layer around it -/
def TypedefStep.apply (s : TypedefStep) (cur : Ty) : Ty :=
  let base := if s.isConst then cur.makeConst else cur
  match s.dim with
  | some n => .array base (some n)
  | none => base

/-- the declarator `g[a][b]` puts `a` outermost (`parse_declarator` applies the stack in reverse) -/
def wrapDims (base : Ty) : List (Option Nat) → Ty
  | [] => base
  | d :: ds => .array (wrapDims base ds) d

/-- `parse_globaltype` + `parse_declarator`: the type of a global declared as `[const] <typedef chain over k> g<dims>` -/
def globalTy (base : Ty) (steps : List TypedefStep) (constKw : Bool) (storage : Storage) (dims : List (Option Nat)) : Ty :=
  let named := steps.foldl (fun t s => s.apply t) base
  let b := if constKw || storage == .extern then named.makeConst else named
  wrapDims b dims

end RsslVerif.Model.Meta

import RsslVerif.Lemmas.MacroTameP
import RsslVerif.Lemmas.MacroTameRun
/-!
# `tameRunP` is sound: what it accepts has a tame derivation with `##`
-/
namespace RsslVerif.Lemmas.MacroTamePRun
open RsslVerif.Model.Macro RsslVerif.Model.MacroTame RsslVerif.Lemmas.MacroTame RsslVerif.Lemmas.MacroHang
open RsslVerif.Lemmas.MacroTameP RsslVerif.Lemmas.MacroTameRun

theorem noConcat_of_B (l : List PTok) (h : noConcatB l = true) : NoConcat l := by
  unfold noConcatB at h
  rw [List.all_eq_true] at h
  intro t ht hc
  have := h t ht
  simp [hc] at this

theorem onlyDisabled_of_noNamesB (env : List Entry) (l : List PTok) (h : noNamesB env l = true) : OnlyDisabled env l :=
  onlyDisabled_of_B env l h

/-- **`tameRunP` is sound.** -/
theorem tameRunP_sound (f : Nat) : ∀ (env : List Entry) (l out : List PTok), (entryNames env).Nodup →
    tameRunP f env l = some out → TameP env l out := by
  induction f with
  | zero => intro env l out _ h; simp [tameRunP] at h
  | succ f ih =>
    intro env l out hnd h
    cases l with
    | nil => simp only [tameRunP, Option.some.injEq] at h; subst h; exact TameP.nil env
    | cons t rest =>
      unfold tameRunP at h
      split at h
      · -- a paste
        rename_i t2 rest2 hsp
        have hnw : t.tok.isWhitespace = false ∧ splitPaste rest = some (t2, rest2) := by
          by_cases hw : t.tok.isWhitespace = true
          · simp [hw] at hsp
          · simp only [hw, Bool.false_eq_true, if_false] at hsp
            exact ⟨by simpa using hw, hsp⟩
        split at h
        · rename_i hkept
          split at h
          · rename_i m hp
            split at h
            · rename_i hod
              exact TameP.paste env t t2 m rest rest2 out hnw.1 hnw.2 (kept_of_keptB env t rest hkept) hp
                (onlyDisabled_of_B env [m] hod) (ih env (m :: rest2) out hnd h)
            · cases h
          · cases h
        · cases h
      · rename_i hsp
        have hspn : t.tok.isWhitespace = true ∨ splitPaste rest = none := by
          by_cases hw : t.tok.isWhitespace = true
          · exact Or.inl hw
          · simp only [hw, Bool.false_eq_true, if_false] at hsp
            exact Or.inr hsp
        have keepCase : (if keptB env t rest = true then
              match tameRunP f env rest with
              | some out => some (t :: out)
              | none => none
            else none) = some out → TameP env (t :: rest) out := by
          intro hk
          split at hk
          · rename_i hkept
            split at hk
            · rename_i o ho
              cases hk
              exact TameP.keep env t rest o (kept_of_keptB env t rest hkept) hspn (ih env rest o hnd ho)
            · cases hk
          · cases hk
        simp only at h
        split at h
        · rename_i n hn
          split at h
          · exact keepCase h
          · rename_i mi e hsel
            split at h
            · exact keepCase h
            · rename_i rest' args hra
              split at h
              · rename_i hcond
                simp only [Bool.and_eq_true] at hcond
                obtain ⟨hnc, hpa⟩ := hcond
                split at h
                · cases h
                · rename_i args' hargs
                  split at h
                  · rename_i hod
                    split at h
                    · cases h
                    · rename_i body' hsub
                      split at h
                      · cases h
                      · rename_i R hR
                        split at h
                        · rename_i hnf
                          split at h
                          · rename_i o ho
                            cases h
                            obtain ⟨hlen, hpt⟩ := mapO_spec _ _ _ hargs
                            obtain ⟨tt, tb⟩ := t
                            simp only at hn
                            subst hn
                            refine TameP.invoke env n tb rest mi e rest' args args' body' R o
                              (selects_of_selectIdx env n mi e hnd hsel) hra ?_ ?_ hlen ?_ ?_ hsub ?_
                              (noFire_of_B env mi R rest' hnf) (ih env rest' o hnd ho)
                            · intro a ha
                              rw [List.all_eq_true] at hnc
                              exact noConcat_of_B a (hnc a ha)
                            · intro i hi a ha
                              rw [List.all_eq_true] at hpa
                              have := hpa i hi
                              simp only [Bool.and_eq_true] at this
                              have hgd : args.getD i [] = a := by simp [List.getD, ha]
                              rw [hgd] at this
                              exact ⟨onlyDisabled_of_noNamesB env a this.1, this.2⟩
                            · intro i a a' ha ha'
                              exact ih env a a' hnd (hpt i a a' ha ha')
                            · exact argsOK_of_B env args args' hod
                            · exact ih (disable env mi) body' R (by rw [names_disable]; exact hnd) hR
                          · cases h
                        · cases h
                  · cases h
              · cases h
        · exact keepCase h

end RsslVerif.Lemmas.MacroTamePRun

import RsslVerif.Model.CondChain
import RsslVerif.Driver.Util
/-!
Line-protocol front end of the C11 model.

* `C11.seq  <symbols>`            one character per line over the property's alphabet:
    `0` `#if 0` · `1` `#if 1` · `d` `#ifdef M` · `n` `#ifndef M` · `e` `#elif 0` · `E` `#elif 1` ·
    `l` `#else` · `f` `#endif` · `t` text line `t<position> M` · `D` `#define M 1`;
    a probe line `probe M` is appended.
* `C11.run  <dir>;<dir>;…`        general lines, fields separated by `:`, tokens by one space:
    `i:<cond>` `d:<name>` `n:<name>` `e:<cond>` `l` `f` `t:<tokens>` `D:<name>:<body>` `U:<name>`
    `P:once|warning|unknown` `I:<tokens of the included line>` `I!` (file missing) `X` (unknown command)
* `C11.cond <defs>  <cond>`       `defs` = `name=body,name=body`; the value of `#if <cond>`.

Token spelling: `|| && == != < <~ > >~ = ! ( ) true false 123 123u name`; `<~`/`>~` = angle bracket
directly followed by the next token.  Observation: `ok line|line|…` (tokens joined by one space) or
`err <PreprocessError variant>`; for `C11.cond`: `1`, `0` or `err …`.
Every request may carry one more field, the whitespace style (0-3) used by the harness when rendering.
-/
namespace RsslVerif.Driver.C11
open RsslVerif.Gen.CondTables RsslVerif.Model.CondExpr RsslVerif.Model.CondChain RsslVerif.Driver

def isIdent (s : String) : Bool :=
  match s.toList with
  | [] => false
  | c :: r => (c.isAlpha || c == '_') && r.all (fun c => c.isAlphanum || c == '_')

def parseTok (s : String) : CTok :=
  if s == "||" then .VerticalBarVerticalBar
  else if s == "&&" then .AmpersandAmpersand
  else if s == "==" then .EqualsEquals
  else if s == "!=" then .ExclamationPointEquals
  else if s == "<" then .LeftAngleBracket .Whitespace
  else if s == "<~" then .LeftAngleBracket .Token
  else if s == ">" then .RightAngleBracket .Whitespace
  else if s == ">~" then .RightAngleBracket .Token
  else if s == "=" then .Equals
  else if s == "!" then .ExclamationPoint
  else if s == "(" then .LeftParen
  else if s == ")" then .RightParen
  else if s == "true" then .True
  else if s == "false" then .False
  else match s.toNat? with
    | some n => if n < 2 ^ 64 then .LiteralInt (UInt64.ofNat n) else .Other s
    | none =>
      if s.endsWith "u" then
        match (s.dropEnd 1).toString.toNat? with
        | some n => if n < 2 ^ 64 then .LiteralIntUnsigned32 (UInt64.ofNat n) else .Other s
        | none => if isIdent s then .Id s else .Other s
      else if isIdent s then .Id s else .Other s

def parseToks (s : String) : List CTok :=
  (s.splitOn " ").filter (· ≠ "") |>.map parseTok

def showTok : CTok → String
  | .VerticalBarVerticalBar => "||"
  | .AmpersandAmpersand => "&&"
  | .EqualsEquals => "=="
  | .ExclamationPointEquals => "!="
  | .LeftAngleBracket _ => "<"
  | .RightAngleBracket _ => ">"
  | .Equals => "="
  | .ExclamationPoint => "!"
  | .False => "false"
  | .True => "true"
  | .LiteralInt v => toString v.toNat
  | .LiteralIntUnsigned32 v => toString v.toNat ++ "u"
  | .LeftParen => "("
  | .RightParen => ")"
  | .Id n => n
  | .Other t => t

def showErr : Err → String
  | .chain .ElseNotMatched => "ElseNotMatched"
  | .chain .EndIfNotMatched => "EndIfNotMatched"
  | .chain .ConditionChainNotFinished => "ConditionChainNotFinished"
  | .cond .FailedToParseIfCondition => "FailedToParseIfCondition"
  | .cond .MacroRequiresArguments => "MacroRequiresArguments"
  | .cond .MacroArgumentsNeverEnd => "MacroArgumentsNeverEnd"
  | .cond .MacroExpectsDifferentNumberOfArguments => "MacroExpectsDifferentNumberOfArguments"
  | .UnknownPragma => "UnknownPragma"
  | .UnknownCommand => "UnknownCommand"
  | .FailedToFindFile => "FailedToFindFile"

def showOut (out : List (List CTok)) : String :=
  "|".intercalate ((out.filter (fun l => !l.isEmpty)).map (fun l => " ".intercalate (l.map showTok)))

def showResult : Except Err St → String
  | .ok s => "ok " ++ showOut s.out
  | .error e => "err " ++ showErr e

def parseDir (s : String) : Option Dir :=
  match s.splitOn ":" with
  | ["i", c] => some (.ifc (parseToks c))
  | ["d", n] => some (.ifdef false n)
  | ["n", n] => some (.ifdef true n)
  | ["e", c] => some (.elif (parseToks c))
  | ["l"] => some .els
  | ["f"] => some .endif
  | ["t", t] => some (.text (parseToks t))
  | ["D", n, b] => some (.define n (parseToks b))
  | ["U", n] => some (.undef n)
  | ["P", "once"] => some (.pragma .once)
  | ["P", "warning"] => some (.pragma .warning)
  | ["P", "unknown"] => some (.pragma .unknown)
  | ["I", t] => some (.incl (some [parseToks t]))
  | ["I!"] => some (.incl none)
  | ["X"] => some .unknown
  | _ => none

def symDir (pos : Nat) (c : Char) : Option Dir :=
  if c == '0' then some (.ifc [.LiteralInt 0])
  else if c == '1' then some (.ifc [.LiteralInt 1])
  else if c == 'd' then some (.ifdef false "M")
  else if c == 'n' then some (.ifdef true "M")
  else if c == 'e' then some (.elif [.LiteralInt 0])
  else if c == 'E' then some (.elif [.LiteralInt 1])
  else if c == 'l' then some .els
  else if c == 'f' then some .endif
  else if c == 't' then some (.text [.Id ("t" ++ toString pos), .Id "M"])
  else if c == 'D' then some (.define "M" [.LiteralInt 1])
  else none

def symDirs (s : String) : Option (List Dir) :=
  let rec go : Nat → List Char → Option (List Dir)
    | _, [] => some [.text [.Id "probe", .Id "M"]]
    | i, c :: r => do
      let d ← symDir i c
      let t ← go (i + 1) r
      pure (d :: t)
  go 0 s.toList

/-- the model handles object-like macros whose bodies contain no identifier -/
def supportedDir : Dir → Bool
  | .define _ b => idFree b
  | _ => true

def parseDefs (s : String) : Option Macros :=
  if s.isEmpty then some [] else
  sequenceOpt ((s.splitOn ",").map fun d =>
    match d.splitOn "=" with
    | n :: b :: more => some (n, parseToks ("=".intercalate (b :: more)))
    | _ => none)

def handleCore (op : String) (args : List String) : String :=
  match op, args with
  | "C11.seq", [syms] =>
    match symDirs syms with
    | some ds => showResult (runReal [] ds)
    | none => "bad-request"
  | "C11.run", [dirs] =>
    match sequenceOpt ((if dirs.isEmpty then [] else dirs.splitOn ";").map parseDir) with
    | some ds => if ds.all supportedDir then showResult (runReal [] ds) else "unsupported macro body"
    | none => "bad-request"
  | "C11.cond", [defs, cond] =>
    match parseDefs defs with
    | some m =>
      if m.all (fun e => idFree e.2) then
        let m' : Macros := m.foldl (fun acc e => acc.define e.1 e.2) []
        match condValue m' (parseToks cond) with
        | .ok true => "1"
        | .ok false => "0"
        | .error e => "err " ++ showErr (.cond e)
      else "unsupported macro body"
    | none => "bad-request"
  | _, _ => "unsupported-op"

/-- the optional last field is the whitespace/comment style the harness renders the lines with; the
    model works on tokens and ignores it -/
def handle (op : String) (args : List String) : String :=
  match op, args with
  | "C11.seq", [a, _] => handleCore op [a]
  | "C11.run", [a, _] => handleCore op [a]
  | "C11.cond", [a, b, _] => handleCore op [a, b]
  | _, _ => handleCore op args

end RsslVerif.Driver.C11

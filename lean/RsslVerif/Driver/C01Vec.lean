import RsslVerif.Driver.C01
import RsslVerif.Model.GenHlslVec
import RsslVerif.Spec.SemVec
/-!
Line-protocol front end of the C01 *vector layer* model.

`C01.vex <source> <function> <argument vectors> vars=<id>:<name>:<type>,… <IR of the returned expression>`:
parses the expression into `VExpr` (a maximal sub-expression without any vector is a scalar leaf of `Model.Ir`),
recomputes the exporter's tree with `GenHlslVec.genV`, prints it, and evaluates `VIr.eval` on every argument vector with
the harness's concrete primitives; it also evaluates `VAst.eval` on the generated tree and appends `MODEL-AST-DIFF` if
the two semantics disagree although the hypotheses of `gen_sem_vec_expr` hold.
-/
namespace RsslVerif.Driver.C01Vec
open RsslVerif.Gen.HlslGenTables RsslVerif.Gen.HlslVecTables RsslVerif.Model RsslVerif.Model.IrVec
open RsslVerif.Model.GenHlsl RsslVerif.Model.GenHlslVec RsslVerif.Spec.Sem RsslVerif.Spec.SemVec RsslVerif.Driver RsslVerif.Driver.C01
open RsslVerif.Model.Ir (Ty Var Const Dir)

def vtyOf? (s : String) : Option VTy :=
  match tyOf? s with
  | some t => some (.sc t)
  | none =>
    let cs := s.toList
    match cs.reverse with
    | d :: rest =>
      let n := d.toNat - '0'.toNat
      if '1' ≤ d ∧ d ≤ '4' then (tyOf? (String.ofList rest.reverse)).map fun t => .vec t n else none
    | [] => none

structure VInfo where
  /-- id, emitted name, type -/
  vars : List (Nat × String × VTy)

def parseVCtx? (s : String) : Option VInfo := do
  let body ← if s.startsWith "vars=" then some (s.drop 5).toString else none
  let items := if body.isEmpty then [] else body.splitOn ","
  let vars ← sequenceOpt (items.map fun it =>
    match it.splitOn ":" with
    | [i, n, t] => do pure ((← i.toNat?), n, (← vtyOf? t))
    | _ => none)
  pure { vars := vars }

def VInfo.ty (inf : VInfo) (n : Nat) : Option VTy := (inf.vars.find? (·.1 == n)).map (·.2.2)

def VInfo.ctx (inf : VInfo) : Ctx where
  locName n := ((inf.vars.find? (·.1 == n)).map (·.2.1)).getD ("?v" ++ toString n)
  globName n := "?g" ++ toString n
  funcName n := "?f" ++ toString n
  vty
    | .loc n => match inf.ty n with | some (.sc t) => t | _ => .void
    | .glob _ => .void

def VInfo.vvty (inf : VInfo) : Var → VTy
  | .loc n => (inf.ty n).getD (.sc .void)
  | .glob _ => .sc .void

def VInfo.env (inf : VInfo) : VAst.VEnv where
  base := {
    res := fun s => (inf.vars.find? fun v => v.2.1 == s && (match v.2.2 with | .sc _ => true | _ => false)).map fun v => .loc v.1
    vty := inf.ctx.vty
    fres := fun _ => none }
  vres := fun s => (inf.vars.find? fun v => v.2.1 == s && (match v.2.2 with | .vec _ _ => true | _ => false)).map fun v => .loc v.1
  vvty := inf.vvty

/-- no vector anywhere below: the whole sub-expression belongs to the scalar model -/
partial def pureScalar (inf : VInfo) (x : Sx) : Bool :=
  match x.head, x.args with
  | "lit", _ => true
  | "var", [n] => match n.atom.toNat?.bind inf.ty with | some (.sc _) => true | _ => false
  | "cast", [t, e] => (tyOf? t.atom).isSome && pureScalar inf e
  | "tern", [c, t, f] => pureScalar inf c && pureScalar inf t && pureScalar inf f
  | "seq", es => es.all (pureScalar inf)
  | "op", _ :: es => es.all (pureScalar inf)
  | _, _ => false

def slotOf? : Char → Option SwizzleSlot
  | 'x' => some .X | 'y' => some .Y | 'z' => some .Z | 'w' => some .W | _ => none

mutual
partial def parseV? (inf : VInfo) (x : Sx) : Option VExpr :=
  if pureScalar inf x then (parseExpr? x).map .sc else
  match x.head, x.args with
  | "var", [n] => n.atom.toNat?.map .vvar
  | "cast", [t, e] => do
    let t ← vtyOf? t.atom; let e ← parseV? inf e
    pure (.cast t e)
  | "swz", [e, s] => do
    let e ← parseV? inf e
    let sl ← sequenceOpt (s.atom.toList.map slotOf?)
    pure (.swz e sl)
  | "ctor", t :: slots => do
    let t ← vtyOf? t.atom
    let sl ← parseSlots? inf slots
    pure (.ctor t sl)
  | "tern", [c, t, f] => do
    let c ← parseV? inf c; let t ← parseV? inf t; let f ← parseV? inf f
    pure (.tern c t f)
  | "op", o :: es => do
    let o ← IntrinsicOp.ofName? o.atom
    -- the layer gives a meaning to component-wise unary / binary operators and to `&&` / `||` only
    let inLayer := match irOpSem o with | .un _ | .bin _ | .land | .lor | .assign | .compound _ => true | _ => false
    if !inLayer then none
    let es ← parseVs? inf es
    pure (.op o es)
  | _, _ => none
partial def parseVs? (inf : VInfo) : List Sx → Option VExprs
  | [] => some .nil
  | x :: r => do
    let e ← parseV? inf x
    let t ← parseVs? inf r
    pure (.cons e t)
partial def parseSlots? (inf : VInfo) : List Sx → Option VSlots
  | [] => some .nil
  | x :: r =>
    match x.head, x.args with
    | "slot", [k, e] => do
      let k ← k.atom.toNat?
      let e ← parseV? inf e
      let t ← parseSlots? inf r
      pure (.cons k e t)
    | _, _ => none
end

mutual
def showV : VAExpr → String
  | .sc a => showExpr a
  | .ident s => "(id " ++ s ++ ")"
  | .cast t e => "(cast " ++ t ++ " " ++ showV e ++ ")"
  | .member e m => "(mem " ++ showV e ++ " " ++ m ++ ")"
  | .call f args => "(call " ++ f ++ showVArgs args ++ ")"
  | .un op e => "(un " ++ op.name ++ " " ++ showV e ++ ")"
  | .bin op x y => "(bin " ++ op.name ++ " " ++ showV x ++ " " ++ showV y ++ ")"
  | .tern c t f => "(tern " ++ showV c ++ " " ++ showV t ++ " " ++ showV f ++ ")"
def showVArgs : VAExprs → String
  | .nil => ""
  | .cons e r => " " ++ showV e ++ showVArgs r
end

def showVVal : VVal → String
  | .sc v => showVal v
  | .vec vs => "V(" ++ " ".intercalate (vs.map showVal) ++ ")"

/-- `f:3f800000` or `V(f:… f:…)` -/
def parseVVal? (s : String) : Option VVal :=
  if s.startsWith "V(" && s.endsWith ")" then
    let inner := ((s.drop 2).dropEnd 1).toString
    let items := if inner.isEmpty then [] else inner.splitOn " "
    (sequenceOpt (items.map parseVal?)).map .vec
  else (parseVal? s).map .sc

def parseVVectors (s : String) : Option (List (List VVal)) :=
  if s.isEmpty then some [[]] else
  sequenceOpt ((s.splitOn ";").map fun v =>
    if v.isEmpty then some [] else sequenceOpt ((v.splitOn ",").map parseVVal?))

def W0 : World := { P := concretePrim, phi := fun _ _ _ => none, sig := fun _ => none }

/-- `(b (expr (op <assignment> place rhs)) (ret (var x)))`: the statement-level assignment of the layer; the answer is the
exporter's tree of the assignment and the final value of `x` -/
def handleAssign (inf : VInfo) (body : Sx) (vecs : List (List VVal)) : String :=
  match body.args with
  | [st, rt] =>
    match st.head, st.args, rt.head, rt.args with
    | "expr", [ex], "ret", [rv] =>
      match parseV? inf ex, (if rv.head == "var" then rv.args.head?.bind (·.atom.toNat?) else none) with
      | some e, some xr =>
        match e with
        | .op o (.cons lhs (.cons rhs .nil)) =>
          let isAssign := match irOpSem o with | .assign | .compound _ => true | _ => false
          if !isAssign then "unsupported not-an-assignment" else
          let cx := inf.ctx
          match genV cx e with
          | .error (.panic site) => "panic " ++ panicCategory site
          | .error (.diag _) => "generate-error"
          | .error (.unsupported _) => "unsupported"
          | .ok a =>
            let env := inf.env
            let wt := (VIr.assignOK W0.sig cx.vty inf.vvty lhs rhs).isSome && VIr.litOK rhs
            let outs := vecs.map fun vals =>
              let bound : List ((Nat × String × VTy) × VVal) := inf.vars.zip vals
              let σ0 : Store := fun v => match v with
                | .loc n => match bound.find? (·.1.1 == n) with | some (_, VVal.sc s) => s | _ => .void
                | .glob _ => .void
              let ρ : VStore := fun v => match v with
                | .loc n => match bound.find? (·.1.1 == n) with | some (_, w) => w | none => .vec []
                | .glob _ => .vec []
              let fin (r : Option (VVal × Store × VStore)) : String := match r with
                | some (_, _, ρ1) => showVVal (ρ1 (.loc xr))
                | none => "none"
              let s1 := fin (VIr.evalTop W0 ρ e σ0)
              let s2 := fin (VAst.evalTop W0 env ρ a σ0)
              if s1 == s2 || !wt then s1 else s1 ++ " MODEL-AST-DIFF(" ++ s2 ++ ")"
            "vast " ++ showV a ++ " ;; run " ++ " | ".intercalate outs
        | _ => "unsupported not-an-assignment"
      | _, _ => "unsupported outside-the-vector-layer"
    | _, _, _, _ => "unsupported body-shape"
  | _ => "unsupported body-shape"

def handleVex (vectors ctx ir : String) : String :=
  if (ir.splitOn "unsupported").length > 1 || (ctx.splitOn "unsupported").length > 1 then "unsupported" else
  match parseVCtx? ctx, parseAll ir, parseVVectors vectors with
  | some inf, [x], some vecs =>
    if x.head == "b" then handleAssign inf x vecs else
    match parseV? inf x with
    | none => "unsupported outside-the-vector-layer"
    | some e =>
      let cx := inf.ctx
      match genV cx e with
      | .error (.panic site) => "panic " ++ panicCategory site
      | .error (.diag _) => "generate-error"
      | .error (.unsupported _) => "unsupported"
      | .ok a =>
        let env := inf.env
        let tIr := VIr.typeOf W0.sig cx.vty inf.vvty e
        let tAst := VAst.typeOf W0.sig env a
        let wt := tIr.isSome && VIr.litOK e
        let outs := vecs.map fun vals =>
          let bound : List ((Nat × String × VTy) × VVal) := inf.vars.zip vals
          let σ0 : Store := fun v => match v with
            | .loc n => match bound.find? (·.1.1 == n) with | some (_, VVal.sc s) => s | _ => .void
            | .glob _ => .void
          let ρ : VStore := fun v => match v with
            | .loc n => match bound.find? (·.1.1 == n) with | some (_, w) => w | none => .vec []
            | .glob _ => .vec []
          let r1 := (VIr.eval W0 ρ e σ0).map (·.1)
          -- the emitted expression, converted to the IR type (what `gen_sem_vec_expr` states)
          let r2 := match tAst, tIr with
            | some ta, some t => (VAst.vconvR W0.P ta t (VAst.eval W0 env ρ a σ0)).map (·.1)
            | _, _ => (VAst.eval W0 env ρ a σ0).map (·.1)
          let s1 := match r1 with | some v => showVVal v | none => "none"
          let s2 := match r2 with | some v => showVVal v | none => "none"
          if s1 == s2 || !wt then s1 else s1 ++ " MODEL-AST-DIFF(" ++ s2 ++ ")"
        "vast " ++ showV a ++ " ;; run " ++ " | ".intercalate outs
  | _, _, _ => "bad-request"

def handle (op : String) (args : List String) : String :=
  match op, args with
  | "C01.vex", [_src, name, vectors, ctx, ir] => if name == "-" || ctx == "-" then "skip" else handleVex vectors ctx ir
  | "C01.vex", _ => "skip"
  | "C01.vwt", [_src, _name, _vectors, ctx, ir] =>
    match parseVCtx? ctx, parseAll ir with
    | some inf, [x] =>
      if x.head == "b" then
        match x.args with
        | [st, _] =>
          match st.args.head?.bind (parseV? inf) with
          | some (.op _ (.cons lhs (.cons rhs .nil))) =>
            if (VIr.assignOK W0.sig inf.ctx.vty inf.vvty lhs rhs).isSome && VIr.litOK rhs then "wt" else "not-wt"
          | _ => "unsupported"
        | _ => "unsupported"
      else
      match parseV? inf x with
      | some e => if (VIr.typeOf W0.sig inf.ctx.vty inf.vvty e).isSome && VIr.litOK e then "wt" else "not-wt"
      | none => "unsupported"
    | _, _ => "unsupported"
  | _, _ => RsslVerif.Driver.C01.handle op args

end RsslVerif.Driver.C01Vec

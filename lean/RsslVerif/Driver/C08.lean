import RsslVerif.Driver.Util
/-! Line-protocol front end of the C08 model (stub until the model is built). -/
namespace RsslVerif.Driver.C08

def handle (op : String) (args : List String) : String :=
  let _ := (op, args)
  "unsupported-op"

end RsslVerif.Driver.C08

import RsslVerif.Gen.CondTables
/-!
# Model of `condition_parser.rs` (`parse`, `parse_p12 … parse_p2`, `parse_leaf`) and of the part of
# `apply_macros(.., apply_defined = true, ..)` that `#if/#elif` conditions go through

Tokens are `Gen.CondTables.CTok` (whitespace already filtered, as `parse` does first).  The operator
tables, `BinOp::apply`, the prefix operator, the leaf arms and the truth test are the definitions
re-extracted from the source (`Gen.CondTables`); the recursion scheme below is hand-written:

* `pLvl f 0`      = `parse_p2` (prefix `!`, then `parse_leaf`; `(` recurses into the top level),
* `pLvl f (k+1)`  = `parse_binary_operations(levelOps[k], pLvl k)` : one operand, then `pLoop`,
* `pLoop f k acc` = the `while let Ok((rest, op)) = operator_fn(input)` loop with the left fold of
  `combine_rights` performed on the fly.

The Rust code is plainly recursive; the model is fuelled (`f`), with a third outcome `oof` that is
*not* a parse error.  `parseCond` supplies `fuelFor ts`, and `Lemmas.CondExpr.pLvl_fuel_enough` proves
`oof` is never returned at that fuel, so fuel is not observable.
-/
namespace RsslVerif.Model.CondExpr
open RsslVerif.Gen.CondTables

/-- parser outcome: out of fuel / `Err(ConditionParseError)` / `Ok((rest, value))` -/
inductive PR where
  | oof
  | err
  | ok (v : UInt64) (rest : List CTok)
  deriving DecidableEq, Repr, Inhabited

/-- number of binary levels (`parse_p6, p7, p11, p12` on the pinned tree) -/
def numLevels : Nat := levelOps.length

/-- `parse_op` of binary level `k` (1 = tightest) -/
def opsAt (k : Nat) (ts : List CTok) : Option (BinOp × List CTok) :=
  match k with
  | 0 => none
  | k + 1 => match levelOps[k]? with
    | some f => f ts
    | none => none

mutual
def pLvl : Nat → Nat → List CTok → PR
  | 0, _, _ => .oof
  | f + 1, 0, ts =>
    match ts with
    | [] => .err
    | t :: rest =>
      if t = notTok then
        match pLvl f 0 rest with
        | .ok v r => .ok (notApply v) r
        | .err => .err
        | .oof => .oof
      else
        match leafKind t with
        | .value v => .ok v rest
        | .paren =>
          match pLvl f numLevels rest with
          | .ok v (c :: r) => if c = closeTok then .ok v r else .err
          | .ok _ [] => .err
          | .err => .err
          | .oof => .oof
        | .fail => .err
  | f + 1, k + 1, ts =>
    match pLvl f k ts with
    | .ok l rest => pLoop f (k + 1) l rest
    | .err => .err
    | .oof => .oof
def pLoop : Nat → Nat → UInt64 → List CTok → PR
  | 0, _, _, _ => .oof
  | f + 1, k, acc, ts =>
    match opsAt k ts with
    | some (op, rest) =>
      match pLvl f (k - 1) rest with
      | .ok r rest' => pLoop f k (op.apply acc r) rest'
      | .err => .err
      | .oof => .oof
    | none => .ok acc ts
end

/-- fuel that always suffices (`Lemmas.CondExpr.pLvl_fuel_enough`) -/
def fuelFor (ts : List CTok) : Nat := (numLevels + 2) * ts.length + numLevels + 2

/-- `condition_parser::parse` after whitespace filtering: `none` = `FailedToParseIfCondition` -/
def parseCond (ts : List CTok) : Option Bool :=
  match pLvl (fuelFor ts) numLevels ts with
  | .ok v [] => some (truthy v)
  | _ => none

/-! ## Macro table and the substitution conditions go through

`Vec<Macro>` restricted to object-like macros: name and body tokens.  `#define` removes any macro of
the same name and pushes at the end; `#undef` removes; lookup is the first entry with the name
(`find_single_macro` scans `0..macros.len()`). -/
abbrev Macros := List (String × List CTok)

def Macros.define (m : Macros) (n : String) (body : List CTok) : Macros :=
  m.filter (fun e => e.1 != n) ++ [(n, body)]

def Macros.undef (m : Macros) (n : String) : Macros :=
  m.filter (fun e => e.1 != n)

def Macros.lookup (m : Macros) (n : String) : Option (List CTok) :=
  match m with
  | [] => none
  | e :: r => if e.1 == n then some e.2 else Macros.lookup r n

def Macros.isDefined (m : Macros) (n : String) : Bool := m.any (fun e => e.1 == n)

/-- the model covers macro bodies that contain no identifier: expansion then needs no rescan -/
def idFree (body : List CTok) : Bool := body.all (fun t => match t with | .Id _ => false | _ => true)

/-- errors of an `#if/#elif` line (`PreprocessError` variants) -/
inductive CondErr where
  | FailedToParseIfCondition
  | MacroRequiresArguments
  | MacroArgumentsNeverEnd
  | MacroExpectsDifferentNumberOfArguments
  deriving DecidableEq, Repr, Inhabited


/-- `split_macro_args` after the opening parenthesis: is there a closing parenthesis at depth 0? -/
def argsClose : Nat → List CTok → Bool
  | _, [] => false
  | d, t :: r =>
    if t = .RightParen then (if d = 0 then true else argsClose (d - 1) r)
    else if t = .LeftParen then argsClose (d + 1) r
    else argsClose d r

/-- `apply_macros(tokens, macros, apply_defined, ..)` on whitespace-free tokens, for object-like macros
    with identifier-free bodies.  Left to right: `defined X` / `defined ( X )` (only when
    `applyDefined`) becomes `LiteralInt(1|0)`; a macro name is replaced by its body.  The `defined`
    check comes first, as in `find_single_macro`.  A malformed `defined` aborts with the error of
    `apply_single_macro`/`split_macro_args`: no `(` → `MacroRequiresArguments`; no closing `)` →
    `MacroArgumentsNeverEnd`; anything but exactly one name inside →
    `MacroExpectsDifferentNumberOfArguments`. -/
def subst (m : Macros) (applyDefined : Bool) : List CTok → Except CondErr (List CTok)
  | [] => .ok []
  | .Id x :: rest =>
    if applyDefined && x == "defined" then
      match rest with
      | .Id y :: rest' =>
        (subst m applyDefined rest').map (fun r => .LiteralInt (if m.isDefined y then 1 else 0) :: r)
      | .LeftParen :: .Id y :: .RightParen :: rest' =>
        (subst m applyDefined rest').map (fun r => .LiteralInt (if m.isDefined y then 1 else 0) :: r)
      | .LeftParen :: rest' =>
        if argsClose 0 rest' then .error .MacroExpectsDifferentNumberOfArguments
        else .error .MacroArgumentsNeverEnd
      | _ => .error .MacroRequiresArguments
    else
      match m.lookup x with
      | some body => (subst m applyDefined rest).map (fun r => body ++ r)
      | none => (subst m applyDefined rest).map (fun r => .Id x :: r)
  | t :: rest => (subst m applyDefined rest).map (fun r => t :: r)

/-- value of an `#if/#elif` condition: macro substitution, then `condition_parser::parse` -/
def condValue (m : Macros) (ts : List CTok) : Except CondErr Bool :=
  match subst m true ts with
  | .ok ts' =>
    match parseCond ts' with
    | some b => .ok b
    | none => .error .FailedToParseIfCondition
  | .error e => .error e

end RsslVerif.Model.CondExpr

import RsslVerif.Gen.NameReserve
import RsslVerif.Thm.C15
/-!
# C02 — the name of a threaded parameter is never the name of a local variable

The Metal back end passes a static / groupshared / extern global on as a reference parameter under its **leaf** name
(`Counters::total` ↦ `thread int& total`), whatever namespace the global lives in.  The threading proof (`Thm.C02.threaded_exactly`)
says WHICH functions receive the parameter; that an identifier of the body which means the global still reaches the parameter
rests on `NameMap::build`: the generated name of every function / global used by some body is put into
`used_names_all_scopes` **unconditionally** (no test of the symbol's namespace), and the local pass avoids that set.
Seeded mutant C02-7 added `&& name_string.namespace.is_none()` to the reservation: a local `total` of a nested block kept its name
and captured `Counters::total`.
-/
namespace RsslVerif.Thm.C02Names
open RsslVerif.Model.Names

/-- the loop of `NameMap::build` over the usage analysis -/
def usageLoop : String :=
  "for id in module.function_registry.iter() > for used_symbol in usage.get_usage_for_function(id)"

/-- **used_names_reserved_regardless_of_namespace** (obligation, re-extracted on every run by `Gen.NameReserve`): inside the usage
loop of `NameMap::build` exactly one statement touches `used_names_all_scopes` — the insertion of the symbol's generated (leaf)
name — and the only condition around it is that the symbol has a generated name at all (intrinsics have none): nothing about the
namespace of the symbol.  This is what `Model.Names.usedNames` does (it never looks at `Named.scope`).  False for seeded mutant
C02-7 (`&& name_string.namespace.is_none()`). -/
theorem used_names_reserved_regardless_of_namespace :
    Gen.NameReserve.allScopesEvents.filter (fun e => e.1 == usageLoop) =
      [(usageLoop, "if let Some(name_string) = name_map.names.get(&symbol)",
        "used_names_all_scopes.insert(name_string.name.clone());")] := by
  decide

/-- the model's reservation does not look at the scope of the symbol: a used global of ANY scope contributes its leaf name -/
theorem usedNames_any_scope (inp : Input) (out : List Named) (g : Named) (hg : g ∈ out)
    (hk : g.sym.kind = .func ∨ g.sym.kind = .global) (hu : g.sym ∈ inp.used) : g.name ∈ usedNames inp out := by
  unfold usedNames
  refine List.mem_filterMap.mpr ⟨g, hg, ?_⟩
  rcases hk with h1 | h1 <;> simp [h1, hu]

/-- **threaded_parameter_name_is_no_local** (full, every input of the model of `NameMap::build`; an instance of C15's
`locals_apart_from_used`, cited as an obligation of C02's threading proof): the leaf name under which a used global variable of
ANY scope (`g.scope` is arbitrary: root, a namespace, a nested namespace) is printed — the name of the parameter that carries it
on Metal — is the printed name of no local variable / parameter / for-variable of the module.  So no declaration inside a
function that receives the parameter can shadow or redeclare it. -/
theorem threaded_parameter_name_is_no_local {reserved : List String} {inp : Input} {names : List Named}
    (h : build reserved inp = .ok names) (hwf : ∀ e, e ∈ inp.entries → e.sym.kind ≠ .localVar)
    (g : Named) (hg : g ∈ names) (hk : g.sym.kind = .global) (hu : g.sym ∈ inp.used) :
    ∀ l ∈ names, l.sym.kind = .localVar → l.name ≠ g.name :=
  fun l hl hkl => RsslVerif.Thm.C15.locals_apart_from_used h hwf l hl g hg hkl (Or.inr hk) hu

/-- non-vacuity (the seed's demo): `namespace Counters { static int total; }` used by a body, next to locals `result`, `i`,
`total`: the build succeeds, the global keeps `total` in scope `some 0`, the local is printed `total_0` -/
example :
    let inp : Input := { nss := [(none, "Counters")], locals := ["result", "i", "total"], used := [⟨.global, 0⟩, ⟨.func, 0⟩],
                         entries := [⟨⟨.global, 0⟩, some 0, "total"⟩, ⟨⟨.func, 0⟩, some 0, "bump"⟩, ⟨⟨.func, 1⟩, none, "accumulate"⟩] }
    (build Gen.Reserved.msl inp).toOption.map (·.map (fun n => (n.scope, n.name))) =
      some [(none, "Counters"), (none, "accumulate"), (some 0, "bump"), (some 0, "total"), (none, "result"), (none, "i"), (none, "total_0")] := by
  decide +kernel

end RsslVerif.Thm.C02Names

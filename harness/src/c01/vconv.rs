//! Vector / struct / array / enum stream (`C01.vfn`): real `rssl_ir` / `rssl_ast` structures → s-expressions.
//! Separate from `conv.rs` (scalar stream, shared with the MSL property): nothing there is changed.
//!
//! types       : `bool int uint float lit flit void`, `float3`, `int2x3`, `(struct <key>)`, `(enum <key>)`, `(arr <ty> <n>)`
//!               (key = registry id on the IR side, declared name on the text side)
//! IR program  : `(struct <id> <ty>...)` `(enum <id> <underlying> (v <value id> <const>)...)` `(global <id> <ty> <init>?)`
//!               `(fn <id> <ret> (params (p <id> <dir> <ty> <default>?)...) (b <stmt>...))`
//! IR exprs    : scalar forms of `conv.rs` plus `(cast <ty> e)` with any type, `(swz e xyz)`, `(mswz e 00 11 ...)`, `(idx e i)`,
//!               `(mem e <struct id> <index>)`, `(ctor <ty> (slot <arity> e)...)`, `(enumval <value id>)`, `(agg <init>...)`
//! text program: `(struct Name (m <name> <ty>)...)` `(enum Name (v <name> <expr>?)...)` `(global <name> <ty> const|mut <init>?)`
//!               `(fn <name> <ret> (params (p <name> <dir> <ty> <default>?)...) (block ...))`
//! text exprs  : scalar forms plus `(mem e <name>)` (member or swizzle: the evaluator decides by static type), `(idx e i)`,
//!               `(call <name> args...)` (function or constructor: decided by name), `(cast <ty> e)`
#![allow(dead_code)]
use super::sx::*;
use crate::util::Hist;
use rssl::ir;
use rssl_ast as ast;

fn unsup(what: &str) -> Sx {
    node("unsupported", vec![a(what)])
}

pub fn scalar_name(st: ir::ScalarType) -> Option<&'static str> {
    match st {
        ir::ScalarType::Bool => Some("bool"),
        ir::ScalarType::Int32 => Some("int"),
        ir::ScalarType::UInt32 => Some("uint"),
        ir::ScalarType::Float32 => Some("float"),
        ir::ScalarType::IntLiteral => Some("lit"),
        ir::ScalarType::FloatLiteral => Some("flit"),
        _ => None,
    }
}

/// type of the IR as an s-expression; modifiers (const, row_major, …) do not change values and are dropped
pub fn ir_vtype(m: &ir::Module, id: ir::TypeId) -> Sx {
    let reg = &m.type_registry;
    match reg.get_type_layer(id) {
        ir::TypeLayer::Void => a("void"),
        ir::TypeLayer::Scalar(st) => match scalar_name(st) {
            Some(n) => a(n),
            None => unsup("ScalarType"),
        },
        ir::TypeLayer::Vector(inner, x) => match reg.get_type_layer(reg.remove_modifier(inner)) {
            ir::TypeLayer::Scalar(st) => match scalar_name(st) {
                Some(n) if (1..=4).contains(&x) => a(&format!("{}{}", n, x)),
                _ => unsup("VectorType"),
            },
            _ => unsup("VectorType"),
        },
        ir::TypeLayer::Matrix(inner, x, y) => match reg.get_type_layer(reg.remove_modifier(inner)) {
            ir::TypeLayer::Scalar(st) => match scalar_name(st) {
                Some(n) if (1..=4).contains(&x) && (1..=4).contains(&y) => a(&format!("{}{}x{}", n, x, y)),
                _ => unsup("MatrixType"),
            },
            _ => unsup("MatrixType"),
        },
        ir::TypeLayer::Struct(sid) => node("struct", vec![a(&sid.0.to_string())]),
        ir::TypeLayer::Enum(eid) => node("enum", vec![a(&eid.0.to_string())]),
        ir::TypeLayer::Array(inner, Some(n)) => node("arr", vec![ir_vtype(m, inner), a(&n.to_string())]),
        ir::TypeLayer::Array(_, None) => unsup("UnsizedArray"),
        ir::TypeLayer::Modifier(_, inner) => ir_vtype(m, inner),
        _ => unsup("Type"),
    }
}

pub struct VConv<'m> {
    pub m: &'m ir::Module,
    pub structs: std::collections::BTreeSet<u32>,
    pub enums: std::collections::BTreeSet<u32>,
}

impl<'m> VConv<'m> {
    pub fn new(m: &'m ir::Module) -> Self {
        VConv { m, structs: Default::default(), enums: Default::default() }
    }

    fn ty(&mut self, id: ir::TypeId) -> Sx {
        let t = ir_vtype(self.m, id);
        self.note_type(&t);
        t
    }

    fn note_type(&mut self, t: &Sx) {
        match t.head() {
            "struct" => {
                if let Ok(i) = t.args()[0].atom().parse() {
                    self.structs.insert(i);
                }
            }
            "enum" => {
                if let Ok(i) = t.args()[0].atom().parse() {
                    self.enums.insert(i);
                }
            }
            "arr" => self.note_type(&t.args()[0].clone()),
            _ => {}
        }
    }

    pub fn constant(&self, c: &ir::Constant) -> Sx {
        match c {
            ir::Constant::Bool(b) => node("lit", vec![a("bool"), a(if *b { "1" } else { "0" })]),
            ir::Constant::IntLiteral(v) => node("lit", vec![a("intlit"), a(&v.to_string())]),
            ir::Constant::Int32(v) => node("lit", vec![a("i32"), a(&format!("{:08x}", *v as u32))]),
            ir::Constant::UInt32(v) => node("lit", vec![a("u32"), a(&format!("{:08x}", v))]),
            ir::Constant::Float32(f) => node("lit", vec![a("f32"), a(&format!("{:08x}", f.to_bits()))]),
            ir::Constant::FloatLiteral(f) => node("lit", vec![a("flit"), a(&format!("{:016x}", f.to_bits()))]),
            ir::Constant::Enum(id, inner) => node("lit", vec![a("enum"), a(&id.0.to_string()), self.constant(inner)]),
            _ => unsup("Constant"),
        }
    }

    pub fn expr(&mut self, e: &ir::Expression, hist: &mut Hist) -> Sx {
        match e {
            ir::Expression::Literal(c) => {
                hist.add("ir:Literal");
                self.constant(c)
            }
            ir::Expression::Variable(id) => {
                hist.add("ir:Variable");
                node("var", vec![a(&id.0.to_string())])
            }
            ir::Expression::Global(id) => {
                hist.add("ir:Global");
                node("glob", vec![a(&id.0.to_string())])
            }
            ir::Expression::EnumValue(id) => {
                hist.add("ir:EnumValue");
                let ev = self.m.enum_registry.get_enum_value(*id);
                self.enums.insert(ev.enum_id.0);
                node("enumval", vec![a(&id.0.to_string())])
            }
            ir::Expression::TernaryConditional(c, t, f) => {
                hist.add("ir:Ternary");
                let v = vec![self.expr(c, hist), self.expr(t, hist), self.expr(f, hist)];
                node("tern", v)
            }
            ir::Expression::Sequence(es) => {
                hist.add("ir:Sequence");
                let v = es.iter().map(|x| self.expr(x, hist)).collect();
                node("seq", v)
            }
            ir::Expression::Cast(ty, inner) => {
                let t = self.ty(*ty);
                hist.add(&format!("ir:Cast:{}", cast_class(self.m, *ty, inner)));
                let i = self.expr(inner, hist);
                node("cast", vec![t, i])
            }
            ir::Expression::Swizzle(obj, slots) => {
                hist.add(&format!("ir:Swizzle{}", slots.len()));
                let s: String = slots
                    .iter()
                    .map(|c| match c {
                        ir::SwizzleSlot::X => 'x',
                        ir::SwizzleSlot::Y => 'y',
                        ir::SwizzleSlot::Z => 'z',
                        ir::SwizzleSlot::W => 'w',
                    })
                    .collect();
                let o = self.expr(obj, hist);
                node("swz", vec![o, a(&s)])
            }
            ir::Expression::MatrixSwizzle(obj, slots) => {
                hist.add("ir:MatrixSwizzle");
                let ci = |c: ir::ComponentIndex| match c {
                    ir::ComponentIndex::First => '0',
                    ir::ComponentIndex::Second => '1',
                    ir::ComponentIndex::Third => '2',
                    ir::ComponentIndex::Forth => '3',
                };
                let mut v = vec![self.expr(obj, hist)];
                for s in slots {
                    v.push(a(&format!("{}{}", ci(s.0), ci(s.1))));
                }
                node("mswz", v)
            }
            ir::Expression::ArraySubscript(obj, idx) => {
                hist.add("ir:ArraySubscript");
                let v = vec![self.expr(obj, hist), self.expr(idx, hist)];
                node("idx", v)
            }
            ir::Expression::StructMember(obj, sid, index) => {
                hist.add("ir:StructMember");
                self.structs.insert(sid.0);
                let o = self.expr(obj, hist);
                node("mem", vec![o, a(&sid.0.to_string()), a(&index.to_string())])
            }
            ir::Expression::Constructor(ty, slots) => {
                hist.add("ir:Constructor");
                let mut v = vec![self.ty(*ty)];
                for s in slots {
                    let x = self.expr(&s.expr, hist);
                    v.push(node("slot", vec![a(&s.arity.to_string()), x]));
                }
                node("ctor", v)
            }
            ir::Expression::IntrinsicOp(op, args) => {
                hist.add(&format!("op:{:?}", op));
                let mut v = vec![a(&format!("{:?}", op))];
                for x in args {
                    v.push(self.expr(x, hist));
                }
                node("op", v)
            }
            ir::Expression::MemberVariable(sid, index) => {
                // a data member of the object a method runs on
                hist.add("ir:MemberVariable");
                self.structs.insert(sid.0);
                node("this", vec![a(&sid.0.to_string()), a(&index.to_string())])
            }
            ir::Expression::Call(id, ct, args) => {
                let fr = &self.m.function_registry;
                if let Some(intr) = fr.get_intrinsic_data(*id) {
                    // a pure math / bit / reduction built-in with its resolved signature: (intr Name ret (types…) args…)
                    let name = format!("{:?}", intr);
                    if *ct != ir::CallType::FreeFunction || name.contains('(') || name.contains(' ') || !super::vval::is_vector_builtin(&name) {
                        return unsup("CallIntrinsic");
                    }
                    let sig = fr.get_function_signature(*id);
                    let ret = ir_vtype(self.m, sig.return_type.return_type);
                    let mut tys = Vec::new();
                    for p in &sig.param_types {
                        if p.input_modifier != ir::InputModifier::In {
                            return unsup("IntrinsicOutParam");
                        }
                        tys.push(ir_vtype(self.m, p.type_id));
                    }
                    hist.add(&format!("intr:{}", name));
                    let mut v = vec![a(&name), ret, l(tys)];
                    for x in args {
                        v.push(self.expr(x, hist));
                    }
                    return node("intr", v);
                }
                if fr.get_function_implementation(*id).is_none() {
                    return unsup("CallNoBody");
                }
                if fr.get_template_instantiation_data(*id).is_some() {
                    hist.add("ir:CallTemplateInstance");
                }
                let head = match ct {
                    ir::CallType::FreeFunction => "call",
                    // first argument = the object
                    ir::CallType::MethodExternal => "mcall",
                    // a method called from a method of the same object
                    ir::CallType::MethodInternal => "icall",
                };
                hist.add(&format!("ir:{}", head));
                let mut v = vec![a(&id.0.to_string())];
                for x in args {
                    v.push(self.expr(x, hist));
                }
                node(head, v)
            }
            other => {
                let d = format!("{:?}", other);
                unsup(d.split('(').next().unwrap_or("Expr"))
            }
        }
    }

    pub fn init(&mut self, i: &ir::Initializer, hist: &mut Hist) -> Sx {
        match i {
            ir::Initializer::Expression(e) => self.expr(e, hist),
            ir::Initializer::Aggregate(items) => {
                hist.add("ir:AggregateInit");
                let v = items.iter().map(|x| self.init(x, hist)).collect();
                node("agg", v)
            }
        }
    }

    /// `<id> <ty> <init>?`
    fn vardef(&mut self, d: &ir::VarDef, hist: &mut Hist) -> Result<Vec<Sx>, Sx> {
        let lv = self.m.variable_registry.get_local_variable(d.id);
        // `precise` restricts the optimiser, the values are those of the unmodified declaration: evaluated through;
        // that the exporter keeps the modifier is judged on the trees (vrun.rs: precise_of_ir / precise_of_ast)
        if lv.storage_class != ir::LocalStorage::Local {
            return Err(unsup("LocalStorage"));
        }
        let mut v = vec![a(&d.id.0.to_string()), self.ty(lv.type_id)];
        if let Some(i) = &d.init {
            v.push(self.init(i, hist));
        }
        Ok(v)
    }

    pub fn block(&mut self, b: &ir::ScopeBlock, hist: &mut Hist) -> Sx {
        let v = b.0.iter().map(|s| self.stmt(s, hist)).collect();
        node("b", v)
    }

    pub fn stmt(&mut self, s: &ir::Statement, hist: &mut Hist) -> Sx {
        if !s.attributes.is_empty() {
            return unsup("StatementAttribute");
        }
        match &s.kind {
            ir::StatementKind::Expression(e) => node("expr", vec![self.expr(e, hist)]),
            ir::StatementKind::Var(d) => match self.vardef(d, hist) {
                Ok(v) => node("var", v),
                Err(u) => u,
            },
            ir::StatementKind::Block(b) => node("block", vec![self.block(b, hist)]),
            ir::StatementKind::If(c, b) => {
                let v = vec![self.expr(c, hist), self.block(b, hist)];
                node("if", v)
            }
            ir::StatementKind::IfElse(c, t, f) => {
                let v = vec![self.expr(c, hist), self.block(t, hist), self.block(f, hist)];
                node("ifelse", v)
            }
            ir::StatementKind::For(init, cond, inc, b) => {
                let i = match init {
                    ir::ForInit::Empty => node("none", vec![]),
                    ir::ForInit::Expression(e) => node("e", vec![self.expr(e, hist)]),
                    ir::ForInit::Definitions(ds) => {
                        let mut v = Vec::new();
                        for d in ds {
                            match self.vardef(d, hist) {
                                Ok(items) => v.push(node("d", items)),
                                Err(u) => return u,
                            }
                        }
                        node("defs", v)
                    }
                };
                let c = match cond {
                    None => node("none", vec![]),
                    Some(e) => self.expr(e, hist),
                };
                let n = match inc {
                    None => node("none", vec![]),
                    Some(e) => self.expr(e, hist),
                };
                let body = self.block(b, hist);
                node("for", vec![i, c, n, body])
            }
            ir::StatementKind::While(c, b) => {
                let v = vec![self.expr(c, hist), self.block(b, hist)];
                node("while", v)
            }
            ir::StatementKind::DoWhile(b, c) => {
                let v = vec![self.block(b, hist), self.expr(c, hist)];
                node("dowhile", v)
            }
            ir::StatementKind::Switch(c, b) => {
                let t = match c.get_type(self.m) {
                    Ok(et) => ir_vtype(self.m, et.0),
                    Err(_) => unsup("SwitchType"),
                };
                if matches!(t.atom(), "lit" | "flit") {
                    return unsup("SwitchOnLiteral");
                }
                self.note_type(&t);
                let v = vec![t, self.expr(c, hist), self.block(b, hist)];
                node("switch", v)
            }
            ir::StatementKind::CaseLabel(c) => node("case", vec![self.constant(c)]),
            ir::StatementKind::DefaultLabel => node("default", vec![]),
            ir::StatementKind::Break => node("break", vec![]),
            ir::StatementKind::Continue => node("continue", vec![]),
            ir::StatementKind::Return(None) => node("ret", vec![]),
            ir::StatementKind::Return(Some(e)) => node("ret", vec![self.expr(e, hist)]),
            other => {
                let d = format!("{:?}", other);
                unsup(d.split('(').next().unwrap_or("Stmt"))
            }
        }
    }

    /// `(fn <id> <ret> (params (p id dir ty default?)...) (b ...))`
    pub fn func(&mut self, id: ir::FunctionId, hist: &mut Hist) -> Option<Sx> {
        let fr = &self.m.function_registry;
        let imp = fr.get_function_implementation(id).as_ref()?;
        let sig = fr.get_function_signature(id);
        let ret = self.ty(sig.return_type.return_type);
        let mut ps = Vec::new();
        for p in &imp.params {
            let dir = match p.param_type.input_modifier {
                ir::InputModifier::In => "in",
                ir::InputModifier::Out => "out",
                ir::InputModifier::InOut => "inout",
            };
            let t = if p.semantic.is_some() || p.interpolation_modifier.is_some() {
                unsup("Param")
            } else {
                self.ty(p.param_type.type_id)
            };
            let mut items = vec![a(&p.id.0.to_string()), a(dir), t];
            if let Some(d) = &p.default_expr {
                hist.add("ir:DefaultParam");
                items.push(self.expr(d, hist));
            }
            ps.push(node("p", items));
        }
        let body = self.block(&imp.scope_block, hist);
        let mut items = vec![a(&id.0.to_string()), ret, node("params", ps), body];
        // an instantiation of a function template is a function of its own (its template parameters are resolved)
        let is_instance = fr.get_template_instantiation_data(id).is_some();
        if !imp.attributes.is_empty() || (!sig.template_params.is_empty() && !is_instance) {
            items.push(unsup("FunctionAttribute"));
        }
        Some(node("fn", items))
    }

    pub fn struct_def(&mut self, id: ir::StructId) -> Sx {
        let sd = &self.m.struct_registry[id.0 as usize];
        let mut v = vec![a(&id.0.to_string())];
        for mem in &sd.members {
            if mem.semantic.is_some() || mem.interpolation_modifier.is_some() {
                v.push(unsup("StructMember"));
            } else {
                v.push(self.ty(mem.type_id));
            }
        }
        for mid in &sd.methods {
            v.push(node("method", vec![a(&mid.0.to_string())]));
        }
        node("struct", v)
    }

    pub fn enum_def(&mut self, id: ir::EnumId) -> Sx {
        let er = &self.m.enum_registry;
        let under = match scalar_name(er.get_underlying_scalar(id)) {
            Some(n) => a(n),
            None => unsup("EnumUnderlying"),
        };
        let mut v = vec![a(&id.0.to_string()), under];
        for vid in er.get_values(id) {
            let ev = er.get_enum_value(*vid);
            v.push(node("v", vec![a(&vid.0.to_string()), self.constant(&ev.value)]));
        }
        node("enum", v)
    }
}

/// coarse class of a cast for the input distribution (what shape change it performs)
fn cast_class(m: &ir::Module, to: ir::TypeId, inner: &ir::Expression) -> String {
    let shape = |id: ir::TypeId| -> String {
        let reg = &m.type_registry;
        match reg.get_type_layer(reg.remove_modifier(id)) {
            ir::TypeLayer::Scalar(_) => "s".into(),
            ir::TypeLayer::Vector(_, x) => format!("v{}", x),
            ir::TypeLayer::Matrix(_, x, y) => format!("m{}x{}", x, y),
            ir::TypeLayer::Enum(_) => "enum".into(),
            ir::TypeLayer::Struct(_) => "struct".into(),
            ir::TypeLayer::Array(..) => "arr".into(),
            _ => "other".into(),
        }
    };
    let from = match inner.get_type(m) {
        Ok(et) => shape(et.0),
        Err(_) => "?".into(),
    };
    let to_s = shape(to);
    let chain = if let ir::Expression::Cast(inner_ty, _) = inner { format!("(over cast to {})", shape(*inner_ty)) } else { String::new() };
    format!("{}->{}{}", from, to_s, chain)
}

// ------------------------------------------------------------------------------------------------ text (re-parsed ast)
fn ident(id: &ast::ScopedIdentifier) -> Option<String> {
    if id.base == ast::ScopedIdentifierBase::Relative && !id.identifiers.is_empty() {
        Some(id.identifiers.iter().map(|x| x.node.clone()).collect::<Vec<_>>().join("::"))
    } else {
        None
    }
}

pub fn is_numeric_type_name(s: &str) -> bool {
    for base in ["bool", "int", "uint", "float", "half", "double", "dword"] {
        if let Some(rest) = s.strip_prefix(base) {
            let r: Vec<char> = rest.chars().collect();
            let dim = |c: &char| ('1'..='4').contains(c);
            if r.is_empty() || (r.len() == 1 && dim(&r[0])) || (r.len() == 3 && dim(&r[0]) && r[1] == 'x' && dim(&r[2])) {
                return true;
            }
        }
    }
    s == "void"
}

pub struct TConv {
    /// names of the structs and enums the module declares (needed to choose among ambiguous parse branches)
    pub type_names: Vec<String>,
    /// function templates all of whose parameters are unnamed: `template<typename> int f_0(int x)`
    pub unnamed_templates: Vec<String>,
    /// function templates with a type parameter that carries the name of a struct of the module — how the exporter emits an
    /// instantiation with a struct argument (`template<typename S> S pick_0(S a, S b)`, called `pick_0<S>(s, t)`): inside the
    /// function the parameter hides the struct of the same name, and every call must bind it to exactly that struct
    pub struct_named_templates: Vec<(String, Vec<Option<String>>)>,
}

/// the names of the type parameters of a function template none of whose parameters has a default and whose value
/// parameters are unnamed: `template<typename S, int> S pick_0(S a)` gives `[Some("S"), None]`
fn template_param_names(f: &ast::FunctionDefinition) -> Option<Vec<Option<String>>> {
    if f.template_params.0.is_empty() {
        return None;
    }
    f.template_params
        .0
        .iter()
        .map(|p| match p {
            ast::TemplateParam::Type(t) if t.default.is_none() => Some(t.name.as_ref().map(|n| n.node.clone())),
            ast::TemplateParam::Value(v) if v.name.is_none() && v.default.is_none() => Some(None),
            _ => None,
        })
        .collect()
}

/// `precise` is accepted (and has no meaning for the evaluators) in front of a declared type
fn without_precise(mods: Vec<ast::TypeModifier>) -> Vec<ast::TypeModifier> {
    mods.into_iter().filter(|m| *m != ast::TypeModifier::Precise).collect()
}

fn unnamed_params(f: &ast::FunctionDefinition) -> bool {
    !f.template_params.0.is_empty()
        && f.template_params.0.iter().all(|p| match p {
            ast::TemplateParam::Type(t) => t.name.is_none() && t.default.is_none(),
            ast::TemplateParam::Value(v) => v.name.is_none() && v.default.is_none(),
        })
}

impl TConv {
    pub fn new(m: &ast::Module) -> Self {
        let mut type_names = Vec::new();
        let mut unnamed_templates = Vec::new();
        fn walk(defs: &[ast::RootDefinition], prefix: &str, type_names: &mut Vec<String>, unnamed_templates: &mut Vec<String>) {
            for rd in defs {
                match rd {
                    ast::RootDefinition::Struct(s) => type_names.push(format!("{}{}", prefix, s.name.node)),
                    ast::RootDefinition::Enum(e) => type_names.push(format!("{}{}", prefix, e.name.node)),
                    ast::RootDefinition::Function(f) if unnamed_params(f) => unnamed_templates.push(format!("{}{}", prefix, f.name.node)),
                    ast::RootDefinition::Namespace(n, inner) => walk(inner, &format!("{}{}::", prefix, n.node), type_names, unnamed_templates),
                    _ => {}
                }
            }
        }
        walk(&m.root_definitions, "", &mut type_names, &mut unnamed_templates);
        let mut struct_named_templates = Vec::new();
        fn walk2(defs: &[ast::RootDefinition], prefix: &str, type_names: &[String], found: &mut Vec<(String, Vec<Option<String>>)>) {
            for rd in defs {
                match rd {
                    ast::RootDefinition::Function(f) if !unnamed_params(f) => {
                        if let Some(names) = template_param_names(f) {
                            if names.iter().flatten().all(|n| type_names.iter().any(|t| t == n) && !is_numeric_type_name(n)) {
                                found.push((format!("{}{}", prefix, f.name.node), names));
                            }
                        }
                    }
                    ast::RootDefinition::Namespace(n, inner) => walk2(inner, &format!("{}{}::", prefix, n.node), type_names, found),
                    _ => {}
                }
            }
        }
        walk2(&m.root_definitions, "", &type_names, &mut struct_named_templates);
        TConv { type_names, unnamed_templates, struct_named_templates }
    }

    fn is_type_name(&self, s: &str) -> bool {
        is_numeric_type_name(s) || self.type_names.iter().any(|t| t == s)
    }

    /// base type name + modifiers
    fn base_type(&self, t: &ast::Type) -> Option<(Sx, Vec<ast::TypeModifier>)> {
        if !t.layout.1.is_empty() {
            return None;
        }
        let n = ident(&t.layout.0)?;
        Some((a(&n), t.modifiers.modifiers.iter().map(|m| m.node).collect()))
    }

    /// declared name and full type of a declarator over a base type (arrays only)
    fn declarator(&self, base: &Sx, d: &ast::Declarator) -> Option<(Option<String>, Sx)> {
        match d {
            ast::Declarator::Empty => Some((None, base.clone())),
            ast::Declarator::Identifier(id, attrs) if attrs.is_empty() => Some((Some(ident(id)?), base.clone())),
            ast::Declarator::Array(ad) if ad.attributes.is_empty() => {
                let n = match ad.array_size.as_ref().map(|e| &e.node) {
                    Some(ast::Expression::Literal(ast::Literal::IntUntyped(n))) => *n,
                    Some(ast::Expression::Literal(ast::Literal::IntUnsigned32(n))) => *n,
                    _ => return None,
                };
                // `T x[2][3]`: the outermost declarator layer is the innermost array dimension … the declarator tree has
                // the identifier at its core; each Array layer wraps what is inside it, so `x[2][3]` is Array(Array(x,2),3)
                // and denotes "array of 2 arrays of 3": apply this layer's size to the element type first
                let elem = node("arr", vec![base.clone(), a(&n.to_string())]);
                self.declarator(&elem, &ad.inner)
            }
            _ => None,
        }
    }

    pub fn expr(&self, e: &ast::Expression) -> Sx {
        match e {
            ast::Expression::Literal(lit) => match lit {
                ast::Literal::Bool(b) => node("lit", vec![a("bool"), a(if *b { "1" } else { "0" })]),
                ast::Literal::IntUntyped(n) => node("lit", vec![a("int"), a(&n.to_string())]),
                ast::Literal::IntUnsigned32(n) => node("lit", vec![a("uint"), a(&n.to_string())]),
                ast::Literal::Float32(f) => node("lit", vec![a("f32"), a(&format!("{:08x}", f.to_bits()))]),
                ast::Literal::FloatUntyped(f) => node("lit", vec![a("flt"), a(&format!("{:016x}", f.to_bits()))]),
                _ => unsup("Literal"),
            },
            ast::Expression::Identifier(id) => match ident(id) {
                Some(n) => node("id", vec![a(&n)]),
                None => unsup("ScopedIdentifier"),
            },
            ast::Expression::UnaryOperation(op, x) => node("un", vec![a(&format!("{:?}", op)), self.expr(&x.node)]),
            ast::Expression::BinaryOperation(op, x, y) => {
                node("bin", vec![a(&format!("{:?}", op)), self.expr(&x.node), self.expr(&y.node)])
            }
            ast::Expression::TernaryConditional(c, t, f) => {
                node("tern", vec![self.expr(&c.node), self.expr(&t.node), self.expr(&f.node)])
            }
            ast::Expression::ArraySubscript(o, i) => node("idx", vec![self.expr(&o.node), self.expr(&i.node)]),
            ast::Expression::Member(o, name) => match ident(name) {
                Some(n) if name.identifiers.len() == 1 => node("mem", vec![self.expr(&o.node), a(&n)]),
                _ => unsup("MemberName"),
            },
            ast::Expression::Cast(ty, x) => {
                let base = match self.base_type(&ty.base) {
                    Some((b, mods)) if mods.is_empty() => b,
                    _ => return unsup("CastType"),
                };
                match self.declarator(&base, &ty.abstract_declarator) {
                    Some((None, t)) => node("cast", vec![t, self.expr(&x.node)]),
                    _ => unsup("CastDeclarator"),
                }
            }
            ast::Expression::Call(f, targs, args) => {
                // explicit template arguments: only for calls of functions whose template parameters are unnamed (unused),
                // which is how the exporter emits instantiations; `func` below refuses named parameters
                let callee = match &f.node {
                    ast::Expression::Identifier(id) => ident(id),
                    _ => None,
                };
                let binds_struct_names = || -> bool {
                    // every named parameter receives the type of its own name
                    let names = match callee.as_ref().and_then(|n| self.struct_named_templates.iter().find(|(f, _)| f == n)) {
                        Some((_, names)) => names,
                        None => return false,
                    };
                    names.len() == targs.len()
                        && names.iter().zip(targs.iter()).all(|(n, t)| match (n, t) {
                            (None, _) => true,
                            (Some(n), ast::ExpressionOrType::Type(ty)) | (Some(n), ast::ExpressionOrType::Either(_, ty)) => {
                                ty.abstract_declarator == ast::Declarator::Empty
                                    && ty.base.modifiers.modifiers.is_empty()
                                    && ty.base.layout.1.is_empty()
                                    && ident(&ty.base.layout.0).as_deref() == Some(n.as_str())
                            }
                            _ => false,
                        })
                };
                if !targs.is_empty() && !callee.as_ref().map(|n| self.unnamed_templates.contains(n)).unwrap_or(false) && !binds_struct_names() {
                    return unsup("TemplateArgs");
                }
                match &f.node {
                    ast::Expression::Identifier(id) => match ident(id) {
                        Some(n) => {
                            let mut v = vec![a(&n)];
                            v.extend(args.iter().map(|x| self.expr(&x.node)));
                            node("call", v)
                        }
                        None => unsup("CallTarget"),
                    },
                    // `object.method(args)`
                    ast::Expression::Member(obj, name) if name.identifiers.len() == 1 => match ident(name) {
                        Some(n) => {
                            let mut v = vec![self.expr(&obj.node), a(&n)];
                            v.extend(args.iter().map(|x| self.expr(&x.node)));
                            node("mcall", v)
                        }
                        None => unsup("CallTarget"),
                    },
                    _ => unsup("CallTarget"),
                }
            }
            ast::Expression::AmbiguousParseBranch(branches) => {
                // as the type checker does: the first branch (but the last) whose expected names are all types, else the last
                let (last, main) = match branches.split_last() {
                    Some(x) => x,
                    None => return unsup("AmbiguousParseBranch"),
                };
                for b in main {
                    if b.expected_type_names.iter().all(|n| ident(n).map(|s| self.is_type_name(&s)).unwrap_or(false)) {
                        return self.expr(&b.expr.node);
                    }
                }
                self.expr(&last.expr.node)
            }
            _ => unsup("Expression"),
        }
    }

    fn init(&self, i: &ast::Initializer) -> Sx {
        match i {
            ast::Initializer::Expression(e) => self.expr(&e.node),
            ast::Initializer::Aggregate(items) => node("agg", items.iter().map(|x| self.init(x)).collect()),
            _ => unsup("Init"),
        }
    }

    /// `(d <name> <ty> <init>?)` per declarator
    fn defs(&self, base: &Sx, defs: &[ast::InitDeclarator]) -> Option<Vec<Sx>> {
        let mut v = Vec::new();
        for def in defs {
            if !def.location_annotations.is_empty() {
                return None;
            }
            let (name, ty) = self.declarator(base, &def.declarator)?;
            let mut items = vec![a(&name?), ty];
            if let Some(i) = &def.init {
                items.push(self.init(i));
            }
            v.push(node("d", items));
        }
        Some(v)
    }

    fn vardef(&self, d: &ast::VarDef) -> Option<Vec<Sx>> {
        let (base, mods) = self.base_type(&d.local_type)?;
        if mods.iter().any(|m| !matches!(m, ast::TypeModifier::Const | ast::TypeModifier::Precise)) {
            return None;
        }
        self.defs(&base, &d.defs)
    }

    pub fn stmt(&self, s: &ast::Statement) -> Sx {
        if !s.attributes.is_empty() {
            return unsup("Attribute");
        }
        match &s.kind {
            ast::StatementKind::Expression(e) => node("expr", vec![self.expr(e)]),
            ast::StatementKind::AmbiguousDeclarationOrExpression(d, e) => {
                // a declaration when the leading name is a type, as the type checker decides
                match self.vardef(d) {
                    Some(v) if matches!(&d.local_type.layout.0, id if ident(id).map(|n| self.is_type_name(&n)).unwrap_or(false)) => node("var", v),
                    _ => node("expr", vec![self.expr(e)]),
                }
            }
            ast::StatementKind::Var(d) => match self.vardef(d) {
                Some(v) => node("var", v),
                None => unsup("VarDef"),
            },
            ast::StatementKind::Block(b) => node("block", b.iter().map(|x| self.stmt(x)).collect()),
            ast::StatementKind::If(c, b) => node("if", vec![self.expr(&c.node), self.stmt(b)]),
            ast::StatementKind::IfElse(c, t, f) => node("ifelse", vec![self.expr(&c.node), self.stmt(t), self.stmt(f)]),
            ast::StatementKind::For(init, cond, inc, b) => {
                let i = match init {
                    ast::InitStatement::Empty => node("none", vec![]),
                    ast::InitStatement::Expression(e) => node("e", vec![self.expr(&e.node)]),
                    ast::InitStatement::Declaration(d) => match self.vardef(d) {
                        Some(v) => node("decl", v),
                        None => unsup("VarDef"),
                    },
                };
                let c = match cond {
                    None => node("none", vec![]),
                    Some(e) => self.expr(&e.node),
                };
                let n = match inc {
                    None => node("none", vec![]),
                    Some(e) => self.expr(&e.node),
                };
                node("for", vec![i, c, n, self.stmt(b)])
            }
            ast::StatementKind::While(c, b) => node("while", vec![self.expr(&c.node), self.stmt(b)]),
            ast::StatementKind::DoWhile(b, c) => node("dowhile", vec![self.stmt(b), self.expr(&c.node)]),
            ast::StatementKind::Break => node("break", vec![]),
            ast::StatementKind::Continue => node("continue", vec![]),
            ast::StatementKind::Return(None) => node("ret", vec![]),
            ast::StatementKind::Return(Some(e)) => node("ret", vec![self.expr(&e.node)]),
            ast::StatementKind::Empty => node("empty", vec![]),
            ast::StatementKind::Switch(c, b) => node("switch", vec![self.expr(&c.node), self.stmt(b)]),
            ast::StatementKind::CaseLabel(e, st) => node("case", vec![self.expr(&e.node), self.stmt(st)]),
            ast::StatementKind::DefaultLabel(st) => node("default", vec![self.stmt(st)]),
            _ => unsup("Statement"),
        }
    }

    pub fn func(&self, f: &ast::FunctionDefinition) -> Sx {
        let ret = match self.base_type(&f.returntype.return_type) {
            Some((n, mods)) if mods.is_empty() && f.returntype.location_annotations.is_empty() => n,
            _ => unsup("ReturnType"),
        };
        let mut ps = Vec::new();
        for p in &f.params {
            let (base, mods) = match self.base_type(&p.param_type) {
                Some(x) => x,
                None => {
                    ps.push(unsup("ParamType"));
                    continue;
                }
            };
            let mut dir = "in";
            let mut bad = false;
            for m in mods {
                match m {
                    ast::TypeModifier::In => dir = "in",
                    ast::TypeModifier::Out => dir = "out",
                    ast::TypeModifier::InOut => dir = "inout",
                    ast::TypeModifier::Const | ast::TypeModifier::Precise => {}
                    _ => bad = true,
                }
            }
            match self.declarator(&base, &p.declarator) {
                Some((Some(n), ty)) if !bad && p.location_annotations.is_empty() => {
                    let mut items = vec![a(&n), a(dir), ty];
                    if let Some(d) = &p.default_expr {
                        items.push(self.expr(d));
                    }
                    ps.push(node("p", items))
                }
                _ => ps.push(unsup("Param")),
            }
        }
        let body = match &f.body {
            Some(b) => node("block", b.iter().map(|x| self.stmt(x)).collect()),
            None => unsup("NoBody"),
        };
        let mut items = vec![a(&f.name.node), ret, node("params", ps), body];
        let struct_named = self.struct_named_templates.iter().any(|(n, names)| n.ends_with(&f.name.node) && Some(names) == template_param_names(f).as_ref());
        if !f.attributes.is_empty() || (!f.template_params.0.is_empty() && !unnamed_params(f) && !struct_named) {
            items.push(unsup("FunctionAttribute"));
        }
        node("fn", items)
    }

    /// the module's definitions; the members of `namespace N { … }` are listed under their qualified names `N::x`, which
    /// is how the exporter refers to them everywhere
    pub fn module(&self, m: &ast::Module) -> Vec<Sx> {
        let mut out = Vec::new();
        self.definitions(&m.root_definitions, "", &mut out);
        out
    }

    /// the function definition by its qualified name
    pub fn find_function<'m>(&self, defs: &'m [ast::RootDefinition], prefix: &str, qualified: &str) -> Option<&'m ast::FunctionDefinition> {
        for rd in defs {
            match rd {
                ast::RootDefinition::Function(fd) if format!("{}{}", prefix, fd.name.node) == qualified && fd.body.is_some() => return Some(fd),
                ast::RootDefinition::Namespace(n, inner) => {
                    if let Some(f) = self.find_function(inner, &format!("{}{}::", prefix, n.node), qualified) {
                        return Some(f);
                    }
                }
                _ => {}
            }
        }
        None
    }

    fn rename(item: Sx, prefix: &str) -> Sx {
        match item {
            Sx::L(mut v) if v.len() >= 2 && !prefix.is_empty() && matches!(v[0].atom(), "fn" | "struct" | "enum" | "global") => {
                v[1] = a(&format!("{}{}", prefix, v[1].atom()));
                Sx::L(v)
            }
            other => other,
        }
    }

    fn definitions(&self, defs: &[ast::RootDefinition], prefix: &str, all: &mut Vec<Sx>) {
        let mut out = Vec::new();
        for rd in defs {
            match rd {
                ast::RootDefinition::Namespace(n, inner) => {
                    self.definitions(inner, &format!("{}{}::", prefix, n.node), all);
                }
                ast::RootDefinition::Function(f) => out.push(self.func(f)),
                ast::RootDefinition::Struct(s) => {
                    let mut v = vec![a(&s.name.node)];
                    if !s.base_types.is_empty() || !s.template_params.0.is_empty() {
                        v.push(unsup("StructHeader"));
                    }
                    for e in &s.members {
                        match e {
                            ast::StructEntry::Variable(mem) if mem.attributes.is_empty() => match self.base_type(&mem.ty) {
                                Some((base, mods)) if without_precise(mods.clone()).is_empty() => {
                                    for def in &mem.defs {
                                        match self.declarator(&base, &def.declarator) {
                                            Some((Some(n), ty)) if def.init.is_none() && def.location_annotations.is_empty() => {
                                                v.push(node("m", vec![a(&n), ty]))
                                            }
                                            _ => v.push(unsup("StructMember")),
                                        }
                                    }
                                }
                                _ => v.push(unsup("StructMemberType")),
                            },
                            ast::StructEntry::Method(fd) => v.push(node("method", vec![self.func(fd)])),
                            _ => v.push(unsup("StructEntry")),
                        }
                    }
                    out.push(node("struct", v));
                }
                ast::RootDefinition::Enum(e) => {
                    let mut v = vec![a(&e.name.node)];
                    for val in &e.values {
                        let mut items = vec![a(&val.name.node)];
                        if let Some(x) = &val.value {
                            items.push(self.expr(&x.node));
                        }
                        v.push(node("v", items));
                    }
                    out.push(node("enum", v));
                }
                ast::RootDefinition::GlobalVariable(g) => match self.base_type(&g.global_type) {
                    Some((base, mods)) if g.attributes.is_empty() && mods.contains(&ast::TypeModifier::Static) => {
                        let is_const = mods.contains(&ast::TypeModifier::Const);
                        for def in &g.defs {
                            match self.declarator(&base, &def.declarator) {
                                Some((Some(n), ty)) if def.location_annotations.is_empty() => {
                                    let mut items = vec![a(&n), ty, a(if is_const { "const" } else { "mut" })];
                                    if let Some(i) = &def.init {
                                        items.push(self.init(i));
                                    }
                                    out.push(node("global", items));
                                }
                                _ => out.push(unsup("GlobalDeclarator")),
                            }
                        }
                    }
                    _ => out.push(unsup("GlobalType")),
                },
                _ => out.push(unsup("RootDefinition")),
            }
        }
        all.extend(out.into_iter().map(|i| Self::rename(i, prefix)));
    }
}

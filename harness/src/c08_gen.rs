//! Input generators of the C08 harness: byte soups, token soups, repetition (nesting) soups, grammar-generated
//! programs (valid and single-mutation-invalid), whole-file programs (progen) and mutations of repository inputs.
use super::Req;
use crate::compile_util::*;
use crate::progen::*;
use crate::util::*;

pub const KEYWORDS: &[&str] = &[
    "if", "else", "for", "while", "do", "switch", "return", "break", "continue", "discard", "case", "default", "struct",
    "class", "enum", "typedef", "cbuffer", "register", "packoffset", "namespace", "true", "false", "in", "out", "inout",
    "const", "volatile", "row_major", "column_major", "unorm", "snorm", "extern", "static", "inline", "groupshared",
    "constexpr", "sizeof", "template", "typename", "decltype", "auto", "operator", "this", "unsigned", "using",
];
pub const TYPES: &[&str] = &[
    "void", "int", "uint", "float", "bool", "half", "double", "float2", "float3", "float4", "int2", "int3", "int4", "uint2",
    "uint3", "uint4", "float4x4", "float3x3", "float2x3", "bool2", "half4", "uint64_t", "int64_t", "float16_t", "int16_t",
    "uint16_t", "Texture2D", "Texture2D<float4>", "RWTexture2D<float4>", "Texture3D<float>", "TextureCube", "Texture2DArray",
    "Buffer<float4>", "RWBuffer<uint>", "StructuredBuffer<float4>", "RWStructuredBuffer<uint>", "ByteAddressBuffer",
    "RWByteAddressBuffer", "BufferAddress", "RWBufferAddress", "ConstantBuffer<S>", "SamplerState", "SamplerComparisonState",
    "RaytracingAccelerationStructure", "RayQuery<0>", "RayDesc", "vector<float, 3>", "matrix<float, 2, 2>", "S", "T",
];
pub const PUNCT: &[&str] = &[
    "{", "}", "(", ")", "[", "]", "<", ">", ";", ",", ".", ":", "::", "?", "+", "-", "*", "/", "%", "=", "==", "!=", "<=", ">=",
    "<<", ">>", "&&", "||", "&", "|", "^", "~", "!", "++", "--", "+=", "-=", "*=", "/=", "%=", "<<=", ">>=", "&=", "|=", "^=",
    "#", "##", "->", "\\", "@", "$", "`", "'", "\"",
];
pub const LITERALS: &[&str] = &[
    "0", "1", "2", "7", "-1", "0u", "1u", "4294967295u", "4294967295", "4294967296", "2147483647", "2147483648", "-2147483648",
    "9223372036854775807", "9223372036854775808", "18446744073709551615", "18446744073709551615ul", "18446744073709551616",
    "99999999999999999999", "0x7fffffff", "0x80000000", "0xffffffff", "0xffffffffffffffff", "0x1ffffffffffffffff", "0x", "0xg",
    "077", "08", "1l", "1L", "1ul", "1UL", "1uu", "0.0", "1.0", "1.", ".5", "1.0f", "1.0h", "1.0L", "1e10", "1e999", "1e-999", "1e+",
    "1e", "1.e5f", "3.402823466e+38f", "1.175494351e-38f", "1.7976931348623157e308", "4.9e-324", "0.1f", "1.#INF", "1.0lf",
    "1f", "1h", "0b101", "1'000", "\"str\"", "\"unterminated", "'c'", "true", "false",
    "4294967296u", "0xFFFFFFFFFu", "040000000000u", "9223372036854775808l", "0xffffffffffffffffl", "01777777777777777777777l", "0777777777777777777777777",
    "0x123456789abcdefABCDEF", "0xabcdefu", "0XFF", "01234567", "0129", "12lu", "12LU", "0x1Ful", "017uL", "0.0#INF", "1e5#INF", "1.#INFx", "1.5#IN", "1.#INFf", "2.0#INFh",
    "0.5x", "1.0fx", "1.xyz", "\"a\\\"b\"", "\"é\"", "é", "1é",
];
pub const IDENTS: &[&str] = &[
    "a", "b", "c", "x", "y", "i", "n", "f", "g", "main", "CSMAIN", "PSMAIN", "VSMAIN", "S", "T", "s", "v", "m", "g_tex", "g_buf", "g_cb",
    "g_samp", "SV_Target", "SV_Position", "SV_DispatchThreadID", "SV_VertexID", "SV_GroupIndex", "TEXCOORD", "Pipeline",
    "ComputeShader", "PixelShader", "VertexShader", "MeshShader", "TaskShader", "DefaultBindGroup", "numthreads", "unroll",
    "loop", "branch", "flatten", "outputtopology", "vertices", "primitives", "indices", "payload", "space0", "space1", "space4",
    "t0", "u1", "b2", "s3", "c0", "xyz", "xxxx", "rgba", "_m00", "Load", "Store", "Sample", "SampleLevel", "GetDimensions",
    "InterlockedAdd", "max", "min", "dot", "mul", "lerp", "abs", "asuint", "asfloat", "WaveActiveSum", "WaveGetLaneIndex",
    "SetMeshOutputCounts", "DispatchMesh", "GroupMemoryBarrierWithGroupSync", "assert_type", "assert_eval", "__HLSL_VERSION",
    "RSSL_TARGET_HLSL", "RSSL_TARGET_MSL", "defined", "float16_t", "DEF", "M", "A", "B",
];
pub const DIRECTIVES: &[&str] = &[
    "#define M 1", "#define M(x) x", "#define M(x, y) x ## y", "#define A B", "#define B A", "#define A B(A)", "#define B(x) x A",
    "#define M(x) #x", "#define M( x", "#define", "#define M(x,x) x", "#define M(...) __VA_ARGS__", "#undef M", "#undef", "#if 1",
    "#if 0", "#if M", "#if defined(M)", "#if defined M && !defined(A)", "#if (1 + 2) * 3 == 9", "#if 1 /", "#if 1 / 0", "#if 1 % 0",
    "#if (", "#if 99999999999999999999", "#if -1 < 0u", "#if 1 << 64", "#if M(", "#ifdef M", "#ifndef M", "#ifdef", "#elif 1",
    "#elif", "#else", "#else x", "#endif", "#endif x", "#include \"main.rssl\"", "#include <main.rssl>", "#include \"nope.h\"",
    "#include", "#include M", "#pragma once", "#pragma warning(disable: 1)", "#pragma foo", "#pragma", "#error x", "#line 3",
    "#", "# define M 2", "#unknown", "M", "M(1)", "M(1, 2)", "M(", "M(M(M(1)))", "A", "B(1)", "x ## y", "## x", "x ##",
    "RSSL_TARGET_HLSL ## 1", "x ## RSSL_TARGET_MSL", "__HLSL_VERSION ## x", "DEF ## DEF", "a DEF b",
    "#include <abc", "#include <a", "#include \"abc", "#include <é>", "#include <a\\\nb>", "// c \\\n still comment", "/* c \\\n */", "#if false", "#if true && !false", "#define P(x) x ## \"", "P(a)",
    "#define Q(x) \" ## x", "Q(b)", "#define R a ## /* c */ b", "R", "#if 1 // c \\\n 2",
];

pub fn generate(kind: &str, seed: u64) -> Option<Vec<u8>> {
    let mut rng = Rng::new(seed);
    Some(match kind {
        "bytes" => gen_bytes(&mut rng),
        "toks" => gen_tokens(&mut rng).into_bytes(),
        "rep" => gen_repetition(&mut rng).into_bytes(),
        "gram" => gen_grammar(&mut rng).into_bytes(),
        "feat" => gen_features(&mut rng).into_bytes(),
        "gmut" => {
            let src = gen_grammar(&mut rng);
            mutate_tokens(&src, &mut rng).into_bytes()
        }
        "cx" => gen_cx(&mut rng).text.into_bytes(),
        "syn" => gen_syn(&mut rng).text.into_bytes(),
        // the template of the seed-th category alone (every category is emitted at least once per run)
        "synone" => {
            let (c, a) = *syn_variants().get(seed as usize)?;
            syn_single(c, a)?.into_bytes()
        }
        "synmut" => {
            let src = gen_syn(&mut rng).text;
            mutate_tokens(&src, &mut rng).into_bytes()
        }
        // property blocks, attributes and redefinitions (c08_props.rs): random programs, the seed-th variant of the sweep
        "props" => gen_props(&mut rng).text.into_bytes(),
        "propone" => props_single(seed as usize)?.into_bytes(),
        // call graphs with cycles through different symbols (c08_cyc.rs): random graphs, the seed-th variant of the sweep
        "cyc" => gen_cyc(&mut rng).text.into_bytes(),
        "cycone" => cyc_single(seed as usize)?.text.into_bytes(),
        "prog" => {
            let p = gen_program(&mut rng, &progen_opts());
            render(&p, &|_| true).into_bytes()
        }
        "pmut" => {
            let p = gen_program(&mut rng, &progen_opts());
            let src = render(&p, &|_| true);
            if rng.chance(1, 2) { mutate_tokens(&src, &mut rng).into_bytes() } else { mutate_bytes(src.as_bytes(), &mut rng) }
        }
        _ => return None,
    })
}

fn progen_opts() -> GenOpts {
    GenOpts { max_resources: 8, max_helpers: 4, max_pipes: 3, allow_mesh: true, share_entries: true }
}

// ------------------------------------------------------------------------------------------ soups

/// byte strings up to 4 KB: uniform bytes, ASCII, or the shader alphabet
pub fn gen_bytes(rng: &mut Rng) -> Vec<u8> {
    let len = match rng.below(10) {
        0 => rng.below(8),
        1..=4 => rng.below(128),
        5..=7 => rng.below(1024),
        _ => rng.below(4097),
    } as usize;
    let flavour = rng.below(4);
    let alphabet: &[u8] = b"abcxyzfi01239 \n\t(){}[]<>;,.:?+-*/%=!&|^~#\"'\\_uUlLeEfFhx";
    (0..len)
        .map(|_| match flavour {
            0 => rng.below(256) as u8,
            1 => rng.below(128) as u8,
            2 => alphabet[rng.below(alphabet.len() as u64) as usize],
            _ => {
                if rng.chance(1, 30) { rng.below(256) as u8 } else { alphabet[rng.below(alphabet.len() as u64) as usize] }
            }
        })
        .collect()
}

/// small byte strings over the lexer's alphabet (for the TokenStream bookkeeping diff)
pub fn gen_lex_soup(rng: &mut Rng) -> Vec<u8> {
    let len = rng.below(40) as usize;
    let alphabet: &[u8] = b"ab1 \n\n\r\t(){};,.+-*/=<>#\"\\_0xfu.e//**";
    (0..len).map(|_| alphabet[rng.below(alphabet.len() as u64) as usize]).collect()
}

fn pick_token(rng: &mut Rng) -> String {
    match rng.below(20) {
        0..=3 => rng.pick(KEYWORDS).to_string(),
        4..=6 => rng.pick(TYPES).to_string(),
        7..=11 => rng.pick(PUNCT).to_string(),
        12..=14 => rng.pick(LITERALS).to_string(),
        _ => rng.pick(IDENTS).to_string(),
    }
}

/// random sequences of valid tokens up to 4 KB; directives start lines; optionally brace-balanced
pub fn gen_tokens(rng: &mut Rng) -> String {
    let budget = match rng.below(6) {
        0 => 16,
        1..=3 => 200,
        4 => 1000,
        _ => 4096,
    };
    let balanced = rng.chance(1, 2);
    let mut open: Vec<&str> = Vec::new();
    let mut s = String::new();
    while s.len() < budget {
        if rng.chance(1, 12) {
            if !s.ends_with('\n') && !s.is_empty() {
                s.push('\n');
            }
            let d: &str = *rng.pick(DIRECTIVES);
            s.push_str(d);
            s.push('\n');
            continue;
        }
        let t = pick_token(rng);
        if balanced {
            match t.as_str() {
                "{" => open.push("}"),
                "(" => open.push(")"),
                "[" => open.push("]"),
                "}" | ")" | "]" => {
                    if let Some(c) = open.pop() {
                        s.push_str(c);
                        s.push(' ');
                    }
                    continue;
                }
                _ => {}
            }
        }
        s.push_str(&t);
        s.push(if rng.chance(1, 10) { '\n' } else { ' ' });
    }
    while let Some(c) = open.pop() {
        s.push_str(c);
    }
    let mut cut = s.len().min(4096);
    while !s.is_char_boundary(cut) {
        cut -= 1;
    }
    s.truncate(cut);
    s
}

/// one unit repeated up to the 4 KB limit, bare or inside a function: the unbalanced / deeply nested inputs
pub fn gen_repetition(rng: &mut Rng) -> String {
    const UNITS: &[(&str, &str, &str)] = &[
        ("(", "1", ")"), ("-", "1", ""), ("!", "1", ""), ("~", "1", ""), ("- -", "1", ""), ("+", "1", ""), ("(int)", "1", ""),
        ("(a)", "1", ""), ("(a)-", "1", ""), ("a[", "0", "]"), ("f(", "1", ")"), ("1 + ", "1", ""), ("1 * ", "1", ""),
        ("1 ? 1 : ", "1", ""), ("1 ? ", "1", " : 1"), ("a = ", "1", ""), ("a, ", "1", ""), ("a.", "x", ""), ("a < ", "1", ""),
        ("1 << ", "1", ""), ("a && ", "1", ""), ("float4(", "1", ")"), ("a.x.", "x", ""), ("++", "a", ""), ("", "a", "++"),
        ("sizeof(", "a", ")"), ("(1,", "1", ")"), ("{", "", "}"), ("[", "", "]"), ("<", "", ">"), ("\"", "", ""),
        ("/*", "", ""), ("/*", "", "*/"), ("\\\n", "", ""), ("#", "", ""), ("##", "", ""), ("M(", "1", ")"), ("a::", "b", ""),
        ("vector<", "float", ",1>"),
    ];
    const STMT_UNITS: &[(&str, &str, &str)] = &[
        ("{", "", "}"), ("if (a) ", ";", ""), ("if (a) {", "", "}"), ("if (a) {} else ", ";", ""), ("for (;;) ", ";", ""),
        ("while (a) ", ";", ""), ("do ", ";", " while (a);"), ("switch (a) { case 1: ", ";", " }"), ("[unroll] ", ";", ""),
        ("a;", "", ""), ("int b = a;", "", ""), ("{ int a = 1; ", "", "}"), (";", "", ""), ("return;", "", ""),
    ];
    const TOP_UNITS: &[(&str, &str, &str)] = &[
        ("namespace N {", "", "}"), ("struct S {", "int x;", "};"), ("struct S { int x; };\n", "", ""), ("int f();\n", "", ""),
        ("typedef int T;\n", "", ""), (";", "", ""), ("#if 1\n", "", "#endif\n"), ("#if 1\n", "", ""), ("#else\n", "", ""),
        ("#endif\n", "", ""), ("#define M M\n", "M", ""), ("template<typename T> ", "void f() {}", ""), ("static ", "int x;", ""),
        ("const ", "int x;", ""), ("[a] ", "void f() {}", ""), ("int x : A", ";", ""), ("int a[1]", ";", ""),
        ("#include \"main.rssl\"\n", "", ""), ("Pipeline P {", "", "}"), ("enum E {", "A", "};"), ("cbuffer C {", "int x;", "}"),
    ];
    let place = rng.below(10);
    let (units, wrap): (&[(&str, &str, &str)], u64) = match place {
        0..=5 => (UNITS, rng.below(4)),
        6..=7 => (STMT_UNITS, 4),
        _ => (TOP_UNITS, 5),
    };
    let (pre, mid, post) = *rng.pick(units);
    let unit = pre.len() + post.len();
    let max_k = if unit == 0 { 1 } else { (4000 / unit).max(1) };
    let k = match rng.below(6) {
        0 => rng.range(1, 20) as usize,
        1 => rng.range(20, 200) as usize,
        2 => rng.range(200, 1000) as usize,
        _ => max_k,
    }
    .min(max_k);
    let unbalanced = rng.chance(1, 4);
    let mut e = String::new();
    for _ in 0..k {
        e.push_str(pre);
    }
    e.push_str(mid);
    if !unbalanced {
        for _ in 0..k {
            e.push_str(post);
        }
    }
    match wrap {
        0 => e,
        1 => format!("int a; int f(int x) {{ return 1; }}\nint g() {{ return {}; }}\n", e),
        2 => format!("#define M(x) x\nstatic const int a = 1;\nstatic const int c = {};\n", e),
        3 => format!("typedef int a;\nvoid g() {{ int x[4]; {}; }}\n", e),
        4 => format!("void g(int a) {{ {} }}\n", e),
        _ => e,
    }
}

// ------------------------------------------------------------------------------------------ mutations

pub fn split_tokens(src: &str) -> Vec<String> {
    // identifiers/numbers, whitespace runs, single other characters
    let mut out = Vec::new();
    let cs: Vec<char> = src.chars().collect();
    let mut i = 0;
    while i < cs.len() {
        let c = cs[i];
        let mut j = i + 1;
        if c.is_alphanumeric() || c == '_' {
            while j < cs.len() && (cs[j].is_alphanumeric() || cs[j] == '_' || cs[j] == '.') {
                j += 1;
            }
        } else if c.is_whitespace() {
            while j < cs.len() && cs[j].is_whitespace() {
                j += 1;
            }
        }
        out.push(cs[i..j].iter().collect());
        i = j;
    }
    out
}

/// single mutation at token level: delete / duplicate / swap with neighbour / replace by a random token / insert one
pub fn mutate_tokens(src: &str, rng: &mut Rng) -> String {
    let mut toks = split_tokens(src);
    let idx: Vec<usize> = toks.iter().enumerate().filter(|(_, t)| !t.trim().is_empty()).map(|(i, _)| i).collect();
    if idx.is_empty() {
        return src.to_string();
    }
    let k = idx[rng.below(idx.len() as u64) as usize];
    match rng.below(6) {
        0 => {
            toks.remove(k);
        }
        1 => {
            let t = toks[k].clone();
            toks.insert(k, t);
        }
        2 => {
            let k2 = idx[rng.below(idx.len() as u64) as usize];
            toks.swap(k, k2);
        }
        3 => toks[k] = pick_token(rng),
        4 => toks.insert(k, format!("{} ", pick_token(rng))),
        _ => {
            // replace a literal/identifier by an extreme literal
            toks[k] = rng.pick(LITERALS).to_string();
        }
    }
    toks.concat()
}

/// byte flips, line deletions / duplications, token swaps (1..3 of them)
pub fn mutate_bytes(bytes: &[u8], rng: &mut Rng) -> Vec<u8> {
    let mut b = bytes.to_vec();
    let n = 1 + rng.below(3);
    for _ in 0..n {
        if b.is_empty() {
            break;
        }
        match rng.below(7) {
            0 => {
                let i = rng.below(b.len() as u64) as usize;
                b[i] ^= 1 << rng.below(7);
            }
            1 => {
                let i = rng.below(b.len() as u64) as usize;
                b[i] = *rng.pick(b"(){}[]<>;,#\"\\/*\n0-");
            }
            2 | 3 => {
                // delete or duplicate a line
                let mut lines: Vec<&[u8]> = b.split_inclusive(|c| *c == b'\n').collect();
                let i = rng.below(lines.len() as u64) as usize;
                if rng.chance(1, 2) {
                    lines.remove(i);
                } else {
                    let l = lines[i];
                    lines.insert(i, l);
                }
                b = lines.concat();
            }
            4 => {
                // truncate
                let i = rng.below(b.len() as u64) as usize;
                b.truncate(i);
            }
            5 => {
                let i = rng.below(b.len() as u64) as usize;
                b.remove(i);
            }
            _ => {
                if let Ok(s) = std::str::from_utf8(&b) {
                    b = mutate_tokens(s, rng).into_bytes();
                }
            }
        }
    }
    b
}

// ------------------------------------------------------------------------------------------ condition sequences

/// all directive sequences up to length `exhaustive` over a reduced alphabet, plus random longer ones
pub fn cond_sequences(rng: &mut Rng, exhaustive: usize, random: usize) -> Vec<String> {
    let small = ['i', 'I', 'l', 'e', 'n', 't'];
    let mut out = vec![String::new()];
    let mut layer = vec![String::new()];
    for _ in 0..exhaustive.min(4) {
        let mut next = Vec::new();
        for s in &layer {
            for c in small {
                next.push(format!("{}{}", s, c));
            }
        }
        out.extend(next.iter().cloned());
        layer = next;
    }
    let all = ['i', 'I', 'd', 'D', 'l', 'L', 'e', 'n', 't'];
    for _ in 0..random {
        let len = 3 + rng.below(20) as usize;
        // mostly balanced walks so that deep chains are reached
        let mut depth = 0;
        let mut s = String::new();
        for _ in 0..len {
            let c = if rng.chance(1, 6) {
                *rng.pick(&all)
            } else if depth == 0 || rng.chance(1, 3) {
                *rng.pick(&['i', 'I', 'd', 'D', 't'])
            } else {
                *rng.pick(&['l', 'L', 'e', 'n', 'n', 't', 't'])
            };
            match c {
                'i' | 'I' | 'd' | 'D' => depth += 1,
                'n' if depth > 0 => depth -= 1,
                _ => {}
            }
            s.push(c);
        }
        if rng.chance(2, 3) {
            for _ in 0..depth {
                s.push('n');
            }
        }
        out.push(s);
    }
    // since fix batch 2: a block remembers its #else (03ca601), the blocks of a file start and end inside it (115a619),
    // a directive line that does not start with a name is ignored in a skipped block (ed75afa)
    for s in [
        "iee", "Iee", "iel", "IeL", "Ieten", "Ieln", "iIeenn", "iIenen", "ietIetenen", "x", "ix", "Ixn", "Ixexn", "iIxnxn",
        "()", "(t)", "i(e)n", "i(l)n", "i(n)", "I(n)n", "I(e)tn", "(i)n", "(I)en", "(it)tn", "i(itn)n", "i(iten)etn",
        "I(iten)etn", "ie(e)n", "ie(ie)n", "ie(ien)n", "i((e))n", "i((n))", "((i))n", "((in))", "(i(n))", "(i(e)n)", "(ie(e)n)",
        "i(I(i(t)n)et)n", "(x)", "I(x)n", "i(Ix)n", "i(Ixn)n", "i(t)(t)n",
    ] {
        out.push(s.to_string());
    }
    for _ in 0..random {
        // random trees of files: lines as above, `(` opens an included file (nesting <= 3), `)` ends it
        let len = 3 + rng.below(24) as usize;
        let mut s = String::new();
        // per open file: the block depth inside that file
        let mut depth = vec![0usize];
        for _ in 0..len {
            let d = *depth.last().unwrap();
            if depth.len() < 4 && rng.chance(1, 7) {
                s.push('(');
                depth.push(0);
                continue;
            }
            if depth.len() > 1 && rng.chance(1, 5) {
                // mostly close the file's own blocks first
                if rng.chance(3, 4) {
                    for _ in 0..d {
                        s.push('n');
                    }
                }
                s.push(')');
                depth.pop();
                continue;
            }
            let c = if rng.chance(1, 6) {
                *rng.pick(&['i', 'I', 'd', 'D', 'l', 'L', 'e', 'n', 't', 'x'])
            } else if d == 0 || rng.chance(1, 3) {
                *rng.pick(&['i', 'I', 'd', 'D', 't'])
            } else {
                *rng.pick(&['l', 'L', 'e', 'e', 'n', 'n', 't', 't', 'x'])
            };
            match c {
                'i' | 'I' | 'd' | 'D' => *depth.last_mut().unwrap() += 1,
                'n' if d > 0 => *depth.last_mut().unwrap() -= 1,
                _ => {}
            }
            s.push(c);
        }
        while depth.len() > 1 {
            if rng.chance(3, 4) {
                for _ in 0..*depth.last().unwrap() {
                    s.push('n');
                }
            }
            s.push(')');
            depth.pop();
        }
        if rng.chance(2, 3) {
            for _ in 0..depth[0] {
                s.push('n');
            }
        }
        out.push(s);
    }
    out
}

// ------------------------------------------------------------------------------------------ `defined` scan scenarios

/// `<placement>;<definition>;..;<condition>`: a few macro definitions (in a header, in the entry file before the `#if`,
/// or as API defines) and one `#if` condition that uses them together with `defined`
pub fn gen_defscan(rng: &mut Rng) -> String {
    const PLAIN: &[&str] = &["P", "Q", "R", "A", "F"];
    let placement = match rng.below(20) {
        0..=11 => "h",
        12..=16 => "m",
        _ => "a",
    };
    let nd = rng.below(5) as usize;
    let mut macros: Vec<(String, Option<usize>)> = Vec::new();
    let mut parts: Vec<String> = vec![placement.to_string()];
    fn join(rng: &mut Rng, toks: &[String]) -> String {
        let mut s = String::new();
        for (i, t) in toks.iter().enumerate() {
            if i > 0 {
                let prev_word = toks[i - 1].chars().last().is_some_and(|c| c.is_alphanumeric() || c == '_');
                let this_word = t.chars().next().is_some_and(|c| c.is_alphanumeric() || c == '_');
                if (prev_word && this_word) || rng.chance(1, 2) {
                    s.push(' ');
                }
            }
            s.push_str(t);
        }
        s
    }
    for _ in 0..nd {
        let (name, params): (&str, Vec<&str>) = match rng.below(8) {
            0..=2 => (*rng.pick(&["A", "B", "C"]), vec![]),
            3..=5 => (*rng.pick(&["F", "G", "H"]), vec!["x"]),
            6 => (*rng.pick(&["F", "G", "H"]), vec!["x", "y"]),
            _ => (*rng.pick(&["F", "H", "A"]), vec![]),
        };
        let is_fn = !params.is_empty() || (name != "A" && name != "B" && name != "C") || rng.chance(1, 6);
        let mut body: Vec<String> = Vec::new();
        let n = rng.below(5);
        for _ in 0..n {
            let p = if params.is_empty() { rng.pick(PLAIN).to_string() } else { rng.pick(&params).to_string() };
            match rng.below(16) {
                0..=2 => body.extend(["defined".to_string(), p]),
                3 => body.extend(["(".to_string(), "defined".to_string(), p, ")".to_string()]),
                4..=5 => body.extend(["defined".to_string(), "(".to_string(), p, ")".to_string()]),
                6 => body.push(p),
                7 => {
                    if let Some((m, a)) = macros.get(rng.below(macros.len().max(1) as u64) as usize).cloned() {
                        body.push(m);
                        if let Some(k) = a {
                            body.push("(".into());
                            for j in 0..k {
                                if j > 0 {
                                    body.push(",".into());
                                }
                                body.push(p.clone());
                            }
                            body.push(")".into());
                        }
                    } else {
                        body.push(name.to_string());
                    }
                }
                8 => body.push(rng.pick(&["1", "0", "7"]).to_string()),
                9 => body.push(rng.pick(&["&&", "||", "+", "!", "=="]).to_string()),
                10 => body.push(rng.pick(&["(", ")", ","]).to_string()),
                11 => body.push("defined".to_string()),
                12 => body.push(if rng.chance(1, 2) { name.to_string() } else { rng.pick(&["F", "G", "H"]).to_string() }),
                13 if rng.chance(1, 3) => body.push("##".to_string()),
                _ => body.push(rng.pick(PLAIN).to_string()),
            }
        }
        let head = if is_fn { format!("{}({})", name, params.join(if rng.chance(1, 2) { ", " } else { "," })) } else { name.to_string() };
        let b = join(rng, &body);
        parts.push(if b.is_empty() { head } else { format!("{} {}", head, b) });
        macros.retain(|m| m.0 != name);
        macros.push((name.to_string(), if is_fn { Some(params.len()) } else { None }));
    }
    // the condition
    let mut cond: Vec<String> = Vec::new();
    let na = 1 + rng.below(4);
    for k in 0..na {
        if k > 0 {
            cond.push(rng.pick(&["&&", "||", "==", "+", "<"]).to_string());
        }
        let p = rng.pick(PLAIN).to_string();
        let call = |rng: &mut Rng, macros: &Vec<(String, Option<usize>)>, arg: &str| -> Vec<String> {
            let fns: Vec<&(String, Option<usize>)> = macros.iter().filter(|m| m.1.is_some()).collect();
            let (m, a) = if fns.is_empty() || rng.chance(1, 6) { ("F".to_string(), 1) } else { let f = fns[rng.below(fns.len() as u64) as usize]; (f.0.clone(), f.1.unwrap()) };
            let mut v = vec![m, "(".to_string()];
            for j in 0..a {
                if j > 0 {
                    v.push(",".into());
                }
                v.push(arg.to_string());
            }
            v.push(")".into());
            match rng.below(12) {
                0 => {
                    v.pop();
                }
                1 => v.truncate(1),
                2 => v.insert(v.len() - 1, ",".into()),
                _ => {}
            }
            v
        };
        match rng.below(16) {
            0..=1 => cond.extend(["defined".to_string(), p]),
            2..=3 => cond.extend(["defined".to_string(), "(".to_string(), p, ")".to_string()]),
            4..=8 => {
                let c = call(rng, &macros, &p);
                cond.extend(c);
            }
            9 => {
                let arg = format!("defined {}", p);
                let c = call(rng, &macros, &arg);
                cond.extend(c);
            }
            10 => {
                let inner = call(rng, &macros, &p).join("");
                let c = call(rng, &macros, &inner);
                cond.extend(c);
            }
            11 => {
                let objs: Vec<&(String, Option<usize>)> = macros.iter().filter(|m| m.1.is_none()).collect();
                let o = if objs.is_empty() { "A".to_string() } else { objs[rng.below(objs.len() as u64) as usize].0.clone() };
                // an object-like macro in operator position: what it expands to meets the operand afterwards
                match rng.below(4) {
                    0 => cond.push(o),
                    1 => cond.extend([o, p]),
                    2 => cond.extend([o, "(".to_string(), p, ")".to_string()]),
                    _ => cond.extend([o, "(".to_string(), p, ",".to_string(), "Q".to_string(), ")".to_string()]),
                }
            }
            12 => cond.extend(["!".to_string(), "defined".to_string(), p]),
            13 => cond.push(rng.pick(&["1", "0"]).to_string()),
            14 => {
                cond.push("defined".to_string());
                let c = call(rng, &macros, &p);
                cond.extend(c);
            }
            _ => cond.extend(["(".to_string(), "defined".to_string(), p, ")".to_string()]),
        }
    }
    let mut cond_text = join(rng, &cond);
    // one scenario in five is *text*: the same definitions, the "condition" as ordinary source lines, broken at random
    // places — before and after the `(` of an invocation, after commas, between operands (fix f08088c: the invocation
    // of a function-like macro may continue on the next line; `Z(<line end>)` is an empty argument list)
    if placement != "a" && rng.chance(1, 4) {
        parts[0] = "t".to_string();
        let mut s = String::new();
        for c in cond_text.chars() {
            match c {
                ' ' if rng.chance(1, 3) => s.push('\n'),
                '(' => {
                    if rng.chance(1, 3) {
                        s.push_str(*rng.pick(&["\n", " \n", "\n\n", "\n  "]));
                    }
                    s.push('(');
                    if rng.chance(1, 4) {
                        s.push('\n');
                    }
                }
                ',' | ')' if rng.chance(1, 5) => {
                    s.push('\n');
                    s.push(c);
                }
                _ => s.push(c),
            }
        }
        cond_text = s;
    }
    parts.push(cond_text);
    parts.join(";")
}

// ------------------------------------------------------------------------------------------ plan

fn pick_mode(rng: &mut Rng, names: &[String]) -> Mode {
    match rng.below(3) {
        0 => Mode::All,
        1 => {
            if names.is_empty() || rng.chance(1, 5) { Mode::Named("Nope".into()) } else { Mode::Named(rng.pick(names).clone()) }
        }
        _ => Mode::NoPipeline,
    }
}

pub fn pipeline_names(bytes: &[u8]) -> Vec<String> {
    let text = String::from_utf8_lossy(bytes);
    let mut out = Vec::new();
    let toks: Vec<&str> = text.split_whitespace().collect();
    for w in toks.windows(2) {
        if w[0] == "Pipeline" {
            out.push(w[1].trim_end_matches('{').to_string());
        }
    }
    out
}

const API_DEFINES: &[(&str, &str)] = &[("DEF", "1"), ("DEF", "a b"), ("DEF", ""), ("M", "("), ("A", "A"), ("DEF", "x ## y"), ("DEF", "\"s")];

/// the request list of one run: every input on all 4 targets; mode and layout flag rotate (quick) or are crossed (thorough)
pub fn plan(rng: &mut Rng, scale: u64, thorough: bool, repo: &str, hist: &mut Hist) -> Vec<Req> {
    let mut specs: Vec<String> = Vec::new();
    let per = |n: u64| n * scale;
    for (kind, n) in [("bytes", 100u64), ("toks", 170), ("rep", 130), ("gram", 180), ("gmut", 110), ("feat", 220), ("prog", 40), ("pmut", 50)] {
        for _ in 0..per(n) {
            specs.push(format!("{}:{}", kind, rng.next() >> 20));
        }
    }
    // one template per syntactic category of the front end (see c08_syn.rs) and token-level mutations of such programs
    for c in syn_categories() {
        hist.0.entry(format!("cat/syn/{}", c)).or_insert(0);
    }
    for (k, (c, _)) in syn_variants().iter().enumerate() {
        hist.add(&format!("cat/syn/{}", c));
        specs.push(format!("synone:{}", k));
    }
    for (kind, n) in [("syn", 180u64), ("synmut", 60)] {
        for _ in 0..per(n) {
            let seed = rng.next() >> 20;
            for c in &gen_syn(&mut Rng::new(seed)).cats {
                hist.add(&format!("cat/syn/{}", c));
            }
            specs.push(format!("{}:{}", kind, seed));
        }
    }
    // property blocks / attributes / redefinitions (c08_props.rs): the whole sweep, every variant once per check, + random
    // blocks.  Their random choices come from a generator of their own (a copy of the current state, nothing is consumed), and
    // their requests are appended after the others: the requests of the older streams are the same as before for a given seed
    let mut prng = Rng(rng.0 ^ 0x7072_6f70_7331);
    let mut props_specs: Vec<String> = Vec::new();
    for c in props_categories() {
        hist.0.entry(format!("cat/props/{}", c)).or_insert(0);
    }
    for (k, (c, _)) in props_variants().iter().enumerate() {
        hist.add(&format!("cat/props/{}", c));
        props_specs.push(format!("propone:{}", k));
    }
    for _ in 0..per(150) {
        let seed = prng.next() >> 20;
        for c in &gen_props(&mut Rng::new(seed)).cats {
            hist.add(&format!("cat/props/{}", c));
        }
        props_specs.push(format!("props:{}", seed));
    }
    // call graphs (c08_cyc.rs): the whole sweep once per check + random graphs; again a generator of their own, requests
    // appended after the property streams
    let mut crng = Rng(rng.0 ^ 0x6379_636c_6573);
    let mut cyc_specs: Vec<String> = Vec::new();
    for c in cyc_categories() {
        hist.0.entry(format!("cat/cyc/{}", c)).or_insert(0);
    }
    for k in 0..cyc_variant_count() {
        if let Some(p) = cyc_single(k) {
            for c in &p.cats {
                hist.add(&format!("cat/cyc/{}", c));
            }
            cyc_specs.push(format!("cycone:{}", k));
        }
    }
    for _ in 0..per(120) {
        let seed = crng.next() >> 20;
        for c in &gen_cyc(&mut Rng::new(seed)).cats {
            hist.add(&format!("cat/cyc/{}", c));
        }
        cyc_specs.push(format!("cyc:{}", seed));
    }
    // typed constant expressions in every constant context (typer/src/evaluator.rs)
    for _ in 0..per(200) {
        let seed = rng.next() >> 20;
        for c in &gen_cx(&mut Rng::new(seed)).cats {
            hist.add(&format!("cat/cx/{}", c));
        }
        specs.push(format!("cx:{}", seed));
    }
    // preprocessor-grammar programs (several files + their own API defines) and their token-level mutations
    for (kind, n) in [("pp", 220u64), ("ppmut", 100)] {
        for _ in 0..per(n) {
            let seed = rng.next() >> 20;
            let p = if kind == "pp" { gen_pp(&mut Rng::new(seed)) } else { gen_pp_mutated(&mut Rng::new(seed)) };
            for c in &p.cats {
                hist.add(&format!("cat/pp/{}", c));
            }
            hist.add(&format!("pp-files={}", p.files.len()));
            hist.add(&format!("pp-defines={}", p.defines.len().min(3)));
            specs.push(format!("{}:{}", kind, seed));
        }
    }
    let corpus = repo_corpus(repo);
    hist.add(&format!("repo-corpus-files={}", corpus.len()));
    for (i, (root, entry)) in corpus.iter().enumerate() {
        if thorough || i % 4 == (rng.below(4) as usize) {
            specs.push(format!("repo:{}|{}", root, entry));
        }
        let muts = if thorough { 4 * scale / 10 + 2 } else { 1 };
        for _ in 0..muts {
            specs.push(format!("rmut:{}|{}|{}", root, entry, rng.next() >> 20));
        }
    }
    let mut reqs = Vec::new();
    let n_old = specs.len();
    specs.extend(props_specs);
    let n_props = specs.len();
    specs.extend(cyc_specs);
    for (si, spec) in specs.into_iter().enumerate() {
        // the appended property / call-graph streams draw from their own generators
        let rng: &mut Rng = if si < n_old { &mut *rng } else if si < n_props { &mut prng } else { &mut crng };
        let names = super::materialise(&spec).map(|m| pipeline_names(&m.bytes)).unwrap_or_default();
        let heavy = spec.starts_with("repo:") || spec.starts_with("rmut:");
        // the preprocessor does not depend on the target beyond RSSL_TARGET_*: one HLSL flavour + Metal in quick
        let two_targets = heavy || spec.starts_with("cx:") || spec.starts_with("pp:") || spec.starts_with("ppmut:") || spec.starts_with("synone:") || spec.starts_with("props:") || spec.starts_with("cyc:") || spec.starts_with("cycone:");
        // the sweep of property / attribute / redefinition variants is decided by the type checker: one target per variant in quick
        let one_target = spec.starts_with("propone:");
        let defs: Vec<(String, String)> = if rng.chance(1, 5) {
            let (n, v) = *rng.pick(API_DEFINES);
            vec![(n.to_string(), v.to_string())]
        } else {
            Vec::new()
        };
        if thorough && !heavy && rng.chance(1, 8) {
            // full cross
            for tgt in ALL_TARGETS {
                for mode in [Mode::All, pick_mode_named(rng, &names), Mode::NoPipeline] {
                    for layout in [false, true] {
                        reqs.push(Req { tgt, mode: mode.clone(), layout, defs: defs.clone(), input: spec.clone() });
                    }
                }
            }
            continue;
        }
        let targets: Vec<Tgt> = if one_target && !thorough {
            vec![*rng.pick(&ALL_TARGETS)]
        } else if two_targets && !thorough { vec![*rng.pick(&[Tgt::Dx, Tgt::Vk, Tgt::VkBa]), Tgt::Msl] } else { ALL_TARGETS.to_vec() };
        for tgt in targets {
            // a call-graph program without a pipeline is compiled as a module (pipeline mode would only say "no pipeline")
            let cyc_module = (spec.starts_with("cyc:") || spec.starts_with("cycone:")) && names.is_empty();
            let mode = if cyc_module { Mode::NoPipeline } else if heavy && names.is_empty() { if rng.chance(3, 4) { Mode::NoPipeline } else { pick_mode(rng, &names) } } else { pick_mode(rng, &names) };
            reqs.push(Req { tgt, mode, layout: rng.chance(1, 2), defs: defs.clone(), input: spec.clone() });
        }
    }
    reqs
}

fn pick_mode_named(rng: &mut Rng, names: &[String]) -> Mode {
    if names.is_empty() { Mode::Named("Nope".into()) } else { Mode::Named(rng.pick(names).clone()) }
}

// ------------------------------------------------------------------------------------------ grammar

include!("c08_grammar.rs");
include!("c08_pp.rs");
include!("c08_syn.rs");
include!("c08_cx.rs");
include!("c08_props.rs");
include!("c08_cyc.rs");

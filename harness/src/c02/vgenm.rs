//! Matrix programs in the forms the Metal backend accepts (float matrices, no subscripts / `_mRC` members — those are
//! rejected with a diagnostic): whole-matrix parameters, locals, statics, struct members, out / inout matrix parameters,
//! `+ - *`, construction from scalars / row vectors / one scalar, casts.  Complements `c01/vgen.rs`, whose matrix programs
//! mostly use subscripts.
#![allow(dead_code)]
use crate::util::Rng;

fn lit(rng: &mut Rng) -> String {
    rng.pick(&["0.0f", "1.0f", "2.5f", "-1.5f", "0.25f", "100.0f", "3.0f"]).to_string()
}

/// kinds of statement: 0 = passing around only (must agree), 1 = + -, 2 = constructors, 3 = scalar casts, 4 = products
pub fn program(rng: &mut Rng) -> String {
    let (r, c) = (2 + rng.below(3) as usize, 2 + rng.below(3) as usize);
    let mt = format!("float{}x{}", r, c);
    let rowt = format!("float{}", c);
    let level = rng.below(5);
    let mut out = String::new();
    let with_struct = rng.chance(1, 3);
    let with_static = rng.chance(1, 2);
    let with_const = level >= 2 && rng.chance(1, 2);
    if with_struct {
        out.push_str(&format!("struct SM\n{{\n    {} m;\n    float k;\n}};\n", mt));
    }
    if with_static {
        out.push_str(&format!("static {} gm = ({})0.0f;\n", mt, mt));
    }
    if with_const {
        let xs: Vec<String> = (0..r * c).map(|_| lit(rng)).collect();
        out.push_str(&format!("static const {} cm = {}({});\n", mt, mt, xs.join(", ")));
    }
    // a helper with out / inout matrix parameters
    out.push_str(&format!("void hm(inout {} a, out {} b, {} d)\n{{\n    b = a;\n    a = d;\n", mt, mt, mt));
    if level >= 1 {
        out.push_str("    a = a + b;\n    b -= d;\n");
    }
    if with_static {
        out.push_str("    gm = b;\n");
    }
    out.push_str("}\n\n");
    let ret_matrix = rng.chance(2, 3);
    out.push_str(&format!("{} fm({} p, {} q, {} v, float s{})\n{{\n", if ret_matrix { mt.clone() } else { rowt.clone() }, mt, mt, rowt, if with_struct { ", SM t" } else { "" }));
    out.push_str(&format!("    {} x = p;\n    {} y;\n", mt, mt));
    out.push_str("    hm(x, y, q);\n");
    let n = 1 + rng.below(3);
    for _ in 0..n {
        let k = rng.below(level + 1);
        let st = match k {
            0 => match rng.below(3) {
                0 => "x = y;".to_string(),
                1 if with_struct => "t.m = x;\n    y = t.m;".to_string(),
                2 if with_static => "gm = x;\n    y = gm;".to_string(),
                _ => "y = s > 1.0f ? x : q;".to_string(),
            },
            1 => match rng.below(3) {
                0 => "x = x + y;".to_string(),
                1 => "x -= q;".to_string(),
                _ => "y = (p - q) + x;".to_string(),
            },
            2 => match rng.below(3) {
                0 => {
                    let rows: Vec<String> = (0..r).map(|i| if i == 0 { "v".to_string() } else { format!("{}({})", rowt, (0..c).map(|_| lit(rng)).collect::<Vec<_>>().join(", ")) }).collect();
                    format!("x = {}({});", mt, rows.join(", "))
                }
                1 => {
                    let xs: Vec<String> = (0..r * c).map(|i| if i == 1 { "s".to_string() } else { lit(rng) }).collect();
                    format!("y = {}({});", mt, xs.join(", "))
                }
                _ if with_const => "x = cm;".to_string(),
                _ => format!("x = {}({});", mt, (0..r).map(|_| "v").collect::<Vec<_>>().join(", ")),
            },
            3 => match rng.below(2) {
                0 => format!("x = ({})s;", mt),
                _ => "y = x + s;".to_string(),
            },
            _ => match rng.below(3) {
                0 => "x = x * y;".to_string(),
                1 => "y = y * s;".to_string(),
                _ => "x *= q;".to_string(),
            },
        };
        out.push_str(&format!("    {}\n", st));
    }
    if ret_matrix {
        out.push_str(&format!("    return {};\n}}\n", rng.pick(&["x", "y", "x - y"])));
    } else {
        out.push_str(&format!("    return v + ({})s;\n}}\n", rowt));
    }
    out
}

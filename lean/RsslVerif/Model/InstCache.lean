import RsslVerif.Model.ConstPos
import RsslVerif.Gen.InstTable
/-!
# How an existing instantiation of a template is found again (C13: template value arguments)

A template value argument is a constant expression; inside the instantiation the parameter *is* that constant, and every
constant built from it (array sizes, case labels, initialisers) is folded with it. Instantiations are cached:

* function templates — `FunctionRegistry::find_instantiation` (ir/src/ir_functions.rs) walks all function ids in order
  and returns the first one whose instantiation data has the requested parent and whose recorded argument list compares
  equal to the requested one; `build_function_template_signature` (typer/src/typer/scopes.rs) instantiates only when that
  search fails and records the requested argument list with the new function. *How* two argument lists are compared is
  not written here: `Gen.InstTable.fnKeyMode` is re-extracted from the source (`==`, the derived equality of
  `TypeOrConstant` / `RestrictedConstant`: kind and value — or an element-wise comparison through `to_uint64`).
* struct templates — `ensure_struct_template`: a `HashMap<Vec<TypeOrConstant>, StructId>` asked with the provided
  arguments and, after the defaults were filled in, with the complete list (`instantiate_struct_template`); a new struct
  is registered under the provided list.

The cache is an association list in id order; what an instantiation *is* (its body folded with the arguments) is the
abstract `build`, so that the theorems hold for whatever is observed inside an instantiation.
-/
namespace RsslVerif.Model.InstCache
open RsslVerif.Gen.InstTable RsslVerif.Model.ConstEval RsslVerif.Model.ConstPos

/-- `ir::TypeOrConstant` (a `RestrictedConstant` is a `Constant` of a bool / integer / enum kind) -/
inductive Arg where
  | type (id : Nat)
  | const (c : Constant)
  deriving DecidableEq, Repr, Inhabited

/-- one element of the comparison -/
def sameArg (m : KeyMode) (a b : Arg) : Bool :=
  match m with
  | .exact => decide (a = b)
  | .byToUint64 =>
    match a, b with
    | .type x, .type y => decide (x = y)
    | .const x, .const y => decide (toUint64 x = toUint64 y)
    | _, _ => false

/-- `.len() == .len() && zip.all(..)` — for `.exact` this is `==` on the vectors -/
def sameKey (m : KeyMode) : List Arg → List Arg → Bool
  | [], [] => true
  | a :: as, b :: bs => sameArg m a b && sameKey m as bs
  | _, _ => false

/-- a registered instantiation: `FunctionTemplateInstantiation { parent_id, template_args }` and what was built -/
structure Entry (α : Type) where
  parent : Nat
  key : List Arg
  val : α

/-- `find_instantiation`: the first entry, in id order, with that parent and an argument list that compares equal -/
def find {α : Type} (m : KeyMode) (parent : Nat) (key : List Arg) : List (Entry α) → Option (Entry α)
  | [] => none
  | e :: r => if e.parent = parent && sameKey m e.key key then some e else find m parent key r

/-- one use of a template with arguments: reuse what `find` returns, else build and register (at the end: new id) -/
def use {α : Type} (m : KeyMode) (build : Nat → List Arg → α) (cache : List (Entry α)) (parent : Nat) (key : List Arg) :
    List (Entry α) × α :=
  match find m parent key cache with
  | some e => (cache, e.val)
  | none => let v := build parent key; (cache ++ [⟨parent, key, v⟩], v)

/-- a whole compilation: the uses in source order; the result is what each use is bound to -/
def run {α : Type} (m : KeyMode) (build : Nat → List Arg → α) : List (Entry α) → List (Nat × List Arg) → List α
  | _, [] => []
  | cache, (p, k) :: r => let (cache', v) := use m build cache p k; v :: run m build cache' r

/-! ### struct templates -/

/-- the complete argument list: provided arguments, then the defaults of the remaining parameters -/
def complete (defaults : List Arg) (provided : List Arg) : List Arg :=
  provided ++ defaults.drop provided.length

/-- `ensure_struct_template` for one template: map lookup with the provided list; on a miss the complete list is looked
    up (an equal instantiation is reused), otherwise a struct is built from the complete list; either way the provided
    list is registered -/
def useStruct {α : Type} (build : List Arg → α) (defaults : List Arg) (cache : List (Entry α)) (provided : List Arg) :
    List (Entry α) × α :=
  match find .exact 0 provided cache with
  | some e => (cache, e.val)
  | none =>
    let final := complete defaults provided
    let v := match find .exact 0 final cache with
      | some e => e.val
      | none => build final
    (cache ++ [⟨0, provided, v⟩], v)

def runStruct {α : Type} (build : List Arg → α) (defaults : List Arg) : List (Entry α) → List (List Arg) → List α
  | _, [] => []
  | cache, k :: r => let (cache', v) := useStruct build defaults cache k; v :: runStruct build defaults cache' r

end RsslVerif.Model.InstCache

/-!
# Model of `Context::end_enum` (typer/src/typer/scopes.rs) — the worked example of a "commutative fold" site (C07)

`end_enum` drains the enum scope's `symbols : HashMap<String, Vec<ScopeSymbol>>` into the vector
`enum_values` — so `enum_values` is in *hash order* — and then walks that vector four times:

1. range loop      `min_value = min(min_value, v)`, `max_value = max(max_value, v)` from `(0, 0)`;
                   any constant that is not integer-like hits `_ => panic!("invalid type inside enum value: ..")`
2. type choice     `Int32` if the range fits `i32`, else `UInt32` if it fits `u32`, else
                   `Err(EnumTypeCanNotBeDeduced(<location of the enum's name>, min, max))`
3. conversion loop every value is rewritten as `value as i32` / `value as u32` in the enum registry (keyed by value id)
4. promotion loop  in the parent scope the symbol vector of every name (`get_mut(name).unwrap()`) is walked: every
                   `EnumValueUntyped(id)` in it becomes `EnumValue(id)`, the other symbols of the name (a constant
                   buffer block may share the name of an enum value) stay; replacements are counted and
                   `assert_eq!(replacements, enum_values.len())`.  (Until fix `fe5dd8d` the loop also asserted that the
                   vector has exactly one element; `cbuffer A {..} enum E { A };` and `namespace A {} enum E { A };`
                   reached that assertion.  The fix removes it and rejects the namespace case in `register_enum_value`.)
5. reinsertion     `(name, [EnumValue(id)])` goes back into the (emptied) enum scope; an occupied name panics

The iteration order of the drained map is the explicit list argument `vals` of every function below;
the theorems in `Thm/C07.lean` quantify over all permutations of it.  The arms of the two `match`es, the
initial values, the selection expression (with the error's location and payload) and the conversion arms are
regenerated from the source into `Gen/EnumRange.lean` and compared with this transcription
(`Thm.C07.end_enum_shape_as_modelled`).

`i128` arithmetic is only `min`/`max`/comparison here, so unbounded `Int` is exact.
-/
namespace RsslVerif.Model.EnumRange

deriving instance DecidableEq for Except

/-- `ir::Constant` as far as `end_enum` distinguishes its variants -/
inductive Const where
  | bool (b : Bool)
  | intLiteral (v : Int)
  | int32 (v : Int)
  | uint32 (v : Int)
  | int64 (v : Int)
  | uint64 (v : Int)
  /-- every other variant (floats, strings, enum values ...) with its `{:?}` rendering -/
  | other (debug : String)
  deriving DecidableEq, Repr

/-- `value as i128` in the six integer-like arms; `none` is the `_ => panic!(..)` arm -/
def Const.widen? : Const → Option Int
  | .bool b => some (if b then 1 else 0)
  | .intLiteral v => some v
  | .int32 v => some v
  | .uint32 v => some v
  | .int64 v => some v
  | .uint64 v => some v
  | .other _ => none

def Const.debug : Const → String
  | .other d => d
  | c => reprStr c

/-- a source location (opaque: a raw offset) -/
abbrev Loc := Nat

inductive Failure where
  /-- `TyperError::EnumTypeCanNotBeDeduced(location, min, max)` -/
  | rangeError (loc : Loc) (min max : Int)
  /-- a Rust panic with its message -/
  | panic (msg : String)
  deriving DecidableEq, Repr

/-- one element of `enum_values`: (name, enum value id) plus what the registry holds for that id:
    the constant and the location of the value's name -/
structure Entry where
  name : String
  id : Nat
  value : Const
  nameLoc : Loc
  deriving DecidableEq, Repr

structure Range where
  min : Int
  max : Int
  deriving DecidableEq, Repr

/-- the body of an integer-like arm of the range loop -/
def Range.step (r : Range) (v : Int) : Range := ⟨Min.min r.min v, Max.max r.max v⟩

/-- one iteration of the range loop -/
def gatherStep (st : Except Failure Range) (e : Entry) : Except Failure Range :=
  match st with
  | .error f => .error f
  | .ok r =>
    match e.value.widen? with
    | none => .error (.panic s!"invalid type inside enum value: {e.value.debug}")
    | some v => .ok (r.step v)

/-- loop 1: `let mut min_value = 0; let mut max_value = 0; for (_, id) in &enum_values { match .. }` -/
def gather (vals : List Entry) : Except Failure Range :=
  vals.foldl gatherStep (.ok ⟨0, 0⟩)

inductive Scalar where
  | int32
  | uint32
  deriving DecidableEq, Repr

/-- `if min >= i32::MIN && max <= i32::MAX { Int32 } else if min >= u32::MIN && max <= u32::MAX { UInt32 } else { Err }` -/
def select (enumLoc : Loc) (r : Range) : Except Failure Scalar :=
  if r.min ≥ -2147483648 ∧ r.max ≤ 2147483647 then .ok .int32
  else if r.min ≥ 0 ∧ r.max ≤ 4294967295 then .ok .uint32
  else .error (.rangeError enumLoc r.min r.max)

/-- `value as i32` / `value as u32` (wrapping casts of an `i128`) -/
def convert (s : Scalar) (v : Int) : Const :=
  match s with
  | .int32 => .int32 ((v + 2147483648) % 4294967296 - 2147483648)
  | .uint32 => .uint32 (v % 4294967296)

/-- a finite map as a function; `upd` is `insert` / `update_underlying_type` at one key -/
def upd {κ ν : Type} [DecidableEq κ] (m : κ → Option ν) (k : κ) (v : ν) : κ → Option ν :=
  fun k' => if k' = k then some v else m k'

/-- loop 3: `update_underlying_type(id, value as <scalar>)` -/
def convertStep (s : Scalar) (st : Except Failure (Nat → Option Const)) (e : Entry) :
    Except Failure (Nat → Option Const) :=
  match st with
  | .error f => .error f
  | .ok reg =>
    match e.value.widen? with
    | none => .error (.panic s!"invalid type inside enum value: {e.value.debug}")
    | some v => .ok (upd reg e.id (convert s v))

inductive Sym where
  | enumValueUntyped (id : Nat)
  | enumValue (id : Nat)
  | other (tag : Nat)
  deriving DecidableEq, Repr

def Sym.promote : Sym → Sym
  | .enumValueUntyped id => .enumValue id
  | s => s

def Sym.isUntyped : Sym → Bool
  | .enumValueUntyped _ => true
  | _ => false

abbrev Scope := String → Option (List Sym)

/-- loop 4: `get_mut(name).unwrap()`, then `for symbol in symbols { if let EnumValueUntyped(id) = symbol { *symbol =
    EnumValue(*id); replacements += 1 } }` — a vector of ANY length (no `assert_eq!(symbols.len(), 1)` since `fe5dd8d`) -/
def promoteStep (st : Except Failure (Scope × Nat)) (e : Entry) : Except Failure (Scope × Nat) :=
  match st with
  | .error f => .error f
  | .ok (parent, n) =>
    match parent e.name with
    | none => .error (.panic "called `Option::unwrap()` on a `None` value")
    | some syms =>
      .ok (upd parent e.name (syms.map Sym.promote), n + (syms.filter Sym.isUntyped).length)

/-- loop 5: reinsertion into the emptied enum scope -/
def reinsertStep (st : Except Failure Scope) (e : Entry) : Except Failure Scope :=
  match st with
  | .error f => .error f
  | .ok scope =>
    match scope e.name with
    | some _ => .error (.panic "duplicate symbol when reinserting typed enum values")
    | none => .ok (upd scope e.name [Sym.enumValue e.id])

/-- everything `end_enum` leaves behind -/
structure Result where
  scalar : Scalar
  /-- enum registry: value id ↦ constant in the underlying type -/
  registry : Nat → Option Const
  parent : Scope
  enumScope : Scope

/-- `Context::end_enum` as a function of the iteration order `vals` of the drained symbol map -/
def endEnum (enumLoc : Loc) (registry : Nat → Option Const) (parent : Scope) (vals : List Entry) :
    Except Failure Result :=
  match gather vals with
  | .error f => .error f
  | .ok range =>
    match select enumLoc range with
    | .error f => .error f
    | .ok scalar =>
      match vals.foldl (convertStep scalar) (.ok registry) with
      | .error f => .error f
      | .ok registry' =>
        match vals.foldl promoteStep (.ok (parent, 0)) with
        | .error f => .error f
        | .ok (parent', replacements) =>
          if replacements ≠ vals.length then
            .error (.panic s!"assertion `left == right` failed\n  left: {replacements}\n right: {vals.length}")
          else
            match vals.foldl reinsertStep (.ok (fun _ => none)) with
            | .error f => .error f
            | .ok scope => .ok ⟨scalar, registry', parent', scope⟩

/-- The seeded variant C07-3 of the range loop (NOT what /repo does): the error is located at the first
    value after which no type fits.  Kept as the negative example of `Thm.C07`: this "fold" is order dependent. -/
def gatherBlameFirst (enumLoc : Loc) (vals : List Entry) : Except Failure Scalar :=
  let step := fun (st : Range × Option Loc) (e : Entry) =>
    match e.value.widen? with
    | none => st
    | some v =>
      let r := st.1.step v
      match st.2, select enumLoc r with
      | none, .error _ => (r, some e.nameLoc)
      | blame, _ => (r, blame)
  let (r, blame) := vals.foldl step (⟨0, 0⟩, none)
  match select enumLoc r, blame with
  | .ok s, _ => .ok s
  | .error _, some loc => .error (.rangeError loc r.min r.max)
  | .error f, none => .error f

end RsslVerif.Model.EnumRange

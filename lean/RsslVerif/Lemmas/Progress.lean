import RsslVerif.Model.Progress
/-! Helper lemmas for the C08 progress theorems. -/
namespace RsslVerif.Lemmas.Progress
open RsslVerif.Model.Progress

variable {τ ε α γ : Type}

/-- a successful separator + element round consumes at least one token -/
def Productive (sep : Parser τ ε γ) (elem : Parser τ ε α) : Prop :=
  ∀ input afterSep g rest e, sep input = .ok (afterSep, g) → elem afterSep = .ok (rest, e) →
    rest.length < input.length

/-- on success the parser returns no more input than it was given -/
def NonIncreasing (p : Parser τ ε α) : Prop :=
  ∀ input rest a, p input = .ok (rest, a) → rest.length ≤ input.length

/-- on success the parser consumed at least one token -/
def Consuming (p : Parser τ ε α) : Prop :=
  ∀ input rest a, p input = .ok (rest, a) → rest.length < input.length

theorem productive_of_sep_consuming {sep : Parser τ ε γ} {elem : Parser τ ε α}
    (hs : Consuming sep) (he : NonIncreasing elem) : Productive sep elem := by
  intro input afterSep g rest e h1 h2
  have a := hs input afterSep g h1
  have b := he afterSep rest e h2
  omega

theorem productive_of_elem_consuming {sep : Parser τ ε γ} {elem : Parser τ ε α}
    (hs : NonIncreasing sep) (he : Consuming elem) : Productive sep elem := by
  intro input afterSep g rest e h1 h2
  have a := hs input afterSep g h1
  have b := he afterSep rest e h2
  omega

/-- with fuel above the input length the loop finishes -/
theorem listLoop_terminates {sep : Parser τ ε γ} {elem : Parser τ ε α} (h : Productive sep elem) :
    ∀ (n : Nat) (input : List τ) (acc : List α), input.length < n →
      ∃ r, listLoop sep elem n input acc = some r := by
  intro n
  induction n with
  | zero => intro input acc hlt; omega
  | succ n ih =>
    intro input acc hlt
    unfold listLoop
    cases hs : sep input with
    | error e => exact ⟨_, rfl⟩
    | ok v =>
      obtain ⟨afterSep, g⟩ := v
      simp only
      cases he : elem afterSep with
      | error e =>
        obtain ⟨rest, err⟩ := e
        simp only
        split <;> exact ⟨_, rfl⟩
      | ok w =>
        obtain ⟨rest, e⟩ := w
        simp only
        have := h input afterSep g rest e hs he
        exact ih rest (e :: acc) (by omega)

/-- more fuel does not change a result -/
theorem listLoop_fuel_mono {sep : Parser τ ε γ} {elem : Parser τ ε α} :
    ∀ (n : Nat) (input : List τ) (acc : List α) (r : PR τ ε (List α)),
      listLoop sep elem n input acc = some r → listLoop sep elem (n + 1) input acc = some r := by
  intro n
  induction n with
  | zero => intro input acc r h; simp [listLoop] at h
  | succ n ih =>
    intro input acc r h
    unfold listLoop at h ⊢
    cases hs : sep input with
    | error e => simpa [hs] using h
    | ok v =>
      obtain ⟨afterSep, g⟩ := v
      simp only [hs] at h ⊢
      cases he : elem afterSep with
      | error e =>
        obtain ⟨rest, err⟩ := e
        simpa [he] using h
      | ok w =>
        obtain ⟨rest, e⟩ := w
        simp only [he] at h ⊢
        exact ih rest (e :: acc) r h

/-- every loop iteration that adds a value consumed a token: values + remaining input never exceed
    what the loop started with -/
theorem listLoop_count {sep : Parser τ ε γ} {elem : Parser τ ε α} (h : Productive sep elem) :
    ∀ (n : Nat) (input : List τ) (acc : List α) (rest : List τ) (vs : List α),
      listLoop sep elem n input acc = some (.ok (rest, vs)) →
      vs.length + rest.length ≤ acc.length + input.length := by
  intro n
  induction n with
  | zero => intro input acc rest vs hr; simp [listLoop] at hr
  | succ n ih =>
    intro input acc rest vs hr
    unfold listLoop at hr
    cases hs : sep input with
    | error e =>
      simp only [hs, Option.some.injEq, Except.ok.injEq, Prod.mk.injEq] at hr
      obtain ⟨rfl, rfl⟩ := hr
      simp
    | ok v =>
      obtain ⟨afterSep, g⟩ := v
      simp only [hs] at hr
      cases he : elem afterSep with
      | error e =>
        obtain ⟨rest', err⟩ := e
        simp only [he] at hr
        split at hr
        · simp only [Option.some.injEq, Except.ok.injEq, Prod.mk.injEq] at hr
          obtain ⟨rfl, rfl⟩ := hr
          simp
        · simp at hr
      | ok w =>
        obtain ⟨rest', e⟩ := w
        simp only [he] at hr
        have hp := h input afterSep g rest' e hs he
        have := ih rest' (e :: acc) rest vs hr
        simp only [List.length_cons] at this
        omega

/-- tokens still to come: one per remaining byte at most, plus the synthetic final endline -/
def potential (s : Stream) : Nat :=
  if s.off < s.len then (s.len - s.off) + 1 else (if s.lastEndl then 0 else 1)

/-- every token returned by `next` lowers the potential; the stream stays in range -/
theorem next_potential_decreases (lex : Lex) (s s' : Stream) (sp : Span)
    (hr : s.off ≤ s.len) (ht : s.addTrailing = true)
    (hlex : ∀ off nl e, lex off = some (nl, e) → nl ≤ s.len)
    (h : s.next lex = .token sp s') :
    potential s' < potential s ∧ s'.len = s.len ∧ s'.off ≤ s'.len ∧ s'.addTrailing = true := by
  unfold Stream.next at h
  split at h
  · rename_i hc
    split at h
    · cases h
    · rename_i hl
      simp only [NextResult.token.injEq] at h
      obtain ⟨-, rfl⟩ := h
      simp only [Bool.and_eq_true, beq_iff_eq] at hc
      simp only [Bool.not_eq_true] at hl
      simp [potential, hc.2, hl, ht]
  · rename_i hc
    split at h
    · cases h
    · rename_i nl endl hlx
      split at h
      · rename_i hlt
        simp only [NextResult.token.injEq] at h
        obtain ⟨-, rfl⟩ := h
        have hb := hlex s.off nl endl hlx
        refine ⟨?_, rfl, hb, ht⟩
        have hoff : s.off < s.len := by omega
        simp only [potential, hoff, if_true]
        split
        · omega
        · split <;> omega
      · cases h

end RsslVerif.Lemmas.Progress

//! Type-directed generator of well-typed RSSL programs with vectors, matrices, swizzles, numeric constructors, shape-changing
//! casts (implicit and explicit, also chained), structs, local arrays, enums, default parameters, overloaded functions,
//! out / inout vector parameters and vector / struct / array static globals.
#![allow(dead_code)]
use super::sx::T;
use crate::util::Rng;

#[derive(Clone, PartialEq, Debug)]
pub enum G {
    /// scalar (n = 1) or vector
    N(T, usize),
    M(T, usize, usize),
    St(usize),
    Ar(Box<G>, usize),
    En,
    Void,
}

#[derive(Clone)]
struct VarInfo {
    name: String,
    ty: G,
    assignable: bool,
}

#[derive(Clone)]
struct FnSig {
    name: String,
    ret: G,
    /// name, 0 in / 1 out / 2 inout, type, has default
    params: Vec<(String, u8, G, bool)>,
    /// part of an overload set: arguments must have exactly the parameter type
    overloaded: bool,
}

#[derive(Clone, Copy)]
pub struct VGenOpts {
    pub max_depth: u32,
    pub matrices: bool,
    pub structs: bool,
    pub enums: bool,
    /// only the forms of the Lean vector layer: casts, swizzles, constructors, component-wise operators, `?:`, scalar
    /// sub-expressions; no assignment / increment / call / comma on vectors, no subscripts
    pub pure: bool,
}

pub struct VGen<'r> {
    rng: &'r mut Rng,
    opts: VGenOpts,
    counter: u32,
    structs: Vec<(String, Vec<(String, G)>)>,
    has_enum: bool,
    globals: Vec<VarInfo>,
    funcs: Vec<FnSig>,
    /// per struct: its methods (name, return type, `in` parameter types)
    methods: Vec<Vec<(String, G, Vec<G>)>>,
    /// function templates `template<typename T> T name(T a, T b[, bool c])`: (name, takes a bool selector)
    templates: Vec<(String, bool)>,
    /// the namespace definitions are currently written into (references always use the qualified name)
    ns: Option<String>,
}

const KINDS: [T; 4] = [T::Int, T::Uint, T::Float, T::Bool];
const COMP: [&str; 4] = ["x", "y", "z", "w"];
const ENUM_VALUES: [&str; 3] = ["EA", "EB", "EC"];

fn rank(t: T) -> u32 {
    match t {
        T::Bool => 0,
        T::Int => 1,
        T::Uint => 2,
        _ => 3,
    }
}

impl<'r> VGen<'r> {
    pub fn new(rng: &'r mut Rng, opts: VGenOpts) -> Self {
        VGen { rng, opts, counter: 0, structs: Vec::new(), has_enum: false, globals: Vec::new(), funcs: Vec::new(), methods: Vec::new(), templates: Vec::new(), ns: None }
    }

    /// the name by which a definition made now is referred to
    fn q(&self, short: &str) -> String {
        match &self.ns {
            Some(n) => format!("{}::{}", n, short),
            None => short.to_string(),
        }
    }

    fn fresh(&mut self, p: &str) -> String {
        self.counter += 1;
        format!("{}{}", p, self.counter)
    }

    pub fn tname(&self, g: &G) -> String {
        match g {
            G::N(t, 1) => t.name().to_string(),
            G::N(t, n) => format!("{}{}", t.name(), n),
            G::M(t, r, c) => format!("{}{}x{}", t.name(), r, c),
            G::St(i) => self.structs[*i].0.clone(),
            G::En => "E0".to_string(),
            G::Void => "void".to_string(),
            G::Ar(e, _) => self.tname(e),
        }
    }

    /// declaration `T name` / `T name[n]`
    fn decl(&self, g: &G, name: &str) -> String {
        match g {
            G::Ar(e, n) => format!("{} {}[{}]", self.tname(e), name, n),
            _ => format!("{} {}", self.tname(g), name),
        }
    }

    fn kind(&mut self, with_bool: bool) -> T {
        KINDS[self.rng.below(if with_bool { 4 } else { 3 }) as usize]
    }

    fn numeric(&mut self) -> G {
        let t = self.kind(true);
        let n = if self.rng.chance(1, 3) { 1 } else { 2 + self.rng.below(3) as usize };
        G::N(t, n)
    }

    /// a type for a variable / parameter / member
    fn any_type(&mut self, allow_array: bool) -> G {
        match self.rng.below(12) {
            0 if self.opts.matrices => {
                let t = if self.rng.chance(2, 3) { T::Float } else { T::Int };
                G::M(t, 2 + self.rng.below(2) as usize, 2 + self.rng.below(2) as usize)
            }
            1 | 2 if !self.structs.is_empty() => G::St(self.rng.below(self.structs.len() as u64) as usize),
            3 if self.has_enum => G::En,
            4 if allow_array => {
                let e = if self.rng.chance(1, 2) { G::N(self.kind(false), 1) } else { G::N(self.kind(false), 2 + self.rng.below(2) as usize) };
                G::Ar(Box::new(e), 2 + self.rng.below(3) as usize)
            }
            _ => self.numeric(),
        }
    }

    fn scalar_literal(&mut self, t: T) -> String {
        match t {
            T::Bool => (if self.rng.chance(1, 2) { "true" } else { "false" }).to_string(),
            T::Int => self.rng.pick(&["0", "1", "2", "3", "5", "7", "31", "100", "65535", "2147483647", "-1", "-7", "-2147483647"]).to_string(),
            T::Uint => self.rng.pick(&["0u", "1u", "2u", "7u", "31u", "33u", "4294967295u", "2147483648u", "65536u"]).to_string(),
            T::Float => self.rng.pick(&["0.0f", "-0.0f", "1.0f", "2.5f", "-1.5f", "0.25f", "100.0f", "3.0f"]).to_string(),
            _ => "0".to_string(),
        }
    }

    /// a constant expression of exactly this numeric type
    fn literal(&mut self, t: T, n: usize) -> String {
        if n == 1 {
            return self.scalar_literal(t);
        }
        let parts: Vec<String> = (0..n).map(|_| self.scalar_literal(t)).collect();
        format!("{}{}({})", t.name(), n, parts.join(", "))
    }

    fn scope_vars<'s>(&'s self, scope: &'s [VarInfo]) -> impl Iterator<Item = &'s VarInfo> {
        scope.iter().chain(self.globals.iter())
    }

    /// every readable (or assignable) place of exactly the numeric type (t, n), as source text
    fn places(&mut self, t: T, n: usize, scope: &[VarInfo], assignable: bool) -> Vec<String> {
        let mut out = Vec::new();
        let vars: Vec<VarInfo> = self.scope_vars(scope).filter(|v| !assignable || v.assignable).cloned().collect();
        for v in &vars {
            self.places_in(&v.name, &v.ty, t, n, assignable, 0, &mut out);
        }
        out
    }

    fn places_in(&mut self, path: &str, g: &G, t: T, n: usize, assignable: bool, depth: u32, out: &mut Vec<String>) {
        match g {
            G::N(vt, vn) => {
                if *vt == t && *vn == n {
                    out.push(path.to_string());
                }
                if *vt == t && *vn > 1 && n <= 4 {
                    // one swizzle candidate per vector: distinct components when it must be assignable
                    let mut idx: Vec<usize> = Vec::new();
                    for _ in 0..n {
                        let mut c = self.rng.below(*vn as u64) as usize;
                        if assignable {
                            let mut guard = 0;
                            while idx.contains(&c) && guard < 8 {
                                c = (c + 1) % *vn;
                                guard += 1;
                            }
                            if idx.contains(&c) {
                                return;
                            }
                        }
                        idx.push(c);
                    }
                    if n == 1 && !self.opts.pure && self.rng.chance(1, 3) {
                        out.push(format!("{}[{}]", path, idx[0]));
                    } else {
                        let s: String = idx.iter().map(|i| COMP[*i]).collect();
                        out.push(format!("{}.{}", path, s));
                    }
                }
            }
            G::M(mt, r, c) => {
                if *mt == t {
                    let (i, j) = (self.rng.below(*r as u64), self.rng.below(*c as u64));
                    if n == 1 {
                        match self.rng.below(3) {
                            0 => out.push(format!("{}._m{}{}", path, i, j)),
                            1 => out.push(format!("{}[{}][{}]", path, i, j)),
                            _ => out.push(format!("{}._{}{}", path, i + 1, j + 1)),
                        }
                    } else if n == *c {
                        out.push(format!("{}[{}]", path, i));
                    } else if n == 2 && *r >= 2 && *c >= 2 {
                        out.push(format!("{}._m00_m11", path));
                    }
                }
            }
            G::St(si) if depth < 2 => {
                let members = self.structs[*si].1.clone();
                for (mn, mt) in members {
                    self.places_in(&format!("{}.{}", path, mn), &mt, t, n, assignable, depth + 1, out);
                }
            }
            G::Ar(e, len) if depth < 2 => {
                let i = self.rng.below(*len as u64);
                self.places_in(&format!("{}[{}]", path, i), &e.clone(), t, n, assignable, depth + 1, out);
            }
            _ => {}
        }
    }

    /// a dynamic subscript in 0..len built from an integer variable in scope, or a constant
    fn subscript(&mut self, len: usize, scope: &[VarInfo]) -> String {
        let ints = self.places(T::Int, 1, scope, false);
        let uints = self.places(T::Uint, 1, scope, false);
        match self.rng.below(4) {
            0 if !uints.is_empty() => format!("{} % {}u", self.rng.pick(&uints), len),
            1 if !ints.is_empty() && len >= 2 => format!("{} & 1", self.rng.pick(&ints)),
            2 if !ints.is_empty() && len >= 4 => format!("{} & 3", self.rng.pick(&ints)),
            _ => self.rng.below(len as u64).to_string(),
        }
    }

    fn leaf(&mut self, t: T, n: usize, scope: &[VarInfo]) -> String {
        let ps = self.places(t, n, scope, false);
        if !ps.is_empty() && self.rng.chance(3, 4) {
            return self.rng.pick(&ps).clone();
        }
        // an element of an array / a component of a vector under a dynamic subscript
        if n == 1 && !self.opts.pure && self.rng.chance(1, 4) {
            let cands: Vec<(String, usize)> = self
                .scope_vars(scope)
                .filter_map(|v| match &v.ty {
                    G::Ar(e, len) if **e == G::N(t, 1) => Some((v.name.clone(), *len)),
                    G::N(vt, vn) if *vt == t && *vn > 1 => Some((v.name.clone(), *vn)),
                    _ => None,
                })
                .collect();
            if !cands.is_empty() {
                let (name, len) = self.rng.pick(&cands).clone();
                return format!("{}[{}]", name, self.subscript(len, scope));
            }
        }
        // nothing of exactly this type in scope: convert a variable explicitly (keeps the inputs in play)
        if self.rng.chance(2, 3) {
            let cands: Vec<(String, T, usize)> = self
                .scope_vars(scope)
                .filter_map(|v| match &v.ty {
                    G::N(vt, vn) if *vn == 1 || *vn >= n => Some((v.name.clone(), *vt, *vn)),
                    _ => None,
                })
                .collect();
            if !cands.is_empty() {
                let (name, _, _) = self.rng.pick(&cands).clone();
                return format!("(({}){})", self.tname(&G::N(t, n)), name);
            }
        }
        self.literal(t, n)
    }

    /// an expression that may stand where (t, n) is expected: exactly that type, or one the type checker converts implicitly
    /// (other scalar kind, scalar replicated, longer vector truncated, scalar-cast of a vector re-widened)
    pub fn conv(&mut self, t: T, n: usize, d: u32, scope: &[VarInfo]) -> String {
        if d > 0 && self.rng.chance(1, 4) {
            let mut ot = self.kind(false);
            if rank(ot) > rank(t) && t != T::Bool && self.rng.chance(1, 2) {
                ot = t;
            }
            // bool sources are converted explicitly (a bool next to a literal makes the type checker compute in a literal type)
            match self.rng.below(4) {
                // the seeded shape: a cast to scalar applied to a vector, widened again by the context
                0 if n > 1 => {
                    let m = 2 + self.rng.below(3) as usize;
                    let st = if self.rng.chance(1, 2) { t } else { ot };
                    return format!("({}){}", if st == T::Bool { T::Int.name() } else { st.name() }, self.atom(ot, m, d - 1, scope));
                }
                1 if n > 1 => return self.exact(ot, 1, d - 1, scope),
                2 if n < 4 => {
                    let m = n + 1 + self.rng.below((4 - n) as u64) as usize;
                    return self.exact(ot, m, d - 1, scope);
                }
                _ => return self.exact(ot, n, d - 1, scope),
            }
        }
        self.exact(t, n, d, scope)
    }

    /// something that can follow a prefix operator / cast or precede a postfix `.xyz`
    fn atom(&mut self, t: T, n: usize, d: u32, scope: &[VarInfo]) -> String {
        if d == 0 || self.rng.chance(1, 2) {
            let l = self.leaf(t, n, scope);
            if l.starts_with('-') { format!("({})", l) } else { l }
        } else {
            format!("({})", self.exact(t, n, d, scope))
        }
    }

    /// an expression whose static type is exactly (t, n) (an unsuffixed literal counts as its scalar kind)
    pub fn exact(&mut self, t: T, n: usize, d: u32, scope: &[VarInfo]) -> String {
        if d == 0 || self.rng.chance(1, 6) {
            return self.leaf(t, n, scope);
        }
        let d = d - 1;
        let is_int = t == T::Int || t == T::Uint;
        match self.rng.below(if self.opts.pure { 15 } else { 20 }) {
            // component-wise arithmetic, the right operand sometimes a scalar (replicated) or a longer vector (truncated)
            0 | 1 | 2 if t != T::Bool => {
                // a vector of a lower kind next to a bare literal of kind t: computed in (t, n) since fix 40c6233
                // (was: in a vector of the literal type, which no exporter can name)
                if n > 1 && (t == T::Int || t == T::Float) && self.rng.chance(1, if self.opts.pure { 3 } else { 6 }) {
                    return self.lower_vec_op_literal(t, n, d, scope, false);
                }
                let op = if is_int { *self.rng.pick(&["+", "-", "*", "/", "%", "&", "|", "^"]) } else { *self.rng.pick(&["+", "-", "*", "/"]) };
                let l = self.exact(t, n, d, scope);
                let r = match self.rng.below(5) {
                    0 if n > 1 => self.exact(t, 1, d, scope),
                    1 if n > 1 && n < 4 => self.exact(t, n + 1, d, scope),
                    2 if t == T::Float && !matches!(op, "%") => {
                        let ot = if self.rng.chance(1, 2) { T::Int } else { T::Uint };
                        self.exact(ot, n, d, scope)
                    }
                    _ => self.exact(t, n, d, scope),
                };
                if self.rng.chance(1, 2) { format!("({} {} {})", l, op, r) } else { format!("({} {} {})", r, op, l) }
            }
            3 if is_int => {
                let op = *self.rng.pick(&["<<", ">>"]);
                let (l, r) = (self.exact(t, n, d, scope), if self.rng.chance(1, 3) && n > 1 { self.exact(t, 1, d, scope) } else { self.exact(t, n, d, scope) });
                format!("({} {} {})", l, op, r)
            }
            4 if t != T::Bool => format!("{}{}", self.rng.pick(&["-", "+"]), self.atom(t, n, d, scope)),
            // explicit cast: from another kind, from a scalar (replicate), from a longer vector (truncate), from a vector to scalar
            5 | 6 | 7 => {
                let ot = self.kind(true);
                let m = match self.rng.below(4) {
                    0 => 1,
                    1 if n < 4 => n + 1 + self.rng.below((4 - n) as u64) as usize,
                    _ => n,
                };
                let inner = self.atom(ot, m, d, scope);
                // sometimes through a scalar first: `(float3)(float)v`
                if n > 1 && self.rng.chance(1, 3) {
                    let st = if self.rng.chance(1, 2) { t } else { self.kind(false) };
                    let sm = 2 + self.rng.below(3) as usize;
                    let src = self.atom(ot, sm, d, scope);
                    return format!("({}{})({}){}", t.name(), n, st.name(), src);
                }
                format!("({}){}", self.tname(&G::N(t, n)), inner)
            }
            // numeric constructor over a partition of the components
            8 | 9 => {
                let mut parts = Vec::new();
                let mut left = n;
                while left > 0 {
                    let k = 1 + self.rng.below(left.min(3) as u64) as usize;
                    let k = if n > 1 && k == n { (n - 1).max(1) } else { k };
                    let pt = if self.rng.chance(2, 3) { t } else { self.kind(false) };
                    parts.push(self.exact(pt, k, d, scope));
                    left -= k;
                }
                format!("{}({})", self.tname(&G::N(t, n)), parts.join(", "))
            }
            10 => {
                let c = self.exact(T::Bool, 1, d, scope);
                // a vector of a lower kind and a bare literal of kind t as the two arms: typed (t, n) since fix c05bffa
                if n > 1 && (t == T::Int || t == T::Float) && self.rng.chance(1, 3) {
                    let lower = if t == T::Int { T::Bool } else { *self.rng.pick(&[T::Bool, T::Int, T::Uint]) };
                    let v = self.exact(lower, n, d, scope);
                    let lit = if t == T::Int { self.rng.pick(&["0", "1", "7", "2147483647"]).to_string() } else { self.rng.pick(&["0.0", "0.5", "1.5", "100.0"]).to_string() };
                    return if self.rng.chance(1, 2) { format!("({} ? {} : {})", c, v, lit) } else { format!("({} ? {} : {})", c, lit, v) };
                }
                format!("({} ? {} : {})", c, self.exact(t, n, d, scope), self.exact(t, n, d, scope))
            }
            // swizzle of an expression
            11 | 12 => {
                let m = 2 + self.rng.below(3) as usize;
                let idx: String = (0..n).map(|_| COMP[self.rng.below(m as u64) as usize]).collect();
                format!("{}.{}", self.atom(t, m, d, scope), idx)
            }
            13 if t == T::Bool => {
                if n > 1 && self.rng.chance(1, if self.opts.pure { 3 } else { 5 }) {
                    let k = if self.rng.chance(1, 2) { T::Int } else { T::Float };
                    return self.lower_vec_op_literal(k, n, d, scope, true);
                }
                let k = self.kind(false);
                let op = *self.rng.pick(&["<", "<=", ">", ">=", "==", "!="]);
                let l = self.exact(k, n, d, scope);
                let r = if n > 1 && self.rng.chance(1, 3) { self.exact(k, 1, d, scope) } else { self.exact(k, n, d, scope) };
                format!("({} {} {})", l, op, r)
            }
            14 if t == T::Bool => {
                if n == 1 && self.rng.chance(1, 2) {
                    let op = *self.rng.pick(&["&&", "||"]);
                    format!("({} {} {})", self.exact(T::Bool, 1, d, scope), op, self.exact(T::Bool, 1, d, scope))
                } else {
                    format!("!{}", self.atom(T::Bool, n, d, scope))
                }
            }
            // assignment / compound assignment / increment as a value
            15 => {
                let ps = self.places(t, n, scope, true);
                if ps.is_empty() {
                    return self.leaf(t, n, scope);
                }
                let lv = self.rng.pick(&ps).clone();
                if t == T::Bool || self.rng.chance(1, 3) {
                    format!("({} = {})", lv, self.conv(t, n, d, scope))
                } else if self.rng.chance(1, 2) {
                    let op = if is_int { *self.rng.pick(&["+=", "-=", "*=", "/=", "%=", "<<=", ">>=", "&=", "|=", "^="]) } else { *self.rng.pick(&["+=", "-=", "*=", "/="]) };
                    let rhs = if matches!(op, "+=" | "-=" | "*=" | "/=") { self.conv(t, n, d, scope) } else { self.exact(t, n, d, scope) };
                    format!("({} {} {})", lv, op, rhs)
                } else {
                    match self.rng.below(4) {
                        0 => format!("(++{})", lv),
                        1 => format!("(--{})", lv),
                        2 => format!("({}++)", lv),
                        _ => format!("({}--)", lv),
                    }
                }
            }
            16 => {
                // a method of a struct-typed variable, or an instantiation of a function template
                if let Some(c) = self.method_call(Some(&G::N(t, n)), d, scope) {
                    return c;
                }
                if !self.templates.is_empty() && (t != T::Bool) {
                    let (name, sel) = self.rng.pick(&self.templates).clone();
                    let (x, y) = (self.exact_nonliteral(t, n, d, scope), self.exact_nonliteral(t, n, d, scope));
                    let targ = if self.rng.chance(1, 3) { format!("<{}>", self.tname(&G::N(t, n))) } else { String::new() };
                    return if sel { format!("{}{}({}, {}, {})", name, targ, x, y, self.exact(T::Bool, 1, d, scope)) } else { format!("{}{}({}, {})", name, targ, x, y) };
                }
                match self.call(Some(&G::N(t, n)), d, scope) {
                    Some(c) => c,
                    None => self.leaf(t, n, scope),
                }
            }
            17 => {
                if self.rng.chance(1, 2) {
                    if let Some(b) = self.builtin(t, n, d, scope) {
                        return b;
                    }
                }
                match self.call(Some(&G::N(t, n)), d, scope) {
                    Some(c) => c,
                    None => self.leaf(t, n, scope),
                }
            }
            18 => {
                let (ot, on) = (self.kind(true), 1 + self.rng.below(4) as usize);
                format!("({}, {})", self.exact(ot, on, d, scope), self.exact(t, n, d, scope))
            }
            _ => self.leaf(t, n, scope),
        }
    }

    /// a call of a pure built-in with result type (t, n): component-wise math, reductions, predicates, selection
    fn builtin(&mut self, t: T, n: usize, d: u32, scope: &[VarInfo]) -> Option<String> {
        let m = 2 + self.rng.below(3) as usize;
        let which = self.rng.below(6);
        Some(match (t, which) {
            (T::Float, 0) => format!("{}({})", self.rng.pick(&["abs", "sqrt", "sin", "cos", "floor", "ceil", "frac", "exp2", "log2", "saturate", "rsqrt", "trunc", "round", "rcp"]), self.exact(t, n, d, scope)),
            (T::Float, 1) => format!("{}({}, {})", self.rng.pick(&["min", "max", "pow", "step", "fmod", "atan2"]), self.exact(t, n, d, scope), self.conv(t, n, d, scope)),
            (T::Float, 2) => format!("{}({}, {}, {})", self.rng.pick(&["clamp", "lerp", "smoothstep"]), self.exact(t, n, d, scope), self.conv(t, n, d, scope), self.conv(t, n, d, scope)),
            (T::Float, 3) if n == 1 => match self.rng.below(3) {
                0 => format!("dot({}, {})", self.exact_nonliteral(t, m, d, scope), self.exact_nonliteral(t, m, d, scope)),
                1 => format!("length({})", self.exact_nonliteral(t, m, d, scope)),
                _ => format!("distance({}, {})", self.exact_nonliteral(t, m, d, scope), self.exact_nonliteral(t, m, d, scope)),
            },
            (T::Float, 3) if n == 3 => format!("cross({}, {})", self.exact_nonliteral(t, 3, d, scope), self.exact_nonliteral(t, 3, d, scope)),
            (T::Float, 3) => format!("{}({})", self.rng.pick(&["normalize", "saturate"]), self.exact_nonliteral(t, n, d, scope)),
            (T::Float, 4) => {
                let k = if self.rng.chance(1, 2) { T::Int } else { T::Uint };
                format!("asfloat({})", self.exact_nonliteral(k, n, d, scope))
            }
            (T::Int, 0) => format!("abs({})", self.exact(t, n, d, scope)),
            (T::Int, 1) => format!("sign({})", self.exact_nonliteral(T::Float, n, d, scope)),
            (T::Int, 2) if n == 1 => format!("dot({}, {})", self.exact_nonliteral(t, m, d, scope), self.exact_nonliteral(t, m, d, scope)),
            (T::Int, 3) => format!("asint({})", self.exact_nonliteral(T::Float, n, d, scope)),
            (T::Int, _) | (T::Uint, 0) | (T::Uint, 1) => match self.rng.below(2) {
                0 => format!("{}({}, {})", self.rng.pick(&["min", "max"]), self.exact(t, n, d, scope), self.exact(t, n, d, scope)),
                _ => format!("clamp({}, {}, {})", self.exact(t, n, d, scope), self.exact(t, n, d, scope), self.exact(t, n, d, scope)),
            },
            (T::Uint, 2) => format!("{}({})", self.rng.pick(&["countbits", "reversebits", "firstbitlow", "firstbithigh"]), self.exact_nonliteral(t, n, d, scope)),
            (T::Uint, 3) => format!("asuint({})", self.exact_nonliteral(T::Float, n, d, scope)),
            (T::Bool, 0) | (T::Bool, 1) if n == 1 => format!("{}({})", self.rng.pick(&["any", "all"]), self.exact_nonliteral(T::Bool, m, d, scope)),
            (T::Bool, 2) => format!("{}({})", self.rng.pick(&["isnan", "isinf", "isfinite"]), self.exact_nonliteral(T::Float, n, d, scope)),
            (T::Bool, 3) if n > 1 => format!("{}({}, {})", self.rng.pick(&["and", "or"]), self.exact_nonliteral(T::Bool, n, d, scope), self.exact_nonliteral(T::Bool, n, d, scope)),
            (_, 5) if n > 1 => format!("select({}, {}, {})", self.exact_nonliteral(T::Bool, n, d, scope), self.exact_nonliteral(t, n, d, scope), self.exact_nonliteral(t, n, d, scope)),
            _ => return None,
        })
    }

    /// `vector-of-a-lower-kind op bare-literal-of-kind-t` (bool vector next to an int literal; bool / int / uint vector next
    /// to an unsuffixed float literal): the operation is done in (t, n) since fix 40c6233 — `(int3)b + (int3)1`; `compare`
    /// gives the comparison (a bool vector) instead of the arithmetic result
    fn lower_vec_op_literal(&mut self, t: T, n: usize, d: u32, scope: &[VarInfo], compare: bool) -> String {
        let lower = if t == T::Int { T::Bool } else { *self.rng.pick(&[T::Bool, T::Int, T::Uint]) };
        let v = self.exact(lower, n, d, scope);
        let lit = if t == T::Int {
            self.rng.pick(&["0", "1", "2", "3", "7", "31", "2147483647"]).to_string()
        } else {
            self.rng.pick(&["0.0", "0.5", "1.5", "2.0", "3.25", "100.0"]).to_string()
        };
        let op = if compare {
            *self.rng.pick(&["<", "<=", ">", ">=", "==", "!="])
        } else if t == T::Int {
            *self.rng.pick(&["+", "-", "*", "/", "%", "&", "|", "^", "<<", ">>"])
        } else {
            *self.rng.pick(&["+", "-", "*", "/"])
        };
        if self.rng.chance(1, 3) { format!("({} {} {})", lit, op, v) } else { format!("({} {} {})", v, op, lit) }
    }

    /// exact, but never a bare literal (built-in / template arguments: a literal argument takes part in overload
    /// resolution and template deduction with its literal type)
    fn exact_nonliteral(&mut self, t: T, n: usize, d: u32, scope: &[VarInfo]) -> String {
        let ps = self.places(t, n, scope, false);
        if !ps.is_empty() {
            return self.rng.pick(&ps).clone();
        }
        format!("({}){}", self.tname(&G::N(t, n)), self.atom(t, n, d, scope))
    }

    /// an expression for any generator type
    pub fn expr_of(&mut self, g: &G, d: u32, scope: &[VarInfo]) -> String {
        match g {
            G::N(t, n) => self.conv(*t, *n, d, scope),
            G::M(t, r, c) => {
                let vars: Vec<String> = self.scope_vars(scope).filter(|v| v.ty == *g).map(|v| v.name.clone()).collect();
                match self.rng.below(4) {
                    0 | 1 if !vars.is_empty() => {
                        let v = self.rng.pick(&vars).clone();
                        if *t != T::Bool && self.rng.chance(1, 2) {
                            let op = *self.rng.pick(&["+", "-", "*"]);
                            let r = if self.rng.chance(1, 2) { self.rng.pick(&vars).clone() } else { self.exact(*t, 1, 0, scope) };
                            format!("({} {} {})", v, op, r)
                        } else {
                            v
                        }
                    }
                    2 => format!("({}){}", self.tname(g), self.atom(*t, 1, d.min(1), scope)),
                    _ => {
                        let parts: Vec<String> = (0..*r).map(|_| self.exact(*t, *c, d.min(1), scope)).collect();
                        format!("{}({})", self.tname(g), parts.join(", "))
                    }
                }
            }
            G::St(_) | G::En => {
                let vars: Vec<String> = self.scope_vars(scope).filter(|v| v.ty == *g).map(|v| v.name.clone()).collect();
                if !vars.is_empty() && self.rng.chance(3, 4) {
                    let a = self.rng.pick(&vars).clone();
                    if self.rng.chance(1, 4) {
                        let b = self.rng.pick(&vars).clone();
                        return format!("({} ? {} : {})", self.exact(T::Bool, 1, d.min(1), scope), a, b);
                    }
                    return a;
                }
                if d > 0 {
                    if let Some(c) = self.call(Some(g), d - 1, scope) {
                        return c;
                    }
                }
                match g {
                    G::En => match self.rng.below(3) {
                        0 => format!("(E0){}", self.rng.pick(&["0", "5", "6"])),
                        1 => format!("E0::{}", self.rng.pick(&ENUM_VALUES)),
                        _ => self.rng.pick(&ENUM_VALUES).to_string(),
                    },
                    _ => {
                        if vars.is_empty() {
                            String::new()
                        } else {
                            self.rng.pick(&vars).clone()
                        }
                    }
                }
            }
            G::Ar(..) | G::Void => String::new(),
        }
    }

    /// `{ … }` following the structure of the type (the type checker accepts structured aggregates only)
    fn aggregate(&mut self, g: &G, d: u32, scope: &[VarInfo]) -> String {
        match g {
            G::N(t, n) if *n > 1 => format!("{{ {} }}", (0..*n).map(|_| self.conv(*t, 1, d, scope)).collect::<Vec<_>>().join(", ")),
            G::Ar(e, n) => format!("{{ {} }}", (0..*n).map(|_| self.init_of(e, d, scope)).collect::<Vec<_>>().join(", ")),
            G::St(i) => {
                let members = self.structs[*i].1.clone();
                format!("{{ {} }}", members.iter().map(|(_, mt)| self.init_of(mt, d, scope)).collect::<Vec<_>>().join(", "))
            }
            other => self.expr_of(other, d, scope),
        }
    }

    fn init_of(&mut self, g: &G, d: u32, scope: &[VarInfo]) -> String {
        match g {
            G::Ar(..) => self.aggregate(g, d, scope),
            G::St(_) => {
                let e = if self.rng.chance(1, 2) { self.expr_of(g, d, scope) } else { String::new() };
                if e.is_empty() { self.aggregate(g, d, scope) } else { e }
            }
            G::N(_, n) if *n > 1 && self.rng.chance(1, 5) => self.aggregate(g, d, scope),
            _ => self.expr_of(g, d, scope),
        }
    }

    fn call(&mut self, ret: Option<&G>, d: u32, scope: &[VarInfo]) -> Option<String> {
        let cands: Vec<FnSig> = self.funcs.iter().filter(|f| ret.map(|t| f.ret == *t).unwrap_or(true)).cloned().collect();
        if cands.is_empty() {
            return None;
        }
        let f = self.rng.pick(&cands).clone();
        let mut args = Vec::new();
        let mut used: Vec<String> = Vec::new();
        let first_default = f.params.iter().position(|p| p.3).unwrap_or(f.params.len());
        let given = first_default + self.rng.below((f.params.len() - first_default + 1) as u64) as usize;
        for (_, dir, g, _) in f.params.iter().take(given) {
            if *dir == 0 {
                let a = match g {
                    G::N(t, n) if f.overloaded => format!("({}){}", self.tname(g), self.atom(*t, *n, d.min(1), scope)),
                    G::Ar(..) => {
                        let vars: Vec<String> = self.scope_vars(scope).filter(|v| v.ty == *g).map(|v| v.name.clone()).collect();
                        if vars.is_empty() {
                            return None;
                        }
                        self.rng.pick(&vars).clone()
                    }
                    _ => self.expr_of(g, d.min(1).saturating_sub(if matches!(g, G::St(_) | G::En) { 1 } else { 0 }), scope),
                };
                if a.is_empty() {
                    return None;
                }
                args.push(a);
            } else {
                // a distinct assignable place of exactly this type (no two arguments under the same variable)
                let ps: Vec<String> = match g {
                    G::N(t, n) => self.places(*t, *n, scope, true),
                    _ => self.scope_vars(scope).filter(|v| v.ty == *g && v.assignable).map(|v| v.name.clone()).collect(),
                };
                let root = |p: &str| p.split(['.', '[']).next().unwrap_or("").to_string();
                let ps: Vec<String> = ps.into_iter().filter(|p| !used.contains(&root(p))).collect();
                if ps.is_empty() {
                    return None;
                }
                let p = self.rng.pick(&ps).clone();
                used.push(root(&p));
                args.push(p);
            }
        }
        // an `in` argument evaluated before the call must not read what an out argument names … it may: copy-in happens
        // left to right in both semantics; only two out places under one variable are excluded above
        Some(format!("{}({})", f.name, args.join(", ")))
    }

    /// `var.method(args)` for a struct-typed variable in scope whose struct has a method of that return type
    fn method_call(&mut self, ret: Option<&G>, d: u32, scope: &[VarInfo]) -> Option<String> {
        let mut cands: Vec<(String, String, Vec<G>)> = Vec::new();
        for v in self.scope_vars(scope) {
            if let G::St(i) = &v.ty {
                for (mn, mr, ps) in self.methods.get(*i).cloned().unwrap_or_default() {
                    if ret.map(|r| *r == mr).unwrap_or(true) && v.assignable {
                        cands.push((v.name.clone(), mn, ps));
                    }
                }
            }
        }
        if cands.is_empty() {
            return None;
        }
        let (obj, m, ps) = self.rng.pick(&cands).clone();
        let mut args = Vec::new();
        for g in &ps {
            let a = self.expr_of(g, d.min(1), scope);
            if a.is_empty() {
                return None;
            }
            args.push(a);
        }
        Some(format!("{}.{}({})", obj, m, args.join(", ")))
    }

    fn stmt(&mut self, depth: u32, scope: &mut Vec<VarInfo>, in_loop: bool, ret: &G, ind: &str, out: &mut String) {
        let d = self.opts.max_depth;
        let inner = format!("{}    ", ind);
        match self.rng.below(if depth == 0 { 10 } else { 14 }) {
            0 | 1 | 2 => {
                let g = self.any_type(true);
                let n = self.fresh("l");
                let init = self.init_of(&g, d, scope);
                if init.is_empty() {
                    return;
                }
                out.push_str(&format!("{}{} = {};\n", ind, self.decl(&g, &n), init));
                scope.push(VarInfo { name: n, ty: g, assignable: true });
            }
            3 | 4 | 5 => {
                // assignment / compound assignment to a place (variable, swizzle, member, element)
                let (t, n) = (self.kind(true), 1 + self.rng.below(4) as usize);
                let ps = self.places(t, n, scope, true);
                if ps.is_empty() {
                    return;
                }
                let lv = self.rng.pick(&ps).clone();
                let is_int = t == T::Int || t == T::Uint;
                let op = if t == T::Bool || self.rng.chance(1, 2) {
                    "="
                } else if is_int {
                    *self.rng.pick(&["+=", "-=", "*=", "/=", "%=", "<<=", ">>=", "&=", "|=", "^="])
                } else {
                    *self.rng.pick(&["+=", "-=", "*=", "/="])
                };
                let rhs = if matches!(op, "=" | "+=" | "-=" | "*=" | "/=") { self.conv(t, n, d, scope) } else { self.exact(t, n, d, scope) };
                out.push_str(&format!("{}{} {} {};\n", ind, lv, op, rhs));
            }
            6 => {
                // whole struct / matrix / enum assignment
                let vars: Vec<VarInfo> = scope.iter().filter(|v| v.assignable && matches!(v.ty, G::St(_) | G::M(..) | G::En)).cloned().collect();
                if vars.is_empty() {
                    return;
                }
                let v = self.rng.pick(&vars).clone();
                let e = self.expr_of(&v.ty, d, scope);
                if !e.is_empty() {
                    out.push_str(&format!("{}{} = {};\n", ind, v.name, e));
                }
            }
            7 => {
                let (t, n) = (self.kind(false), 1 + self.rng.below(4) as usize);
                let ps = self.places(t, n, scope, true);
                if let Some(lv) = ps.first().map(|_| self.rng.pick(&ps).clone()) {
                    let s = match self.rng.below(4) {
                        0 => format!("{}++", lv),
                        1 => format!("++{}", lv),
                        2 => format!("{}--", lv),
                        _ => format!("--{}", lv),
                    };
                    out.push_str(&format!("{}{};\n", ind, s));
                }
            }
            8 => {
                let c = if self.rng.chance(1, 2) { self.method_call(None, 1, scope).or_else(|| self.call(None, 1, scope)) } else { self.call(None, 1, scope) };
                if let Some(c) = c {
                    out.push_str(&format!("{}{};\n", ind, c));
                }
            }
            9 => {
                if in_loop && self.rng.chance(1, 2) {
                    let kw = if self.rng.chance(1, 2) { "break" } else { "continue" };
                    out.push_str(&format!("{}if ({})\n{}{{\n{}{};\n{}}}\n", ind, self.exact(T::Bool, 1, 1, scope), ind, inner, kw, ind));
                } else if *ret == G::Void && self.rng.chance(1, 2) {
                    out.push_str(&format!("{}if ({})\n{}{{\n{}return;\n{}}}\n", ind, self.exact(T::Bool, 1, 1, scope), ind, inner, ind));
                } else if *ret != G::Void && self.rng.chance(1, 2) {
                    let e = self.expr_of(ret, d, scope);
                    if !e.is_empty() {
                        out.push_str(&format!("{}if ({})\n{}{{\n{}return {};\n{}}}\n", ind, self.exact(T::Bool, 1, 1, scope), ind, inner, e, ind));
                    }
                }
            }
            10 | 11 => {
                // either side is sometimes empty (`{ }`, `;`, `{ { } }`); an empty then-side always has an else
                out.push_str(&format!("{}if ({})\n", ind, self.exact(T::Bool, 1, d, scope)));
                let empty_then = self.rng.chance(1, 5);
                let has_else = empty_then || self.rng.chance(1, 2);
                let empty_else = has_else && !empty_then && self.rng.chance(1, 5);
                for (side, empty) in [(0, empty_then), (1, empty_else)] {
                    if side == 1 {
                        if !has_else {
                            break;
                        }
                        out.push_str(&format!("{}else\n", ind));
                    }
                    if empty {
                        match self.rng.below(3) {
                            0 => out.push_str(&format!("{}{{\n{}}}\n", ind, ind)),
                            1 => out.push_str(&format!("{};\n", inner)),
                            _ => out.push_str(&format!("{}{{\n{}{{\n{}}}\n{}}}\n", ind, inner, inner, ind)),
                        }
                    } else {
                        out.push_str(&format!("{}{{\n", ind));
                        self.block(depth - 1, &mut scope.clone(), in_loop, ret, &inner, out);
                        out.push_str(&format!("{}}}\n", ind));
                    }
                }
            }
            12 => {
                let i = self.fresh("i");
                let n = 1 + self.rng.below(3);
                let t = if self.rng.chance(1, 3) { T::Uint } else { T::Int };
                let lim = if t == T::Uint { format!("{}u", n) } else { n.to_string() };
                if self.rng.chance(1, 5) {
                    // no init / condition / increment: the counter lives outside, the loop ends by `break`
                    out.push_str(&format!("{}{} {} = 0;\n{}for (;;)\n{}{{\n{}if ({} >= {})\n{}{{\n{}    break;\n{}}}\n{}{}++;\n", ind, t.name(), i, ind, ind, inner, i, lim, inner, inner, inner, inner, i));
                    scope.push(VarInfo { name: i.clone(), ty: G::N(t, 1), assignable: false });
                } else {
                    out.push_str(&format!("{}for ({} {} = 0; {} < {}; ++{})\n{}{{\n", ind, t.name(), i, i, lim, i, ind));
                }
                let mut sc = scope.clone();
                sc.push(VarInfo { name: i, ty: G::N(t, 1), assignable: false });
                self.block(depth - 1, &mut sc, true, ret, &inner, out);
                out.push_str(&format!("{}}}\n", ind));
            }
            _ => {
                // switch on an enum or an int
                let vars: Vec<VarInfo> = self.scope_vars(scope).filter(|v| v.ty == G::En || v.ty == G::N(T::Int, 1)).cloned().collect();
                if vars.is_empty() {
                    return;
                }
                let v = self.rng.pick(&vars).clone();
                let labels: Vec<&str> = if v.ty == G::En { vec!["EA", "E0::EB", "EC"] } else { vec!["0", "1", "-1", "7"] };
                out.push_str(&format!("{}switch ({})\n{}{{\n", ind, v.name, ind));
                let in2 = format!("{}    ", inner);
                let k = 1 + self.rng.below(labels.len() as u64) as usize;
                let default_at = self.rng.below(k as u64 + 1) as usize;
                for (li, lab) in labels.iter().take(k).enumerate() {
                    if li == default_at {
                        out.push_str(&format!("{}default:\n", inner));
                    }
                    out.push_str(&format!("{}case {}:\n{}{{\n", inner, lab, in2));
                    self.block(depth - 1, &mut scope.clone(), in_loop, ret, &format!("{}    ", in2), out);
                    out.push_str(&format!("{}}}\n", in2));
                    if self.rng.chance(2, 3) {
                        out.push_str(&format!("{}break;\n", in2));
                    }
                }
                out.push_str(&format!("{}}}\n", ind));
            }
        }
    }

    fn block(&mut self, depth: u32, scope: &mut Vec<VarInfo>, in_loop: bool, ret: &G, ind: &str, out: &mut String) {
        let n = 1 + self.rng.below(3);
        for _ in 0..n {
            self.stmt(depth, scope, in_loop, ret, ind, out);
        }
    }

    /// a constant initialiser usable at global scope / as a default argument
    fn const_init(&mut self, g: &G) -> String {
        match g {
            G::N(t, n) => {
                if *n > 1 && self.rng.chance(1, 3) {
                    // scalar replicated by the implicit conversion
                    return self.scalar_literal(if *t == T::Bool { T::Bool } else { *t });
                }
                if *n > 1 && self.rng.chance(1, 4) {
                    return format!("{{ {} }}", (0..*n).map(|_| self.scalar_literal(*t)).collect::<Vec<_>>().join(", "));
                }
                self.literal(*t, *n)
            }
            G::M(t, r, c) => format!("{}({})", self.tname(g), (0..r * c).map(|_| self.scalar_literal(*t)).collect::<Vec<_>>().join(", ")),
            G::Ar(e, n) => format!("{{ {} }}", (0..*n).map(|_| self.const_init(e)).collect::<Vec<_>>().join(", ")),
            G::St(i) => {
                let members = self.structs[*i].1.clone();
                format!("{{ {} }}", members.iter().map(|(_, mt)| self.const_init(mt)).collect::<Vec<_>>().join(", "))
            }
            G::En => format!("E0::{}", self.rng.pick(&ENUM_VALUES)),
            G::Void => String::new(),
        }
    }

    fn function(&mut self, out: &mut String, forced_name: Option<(String, G)>) {
        let (name, overloaded) = match &forced_name {
            Some((n, _)) => (n.clone(), true),
            None => (self.fresh("fn"), false),
        };
        let ret = if self.rng.chance(1, 8) {
            G::Void
        } else {
            let g = self.any_type(false);
            if matches!(g, G::Ar(..)) { G::N(T::Float, 3) } else { g }
        };
        let np = if overloaded { 1 } else { 1 + self.rng.below(4) as usize };
        let mut params = Vec::new();
        let mut scope = Vec::new();
        let mut decl = Vec::new();
        let mut pre = String::new();
        let ndef = if overloaded || !self.rng.chance(1, 2) { 0 } else { (1 + self.rng.below(2) as usize).min(np) };
        for k in 0..np {
            let is_def = k + ndef >= np;
            let g = match (&forced_name, k) {
                (Some((_, g)), 0) => g.clone(),
                _ if is_def => {
                    if self.has_enum && self.rng.chance(1, 6) { G::En } else { self.numeric() }
                }
                _ => self.any_type(true),
            };
            let dir = if overloaded || is_def {
                0u8
            } else {
                match self.rng.below(5) {
                    0 => 1u8,
                    1 => 2u8,
                    _ => 0u8,
                }
            };
            let n = self.fresh("p");
            let mut d = format!("{}{}", ["", "out ", "inout "][dir as usize], self.decl(&g, &n));
            if is_def {
                d = format!("{} = {}", d, self.default_value(&g));
            }
            decl.push(d);
            params.push((n.clone(), dir, g.clone(), is_def));
            if dir == 1 {
                let init = self.const_out_init(&g);
                if !init.is_empty() {
                    pre.push_str(&format!("    {} = {};\n", n, init));
                }
            }
            scope.push(VarInfo { name: n, ty: g, assignable: true });
        }
        out.push_str(&format!("{} {}({})\n{{\n", self.tname(&ret), name, decl.join(", ")));
        out.push_str(&pre);
        let n = 2 + self.rng.below(4);
        for _ in 0..n {
            self.stmt(2, &mut scope, false, &ret, "    ", out);
        }
        if ret != G::Void {
            let mut e = self.expr_of(&ret, self.opts.max_depth, &scope);
            if e.is_empty() {
                // no value of a struct type in scope: build one
                let tmp = self.fresh("r");
                out.push_str(&format!("    {} = {};\n", self.decl(&ret, &tmp), self.const_init(&ret)));
                e = tmp;
            }
            out.push_str(&format!("    return {};\n", e));
        }
        out.push_str("}\n\n");
        let qualified = if overloaded { name } else { self.q(&name) };
        self.funcs.push(FnSig { name: qualified, ret, params, overloaded });
    }

    /// default argument: a literal of the parameter's kind, sometimes of another kind / shape (converted at the call),
    /// sometimes a static const global
    fn default_value(&mut self, g: &G) -> String {
        match g {
            G::N(t, n) => {
                let consts: Vec<String> = self.globals.iter().filter(|v| !v.assignable && v.ty == *g).map(|v| v.name.clone()).collect();
                if !consts.is_empty() && self.rng.chance(1, 3) {
                    return self.rng.pick(&consts).clone();
                }
                match self.rng.below(3) {
                    0 => self.scalar_literal(if *t == T::Bool { T::Bool } else { *t }),
                    1 if *t != T::Bool => self.scalar_literal(T::Int),
                    _ => self.literal(*t, *n),
                }
            }
            other => self.const_init(other),
        }
    }

    /// what an `out` parameter is set to before anything reads it (an assignment statement: no `{}`)
    fn const_out_init(&mut self, g: &G) -> String {
        match g {
            G::N(t, n) => self.literal(*t, *n),
            G::M(t, _, _) => format!("({}){}", self.tname(g), self.scalar_literal(*t)),
            G::En => "EA".to_string(),
            _ => String::new(),
        }
    }

    /// `T f(params) { return E; }` with numeric `in` parameters only (the shape the Lean vector model answers)
    pub fn expression_function(&mut self) -> String {
        let np = 1 + self.rng.below(4) as usize;
        let mut scope = Vec::new();
        let mut decl = Vec::new();
        for k in 0..np {
            // at least one vector and a bool scalar now and then
            let g = if k == 0 { G::N(self.kind(false), 2 + self.rng.below(3) as usize) } else { self.numeric() };
            let n = self.fresh("p");
            decl.push(self.decl(&g, &n));
            scope.push(VarInfo { name: n, ty: g, assignable: false });
        }
        let ret = self.numeric();
        let (t, n) = match &ret {
            G::N(t, n) => (*t, *n),
            _ => (T::Float, 3),
        };
        let e = self.conv(t, n, self.opts.max_depth, &scope);
        format!("{} f1({})\n{{\n    return {};\n}}\n", self.tname(&ret), decl.join(", "), e)
    }

    /// `T f(T p, …) { p <op>= E; return p; }` / `p.zx <op>= E` with `p` a vector parameter (statement-level assignment of the
    /// Lean vector layer)
    pub fn assignment_function(&mut self) -> String {
        let t = self.kind(true);
        let n = 2 + self.rng.below(3) as usize;
        let first = G::N(t, n);
        let pn = self.fresh("p");
        let mut decl = vec![self.decl(&first, &pn)];
        let mut scope = vec![VarInfo { name: pn.clone(), ty: first.clone(), assignable: false }];
        for _ in 0..self.rng.below(3) {
            let g = self.numeric();
            let name = self.fresh("p");
            decl.push(self.decl(&g, &name));
            scope.push(VarInfo { name, ty: g, assignable: false });
        }
        // the place: the whole parameter or distinct components of it
        let (place, pk) = if self.rng.chance(1, 3) {
            (pn.clone(), n)
        } else {
            let k = 1 + self.rng.below(n as u64) as usize;
            let mut idx: Vec<usize> = (0..n).collect();
            for i in 0..n {
                let j = i + self.rng.below((n - i) as u64) as usize;
                idx.swap(i, j);
            }
            (format!("{}.{}", pn, idx[..k].iter().map(|i| COMP[*i]).collect::<String>()), k)
        };
        let is_int = t == T::Int || t == T::Uint;
        let op = if t == T::Bool || self.rng.chance(1, 3) {
            "="
        } else if is_int {
            *self.rng.pick(&["+=", "-=", "*=", "/=", "%=", "<<=", ">>=", "&=", "|=", "^="])
        } else {
            *self.rng.pick(&["+=", "-=", "*=", "/="])
        };
        let rhs = self.conv(t, pk, self.opts.max_depth, &scope);
        format!("{} f1({})\n{{\n    {} {} {};\n    return {};\n}}\n", self.tname(&first), decl.join(", "), place, op, rhs, pn)
    }

    pub fn program(&mut self) -> String {
        let mut out = String::new();
        if self.opts.enums && self.rng.chance(1, 2) {
            self.has_enum = true;
            out.push_str("enum E0 { EA, EB = 5, EC };\n");
        }
        if self.opts.structs && self.rng.chance(1, 3) {
            let n = self.fresh("NS");
            out.push_str(&format!("namespace {}\n{{\n", n));
            self.ns = Some(n);
        }
        if self.opts.structs {
            let ns = self.rng.below(3);
            for _ in 0..ns {
                let name = self.fresh("S");
                let nm = 1 + self.rng.below(3);
                let mut members = Vec::new();
                let mut text = format!("struct {}\n{{\n", name);
                for _ in 0..nm {
                    let g = self.any_type(true);
                    let mn = self.fresh("m");
                    text.push_str(&format!("    {};\n", self.decl(&g, &mn)));
                    members.push((mn, g));
                }
                let qualified = self.q(&name);
                self.structs.push((qualified, members.clone()));
                // methods: bodies see the data members as variables; a later method may call an earlier one
                let mut sigs: Vec<(String, G, Vec<G>)> = Vec::new();
                let nmeth = self.rng.below(3);
                let saved_funcs = self.funcs.clone();
                for _ in 0..nmeth {
                    let mname = self.fresh("me");
                    let ret = if self.rng.chance(1, 4) { G::Void } else { self.numeric() };
                    let np = self.rng.below(3) as usize;
                    let mut scope: Vec<VarInfo> = members.iter().map(|(n, g)| VarInfo { name: n.clone(), ty: g.clone(), assignable: true }).collect();
                    let mut decl = Vec::new();
                    let mut ptys = Vec::new();
                    for _ in 0..np {
                        let g = self.numeric();
                        let pn = self.fresh("q");
                        decl.push(self.decl(&g, &pn));
                        scope.push(VarInfo { name: pn, ty: g.clone(), assignable: true });
                        ptys.push(g);
                    }
                    let mut body = String::new();
                    for _ in 0..(1 + self.rng.below(3)) {
                        self.stmt(1, &mut scope, false, &ret, "        ", &mut body);
                    }
                    if ret != G::Void {
                        let e = self.expr_of(&ret, self.opts.max_depth, &scope);
                        body.push_str(&format!("        return {};\n", e));
                    }
                    text.push_str(&format!("    {} {}({})\n    {{\n{}    }}\n", self.tname(&ret), mname, decl.join(", "), body));
                    // callable by its bare name from the methods that follow
                    self.funcs.push(FnSig { name: mname.clone(), ret: ret.clone(), params: ptys.iter().enumerate().map(|(k, g)| (format!("a{}", k), 0u8, g.clone(), false)).collect(), overloaded: false });
                    sigs.push((mname, ret, ptys));
                }
                self.funcs = saved_funcs;
                self.methods.push(sigs);
                text.push_str("};\n");
                out.push_str(&text);
            }
        }
        // function templates (instantiated at their call sites)
        if self.rng.chance(1, 3) {
            for _ in 0..(1 + self.rng.below(2)) {
                let name = self.fresh("tm");
                let sel = self.rng.chance(1, 2);
                if sel {
                    out.push_str(&format!("template<typename T> T {}(T a, T b, bool c)\n{{\n    T r = c ? a : b;\n    return c ? r : (a + b);\n}}\n", name));
                } else {
                    let body = *self.rng.pick(&["return a * a - b;", "T r = a + b;\n    r += a;\n    return r;", "return -a + b;"]);
                    out.push_str(&format!("template<typename T> T {}(T a, T b)\n{{\n    {}\n}}\n", name, body));
                }
                let qualified = self.q(&name);
                self.templates.push((qualified, sel));
            }
        }
        let ng = self.rng.below(4);
        for _ in 0..ng {
            let g = self.any_type(true);
            let n = self.fresh("g");
            let is_const = self.rng.chance(1, 3);
            out.push_str(&format!("static {}{} = {};\n", if is_const { "const " } else { "" }, self.decl(&g, &n), self.const_init(&g)));
            let qualified = self.q(&n);
            self.globals.push(VarInfo { name: qualified, ty: g, assignable: !is_const });
        }
        if self.ns.is_some() {
            // sometimes a helper function lives in the namespace as well
            if self.rng.chance(1, 2) {
                self.function(&mut out, None);
            }
            out.push_str("}\n");
            self.ns = None;
        }
        out.push('\n');
        // an overload set now and then
        if self.rng.chance(1, 3) {
            let name = self.fresh("ov");
            let mut seen: Vec<G> = Vec::new();
            for _ in 0..(2 + self.rng.below(2)) {
                let g = self.numeric();
                if !seen.contains(&g) {
                    seen.push(g.clone());
                    self.function(&mut out, Some((name.clone(), g)));
                }
            }
        }
        let nf = 1 + self.rng.below(3);
        for _ in 0..nf {
            self.function(&mut out, None);
        }
        out
    }
}

import RsslVerif.Spec.Meta
import RsslVerif.Thm.C06
/-! Helper lemmas for C05: the metadata entries are the externally bound declarations, group by group. -/
namespace RsslVerif.Lemmas.Meta
open RsslVerif.Gen.SlotTables RsslVerif.Gen.MetaTables RsslVerif.Model.Slots RsslVerif.Model.Meta RsslVerif.Spec.Meta
open RsslVerif.Spec.Slots (bound group)

/-- entries of bind group `g` (none when the group vector is shorter) -/
def bindingsAt (gs : List Group) (g : Nat) : List Entry :=
  match gs[g]? with
  | some grp => grp.bindings
  | none => []

theorem bindingsAt_nil (g : Nat) : bindingsAt [] g = [] := by simp [bindingsAt]

theorem bindingsAt_addAt (n : Nat) (e : Entry) : ∀ (gs : List Group) (m : Nat),
    bindingsAt (addAt n e gs) m = bindingsAt gs m ++ (if m = n then [e] else []) := by
  induction n with
  | zero =>
    intro gs m
    cases gs with
    | nil => cases m <;> simp [addAt, bindingsAt]
    | cons g gs => cases m <;> simp [addAt, bindingsAt]
  | succ n ih =>
    intro gs m
    cases gs with
    | nil =>
      cases m with
      | zero => simp [addAt, bindingsAt, Group.empty]
      | succ m =>
        have := ih [] m
        simp only [bindingsAt_nil, List.nil_append] at this
        simp only [addAt, bindingsAt, List.getElem?_cons_succ, List.getElem?_nil, List.nil_append,
          Nat.add_right_cancel_iff]
        simpa [bindingsAt] using this
    | cons g gs =>
      cases m with
      | zero => simp [addAt, bindingsAt]
      | succ m =>
        have := ih gs m
        simp only [addAt, bindingsAt, List.getElem?_cons_succ, Nat.add_right_cancel_iff]
        simpa [bindingsAt] using this

theorem bindingsAt_registerAll (evs : List (Nat × Entry)) : ∀ (gs : List Group) (g : Nat),
    bindingsAt (registerAll evs gs) g = bindingsAt gs g ++ (evs.filter (fun x => x.1 == g)).map (·.2) := by
  induction evs with
  | nil => intro gs g; simp [registerAll]
  | cons x r ih =>
    intro gs g
    obtain ⟨n, e⟩ := x
    simp only [registerAll, ih, bindingsAt_addAt, List.filter_cons]
    by_cases h : g = n
    · subst h; simp
    · have h' : ¬ n = g := fun e => h e.symm
      simp [h, h']

theorem bindingsAt_setInline {gs gs' : List Group} {b : InlineBuf} (h : setInline gs b = .ok gs') (g : Nat) :
    bindingsAt gs' g = bindingsAt gs g := by
  cases hget : gs[b.set]? with
  | none => simp [setInline, hget] at h
  | some grp =>
    simp only [setInline, hget] at h
    split at h
    · cases h
    · split at h
      · cases h
      · split at h
        · cases h
        · simp only [Except.ok.injEq] at h
          subst h
          unfold bindingsAt
          by_cases hg : g = b.set
          · subst hg
            obtain ⟨hlt, heq⟩ := List.getElem?_eq_some_iff.1 hget
            simp [hlt, heq]
          · have hg' : ¬ b.set = g := fun e => hg e.symm
            simp [hg']

theorem bindingsAt_setInlines : ∀ {bs : List InlineBuf} {gs gs' : List Group},
    setInlines gs bs = .ok gs' → ∀ g, bindingsAt gs' g = bindingsAt gs g := by
  intro bs
  induction bs with
  | nil => intro gs gs' h g; simp [setInlines] at h; subst h; rfl
  | cons b bs ih =>
    intro gs gs' h g
    unfold setInlines at h
    split at h
    · cases h
    · rename_i gs1 h1
      rw [ih h g, bindingsAt_setInline h1 g]

/-- what both `analyse_bindings` have in common: no api slot, no entry; an api slot on a cbuffer or global
    registers one entry, in the slot's group, under the declaration's name -/
def EvOk (ev : MDecl → Option Binding → Except String (Option (Nat × Entry))) : Prop :=
  ∀ d ob o, ev d ob = .ok o →
    (ob = none → o = none) ∧
    (∀ b, ob = some b → d ≠ .other → ∃ e, o = some (b.set, e) ∧ e.name = d.name ∧ e.loc = b.loc)

theorem hlslEvent_ok : EvOk hlslEvent := by
  intro d ob o h
  cases d with
  | other => simp [hlslEvent] at h; subst h; exact ⟨fun _ => rfl, fun b _ hd => absurd rfl hd⟩
  | cbuffer n s =>
    cases ob with
    | none => simp [hlslEvent] at h; subst h; exact ⟨fun _ => rfl, fun b hb => by cases hb⟩
    | some b =>
      simp [hlslEvent] at h; subst h
      refine ⟨fun hb => (by cases hb), ?_⟩
      intro b' hb _
      cases hb
      exact ⟨_, rfl, rfl, rfl⟩
  | global n s ss k arr bl st =>
    simp only [hlslEvent] at h
    split at h
    · cases h
    · cases ob with
      | none => simp at h; subst h; exact ⟨fun _ => rfl, fun b hb => by cases hb⟩
      | some b =>
        simp at h; subst h
        refine ⟨fun hb => (by cases hb), ?_⟩
        intro b' hb _
        cases hb
        exact ⟨_, rfl, rfl, rfl⟩

theorem mslEvent_ok (u : Bool) : EvOk (mslEvent u) := by
  intro d ob o h
  cases d with
  | other => simp [mslEvent] at h; subst h; exact ⟨fun _ => rfl, fun b _ hd => absurd rfl hd⟩
  | cbuffer n s =>
    cases ob with
    | none => simp [mslEvent] at h; subst h; exact ⟨fun _ => rfl, fun b hb => by cases hb⟩
    | some b =>
      simp only [mslEvent] at h
      split at h
      · cases h
      · split at h
        · cases h
        · simp at h; subst h
          refine ⟨fun hb => (by cases hb), ?_⟩
          intro b' hb _
          cases hb
          exact ⟨_, rfl, rfl, rfl⟩
  | global n s ss k arr bl st =>
    simp only [mslEvent] at h
    split at h
    · cases h
    · cases ob with
      | none => simp at h; subst h; exact ⟨fun _ => rfl, fun b hb => by cases hb⟩
      | some b =>
        simp only at h
        split at h
        · cases h
        · simp at h; subst h
          refine ⟨fun hb => (by cases hb), ?_⟩
          intro b' hb _
          cases hb
          exact ⟨_, rfl, rfl, rfl⟩

/-- names of the externally bound declarations of group `g`, in declaration order -/
def boundNames (p : Params) (dflt g : Nat) (ds : List MDecl) : List String :=
  (ds.filter fun d => externallyBound p d && (group dflt d.toSlot == g)).map MDecl.name

theorem toSlot_other {d : MDecl} (h : bound p d.toSlot = true) : d ≠ .other := by
  intro hd; subst hd; simp [MDecl.toSlot, bound] at h

/-- the registrations of group `g` are the externally bound declarations of group `g`, in order -/
theorem events_names {p : Params} {dflt : Nat}
    {ev : Nat → MDecl → Option Binding → Except String (Option (Nat × Entry))} (hev : ∀ i, EvOk (ev i)) (g : Nat) :
    ∀ (ds : List MDecl) (bs : List (Option Binding)) (i : Nat) (evs : List (Nat × Entry)),
      RsslVerif.Thm.C06.Agrees p dflt (ds.map MDecl.toSlot) bs → events ev i ds bs = .ok evs →
      ((evs.filter (fun x => x.1 == g)).map (·.2.name)) = boundNames p dflt g ds := by
  intro ds
  induction ds with
  | nil =>
    intro bs i evs _ h
    cases bs <;> (simp [events] at h; subst h; simp [boundNames])
  | cons d ds ih =>
    intro bs i evs hag h
    cases bs with
    | nil => simp [RsslVerif.Thm.C06.Agrees] at hag
    | cons ob bs =>
      simp only [List.map_cons, RsslVerif.Thm.C06.Agrees] at hag
      obtain ⟨hd, hrest⟩ := hag
      unfold events at h
      split at h
      · cases h
      · rename_i o ho
        split at h
        · cases h
        · rename_i r hr
          simp only [Except.ok.injEq] at h
          have ihr := ih bs (i + 1) r hrest hr
          obtain ⟨hnone, hsome⟩ := hev i d ob o ho
          cases ob with
          | none =>
            have hb : bound p d.toSlot = false := hd
            have : o = none := hnone rfl
            subst this
            simp only at h
            subst h
            simp [boundNames, externallyBound, hb] at ihr ⊢
            exact ihr
          | some b =>
            obtain ⟨hb, hset, _⟩ := hd
            obtain ⟨e, rfl, hname, _⟩ := hsome b rfl (toSlot_other hb)
            simp only at h
            subst h
            simp only [boundNames, List.filter_cons, externallyBound, hb, Bool.true_and] at ihr ⊢
            rw [← hset]
            by_cases hg : b.set = g
            · simp [hg, hname, ihr]
            · simp [hg, ihr]

/-! ### the per-group sort of the Metal exporter -/

theorem insertEntry_perm (e : Entry) (k : Nat) : ∀ xs, (insertEntry e k xs).Perm ((k, e) :: xs) := by
  intro xs
  induction xs with
  | nil => exact List.Perm.refl _
  | cons x xs ih =>
    obtain ⟨k', x'⟩ := x
    unfold insertEntry
    split
    · exact List.Perm.refl _
    · exact (List.Perm.cons _ ih).trans (List.Perm.swap _ _ _)

theorem sortKeyed_perm : ∀ xs, (sortKeyed xs).Perm xs := by
  intro xs
  induction xs with
  | nil => exact List.Perm.refl _
  | cons x xs ih =>
    obtain ⟨k, e⟩ := x
    exact (insertEntry_perm e k _).trans (List.Perm.cons _ ih)

theorem keyed_map : ∀ {es : List Entry} {ks : List (Nat × Entry)}, keyed es = some ks → ks.map (·.2) = es := by
  intro es
  induction es with
  | nil => intro ks h; simp [keyed] at h; subst h; rfl
  | cons e es ih =>
    intro ks h
    unfold keyed at h
    split at h
    · rename_i k r _ hr
      simp only [Option.some.injEq] at h
      subst h
      simp [ih hr]
    · cases h

theorem sortGroup_perm {g g' : Group} (h : sortGroup g = .ok g') :
    g'.bindings.Perm g.bindings ∧ g'.inlineConstants = g.inlineConstants := by
  unfold sortGroup at h
  split at h
  · split at h
    · cases h; exact ⟨List.Perm.refl _, rfl⟩
    · cases h
  · rename_i ks hk
    cases h
    refine ⟨?_, rfl⟩
    have := (sortKeyed_perm ks).map (·.2)
    rwa [keyed_map hk] at this

/-- sorting preserves the stable order when the keys are already non-decreasing -/
theorem insertEntry_le (e : Entry) (k : Nat) : ∀ xs : List (Nat × Entry), (∀ x ∈ xs, k ≤ x.1) →
    insertEntry e k xs = (k, e) :: xs := by
  intro xs h
  cases xs with
  | nil => rfl
  | cons x xs =>
    obtain ⟨k', x'⟩ := x
    have : k ≤ k' := h (k', x') (by simp)
    simp [insertEntry, this]

theorem sortKeyed_sorted : ∀ xs : List (Nat × Entry), xs.Pairwise (fun a b => a.1 ≤ b.1) → sortKeyed xs = xs := by
  intro xs
  induction xs with
  | nil => intro _; rfl
  | cons x xs ih =>
    intro h
    obtain ⟨k, e⟩ := x
    rw [List.pairwise_cons] at h
    simp only [sortKeyed, ih h.2]
    exact insertEntry_le e k xs (fun y hy => h.1 y hy)

theorem sortGroups_at : ∀ {gs gs' : List Group}, sortGroups gs = .ok gs' →
    gs'.length = gs.length ∧ ∀ g, (bindingsAt gs' g).Perm (bindingsAt gs g) := by
  intro gs
  induction gs with
  | nil => intro gs' h; simp [sortGroups] at h; subst h; exact ⟨rfl, fun g => List.Perm.refl _⟩
  | cons x xs ih =>
    intro gs' h
    unfold sortGroups at h
    split at h
    · rename_i g1 gs1 h1 h2
      cases h
      obtain ⟨hl, hp⟩ := ih h2
      refine ⟨by simp [hl], ?_⟩
      intro g
      cases g with
      | zero => simpa [bindingsAt] using (sortGroup_perm h1).1
      | succ g => simpa [bindingsAt] using hp g
    · cases h
    · cases h

/-! ### the annotation printers never panic on the allocator's output -/

/-- what `process_definition` guarantees about the binding it stores on a declaration -/
def GoodFor (p : Params) (d : Decl) (b : Binding) : Prop :=
  match b.loc with
  | .index _ => b.slotType.isSome = p.requireSlotType
  | .inline _ => b.slotType = none ∧ p.supportBufferAddress = true ∧ ∃ s ss k l, d = .global s ss (some k) l

theorem step_good {p : Params} {dflt : Nat} {st st' : State} {d : Decl} {b : Binding}
    (h : step p dflt st d = .ok (st', some b)) : GoodFor p d b := by
  cases d with
  | other => simp [step] at h
  | cbuffer s =>
    simp [step, Counter.bump] at h
    obtain ⟨_, rfl⟩ := h
    cases hr : p.requireSlotType <;> simp [GoodFor, hr]
  | global s ss k l =>
    unfold step at h
    simp only [] at h
    split at h
    · cases h
    · split at h
      · cases h
      · rename_i k'
        -- `registerType k'`: a non-resource object kind is left alone
        split at h
        · simp at h
        · split at h
          · simp only [Counter.bump, Except.ok.injEq, Prod.mk.injEq, Option.some.injEq] at h
            obtain ⟨_, rfl⟩ := h
            have hc : (p.supportBufferAddress && isBufferAddress k' && l.isNone) = true := by assumption
            simp only [Bool.and_eq_true] at hc
            exact ⟨rfl, hc.1.1, s, ss, k', l, rfl⟩
          · simp only [Counter.bump, Except.ok.injEq, Prod.mk.injEq, Option.some.injEq] at h
            obtain ⟨_, rfl⟩ := h
            cases hr : p.requireSlotType <;> simp [GoodFor, hr]

def AllGood (p : Params) : List Decl → List (Option Binding) → Prop
  | d :: ds, ob :: bs => (∀ b, ob = some b → GoodFor p d b) ∧ AllGood p ds bs
  | _, _ => True

theorem run_good {p : Params} {dflt : Nat} : ∀ {ds : List Decl} {st st' : State} {bs : List (Option Binding)},
    run p dflt st ds = .ok (st', bs) → AllGood p ds bs := by
  intro ds
  induction ds with
  | nil => intro st st' bs h; simp [run] at h; obtain ⟨_, rfl⟩ := h; trivial
  | cons d ds ih =>
    intro st st' bs h
    unfold run at h
    split at h
    · cases h
    · rename_i st1 ob hstep
      split at h
      · cases h
      · rename_i st2 bs' hrun
        cases h
        exact ⟨fun b hb => by subst hb; exact step_good hstep, ih hrun⟩

theorem assign_good {p : Params} {dflt : Nat} {ds : List Decl} {res : Result} (h : assign p dflt ds = .ok res) :
    AllGood p ds res.bindings := by
  unfold assign at h
  split at h
  · cases h
  · rename_i st bs hrun
    cases h
    exact run_good hrun

/-- the parameter sets of the two HLSL flavours: register classes are requested only without buffer addresses -/
def HlslParams (p : Params) : Prop := p.requireSlotType = true → p.supportBufferAddress = false

theorem vkAnnot_ok {b : Binding} (h1 : b.slotType = none) {i : Nat} (h2 : b.loc = .index i) :
    vkAnnot (some b) = .ok (some (.vk i b.set)) := by
  simp [vkAnnot, h1, h2]

theorem regAnnot_ok {b : Binding} {r : RegT} (h1 : b.slotType = some r) {i : Nat} (h2 : b.loc = .index i) :
    regAnnot (some b) = .ok (some (.reg r i b.set)) := by
  simp [regAnnot, h1, h2]

/-- on a binding the allocator produced, the cbuffer/extern-global annotation is printed without panic -/
theorem slotAnnot_total {p : Params} (hp : HlslParams p) {d : Decl} {b : Binding} (hg : GoodFor p d b)
    {i : Nat} (hl : b.loc = .index i) :
    ∃ a, (if requiresVk p then vkAnnot (some b) else regAnnot (some b)) = .ok (some a) := by
  simp only [GoodFor, hl] at hg
  cases hr : p.requireSlotType with
  | true =>
    have hs := hp hr
    rw [hr] at hg
    obtain ⟨r, hr'⟩ := Option.isSome_iff_exists.1 hg
    exact ⟨.reg r i b.set, by simp [requiresVk, hr, hs, regAnnot_ok hr' hl]⟩
  | false =>
    rw [hr] at hg
    have hn : b.slotType = none := by cases h : b.slotType <;> simp_all
    exact ⟨.vk i b.set, by simp [requiresVk, hr, vkAnnot_ok hn hl]⟩

theorem hlslAnnot_total {p : Params} (hp : HlslParams p) (d : MDecl) (ob : Option Binding)
    (hg : ∀ b, ob = some b → GoodFor p d.toSlot b) : ∃ o, hlslAnnot p d ob = .ok o := by
  cases d with
  | other => exact ⟨_, rfl⟩
  | cbuffer n s =>
    cases ob with
    | none => simp only [hlslAnnot]; split <;> exact ⟨_, rfl⟩
    | some b =>
      have hb := hg b rfl
      cases hl : b.loc with
      | index i =>
        obtain ⟨a, ha⟩ := slotAnnot_total hp hb hl
        exact ⟨_, by simpa [hlslAnnot] using ha⟩
      | inline o =>
        simp only [GoodFor, hl, MDecl.toSlot] at hb
        obtain ⟨_, _, _, _, _, _, h⟩ := hb
        cases h
  | global n s ss k arr bl st =>
    cases ob with
    | none =>
      simp only [hlslAnnot, storageAfter]
      by_cases hst : (st == Storage.extern) = true
      · by_cases hv : requiresVk p = true
        · exact ⟨none, by simp [hst, hv, vkAnnot]⟩
        · exact ⟨none, by simp [hst, hv, regAnnot]⟩
      · exact ⟨none, by simp [hst]⟩
    | some b =>
      have hb := hg b rfl
      obtain ⟨bs, bl', bt⟩ := b
      cases bl' with
      | inline o => exact ⟨_, rfl⟩
      | index i =>
        simp only [hlslAnnot, storageAfter]
        by_cases hst : (st == Storage.extern) = true
        · obtain ⟨a, ha⟩ := slotAnnot_total (b := ⟨bs, .index i, bt⟩) hp hb rfl
          exact ⟨some a, by simp only [hst, if_true]; exact ha⟩
        · exact ⟨none, by simp [hst]⟩

theorem annots_total {p : Params} (hp : HlslParams p) : ∀ (ds : List MDecl) (bs : List (Option Binding)),
    AllGood p (ds.map MDecl.toSlot) bs → ∃ r, annots (hlslAnnot p) ds bs = .ok r := by
  intro ds
  induction ds with
  | nil => intro bs _; cases bs <;> exact ⟨_, rfl⟩
  | cons d ds ih =>
    intro bs hg
    cases bs with
    | nil => exact ⟨_, rfl⟩
    | cons ob bs =>
      simp only [List.map_cons, AllGood] at hg
      obtain ⟨o, ho⟩ := hlslAnnot_total hp d ob hg.1
      obtain ⟨r, hr⟩ := ih bs hg.2
      cases o with
      | none => exact ⟨r, by simp [annots, ho, hr]⟩
      | some a => exact ⟨(d.name, a) :: r, by simp [annots, ho, hr]⟩

/-! ### the Metal sort is the identity on the allocator's output (C06: slots tile in declaration order) -/

open RsslVerif.Spec.Slots

theorem tiles_sorted : ∀ {s : Nat} {rs : List (Nat × Nat)} {e : Nat}, TilesTo s rs e →
    (∀ r ∈ rs, s ≤ r.1) ∧ rs.Pairwise (fun a b => a.1 ≤ b.1) := by
  intro s rs e h
  induction h with
  | nil s => exact ⟨by simp, List.Pairwise.nil⟩
  | cons s c e r _ ih =>
    obtain ⟨h1, h2⟩ := ih
    refine ⟨?_, ?_⟩
    · intro x hx
      rcases List.mem_cons.1 hx with rfl | hx
      · exact Nat.le_refl _
      · exact Nat.le_trans (Nat.le_add_right s c) (h1 x hx)
    · exact List.Pairwise.cons (fun x hx => Nat.le_trans (Nat.le_add_right s c) (h1 x hx)) h2

/-- locations of the bindings of group `g`, in declaration order -/
def locsOf (g : Nat) : List (Option Binding) → List Loc
  | [] => []
  | none :: bs => locsOf g bs
  | some b :: bs => (if b.set = g then [b.loc] else []) ++ locsOf g bs

theorem events_locs {p : Params} {dflt : Nat}
    {ev : Nat → MDecl → Option Binding → Except String (Option (Nat × Entry))} (hev : ∀ i, EvOk (ev i)) (g : Nat) :
    ∀ (ds : List MDecl) (bs : List (Option Binding)) (i : Nat) (evs : List (Nat × Entry)),
      RsslVerif.Thm.C06.Agrees p dflt (ds.map MDecl.toSlot) bs → events ev i ds bs = .ok evs →
      ((evs.filter (fun x => x.1 == g)).map (·.2.loc)) = locsOf g bs := by
  intro ds
  induction ds with
  | nil =>
    intro bs i evs hag h
    cases bs with
    | nil => simp [events] at h; subst h; simp [locsOf]
    | cons _ _ => simp [RsslVerif.Thm.C06.Agrees] at hag
  | cons d ds ih =>
    intro bs i evs hag h
    cases bs with
    | nil => simp [RsslVerif.Thm.C06.Agrees] at hag
    | cons ob bs =>
      simp only [List.map_cons, RsslVerif.Thm.C06.Agrees] at hag
      obtain ⟨hd, hrest⟩ := hag
      unfold events at h
      split at h
      · cases h
      · rename_i o ho
        split at h
        · cases h
        · rename_i r hr
          simp only [Except.ok.injEq] at h
          have ihr := ih bs (i + 1) r hrest hr
          obtain ⟨hnone, hsome⟩ := hev i d ob o ho
          cases ob with
          | none =>
            have : o = none := hnone rfl
            subst this
            simp only at h
            subst h
            simpa [locsOf] using ihr
          | some b =>
            obtain ⟨hb, _, _⟩ := hd
            obtain ⟨e, rfl, _, hloc⟩ := hsome b rfl (toSlot_other hb)
            simp only at h
            subst h
            simp only [List.filter_cons, locsOf]
            by_cases hg : b.set = g
            · simp [hg, hloc, ihr]
            · simp [hg, ihr]

theorem indexRanges_locs {p : Params} {dflt : Nat} (g : Nat) :
    ∀ (ds : List Decl) (bs : List (Option Binding)),
      RsslVerif.Thm.C06.Agrees p dflt ds bs → (∀ b, some b ∈ bs → ∃ i, b.loc = .index i) →
      (indexRanges p g ds bs).map (fun r => Loc.index r.1) = locsOf g bs := by
  intro ds
  induction ds with
  | nil =>
    intro bs hag _
    cases bs with
    | nil => simp [indexRanges, locsOf]
    | cons _ _ => simp [RsslVerif.Thm.C06.Agrees] at hag
  | cons d ds ih =>
    intro bs hag hall
    cases bs with
    | nil => simp [RsslVerif.Thm.C06.Agrees] at hag
    | cons ob bs =>
      simp only [RsslVerif.Thm.C06.Agrees] at hag
      have ihr := ih bs hag.2 (fun b hb => hall b (by simp [hb]))
      cases ob with
      | none => simpa [indexRanges, locsOf] using ihr
      | some b =>
        obtain ⟨i, hi⟩ := hall b (by simp)
        simp only [indexRanges, locsOf, hi, List.map_append, ihr]
        by_cases hg : b.set = g <;> simp [hg]

theorem keyed_of_locs : ∀ (es : List Entry) (ks : List Nat), es.map (·.loc) = ks.map Loc.index →
    keyed es = some (ks.zip es) := by
  intro es
  induction es with
  | nil => intro ks h; cases ks <;> simp [keyed] at h ⊢
  | cons e es ih =>
    intro ks h
    cases ks with
    | nil => simp at h
    | cons k ks =>
      simp only [List.map_cons, List.cons.injEq] at h
      simp [keyed, h.1, locIndex, ih ks h.2]

theorem pairwise_zip_fst (ks : List Nat) : ∀ (es : List Entry), ks.Pairwise (· ≤ ·) →
    (ks.zip es).Pairwise (fun a b => a.1 ≤ b.1) := by
  induction ks with
  | nil => intro es _; simp
  | cons k ks ih =>
    intro es h
    cases es with
    | nil => simp
    | cons e es =>
      rw [List.pairwise_cons] at h
      simp only [List.zip_cons_cons]
      refine List.Pairwise.cons ?_ (ih es h.2)
      intro x hx
      exact h.1 x.1 (List.of_mem_zip (a := x.1) (b := x.2) hx).1

/-- a group whose slots are non-decreasing in registration order is left as it is by the Metal sort -/
theorem sortGroup_id {g : Group} {ks : List Nat} (hl : g.bindings.map (·.loc) = ks.map Loc.index)
    (hs : ks.Pairwise (· ≤ ·)) : sortGroup g = .ok g := by
  have hlen : ks.length = g.bindings.length := by
    have := congrArg List.length hl; simpa using this.symm
  unfold sortGroup
  rw [keyed_of_locs _ _ hl]
  simp only [sortKeyed_sorted _ (pairwise_zip_fst ks _ hs)]
  have : (ks.zip g.bindings).map (·.2) = g.bindings := by
    rw [List.map_snd_zip]; omega
  rw [this]

theorem sortGroups_id : ∀ (gs : List Group), (∀ g ∈ gs, sortGroup g = .ok g) → sortGroups gs = .ok gs := by
  intro gs
  induction gs with
  | nil => intro _; rfl
  | cons g gs ih =>
    intro h
    simp [sortGroups, h g (by simp), ih (fun x hx => h x (by simp [hx]))]

/-- the per-group sort fails only with the panic of its comparator -/
theorem sortGroups_error : ∀ (gs : List Group) (e : String), sortGroups gs = .error e →
    e = "panic: inline constant in an argument buffer" := by
  intro gs
  induction gs with
  | nil => intro e h; simp [sortGroups] at h
  | cons g gs ih =>
    intro e h
    unfold sortGroups at h
    split at h
    · cases h
    · rename_i e' hg
      simp only [Except.error.injEq] at h
      subst h
      unfold sortGroup at hg
      split at hg
      · split at hg
        · cases hg
        · simp only [Except.error.injEq] at hg; exact hg.symm
      · cases hg
    · rename_i e' hg' _
      simp only [Except.error.injEq] at h
      subst h
      exact ih _ hg'

theorem all_index {p : Params} {dflt : Nat} (hsba : p.supportBufferAddress = false) :
    ∀ (ds : List Decl) (bs : List (Option Binding)), RsslVerif.Thm.C06.Agrees p dflt ds bs → AllGood p ds bs →
      ∀ b, some b ∈ bs → ∃ i, b.loc = .index i := by
  intro ds
  induction ds with
  | nil => intro bs hag _ b hb; cases bs <;> simp_all [RsslVerif.Thm.C06.Agrees]
  | cons d ds ih =>
    intro bs hag hgood b hb
    cases bs with
    | nil => simp at hb
    | cons ob bs =>
      simp only [RsslVerif.Thm.C06.Agrees] at hag
      simp only [AllGood] at hgood
      rcases List.mem_cons.1 hb with h | h
      · have hg := hgood.1 b h.symm
        cases hl : b.loc with
        | index i => exact ⟨i, rfl⟩
        | inline o =>
          simp only [GoodFor, hl] at hg
          rw [hsba] at hg
          exact absurd hg.2.1 (by simp)
      · exact ih bs hag.2 hgood.2 b h


end RsslVerif.Lemmas.Meta

import RsslVerif.Model.FixpointBridge
import RsslVerif.Model.FixpointNames
import RsslVerif.Driver.C01
import RsslVerif.Driver.Util
/-!
Line-protocol front end of the C04 model.

`C04.reelab <source> <ctx> <ir>`: parses the first-generation IR (the serialisation of C01, reusing its reader),
erases it to the C03 expression type (`FixpointBridge.erase`), and for every expression position predicts what the real
front end makes of the exported text: `Fixpoint.unelab` (the exporter as the front end reads it), `Elab.elabTop`
(C03's model of `parse_expr`) in the environment of the exported program (`Fixpoint.uniqueNames`), then the conversion
the position asks for.  Printed in the form the harness prints the real second-generation IR.
`C04.names <descriptor> <printed names>`: `Model.FixpointNames.predict` — which entity every qualified / unqualified use
of the descriptor program is looked up to in the first generation and, through the emitted root-relative paths, in the
second.
`C04.fix` requests have no model side (the whole-program fixpoint is the property's own oracle).
-/
namespace RsslVerif.Driver.C04
open RsslVerif.Gen.RankTable RsslVerif.Gen.TypingTables
open RsslVerif.Model RsslVerif.Model.Conv RsslVerif.Model.Overload RsslVerif.Model.IrTyping RsslVerif.Model.Elab
open RsslVerif.Model.Fixpoint RsslVerif.Model.FixpointBridge RsslVerif.Driver RsslVerif.Driver.C01

structure Tab where
  /-- position ↦ (variable, emitted name, type) -/
  vars : List (Ir.Var × String × Ir.Ty)
  /-- position ↦ (function id, emitted name) -/
  funcs : List (Nat × String)

def Tab.idx (t : Tab) : Idx where
  var v := t.vars.findIdx? (·.1 == v)
  func f := t.funcs.findIdx? (·.1 == f)

def kindName : Scalar → String
  | .bool => "bool" | .intLiteral => "intlit" | .int32 => "i32" | .uInt32 => "u32"
  | .floatLiteral => "flit" | .float32 => "f32" | .float16 => "f16" | .float64 => "f64"

def tyName (t : Ty) : String :=
  if t.mod ≠ {} then "?modified" else
  match t.layer with
  | .scalar .bool => "bool" | .scalar .int32 => "int" | .scalar .uInt32 => "uint" | .scalar .float32 => "float"
  | .scalar .intLiteral => "lit" | .scalar .floatLiteral => "flit"
  | _ => "?type"

mutual
def showI (t : Tab) : IExpr → String
  | .lit k => "(lit " ++ kindName k ++ ")"
  | .var i =>
    match t.vars[i]? with
    | some (.loc _, n, _) => "(var " ++ n ++ ")"
    | some (.glob _, n, _) => "(glob " ++ n ++ ")"
    | none => "(var ?" ++ toString i ++ ")"
  | .tern c a b => "(tern " ++ showI t c ++ " " ++ showI t a ++ " " ++ showI t b ++ ")"
  | .seq a b => "(seq " ++ showI t a ++ " " ++ showI t b ++ ")"
  | .call f args => "(call " ++ ((t.funcs[f]?.map (·.2)).getD ("?f" ++ toString f)) ++ showIs t args ++ ")"
  | .cast ty e => "(cast " ++ tyName ty ++ " " ++ showI t e ++ ")"
  | .op o args => "(op " ++ o.name ++ showIs t args ++ ")"
def showIs (t : Tab) : IArgs → String
  | .nil => ""
  | .cons e r => " " ++ showI t e ++ showIs t r
end

def dirOf : Ir.Dir → InputModifier
  | .in_ => .in | .out => .out | .inout => .inOut

def sigOf (fn : Ir.Func) : FuncSig :=
  { name := fn.id, params := fn.params.map fun (_, d, ty) => ⟨eraseTy ty, dirOf d⟩, nonDefault := fn.params.length,
    ret := eraseTy fn.ret }

/-- one expression position -/
def pos (t : Tab) (Γ' : Env) (ctx : Option ETy) (e : Ir.Expr) : String :=
  match erase t.idx e with
  | none => "(unsupported)"
  | some i1 =>
    match reelabPos Γ' ctx i1 with
    | .ok i2 => showI t i2
    | .error m => "(error " ++ m ++ ")"

def varCtx (t : Tab) (id : Nat) : Option ETy :=
  (t.vars.find? (·.1 == .loc id)).map fun v => (eraseTy v.2.2).unmod.r

def defPos (t : Tab) (Γ' : Env) (d : Nat × Option Ir.Expr) : List String :=
  match d.2 with
  | none => []
  | some e => [pos t Γ' (varCtx t d.1) e]

def optPos (t : Tab) (Γ' : Env) : Option Ir.Expr → List String
  | none => []
  | some e => [pos t Γ' none e]

mutual
partial def stmtPos (t : Tab) (Γ' : Env) : Ir.Stmt → List String
  | .expr e => [pos t Γ' none e]
  | .var id init => defPos t Γ' (id, init)
  | .block b => stmtsPos t Γ' b
  | .ifThen c b => pos t Γ' none c :: stmtsPos t Γ' b
  | .ifElse c x y => pos t Γ' none c :: (stmtsPos t Γ' x ++ stmtsPos t Γ' y)
  | .for init cond inc b =>
    (match init with
      | .empty => []
      | .expr e => [pos t Γ' none e]
      | .defs ds => ds.flatMap (defPos t Γ')) ++ optPos t Γ' cond ++ optPos t Γ' inc ++ stmtsPos t Γ' b
  | .while c b => pos t Γ' none c :: stmtsPos t Γ' b
  | .doWhile b c => stmtsPos t Γ' b ++ [pos t Γ' none c]
  | .ret none => []
  | .ret (some e) =>
    -- `return e` converts to the return type of the function being checked
    [pos t Γ' (Γ'.ret.map fun rt => rt.r) e]
  | .switch _ c b => pos t Γ' none c :: stmtsPos t Γ' b
  | _ => []
partial def stmtsPos (t : Tab) (Γ' : Env) : Ir.Stmts → List String
  | .nil => []
  | .cons s r => stmtPos t Γ' s ++ stmtsPos t Γ' r
end

def handleReelab (ctx ir : String) : String :=
  let items := parseAll ir
  if items.any (Sx.hasHead "unsupported") || (ctx.splitOn "unsupported").length > 1 then
    "unsupported" else
  match parseCtx? ctx, sequenceOpt (items.map parseFunc?) with
  | some inf, some prog =>
    let t : Tab :=
      { vars := inf.vars.map (fun v => (Ir.Var.loc v.1, v.2.1, v.2.2)) ++
                inf.globs.map (fun g => (Ir.Var.glob g.1, g.2.1, g.2.2.1)),
        funcs := prog.map fun f => (f.id, (inf.ctx).funcName f.id) }
    let Γ : Env := { vars := t.vars.map fun v => eraseTy v.2.2, funcs := prog.map sigOf }
    let lines := prog.map fun fn =>
      let Γ' : Env := { uniqueNames Γ with ret := if fn.ret = .void then none else some (eraseTy fn.ret) }
      "fn " ++ (inf.ctx).funcName fn.id ++ ": " ++ " ;; ".intercalate (stmtsPos t Γ' fn.body)
    " || ".intercalate lines
  | _, _ => "bad-request"

def handle (op : String) (args : List String) : String :=
  match op, args with
  | "C04.reelab", [_src, ctx, ir] => if ctx == "-" then "skip" else handleReelab ctx ir
  | "C04.names", [desc, printed] => RsslVerif.Model.FixpointNames.predict desc printed
  | "C04.fix", _ => "unsupported"
  | _, _ => "unsupported-op"

end RsslVerif.Driver.C04

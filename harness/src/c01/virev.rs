//! Reference evaluator of the typed IR for the vector / struct / array / enum stream (`vconv.rs` s-expressions).
//! Typed semantics: every conversion is an explicit `cast` whose meaning depends on the *value's* shape and the
//! target type (casting.rs `DimensionCast`: scalar→vector replicates, vector→scalar takes the first component,
//! vector→shorter vector drops the tail, then each component is converted); operators act component-wise on operands
//! of one shape; swizzles / subscripts / members are places.
#![allow(dead_code)]
use super::eval::{Flow as SFlow, DEPTH, FUEL};
use super::sx::*;
use super::vval::*;
use std::collections::HashMap;

thread_local! {
    pub static VWHY: std::cell::RefCell<Option<String>> = const { std::cell::RefCell::new(None) };
}
pub fn vnote(s: String) {
    VWHY.with(|w| {
        let mut w = w.borrow_mut();
        if w.is_none() {
            *w = Some(s.chars().take(200).collect());
        }
    });
}
pub fn vtake_why() -> String {
    VWHY.with(|w| w.borrow_mut().take()).unwrap_or_default()
}

#[derive(Clone, PartialEq, Debug)]
pub enum VFlow {
    Normal,
    Break,
    Continue,
    Ret(Option<VV>),
}

#[derive(Clone, Copy, PartialEq, Eq, Hash, Debug)]
pub enum Var {
    Loc(u32),
    Glob(u32),
    /// the object the running method was called on
    This,
}

type Store = HashMap<Var, VV>;

pub struct IrV<'a> {
    pub funcs: HashMap<u32, &'a Sx>,
    pub types: Types,
    /// enum value id → value (in the underlying type)
    pub enum_values: HashMap<u32, V>,
    /// global id, type, initialiser
    pub globals: Vec<(u32, Ty, Option<&'a Sx>)>,
}

fn no_user(_: &str) -> Option<Ty> {
    None
}

pub fn ir_ty(sx: &Sx) -> Option<Ty> {
    Ty::parse(sx, &no_user)
}

fn dir_of(s: &str) -> u8 {
    match s {
        "out" => 1,
        "inout" => 2,
        _ => 0,
    }
}

fn ir_scalar_const(e: &Sx) -> Option<V> {
    let k = e.args()[0].atom();
    let v = e.args().get(1)?.atom();
    Some(match k {
        "bool" => V::B(v == "1"),
        "intlit" => V::L(v.parse().ok()?),
        "i32" => V::I(u32::from_str_radix(v, 16).ok()?),
        "u32" => V::U(u32::from_str_radix(v, 16).ok()?),
        "f32" => V::F(u32::from_str_radix(v, 16).ok()?),
        "flit" => V::D(u64::from_str_radix(v, 16).ok()?),
        _ => return None,
    })
}

struct Place {
    root: Var,
    path: Vec<Acc>,
}

impl<'a> IrV<'a> {
    pub fn new(prog: &'a [Sx]) -> Option<Self> {
        let mut me = IrV { funcs: HashMap::new(), types: Types::default(), enum_values: HashMap::new(), globals: Vec::new() };
        for d in prog {
            let x = d.args();
            match d.head() {
                "struct" => {
                    let mut members = Vec::new();
                    for (i, m) in x[1..].iter().filter(|m| m.head() != "method").enumerate() {
                        members.push((i.to_string(), ir_ty(m)?));
                    }
                    me.types.structs.insert(x[0].atom().to_string(), members);
                }
                "enum" => {
                    let under = T::parse(x[1].atom())?;
                    let mut vals = Vec::new();
                    for v in &x[2..] {
                        let id: u32 = v.args()[0].atom().parse().ok()?;
                        let val = cast_val(under, ir_scalar_const(&v.args()[1])?)?;
                        me.enum_values.insert(id, val);
                        vals.push((id.to_string(), val));
                    }
                    me.types.enums.insert(x[0].atom().to_string(), (under, vals));
                }
                "global" => {
                    let id: u32 = x[0].atom().parse().ok()?;
                    me.globals.push((id, ir_ty(&x[1])?, x.get(2)));
                }
                "fn" => {
                    me.funcs.insert(x[0].atom().parse().ok()?, d);
                }
                _ => {}
            }
        }
        Some(me)
    }

    fn constant(&self, e: &Sx) -> Option<V> {
        if e.args()[0].atom() == "enum" {
            let (under, _) = self.types.enums.get(e.args()[1].atom())?;
            return cast_val(*under, self.constant(&e.args()[2])?);
        }
        ir_scalar_const(e)
    }

    /// meaning of `Cast(ty, value)` (casting.rs: dimension cast, then primary cast per component)
    pub fn cast(&self, to: &Ty, v: &VV) -> Option<VV> {
        match to {
            Ty::S(t) => {
                let first = match v {
                    VV::S(x) => *x,
                    VV::V(xs) => *xs.first()?,
                    _ => return None,
                };
                Some(VV::S(cast_val(*t, first)?))
            }
            Ty::V(t, n) => {
                let xs: Vec<V> = match v {
                    VV::S(x) => vec![*x; *n],
                    VV::V(xs) if xs.len() == 1 => vec![xs[0]; *n],
                    VV::V(xs) if xs.len() >= *n => xs[..*n].to_vec(),
                    _ => return None,
                };
                Some(VV::V(xs.into_iter().map(|x| cast_val(*t, x)).collect::<Option<Vec<V>>>()?))
            }
            Ty::M(t, r, c) => {
                let xs: Vec<V> = match v {
                    VV::S(x) => vec![*x; r * c],
                    VV::M(r2, c2, xs) if r2 == r && c2 == c => xs.clone(),
                    _ => return None,
                };
                Some(VV::M(*r, *c, xs.into_iter().map(|x| cast_val(*t, x)).collect::<Option<Vec<V>>>()?))
            }
            Ty::Enum(k) => {
                let (under, _) = self.types.enums.get(k)?;
                Some(VV::S(cast_val(*under, v.scalar()?)?))
            }
            // same-type casts of aggregates (modifier changes only); `(S)x` for a scalar x (the `(S)0` idiom): the operand is
            // evaluated once and every scalar element of the struct — element-wise through nested structs, arrays, vectors —
            // receives x converted to the element's type
            Ty::Struct(k) => match v {
                VV::St(_) => Some(v.clone()),
                VV::S(_) => {
                    let members = self.types.structs.get(k)?.clone();
                    Some(VV::St(members.iter().map(|(_, mt)| self.splat(mt, v)).collect::<Option<Vec<_>>>()?))
                }
                _ => None,
            },
            Ty::Arr(..) => if matches!(v, VV::Ar(_)) { Some(v.clone()) } else { None },
            Ty::Void => None,
        }
    }

    /// a scalar spread over every scalar element of an object of type `t` (inside a cast of a scalar to a struct)
    fn splat(&self, t: &Ty, v: &VV) -> Option<VV> {
        match t {
            Ty::Arr(e, n) => Some(VV::Ar((0..*n).map(|_| self.splat(e, v)).collect::<Option<Vec<_>>>()?)),
            _ => self.cast(t, v),
        }
    }

    fn read_var(st: &Store, x: Var) -> VV {
        st.get(&x).cloned().unwrap_or(VV::S(V::Void))
    }

    fn read_place(&self, p: &Place, st: &Store) -> Option<VV> {
        get_path(&Self::read_var(st, p.root), &p.path)
    }

    fn write_place(&self, p: &Place, st: &mut Store, v: VV) -> Option<()> {
        let mut whole = Self::read_var(st, p.root);
        set_path(&mut whole, &p.path, v)?;
        st.insert(p.root, whole);
        Some(())
    }

    fn place(&self, e: &Sx, st: &mut Store, depth: u32) -> Option<Place> {
        let x = e.args();
        match e.head() {
            "var" => Some(Place { root: Var::Loc(x[0].atom().parse().ok()?), path: vec![] }),
            "glob" => Some(Place { root: Var::Glob(x[0].atom().parse().ok()?), path: vec![] }),
            "this" => Some(Place { root: Var::This, path: vec![Acc::Field(x[1].atom().parse().ok()?)] }),
            "swz" => {
                let mut p = self.place(&x[0], st, depth)?;
                p.path.push(Acc::Swz(swizzle_slots(x[1].atom())?));
                Some(p)
            }
            "mswz" => {
                let mut p = self.place(&x[0], st, depth)?;
                p.path.push(Acc::MSwz(self.mslots(&x[1..])?));
                Some(p)
            }
            "mem" => {
                let mut p = self.place(&x[0], st, depth)?;
                p.path.push(Acc::Field(x[2].atom().parse().ok()?));
                Some(p)
            }
            "idx" => {
                let mut p = self.place(&x[0], st, depth)?;
                let i = self.index(&x[1], st, depth)?;
                p.path.push(Acc::Idx(i));
                Some(p)
            }
            _ => None,
        }
    }

    fn mslots(&self, items: &[Sx]) -> Option<Vec<(usize, usize)>> {
        items
            .iter()
            .map(|s| {
                let mut ch = s.atom().chars();
                Some((ch.next()?.to_digit(10)? as usize, ch.next()?.to_digit(10)? as usize))
            })
            .collect()
    }

    fn index(&self, e: &Sx, st: &mut Store, depth: u32) -> Option<usize> {
        match self.eval(e, st, depth)?.scalar()? {
            V::U(i) => Some(i as usize),
            V::I(i) if (i as i32) >= 0 => Some(i as usize),
            V::L(i) if i >= 0 => Some(i as usize),
            _ => None,
        }
    }

    pub fn eval(&self, e: &Sx, st: &mut Store, depth: u32) -> Option<VV> {
        let r = self.eval_inner(e, st, depth);
        if r.is_none() {
            vnote(format!("ir: {}", e.show()));
        }
        r
    }

    fn eval_inner(&self, e: &Sx, st: &mut Store, depth: u32) -> Option<VV> {
        let x = e.args();
        match e.head() {
            "lit" => Some(VV::S(self.constant(e)?)),
            "var" => Some(Self::read_var(st, Var::Loc(x[0].atom().parse().ok()?))),
            "glob" => Some(Self::read_var(st, Var::Glob(x[0].atom().parse().ok()?))),
            "enumval" => Some(VV::S(*self.enum_values.get(&x[0].atom().parse().ok()?)?)),
            "this" => get_acc(st.get(&Var::This)?, &Acc::Field(x[1].atom().parse().ok()?)),
            "cast" => {
                let t = ir_ty(&x[0])?;
                let v = self.eval(&x[1], st, depth)?;
                self.cast(&t, &v)
            }
            "tern" => match self.eval(&x[0], st, depth)? {
                VV::S(V::B(true)) => self.eval(&x[1], st, depth),
                VV::S(V::B(false)) => self.eval(&x[2], st, depth),
                _ => None,
            },
            "seq" => {
                let mut last = None;
                for y in x {
                    last = Some(self.eval(y, st, depth)?);
                }
                last
            }
            "swz" => {
                let o = self.eval(&x[0], st, depth)?;
                get_acc(&o, &Acc::Swz(swizzle_slots(x[1].atom())?))
            }
            "mswz" => {
                let o = self.eval(&x[0], st, depth)?;
                get_acc(&o, &Acc::MSwz(self.mslots(&x[1..])?))
            }
            "mem" => {
                let o = self.eval(&x[0], st, depth)?;
                get_acc(&o, &Acc::Field(x[2].atom().parse().ok()?))
            }
            "idx" => {
                let o = self.eval(&x[0], st, depth)?;
                let i = self.index(&x[1], st, depth)?;
                get_acc(&o, &Acc::Idx(i))
            }
            "intr" => {
                // (intr Name ret (types…) args…): arguments left to right, the uninterpreted built-in at its resolved signature
                let ret = ir_ty(&x[1])?;
                let ptys: Vec<String> = match &x[2] {
                    Sx::L(ts) => ts.iter().map(|t| ir_ty(t).map(|t| t.show())).collect::<Option<Vec<_>>>()?,
                    _ => return None,
                };
                let mut vals = Vec::new();
                for a in &x[3..] {
                    vals.push(self.eval(a, st, depth)?);
                }
                vintr(x[0].atom(), &ptys, &vals, &ret)
            }
            "ctor" => {
                let t = ir_ty(&x[0])?;
                let mut comps = Vec::new();
                for s in &x[1..] {
                    let arity: usize = s.args()[0].atom().parse().ok()?;
                    let v = self.eval(&s.args()[1], st, depth)?.comps()?;
                    if v.len() != arity {
                        return None;
                    }
                    comps.extend(v);
                }
                if comps.len() != t.count() || comps.iter().any(|c| !kind_matches(t.scalar(), *c)) {
                    return None;
                }
                Some(match t {
                    Ty::S(_) => VV::S(comps[0]),
                    Ty::V(_, _) => VV::V(comps),
                    Ty::M(_, r, c) => VV::M(r, c, comps),
                    _ => return None,
                })
            }
            "call" | "icall" | "mcall" => {
                let id: u32 = x[0].atom().parse().ok()?;
                let f = *self.funcs.get(&id)?;
                let params = f.args()[2].args();
                // a method called on an object: the object first (a place when it is one), then the arguments
                let (object, args): (Option<(Option<Place>, VV)>, &[Sx]) = if e.head() == "mcall" {
                    let o = x.get(1)?;
                    let obj = match self.place(o, st, depth) {
                        Some(pl) => {
                            let v = self.read_place(&pl, st)?;
                            (Some(pl), v)
                        }
                        None => (None, self.eval(o, st, depth)?),
                    };
                    (Some(obj), &x[2..])
                } else {
                    (None, &x[1..])
                };
                if args.len() > params.len() {
                    return None;
                }
                let mut vals = Vec::new();
                let mut places: Vec<Option<Place>> = Vec::new();
                for (i, p) in params.iter().enumerate() {
                    let pt = ir_ty(&p.args()[2])?;
                    match args.get(i) {
                        Some(arg) if dir_of(p.args()[1].atom()) == 0 => {
                            vals.push(self.eval(arg, st, depth)?);
                            places.push(None);
                        }
                        Some(arg) => {
                            let pl = self.place(arg, st, depth)?;
                            vals.push(self.read_place(&pl, st)?);
                            places.push(Some(pl));
                        }
                        None => {
                            // default argument: the parameter's default expression, converted to the parameter type
                            let d = p.args().get(3)?;
                            let v = self.eval(d, st, depth)?;
                            vals.push(self.cast(&pt, &v)?);
                            places.push(None);
                        }
                    }
                }
                // `this` of the callee: the object (mcall), the caller's own object (icall), none (free function)
                let saved = st.get(&Var::This).cloned();
                if let Some((_, v)) = &object {
                    st.insert(Var::This, v.clone());
                }
                let result = self.call(id, &vals, st, depth);
                let final_this = st.get(&Var::This).cloned();
                if object.is_some() {
                    match saved {
                        Some(v) => {
                            st.insert(Var::This, v);
                        }
                        None => {
                            st.remove(&Var::This);
                        }
                    }
                }
                let (ret, finals) = result?;
                if let Some((Some(pl), _)) = &object {
                    self.write_place(pl, st, final_this?)?;
                }
                for (pl, v) in places.iter().zip(finals) {
                    if let Some(pl) = pl {
                        self.write_place(pl, st, v)?;
                    }
                }
                Some(ret.unwrap_or(VV::S(V::Void)))
            }
            "op" => {
                let name = x[0].atom();
                let xs = &x[1..];
                match (op_sem(name), xs.len()) {
                    (OpSem::Un(m), 1) => {
                        let v = self.eval(&xs[0], st, depth)?;
                        lift1(&|p| unop(m, p), &v)
                    }
                    (OpSem::IncDec(pre, inc), 1) => {
                        let pl = self.place(&xs[0], st, depth)?;
                        let old = self.read_place(&pl, st)?;
                        let new = lift1(&|p| step(inc, p), &old)?;
                        self.write_place(&pl, st, new.clone())?;
                        Some(if pre { new } else { old })
                    }
                    (OpSem::Bin(m), 2) => {
                        let p = self.eval(&xs[0], st, depth)?;
                        let q = self.eval(&xs[1], st, depth)?;
                        lift2(&|a, b| binop(m, a, b), &p, &q)
                    }
                    (OpSem::Land, 2) | (OpSem::Lor, 2) => {
                        let is_and = op_sem(name) == OpSem::Land;
                        match self.eval(&xs[0], st, depth)? {
                            VV::S(V::B(p)) if p != is_and => Some(VV::S(V::B(p))),
                            VV::S(V::B(_)) => match self.eval(&xs[1], st, depth)? {
                                VV::S(V::B(q)) => Some(VV::S(V::B(q))),
                                _ => None,
                            },
                            _ => None,
                        }
                    }
                    (OpSem::Assign, 2) => {
                        let pl = self.place(&xs[0], st, depth)?;
                        let v = self.eval(&xs[1], st, depth)?;
                        self.write_place(&pl, st, v.clone())?;
                        Some(v)
                    }
                    (OpSem::Compound(m), 2) => {
                        let pl = self.place(&xs[0], st, depth)?;
                        let q = self.eval(&xs[1], st, depth)?;
                        let cur = self.read_place(&pl, st)?;
                        let r = lift2(&|a, b| binop(m, a, b), &cur, &q)?;
                        self.write_place(&pl, st, r.clone())?;
                        Some(r)
                    }
                    _ => None,
                }
            }
            _ => None,
        }
    }

    /// value of an initialiser for an object of type `t` (aggregates follow the structure of the type)
    fn init_value(&self, t: &Ty, i: &Sx, st: &mut Store, depth: u32) -> Option<VV> {
        if i.head() != "agg" {
            return self.eval(i, st, depth);
        }
        let items = i.args();
        match t {
            Ty::V(s, n) if items.len() == *n => {
                let mut xs = Vec::new();
                for it in items {
                    xs.push(self.init_value(&Ty::S(*s), it, st, depth)?.scalar()?);
                }
                Some(VV::V(xs))
            }
            Ty::Arr(e, n) if items.len() == *n => {
                let mut xs = Vec::new();
                for it in items {
                    xs.push(self.init_value(e, it, st, depth)?);
                }
                Some(VV::Ar(xs))
            }
            Ty::Struct(k) => {
                let members = self.types.structs.get(k)?.clone();
                if members.len() != items.len() {
                    return None;
                }
                let mut xs = Vec::new();
                for ((_, mt), it) in members.iter().zip(items) {
                    xs.push(self.init_value(mt, it, st, depth)?);
                }
                Some(VV::St(xs))
            }
            Ty::S(_) if items.len() == 1 => self.init_value(t, &items[0], st, depth),
            _ => None,
        }
    }

    fn cond(&self, e: &Sx, st: &mut Store, depth: u32) -> Option<bool> {
        if e.head() == "none" {
            return Some(true);
        }
        match cast_val(T::Bool, self.eval(e, st, depth)?.scalar()?)? {
            V::B(x) => Some(x),
            _ => None,
        }
    }

    /// `<id> <ty> <init>?`
    fn vardef(&self, d: &[Sx], st: &mut Store, depth: u32) -> Option<()> {
        let id: u32 = d[0].atom().parse().ok()?;
        let t = ir_ty(&d[1])?;
        let v = match d.get(2) {
            Some(i) => self.init_value(&t, i, st, depth)?,
            None => self.types.undef(&t)?,
        };
        st.insert(Var::Loc(id), v);
        Some(())
    }

    fn block(&self, b: &Sx, st: &mut Store, depth: u32) -> Option<VFlow> {
        for s in b.args() {
            match self.exec(s, st, depth)? {
                VFlow::Normal => {}
                other => return Some(other),
            }
        }
        Some(VFlow::Normal)
    }

    pub fn exec(&self, s: &Sx, st: &mut Store, depth: u32) -> Option<VFlow> {
        let r = self.exec_inner(s, st, depth);
        if r.is_none() {
            vnote(format!("ir stmt: {}", s.show()));
        }
        r
    }

    fn exec_inner(&self, s: &Sx, st: &mut Store, depth: u32) -> Option<VFlow> {
        let x = s.args();
        match s.head() {
            "expr" => {
                self.eval(&x[0], st, depth)?;
                Some(VFlow::Normal)
            }
            "var" => {
                self.vardef(x, st, depth)?;
                Some(VFlow::Normal)
            }
            "block" => self.block(&x[0], st, depth),
            "if" => {
                if self.cond(&x[0], st, depth)? { self.block(&x[1], st, depth) } else { Some(VFlow::Normal) }
            }
            "ifelse" => {
                if self.cond(&x[0], st, depth)? { self.block(&x[1], st, depth) } else { self.block(&x[2], st, depth) }
            }
            "for" | "while" => {
                let (cond, inc, body) = if s.head() == "for" {
                    match x[0].head() {
                        "none" => {}
                        "e" => {
                            self.eval(&x[0].args()[0], st, depth)?;
                        }
                        "defs" => {
                            for d in x[0].args() {
                                self.vardef(d.args(), st, depth)?;
                            }
                        }
                        _ => return None,
                    }
                    (&x[1], Some(&x[2]), &x[3])
                } else {
                    (&x[0], None, &x[1])
                };
                for _ in 0..FUEL {
                    if !self.cond(cond, st, depth)? {
                        return Some(VFlow::Normal);
                    }
                    match self.block(body, st, depth)? {
                        VFlow::Break => return Some(VFlow::Normal),
                        VFlow::Ret(v) => return Some(VFlow::Ret(v)),
                        _ => {}
                    }
                    if let Some(i) = inc {
                        if i.head() != "none" {
                            self.eval(i, st, depth)?;
                        }
                    }
                }
                None
            }
            "dowhile" => {
                for _ in 0..FUEL {
                    match self.block(&x[0], st, depth)? {
                        VFlow::Break => return Some(VFlow::Normal),
                        VFlow::Ret(v) => return Some(VFlow::Ret(v)),
                        _ => {}
                    }
                    if !self.cond(&x[1], st, depth)? {
                        return Some(VFlow::Normal);
                    }
                }
                None
            }
            "break" => Some(VFlow::Break),
            "continue" => Some(VFlow::Continue),
            "ret" => {
                if x.is_empty() {
                    Some(VFlow::Ret(None))
                } else {
                    let v = self.eval(&x[0], st, depth)?;
                    Some(VFlow::Ret(Some(v)))
                }
            }
            "case" | "default" => Some(VFlow::Normal),
            "switch" => {
                let t = ir_ty(&x[0])?;
                let v = self.eval(&x[1], st, depth)?;
                let items = x[2].args();
                let mut start = None;
                for (i, s) in items.iter().enumerate() {
                    if s.head() == "case" && self.cast(&t, &VV::S(self.constant(&s.args()[0])?))? == v {
                        start = Some(i);
                        break;
                    }
                }
                let start = start.or_else(|| items.iter().position(|s| s.head() == "default"));
                if let Some(i) = start {
                    for s in &items[i..] {
                        match self.exec(s, st, depth)? {
                            VFlow::Normal => {}
                            VFlow::Break => return Some(VFlow::Normal),
                            other => return Some(other),
                        }
                    }
                }
                Some(VFlow::Normal)
            }
            _ => None,
        }
    }

    /// returns (return value, final parameter values)
    pub fn call(&self, id: u32, vals: &[VV], st: &mut Store, depth: u32) -> Option<(Option<VV>, Vec<VV>)> {
        if depth == 0 {
            return None;
        }
        let f = *self.funcs.get(&id)?;
        let params = f.args()[2].args();
        if params.len() != vals.len() {
            return None;
        }
        let mut ids = Vec::new();
        for (p, v) in params.iter().zip(vals) {
            let pid: u32 = p.args()[0].atom().parse().ok()?;
            // an `out` parameter starts uninitialised in the callee whatever the argument held
            let v0 = if dir_of(p.args()[1].atom()) == 1 { self.types.undef(&ir_ty(&p.args()[2])?)? } else { v.clone() };
            st.insert(Var::Loc(pid), v0);
            ids.push(pid);
        }
        let fl = self.block(&f.args()[3], st, depth - 1)?;
        let ret = match fl {
            VFlow::Ret(Some(v)) => Some(v),
            _ => None,
        };
        Some((ret, ids.iter().map(|i| Self::read_var(st, Var::Loc(*i))).collect()))
    }

    /// initial store: every static global's initialiser in declaration order
    pub fn init_globals(&self) -> Option<Store> {
        let mut st = Store::new();
        for (id, t, init) in &self.globals {
            let v = match init {
                Some(i) => self.init_value(t, i, &mut st, 1)?,
                None => self.types.undef(t)?,
            };
            st.insert(Var::Glob(*id), v);
        }
        Some(st)
    }

    pub fn run(&self, id: u32, vals: &[VV]) -> Option<VOutcome> {
        let mut st = self.init_globals()?;
        let (ret, params) = self.call(id, vals, &mut st, DEPTH)?;
        Some(VOutcome { ret, params, globals: self.globals.iter().map(|(g, _, _)| Self::read_var(&st, Var::Glob(*g))).collect() })
    }

    pub fn param_types(&self, id: u32) -> Option<Vec<(u8, Ty)>> {
        let f = *self.funcs.get(&id)?;
        f.args()[2].args().iter().map(|p| Some((dir_of(p.args()[1].atom()), ir_ty(&p.args()[2])?))).collect()
    }
}

/// a constructor's slots were converted to the target scalar type by the type checker
fn kind_matches(t: Option<T>, v: V) -> bool {
    matches!((t, v), (Some(T::Bool), V::B(_)) | (Some(T::Int), V::I(_)) | (Some(T::Uint), V::U(_)) | (Some(T::Float), V::F(_)) | (_, V::Void))
}

#[allow(unused)]
fn _unused(_: SFlow) {}

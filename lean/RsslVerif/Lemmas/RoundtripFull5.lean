import RsslVerif.Lemmas.RoundtripFull4
/-! Round trip for the full expression model: types (modifiers, template arguments, abstract declarators),
expression-or-type positions, and the new expression kinds (cast, sizeof, call with template arguments). -/
set_option linter.unusedSimpArgs false
set_option linter.unusedVariables false
namespace RsslVerif.Lemmas.RoundtripFull
open RsslVerif.Gen.FmtTables RsslVerif.Gen.ParseTables RsslVerif.Gen.SyntaxTables RsslVerif.Model.Format
open RsslVerif.Model.FormatFull RsslVerif.Model.ParseFull RsslVerif.Lemmas.FmtParseTables

variable (W : List String)

/-! ## Modifiers -/

/-- every modifier prints a token that `parse_type_modifiers_before` reads back as the modifier -/
theorem modBeforeStep_modTok (m : TypeMod) : modBeforeStep (modTok m) = .mod m := by cases m <;> rfl

theorem toks_fmtMods_before (mods : List TypeMod) : toks (fmtMods mods false) = mods.map modTok := by
  induction mods with
  | nil => rfl
  | cons m ms ih => simp [fmtMods, modPiece, ih]

theorem toks_fmtMods_after (mods : List TypeMod) : toks (fmtMods mods true) = mods.map modTok := by
  induction mods with
  | nil => rfl
  | cons m ms ih => simp [fmtMods, modPiece, ih]

theorem takeModsBefore_mods (mods : List TypeMod) (t : Tok) (more : List Tok) (h : modBeforeStep t = .stop) :
    takeModsBefore (mods.map modTok ++ t :: more) = (mods, t :: more) := by
  induction mods with
  | nil => simp [takeModsBefore, h]
  | cons m ms ih => simp [takeModsBefore, modBeforeStep_modTok, ih]

theorem takeModsAfter_quals (quals : List TypeMod) (hq : ∀ q, q ∈ quals → q = .Const ∨ q = .Volatile)
    (more : List Tok) (h : ∀ t r, more = t :: r → t ≠ .p .Const ∧ t ≠ .p .Volatile) :
    takeModsAfter (quals.map modTok ++ more) = (quals, more) := by
  induction quals with
  | nil =>
    cases more with
    | nil => rfl
    | cons t r =>
      obtain ⟨h1, h2⟩ := h t r rfl
      simp [takeModsAfter_stop t r h1 h2]
  | cons q qs ih =>
    have hq' := hq q (List.mem_cons_self)
    have ih' := ih (fun q' hq'' => hq q' (List.mem_cons_of_mem _ hq''))
    rcases hq' with rfl | rfl
    · simp only [List.map_cons, List.cons_append, takeModsAfter]
      rw [show modAfterStep (modTok .Const) = some .Const by rfl]
      simp [ih']
    · simp only [List.map_cons, List.cons_append, takeModsAfter]
      rw [show modAfterStep (modTok .Volatile) = some .Volatile by rfl]
      simp [ih']

/-- a keyword modifier cannot start an expression -/
theorem badHead_modKw (m : TypeMod) (k : Punct) (h : modTok m = .p k) : BadHead (.p k) := by
  cases m <;> simp [modTok, modBeforeKw, modSpell] at h <;> subst h <;>
    exact ⟨(by intro n h; cases h), (by intro l h; cases h), (by decide), rfl, (by decide)⟩

/-! ## What may follow a type id -/

def NoEq : List Tok → Prop
  | .p .Equals :: _ => False
  | _ => True

/-- what follows a type id in an expression: `)` (cast, sizeof), `,` or `>` (template argument list) -/
def TyRest : List Tok → Prop
  | .p .RightParen :: _ => True
  | .p .Comma :: _ => True
  | .gt _ :: r => shiftAssignHead r = false ∧ NoEq r
  | _ => False

theorem tyRest_cases {rest : List Tok} (h : TyRest rest) :
    ∃ t r, rest = t :: r ∧ (t = .p .RightParen ∨ t = .p .Comma ∨ (t.isGt = true ∧ shiftAssignHead r = false ∧ NoEq r)) := by
  match rest, h with
  | .p .RightParen :: r, _ => exact ⟨_, r, rfl, Or.inl rfl⟩
  | .p .Comma :: r, _ => exact ⟨_, r, rfl, Or.inr (Or.inl rfl)⟩
  | .gt b :: r, h => exact ⟨_, r, rfl, Or.inr (Or.inr ⟨rfl, h.1, h.2⟩)⟩

theorem tyRest_closes {rest : List Tok} (h : TyRest rest) : ∃ t r, rest = t :: r ∧ Closes .TypeList t r := by
  obtain ⟨t, r, rfl, h'⟩ := tyRest_cases h
  refine ⟨t, r, rfl, ?_⟩
  rcases h' with rfl | rfl | ⟨h1, h2, _⟩
  · exact Or.inl rfl
  · exact Or.inr (Or.inr (Or.inr (Or.inr (Or.inr (Or.inl ⟨rfl, rfl⟩)))))
  · exact Or.inr (Or.inr (Or.inr (Or.inr (Or.inr (Or.inr ⟨h1, rfl, h2⟩)))))

theorem tyRest_shift {rest : List Tok} (h : TyRest rest) : shiftAssignHead rest = false ∧ NoEq rest := by
  match rest, h with
  | .p .RightParen :: r, _ => exact ⟨rfl, trivial⟩
  | .p .Comma :: r, _ => exact ⟨rfl, trivial⟩
  | .gt b :: r, h =>
    refine ⟨?_, trivial⟩
    obtain ⟨_, h2⟩ := h
    cases b with
    | false => rfl
    | true =>
      match r, h2 with
      | [], _ => rfl
      | .p .Equals :: _, h2 => exact absurd h2 id
      | .p .RightParen :: _, _ => rfl
      | t :: r', h2 =>
        cases t with
        | p k => cases k <;> first | rfl | exact absurd h2 id
        | _ => rfl

/-- the tokens that stop a declarator -/
def DeclRest : List Tok → Prop
  | [] => True
  | t :: _ => t ≠ .p .Asterix ∧ t ≠ .p .Ampersand ∧ t ≠ .p .LeftSquareBracket ∧ t ≠ .p .Const ∧ t ≠ .p .Volatile ∧
      t.isLt = false ∧ t ≠ .p .Equals

theorem tyRest_declRest {rest : List Tok} (h : TyRest rest) : DeclRest rest := by
  obtain ⟨t, r, rfl, h'⟩ := tyRest_cases h
  rcases h' with rfl | rfl | ⟨h1, _⟩
  · simp [DeclRest, Tok.isLt]
  · simp [DeclRest, Tok.isLt]
  · cases t <;> simp [Tok.isGt] at h1
    simp [DeclRest, Tok.isLt]

/-! ## Declarators -/

/-- arrays around the base only (no pointer / reference below an array) -/
def arrOnly : Decl → Bool
  | .empty => true
  | .name _ => true
  | .arr i _ => arrOnly i
  | .arrN i => arrOnly i
  | _ => false

theorem arrOnly_of_noScope : (i : Decl) → WFDecl W i → i.needsScope = false → arrOnly i = true
  | .empty, _, _ => rfl
  | .name _, _, _ => rfl
  | .ptr _ _, _, h => by simp [Decl.needsScope] at h
  | .ref _, _, h => by simp [Decl.needsScope] at h
  | .arr i _, hw, _ => arrOnly_of_noScope i hw.2.1 hw.1
  | .arrN i, hw, _ => arrOnly_of_noScope i hw.2 hw.1

theorem fmtDecl_arr (i : Decl) (s : XExpr) (single : Bool) (h : i.needsScope = false) :
    fmtDecl (.arr i s) single = fmtDecl i single ++ (pp .LeftSquareBracket ::
      (fmtSubX s arraySizePrec arraySizeSide ++ [pp .RightSquareBracket])) := by
  simp [fmtDecl, h]

theorem fmtDecl_arrN (i : Decl) (single : Bool) (h : i.needsScope = false) :
    fmtDecl (.arrN i) single = fmtDecl i single ++ [pp .LeftSquareBracket, pp .RightSquareBracket] := by
  simp [fmtDecl, h]

theorem pos_arraySize (x : XExpr) (h : needParen x.prec arraySizePrec arraySizeSide = false) : x.lvl ≤ 14 := by
  cases x with
  | lit l => simp only [XExpr.prec, XExpr.lvl, litPrec] at h ⊢ <;> generalize litNegative l = b at h ⊢ <;> cases b <;> revert h <;> decide
  | un o _ => cases o <;> simp only [XExpr.prec, XExpr.lvl] at h ⊢ <;> revert h <;> decide
  | bin o _ _ => cases o <;> simp only [XExpr.prec, XExpr.lvl] at h ⊢ <;> revert h <;> decide
  | _ => simp only [XExpr.prec, XExpr.lvl] at h ⊢ <;> revert h <;> decide

/-- reading one array dimension with a size -/
theorem arrDim_step (acc : Decl) (s : XExpr) (hws : WF W s) (ihs : RT W s) (rest : List Tok) (out : Decl × List Tok)
    (hsafe : Safe s (toks (fmtSubX s arraySizePrec arraySizeSide) ++ .p .RightSquareBracket :: rest))
    (hc : ∃ N, ∀ f, N ≤ f → parseArrDims W f (.arr acc s) rest = some out) :
    ∃ N, ∀ f, N ≤ f → parseArrDims W f acc (.p .LeftSquareBracket ::
      (toks (fmtSubX s arraySizePrec arraySizeSide) ++ .p .RightSquareBracket :: rest)) = some out := by
  have hpo : PosOk arraySizePrec arraySizeSide := Or.inl (by decide)
  have hS : Parses W 15 .Sequence (toks (fmtSubX s arraySizePrec arraySizeSide) ++ (.p .RightSquareBracket :: rest))
      (s, .p .RightSquareBracket :: rest) :=
    rts_self W ihs _ _ 15 .Sequence _ (Nat.le_refl _)
      (fun hp => ⟨by have := pos_arraySize s hp; omega, fun h => by have := pos_arraySize s hp; omega, fun h => by cases h⟩)
      (fun hp => parenDead W s hws (needParen_prec hpo hp) _) hsafe
      (noLow_closes W 15 _ _ _ (Or.inr (Or.inl rfl))) (fun _ => inert_closes W 15 _ _ _ (Or.inr (Or.inl rfl)))
  obtain ⟨N1, h1⟩ := hS
  obtain ⟨N2, h2⟩ := hc
  refine ⟨max N1 N2 + 1, fun f hf => ?_⟩
  obtain ⟨f', rfl, hf'⟩ := succ_of_pos hf
  unfold parseArrDims
  simp [arraySizeTerminator, h1 f' (by omega), h2 f' (by omega)]

/-- reading one array dimension without size -/
theorem arrDimN_step (acc : Decl) (rest : List Tok) (out : Decl × List Tok)
    (hc : ∃ N, ∀ f, N ≤ f → parseArrDims W f (.arrN acc) rest = some out) :
    ∃ N, ∀ f, N ≤ f → parseArrDims W f acc (.p .LeftSquareBracket :: .p .RightSquareBracket :: rest) = some out := by
  obtain ⟨N2, h2⟩ := hc
  refine ⟨N2 + 1, fun f hf => ?_⟩
  obtain ⟨f', rfl, hf'⟩ := succ_of_pos hf
  unfold parseArrDims
  have hbad : xparseLvl W f' 15 arraySizeTerminator (.p .RightSquareBracket :: rest) = none :=
    xparseLvl_badhead W _ _ ⟨(by intro n h; cases h), (by intro l h; cases h), (by decide), rfl, (by decide)⟩ _ _ _
  simp [hbad, h2 f' hf']

theorem arrDims_stop (acc : Decl) (rest : List Tok) (h : ∀ r, rest ≠ .p .LeftSquareBracket :: r) :
    ∀ f, 1 ≤ f → parseArrDims W f acc rest = some (acc, rest) := by
  intro f hf
  obtain ⟨f', rfl, _⟩ := succ_of_pos hf
  unfold parseArrDims
  split
  · rename_i r; exact absurd rfl (h r)
  · rfl

/-- array dimensions of an arrays-only abstract declarator, read starting from the empty declarator -/
def RTArr (d : Decl) : Prop :=
  arrOnly d = true → d.abstr = true → ∀ rest out,
    (hasLtDecl d = true → TmplFree (toks (fmtDecl d true) ++ rest) = true) →
    (∃ N, ∀ f, N ≤ f → parseArrDims W f d rest = some out) →
    ∃ N, ∀ f, N ≤ f → parseArrDims W f .empty (toks (fmtDecl d true) ++ rest) = some out

/-- an abstract declarator reads back -/
def RTDecl (d : Decl) : Prop :=
  d.abstr = true → ∀ rest, DeclRest rest →
    (hasLtDecl d = true → TmplFree (toks (fmtDecl d true) ++ rest) = true) →
    ∃ N, ∀ f, N ≤ f → parseDecl W f true (toks (fmtDecl d true) ++ rest) = some (d, rest)

theorem rtArr_empty : RTArr W .empty := by
  intro _ _ rest out _ hc
  simpa [fmtDecl] using hc

theorem rtArr_arr (i : Decl) (s : XExpr) (hw : WFDecl W (.arr i s)) (ihi : RTArr W i) (ihs : RT W s) :
    RTArr W (.arr i s) := by
  intro ha hb rest out hsafe hc
  obtain ⟨hns, hwi, hws⟩ := hw
  rw [fmtDecl_arr i s true hns] at hsafe ⊢
  simp only [toks_append, toks_cons_t, pp, List.append_assoc, List.cons_append, List.nil_append, toks_nil] at hsafe ⊢
  apply ihi (by simpa [arrOnly] using ha) (by simpa [Decl.abstr] using hb)
  · intro hl
    exact hsafe (by simp [hasLtDecl, hl])
  · apply arrDim_step W i s hws ihs rest out _ hc
    intro hl
    exact tmplFree_suffix ((List.suffix_cons _ _).trans (List.suffix_append _ _)) (hsafe (by simp [hasLtDecl, hl]))

theorem rtArr_arrN (i : Decl) (hw : WFDecl W (.arrN i)) (ihi : RTArr W i) : RTArr W (.arrN i) := by
  intro ha hb rest out hsafe hc
  obtain ⟨hns, hwi⟩ := hw
  rw [fmtDecl_arrN i true hns] at hsafe ⊢
  simp only [toks_append, toks_cons_t, pp, List.append_assoc, List.cons_append, List.nil_append, toks_nil] at hsafe ⊢
  apply ihi (by simpa [arrOnly] using ha) (by simpa [Decl.abstr] using hb)
  · intro hl
    exact hsafe (by simp [hasLtDecl, hl])
  · exact arrDimN_step W i rest out hc

/-- a non-empty arrays-only abstract declarator prints `[` first -/
theorem arr_head : (d : Decl) → arrOnly d = true → d.abstr = true → d.isEmptyD = false → WFDecl W d →
    (∃ r, toks (fmtDecl d true) = .p .LeftSquareBracket :: r) ∧ d.startsBracket = true
  | .empty, _, _, h, _ => by simp [Decl.isEmptyD] at h
  | .name _, _, h, _, _ => by simp [Decl.abstr] at h
  | .ptr _ _, h, _, _, _ => by simp [arrOnly] at h
  | .ref _, h, _, _, _ => by simp [arrOnly] at h
  | .arr i s, ha, hb, _, hw => by
    rw [fmtDecl_arr i s true hw.1]
    cases hi : i.isEmptyD with
    | true =>
      cases i <;> simp [Decl.isEmptyD] at hi
      exact ⟨⟨_, by simp [fmtDecl, pp]; rfl⟩, by simp [Decl.startsBracket, Decl.needsScope, Decl.isEmptyD]⟩
    | false =>
      obtain ⟨⟨r, hr⟩, hsb⟩ := arr_head i (by simpa [arrOnly] using ha) (by simpa [Decl.abstr] using hb) hi hw.2.1
      exact ⟨⟨_, by simp [hr]; rfl⟩, by simp [Decl.startsBracket, hw.1, hsb]⟩
  | .arrN i, ha, hb, _, hw => by
    rw [fmtDecl_arrN i true hw.1]
    cases hi : i.isEmptyD with
    | true =>
      cases i <;> simp [Decl.isEmptyD] at hi
      exact ⟨⟨_, by simp [fmtDecl, pp]; rfl⟩, by simp [Decl.startsBracket, Decl.needsScope, Decl.isEmptyD]⟩
    | false =>
      obtain ⟨⟨r, hr⟩, hsb⟩ := arr_head i (by simpa [arrOnly] using ha) (by simpa [Decl.abstr] using hb) hi hw.2
      exact ⟨⟨_, by simp [hr]; rfl⟩, by simp [Decl.startsBracket, hw.1, hsb]⟩

/-- first token after `*` / `&` (and the qualifiers): neither a qualifier nor `[` -/
theorem inner_head (inner : Decl) (hw : WFDecl W inner) (hb : inner.abstr = true) (hsb : inner.startsBracket = false)
    (rest : List Tok) (hr : DeclRest rest) :
    ∀ t r, toks (fmtDecl inner true) ++ rest = t :: r → t ≠ .p .Const ∧ t ≠ .p .Volatile ∧ t ≠ .p .LeftSquareBracket := by
  intro t r h
  cases inner with
  | empty =>
    simp [fmtDecl] at h
    subst h
    simp only [DeclRest] at hr
    exact ⟨hr.2.2.2.1, hr.2.2.2.2.1, hr.2.2.1⟩
  | name n => simp [Decl.abstr] at hb
  | ptr q i =>
    simp [fmtDecl, pp] at h
    obtain ⟨rfl, _⟩ := h
    exact ⟨by decide, by decide, by decide⟩
  | ref i =>
    simp [fmtDecl, pp] at h
    obtain ⟨rfl, _⟩ := h
    exact ⟨by decide, by decide, by decide⟩
  | arr i s =>
    have := (arr_head W (.arr i s) (arrOnly_of_noScope W i hw.2.1 hw.1 ▸ by simp [arrOnly, arrOnly_of_noScope W i hw.2.1 hw.1])
      hb (by simp [Decl.isEmptyD]) hw).2
    rw [hsb] at this; cases this
  | arrN i =>
    have := (arr_head W (.arrN i) (by simp [arrOnly, arrOnly_of_noScope W i hw.2 hw.1])
      hb (by simp [Decl.isEmptyD]) hw).2
    rw [hsb] at this; cases this

theorem declRest_noBracket {rest : List Tok} (h : DeclRest rest) : ∀ r, rest ≠ .p .LeftSquareBracket :: r := by
  intro r hr
  subst hr
  simp [DeclRest] at h

theorem rtDecl_empty : RTDecl W .empty := by
  intro _ rest hr _
  refine ⟨2, fun f hf => ?_⟩
  obtain ⟨f', rfl, hf'⟩ := succ_of_pos hf
  simp only [fmtDecl, toks_nil, List.nil_append]
  unfold parseDecl
  cases rest with
  | nil => simp [arrDims_stop W .empty [] (by intro r h; cases h) f' hf']
  | cons t r =>
    simp only [DeclRest] at hr
    obtain ⟨h1, h2, h3, _⟩ := hr
    split
    · rename_i heq; simp at heq; exact absurd heq.1 h1
    · rename_i heq; simp at heq; exact absurd heq.1 h1
    · rename_i heq; simp at heq; exact absurd heq.1 h2
    · rename_i heq; simp at heq; exact absurd heq.1 h2
    · simp [arrDims_stop W .empty (t :: r) (by intro r' h; simp at h; exact h3 h.1) f' hf']

theorem rtDecl_ptr (quals : List TypeMod) (inner : Decl) (hw : WFDecl W (.ptr quals inner)) (ih : RTDecl W inner) :
    RTDecl W (.ptr quals inner) := by
  intro hb rest hr hsafe
  obtain ⟨hq, hwi, hsb⟩ := hw
  have hbi : inner.abstr = true := by simpa [Decl.abstr] using hb
  have htoks : toks (fmtDecl (.ptr quals inner) true) ++ rest =
      .p .Asterix :: (quals.map modTok ++ (toks (fmtDecl inner true) ++ rest)) := by
    simp [fmtDecl, pp, toks_fmtMods_after]
  rw [htoks] at hsafe ⊢
  have hhead := inner_head W inner hwi hbi hsb rest hr
  obtain ⟨N, h⟩ := ih hbi rest hr (fun hl => tmplFree_suffix
    ((List.suffix_append _ _).trans (List.suffix_cons _ _)) (hsafe (by simpa [hasLtDecl] using hl)))
  refine ⟨N + 1, fun f hf => ?_⟩
  obtain ⟨f', rfl, hf'⟩ := succ_of_pos hf
  have hmods := takeModsAfter_quals quals hq (toks (fmtDecl inner true) ++ rest)
    (fun t r ht => ⟨(hhead t r ht).1, (hhead t r ht).2.1⟩)
  unfold parseDecl
  split
  · -- `*` `[`: excluded
    rename_i tl heq
    simp only [List.cons.injEq, true_and] at heq
    cases quals with
    | nil =>
      simp only [List.map_nil, List.nil_append] at heq
      exact absurd rfl ((hhead _ _ heq).2.2)
    | cons q qs =>
      have := hq q List.mem_cons_self
      rcases this with rfl | rfl <;> simp [modTok, modBeforeKw] at heq
  · rename_i r0 _ heq
    simp only [List.cons.injEq, true_and] at heq
    subst heq
    simp [hmods, h f' hf']
  · rename_i heq; simp at heq
  · rename_i heq; simp at heq
  · rename_i h1 h2 h3 h4
    exact absurd rfl (h2 _)

theorem rtDecl_ref (inner : Decl) (hw : WFDecl W (.ref inner)) (ih : RTDecl W inner) : RTDecl W (.ref inner) := by
  intro hb rest hr hsafe
  obtain ⟨hwi, hsb, _⟩ := hw
  have hbi : inner.abstr = true := by simpa [Decl.abstr] using hb
  have htoks : toks (fmtDecl (.ref inner) true) ++ rest = .p .Ampersand :: (toks (fmtDecl inner true) ++ rest) := by
    simp [fmtDecl, pp]
  rw [htoks] at hsafe ⊢
  have hhead := inner_head W inner hwi hbi hsb rest hr
  obtain ⟨N, h⟩ := ih hbi rest hr (fun hl => tmplFree_suffix (List.suffix_cons _ _) (hsafe (by simpa [hasLtDecl] using hl)))
  refine ⟨N + 1, fun f hf => ?_⟩
  obtain ⟨f', rfl, hf'⟩ := succ_of_pos hf
  unfold parseDecl
  split
  · rename_i heq; simp at heq
  · rename_i heq; simp at heq
  · rename_i tl heq
    simp only [List.cons.injEq, true_and] at heq
    exact absurd rfl ((hhead _ _ heq).2.2)
  · rename_i r0 _ heq
    simp only [List.cons.injEq, true_and] at heq
    subst heq
    simp [h f' hf']
  · rename_i h1 h2 h3 h4
    exact absurd rfl (h4 _)

/-- an arrays-only, non-empty abstract declarator -/
theorem rtDecl_arrs (d : Decl) (hw : WFDecl W d) (ha : arrOnly d = true) (hne : d.isEmptyD = false) (ih : RTArr W d) :
    RTDecl W d := by
  intro hb rest hr hsafe
  obtain ⟨⟨r0, hr0⟩, _⟩ := arr_head W d ha hb hne hw
  obtain ⟨N, h⟩ := ih ha hb rest (d, rest) hsafe ⟨1, arrDims_stop W d rest (declRest_noBracket hr)⟩
  refine ⟨N + 1, fun f hf => ?_⟩
  obtain ⟨f', rfl, hf'⟩ := succ_of_pos hf
  have := h f' hf'
  rw [hr0] at this ⊢
  unfold parseDecl
  simp only [List.cons_append] at this ⊢
  simp [this]

/-! ## Type ids -/

def RTTy (ty : TyId) : Prop :=
  ∀ sym fol rest, (sym = true → W.contains (tyName ty) = true) → TyRest rest →
    (hasLtTy ty = true → TmplFree (toks (fmtTyId ty fol) ++ rest) = true) →
    ∃ N, ∀ f, N ≤ f → parseTyId W f sym (toks (fmtTyId ty fol) ++ rest) = some (ty, rest)

def RTTArgs (as : TArgs) : Prop :=
  ∀ a r, as = .cons a r → ∀ fol rest, shiftAssignHead rest = false → NoEq rest →
    (hasLtTArgs as = true → TmplFree (toks (fmtTArgs as fol) ++ rest) = true) →
    ∃ N, ∀ f, N ≤ f → parseTArgsReq W f (toks (fmtTArgs as fol) ++ rest) = some (as, rest)

/-- first token of an abstract declarator followed by `rest` -/
theorem decl_head (d : Decl) (hw : WFDecl W d) (hb : d.abstr = true) (rest : List Tok) (hr : DeclRest rest) :
    ∀ t r, toks (fmtDecl d true) ++ rest = t :: r →
      t.isLt = false ∧ t ≠ .p .Const ∧ t ≠ .p .Volatile ∧ (t.isGt = true → toks (fmtDecl d true) = []) ∧
      t ≠ .p .Equals := by
  intro t r h
  cases d with
  | empty =>
    simp [fmtDecl] at h
    subst h
    simp only [DeclRest] at hr
    exact ⟨hr.2.2.2.2.2.1, hr.2.2.2.1, hr.2.2.2.2.1, fun _ => by simp [fmtDecl], hr.2.2.2.2.2.2⟩
  | name n => simp [Decl.abstr] at hb
  | ptr q i =>
    simp [fmtDecl, pp] at h
    obtain ⟨rfl, _⟩ := h
    exact ⟨rfl, by decide, by decide, fun h => by simp [Tok.isGt] at h, by decide⟩
  | ref i =>
    simp [fmtDecl, pp] at h
    obtain ⟨rfl, _⟩ := h
    exact ⟨rfl, by decide, by decide, fun h => by simp [Tok.isGt] at h, by decide⟩
  | arr i s =>
    obtain ⟨⟨r0, hr0⟩, _⟩ := arr_head W (.arr i s) (by simp [arrOnly, arrOnly_of_noScope W i hw.2.1 hw.1]) hb
      (by simp [Decl.isEmptyD]) hw
    rw [hr0] at h
    simp at h
    obtain ⟨rfl, _⟩ := h
    exact ⟨rfl, by decide, by decide, fun h => by simp [Tok.isGt] at h, by decide⟩
  | arrN i =>
    obtain ⟨⟨r0, hr0⟩, _⟩ := arr_head W (.arrN i) (by simp [arrOnly, arrOnly_of_noScope W i hw.2 hw.1]) hb
      (by simp [Decl.isEmptyD]) hw
    rw [hr0] at h
    simp at h
    obtain ⟨rfl, _⟩ := h
    exact ⟨rfl, by decide, by decide, fun h => by simp [Tok.isGt] at h, by decide⟩

theorem toks_fmtTyId (mods : List TypeMod) (n : String) (targs : TArgs) (d : Decl) (fol : Bool) :
    toks (fmtTyId (.mk mods n targs d) fol) =
      mods.map modTok ++ (.id n :: (toks (fmtTArgs targs (startsTok (fmtDecl d true) fol)) ++ toks (fmtDecl d true))) := by
  simp [fmtTyId, toks_fmtMods_before]

theorem shift_of_head {ts : List Tok} (h : ∀ t r, ts = t :: r → t.isGt = false) : shiftAssignHead ts = false := by
  cases ts with
  | nil => rfl
  | cons t r =>
    have := h t r rfl
    cases t <;> simp [Tok.isGt] at this <;> rfl

theorem noEq_of_head {ts : List Tok} (h : ∀ t r, ts = t :: r → t ≠ .p .Equals) : NoEq ts := by
  cases ts with
  | nil => trivial
  | cons t r =>
    have := h t r rfl
    cases t with
    | p k => cases k <;> first | trivial | exact absurd rfl this
    | _ => trivial

theorem rtTy (mods : List TypeMod) (n : String) (targs : TArgs) (d : Decl) (hw : WFTy W (.mk mods n targs d))
    (hb : d.abstr = true) (ihT : RTTArgs W targs) (ihD : RTDecl W d) : RTTy W (.mk mods n targs d) := by
  intro sym fol rest hsym hrest hsafe
  obtain ⟨hstop, hwT, hwD⟩ := hw
  have hdr := tyRest_declRest hrest
  have hhead := decl_head W d hwD hb rest hdr
  rw [toks_fmtTyId] at hsafe ⊢
  simp only [List.append_assoc, List.cons_append] at hsafe ⊢
  -- the declarator
  obtain ⟨N2, h2⟩ := ihD hb rest hdr (fun hl => tmplFree_suffix
    ((List.suffix_append _ _).trans ((List.suffix_cons _ _).trans (List.suffix_append _ _)))
    (hsafe (by simp [hasLtTy, hl])))
  have hafter : takeModsAfter (toks (fmtDecl d true) ++ rest) = ([], toks (fmtDecl d true) ++ rest) := by
    obtain ⟨t, r, hr⟩ : ∃ t r, toks (fmtDecl d true) ++ rest = t :: r := by
      obtain ⟨t, r, rfl, _⟩ := tyRest_cases hrest
      cases h : toks (fmtDecl d true) with
      | nil => exact ⟨t, r, rfl⟩
      | cons u us => exact ⟨u, us ++ t :: r, rfl⟩
    rw [hr]
    exact takeModsAfter_stop _ _ (hhead t r hr).2.1 (hhead t r hr).2.2.1
  -- the template arguments
  have hT : ∃ N1, ∀ f, N1 ≤ f →
      parseTArgsReq W f (toks (fmtTArgs targs (startsTok (fmtDecl d true) fol)) ++ (toks (fmtDecl d true) ++ rest)) =
          some (targs, toks (fmtDecl d true) ++ rest) ∨
      (parseTArgsReq W f (toks (fmtTArgs targs (startsTok (fmtDecl d true) fol)) ++ (toks (fmtDecl d true) ++ rest)) = none ∧
        targs = .nil) := by
    cases targs with
    | nil =>
      refine ⟨0, fun f _ => ?_⟩
      simp only [fmtTArgs, toks_nil, List.nil_append]
      obtain ⟨t, r, hr⟩ : ∃ t r, toks (fmtDecl d true) ++ rest = t :: r := by
        obtain ⟨t, r, rfl, _⟩ := tyRest_cases hrest
        cases h : toks (fmtDecl d true) with
        | nil => exact ⟨t, r, rfl⟩
        | cons u us => exact ⟨u, us ++ t :: r, rfl⟩
      right
      rw [hr, parseTArgsReq_notlt W f t r (hhead t r hr).1]
      simp
    | cons a r =>
      have hsh : shiftAssignHead (toks (fmtDecl d true) ++ rest) = false := by
        cases hd : toks (fmtDecl d true) with
        | nil => simpa using (tyRest_shift hrest).1
        | cons u us =>
          apply shift_of_head
          intro t r ht
          simp only [List.cons_append, List.cons.injEq] at ht
          obtain ⟨rfl, _⟩ := ht
          cases hg : u.isGt with
          | false => rfl
          | true =>
            have := (hhead u (us ++ rest) (by rw [hd]; rfl)).2.2.2.1 hg
            rw [hd] at this; cases this
      have hne : NoEq (toks (fmtDecl d true) ++ rest) := by
        apply noEq_of_head
        intro t r ht
        exact (hhead t r ht).2.2.2.2
      obtain ⟨N1, h1⟩ := ihT a r rfl _ _ hsh hne (fun hl => tmplFree_suffix
        ((List.suffix_cons _ _).trans (List.suffix_append _ _)) (by
          have := hsafe (by simp [hasLtTy, hl])
          simpa [List.append_assoc] using this))
      exact ⟨N1, fun f hf => Or.inl (h1 f hf)⟩
  obtain ⟨N1, h1⟩ := hT
  refine ⟨max N1 N2 + 1, fun f hf => ?_⟩
  obtain ⟨f', rfl, hf'⟩ := succ_of_pos hf
  unfold parseTyId
  rw [takeModsBefore_mods mods (.id n) _ hstop]
  have hsym' : (sym && !W.contains n) = false := by
    cases sym with
    | false => rfl
    | true => simp [tyName] at hsym; simp [hsym]
  simp only [hsym', Bool.false_eq_true, if_false]
  rcases h1 f' (by omega) with h | ⟨h, rfl⟩
  · simp only [h, hafter, h2 f' (by omega), List.append_nil]
  · simp only [fmtTArgs, toks_nil, List.nil_append] at h ⊢
    simp only [h, hafter, h2 f' (by omega), List.append_nil]

end RsslVerif.Lemmas.RoundtripFull

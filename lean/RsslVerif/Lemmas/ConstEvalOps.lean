import RsslVerif.Lemmas.ConstEvalArith
import RsslVerif.Lemmas.ConstEvalSimp
/-!
# C13 helper lemmas, part 2: each arm of `evaluate_operator` (as tabulated in `Gen.EvalTable`) computes
the value the specification defines, and its result is again in range
-/
namespace RsslVerif.Lemmas.ConstEval
open RsslVerif.Gen.EvalTable RsslVerif.Model.ConstEval
open RsslVerif.Spec.HlslConst (bv sInt uInt fitsLit lit?)
namespace S
export RsslVerif.Spec.HlslConst (unop binop litArith sArith uArith bitArith relOf valueOrd valueEq sameType castScalar cast strip enumId? applyOp eval evalArgs sizeOfTy sizeOfScalar isComparison)
end S

/-- range invariant of a constant: payloads fit their Rust type, enums are not nested -/
def wf : Constant → Bool
  | .intLit v => i128.inRange v
  | .int32 v => i32.inRange v
  | .uint32 v => u32.inRange v
  | .int64 v => i64.inRange v
  | .uint64 v => u64.inRange v
  | .enum _ c => wf c && c.kind != .Enum
  | _ => true

/-- a well-formed constant that is not an enum (what operators and casts work on after unwrapping) -/
def plain (c : Constant) : Bool := wf c && c.kind != .Enum

theorem okInt_ok {rk : Kind} {r : Except Err Int} {c : Constant} :
    okInt rk r = .ok c ↔ ∃ z, r = .ok z ∧ mkInt rk z = some c := by
  unfold okInt
  cases r with
  | error e => simp
  | ok z => cases h : mkInt rk z <;> simp [h]

@[c13] theorem okInt_error (rk : Kind) (e : Err) : okInt rk (.error e) = .error e := rfl

theorem deliver_checked {t : IntTy} {a : Arith} {z z' : Int} :
    deliver t .checked a z = .ok z' ↔ t.inRange z = true ∧ z' = z := by
  unfold deliver
  by_cases h : t.inRange z = true <;> simp [h, eq_comm]

theorem deliver_wrapping {t : IntTy} {a : Arith} {z : Int} : deliver t .wrapping a z = .ok (t.wrap z) := rfl

theorem int32_wrap (z : Int) : Constant.int32 (i32.wrap z) = sInt (bv z) := by rw [wrap_i32]; rfl
theorem uint32_wrap (z : Int) : Constant.uint32 (u32.wrap z) = uInt (bv z) := by rw [wrap_u32]; rfl
@[simp, c13] theorem plain_sInt (b : BitVec 32) : plain (sInt b) = true := by simp [plain, wf, sInt, inRange_sInt, Constant.kind]
@[simp, c13] theorem plain_uInt (b : BitVec 32) : plain (uInt b) = true := by simp [plain, wf, uInt, inRange_uInt, Constant.kind]
@[simp, c13] theorem plain_intLit (v : Int) : plain (.intLit v) = i128.inRange v := by simp [plain, wf, Constant.kind]
@[simp, c13] theorem plain_int32 (v : Int) : plain (.int32 v) = i32.inRange v := by simp [plain, wf, Constant.kind]
@[simp, c13] theorem plain_uint32 (v : Int) : plain (.uint32 v) = u32.inRange v := by simp [plain, wf, Constant.kind]
@[simp, c13] theorem plain_bool (v : Bool) : plain (.bool v) = true := by simp [plain, wf, Constant.kind]
@[simp, c13] theorem plain_enum (i : Nat) (c : Constant) : plain (.enum i c) = false := by simp [plain, Constant.kind]

attribute [c13] applyOp opTable lookupArm applyRule Constant.kind intTyOf Constant.intVal? evalArith
  mkInt evalDiv evalRem evalShl evalShr zeroDivisor remOverflow shiftAmount okInt_ok deliver_checked deliver_wrapping
  S.binop S.unop S.relOf S.litArith S.sArith S.uArith S.bitArith lit? fitsLit_iff
  int32_wrap uint32_wrap bv_add bv_sub bv_mul bv_neg bv_not

theorem binop_Add {a b r : Constant} (ha : plain a = true) (hb : plain b = true)
    (h : applyOp .Add [a, b] = .ok r) : S.binop .Add a b = some r ∧ plain r = true := by
  cases a <;> cases b <;> simp [c13] at h ha hb ⊢
  all_goals first
    | (obtain ⟨z, ⟨h1, rfl⟩, rfl⟩ := h; simp [c13, h1]; done)
    | (subst h; simp [c13]; done)
theorem binop_Subtract {a b r : Constant} (ha : plain a = true) (hb : plain b = true)
    (h : applyOp .Subtract [a, b] = .ok r) : S.binop .Subtract a b = some r ∧ plain r = true := by
  cases a <;> cases b <;> simp [c13] at h ha hb ⊢
  all_goals first
    | (obtain ⟨z, ⟨h1, rfl⟩, rfl⟩ := h; simp [c13, h1]; done)
    | (subst h; simp [c13]; done)
theorem binop_Multiply {a b r : Constant} (ha : plain a = true) (hb : plain b = true)
    (h : applyOp .Multiply [a, b] = .ok r) : S.binop .Multiply a b = some r ∧ plain r = true := by
  cases a <;> cases b <;> simp [c13] at h ha hb ⊢
  all_goals first
    | (obtain ⟨z, ⟨h1, rfl⟩, rfl⟩ := h; simp [c13, h1]; done)
    | (subst h; simp [c13]; done)
theorem int32_tdiv {x y : Int} (hx : i32.inRange x = true) (hy : i32.inRange y = true) :
    sInt (bv (x.tdiv y)) = sInt ((bv x).sdiv (bv y)) := by
  have := sdiv_i32 hx hy
  rw [wrap_i32] at this
  rw [BitVec.toInt_inj.mp this]
theorem int32_tmod {x y : Int} (hx : i32.inRange x = true) (hy : i32.inRange y = true) :
    Constant.int32 (x.tmod y) = sInt ((bv x).srem (bv y)) := by
  rw [srem_i32 hx hy]; rfl
theorem uint32_tdiv {x y : Int} (hx : u32.inRange x = true) (hy : u32.inRange y = true) :
    Constant.uint32 (x.tdiv y) = uInt (bv x / bv y) := by
  rw [udiv_u32 hx hy]; rfl
theorem uint32_tmod {x y : Int} (hx : u32.inRange x = true) (hy : u32.inRange y = true) :
    Constant.uint32 (x.tmod y) = uInt (bv x % bv y) := by
  rw [umod_u32 hx hy]; rfl

theorem binop_Divide {a b r : Constant} (ha : plain a = true) (hb : plain b = true)
    (h : applyOp .Divide [a, b] = .ok r) : S.binop .Divide a b = some r ∧ plain r = true := by
  cases a <;> cases b <;> simp [c13] at h ha hb ⊢
  · rename_i x y
    by_cases hz : y = 0 <;> simp [c13, hz] at h ⊢
    obtain ⟨z, ⟨h1, rfl⟩, rfl⟩ := h; simp [c13, h1]
  · rename_i x y
    by_cases hz : y = 0 <;> simp [c13, hz] at h ⊢
    subst h; simp [c13, int32_tdiv ha hb, bv_eq_zero_i32 hb, hz]
  · rename_i x y
    by_cases hz : y = 0 <;> simp [c13, hz] at h ⊢
    obtain ⟨z, ⟨h1, rfl⟩, rfl⟩ := h
    simp [c13, uint32_tdiv ha hb, bv_eq_zero_u32 hb, hz]
theorem tmod_bounds (x y : Int) :
    (0 ≤ x → 0 ≤ x.tmod y ∧ x.tmod y ≤ x) ∧ (x ≤ 0 → x ≤ x.tmod y ∧ x.tmod y ≤ 0) := by
  have h := Int.natAbs_tmod x y
  have hle : x.natAbs % y.natAbs ≤ x.natAbs := Nat.mod_le _ _
  constructor
  · intro hx; have := Int.tmod_nonneg y hx; omega
  · intro hx
    have h2 : 0 ≤ (-x).tmod y := Int.tmod_nonneg y (by omega)
    rw [Int.neg_tmod] at h2
    omega

theorem inRange_tmod {t : IntTy} {x : Int} (y : Int) (hx : t.inRange x = true) : t.inRange (x.tmod y) = true := by
  have hb := tmod_bounds x y
  simp only [IntTy.inRange, Bool.and_eq_true, decide_eq_true_eq] at hx ⊢
  have p1 : 0 < 2 ^ (t.bits - 1) := Nat.pow_pos (by decide)
  have p2 : 0 < 2 ^ t.bits := Nat.pow_pos (by decide)
  have hlo : t.lo ≤ 0 := by unfold IntTy.lo; split <;> omega
  have hhi : 0 ≤ t.hi := by
    unfold IntTy.hi
    split <;> omega
  by_cases h0 : 0 ≤ x
  · have := hb.1 h0; omega
  · have := hb.2 (by omega); omega

theorem binop_Modulus {a b r : Constant} (ha : plain a = true) (hb : plain b = true)
    (h : applyOp .Modulus [a, b] = .ok r) : S.binop .Modulus a b = some r ∧ plain r = true := by
  cases a <;> cases b <;> simp [c13] at h ha hb ⊢
  · rename_i x y
    by_cases hz : y = 0 <;> simp [c13, hz] at h ⊢
    split at h
    · simp [c13] at h
    · simp [c13] at h; subst h; simp [c13, inRange_tmod y ha]
  · rename_i x y
    by_cases hz : y = 0 <;> simp [c13, hz] at h ⊢
    split at h
    · rename_i hov
      simp [c13] at h; subst h
      obtain ⟨_, rfl, rfl⟩ := hov
      refine ⟨⟨_, ⟨?_, rfl⟩, ?_⟩, ?_⟩
      · rw [bv_eq_zero_i32 hb]; omega
      · rw [← int32_tmod ha hb]; simp [c13]
      · simp [c13, IntTy.inRange, IntTy.lo, IntTy.hi, i32]
    · simp [c13] at h; subst h; simp [c13, int32_tmod ha hb, bv_eq_zero_i32 hb, hz]
  · rename_i x y
    by_cases hz : y = 0 <;> simp [c13, hz] at h ⊢
    split at h
    · rename_i hov; simp [c13, u32] at hov
    · simp [c13] at h; subst h; simp [c13, uint32_tmod ha hb, bv_eq_zero_u32 hb, hz]
end RsslVerif.Lemmas.ConstEval

//! C12 harness (stub until built)
use crate::util::*;

pub fn run(_args: &Args, _out: &mut Out) {
    eprintln!("C12: harness not built yet");
    std::process::exit(2);
}

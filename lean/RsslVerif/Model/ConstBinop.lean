import RsslVerif.Gen.BinopTyping
/-!
# The type both operands of a binary operator are converted to (`parse_expr_binop`, scalar operands)

`typer/src/typer/expressions.rs::parse_expr_binop`, arm of the arithmetic / comparison / bit / logic operators, for operands
that are scalars or enums (modifiers removed): `&&` / `||` convert to `bool`; the bit operators refuse operands that are
not integer-like (`IntegerTypeExpected`); otherwise `most_significant_non_vector` first replaces an enum operand that
meets an operand of another type by the underlying type of its enum (two enum operands stay as they are), then picks the
operand type of higher `get_non_vector_conversion_rank` (the right one on a tie: `left_order > right_order`), and a
`bool` result is replaced ("Remap all bool types to int"). Every table used here is re-extracted from the source: ranks,
`require_integer`, the short-circuit test (`Gen.TypingTables`, property C03's extractor), how an enum operand enters the
rank comparison and the remap rule with the operators it applies to (`Gen.BinopTyping`). The constant folder never sees this decision — the operands reach it already converted — so a wrong
common type is a wrong constant that no evaluator theorem can notice; `Thm.C13.binop_common_type_*` speak about it.
-/
namespace RsslVerif.Model.ConstBinop
open RsslVerif.Gen.RankTable RsslVerif.Gen.TypingTables RsslVerif.Gen.BinopTyping

/-- an operand type as `parse_expr_binop` distinguishes it: a scalar kind or an enum with its underlying type (every enum
    has the same rank *as an enum*; next to an operand that is not an enum it takes part as its underlying `int` / `uint`) -/
inductive OpShape where
  | scalar (s : Scalar)
  | enumInt
  | enumUInt
  deriving DecidableEq, Repr, Inhabited

def OpShape.all : List OpShape :=
  [.scalar .bool, .scalar .intLiteral, .scalar .int32, .scalar .uInt32, .scalar .floatLiteral, .scalar .float16,
   .scalar .float32, .scalar .float64, .enumInt, .enumUInt]

/-- the chosen type: a scalar kind, or the (enum) type of the left / right operand -/
inductive Target where
  | scalar (s : Scalar)
  | left
  | right
  deriving DecidableEq, Repr, Inhabited

/-- `get_non_vector_conversion_rank` -/
def rank : OpShape → Nat
  | .scalar s => nonVectorRank s
  | _ => enumRank

/-- `is_integer_or_bool_or_enum` -/
def isIntegerLike : OpShape → Bool
  | .scalar s => isIntegerScalar s
  | _ => true

def OpShape.isEnum : OpShape → Bool
  | .scalar _ => false
  | _ => true

/-- `enum_registry.get_underlying_type_id` -/
def OpShape.underlying : OpShape → OpShape
  | .enumInt => .scalar .int32
  | .enumUInt => .scalar .uInt32
  | s => s

def enterAs : EnumEntry → OpShape → OpShape
  | .asEnum, s => s
  | .underlying, s => s.underlying

/-- `most_significant_non_vector`, first step: `let (left, right) = match (left_tyl, right_tyl) { .. }` -/
def enter (l r : OpShape) : OpShape × OpShape :=
  match l.isEnum, r.isEnum with
  | true, true => (enterAs twoEnumsEntry l, enterAs twoEnumsEntry r)
  | true, false => (enterAs loneEnumEntry l, r)
  | false, true => (l, enterAs loneEnumEntry r)
  | false, false => (l, r)

/-- `most_significant_non_vector`, after that step: `if left_order > right_order { left } else { right }` -/
def pickEntered (l r : OpShape) : Target :=
  if rank l > rank r then
    (match l with | .scalar s => .scalar s | _ => .left)
  else
    (match r with | .scalar s => .scalar s | _ => .right)

/-- `most_significant_non_vector` -/
def pick (l r : OpShape) : Target :=
  pickEntered (enter l r).1 (enter l r).2

/-- "Remap all bool types to int": `extract_scalar(target) == Some(remapFrom)` (with the conditions of the `if`) -/
def remap (op : BinOp) : Target → Target
  | .scalar s => if s = remapFrom ∧ remapApplies op = true then .scalar remapTo else .scalar s
  | t => t

/-- `target_nv_id` for scalar operands; `none` = the operator is refused (`IntegerTypeExpected`) or is not handled by this arm -/
def commonTy (op : BinOp) (l r : OpShape) : Option Target :=
  if op.cls ≠ .arith then none
  else if op.shortCircuit then some (.scalar .bool)
  else if op.requireInteger ∧ ¬ (isIntegerLike l ∧ isIntegerLike r) then none
  else some (remap op (pick l r))

end RsslVerif.Model.ConstBinop
